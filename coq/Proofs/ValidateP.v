(* Proofs about Model/Validate.v: an own-member violation anywhere in a tree surfaces in validate(recursive=True).
     all_members_reject   (RecAllMembers, the repaired recursion): along ANY members, own or inherited, at any depth
     generated_reject     (RecGenerated, the original recursion): along own members of the most-derived classes only
   and the depth bookkeeping that shows `validate` never runs out of fuel. *)
From Coq Require Import String List ZArith Bool Arith Lia.
From LNML Require Import Lib.Dec Lib.Regex Model.Gds Model.Validate.
Import ListNotations.
Open Scope string_scope.
Open Scope nat_scope.

Lemma flat_map_not_nil {A B} (f : A -> list B) (l : list A) x : In x l -> f x <> [] -> flat_map f l <> [].
Proof.
  induction l as [|a l IH]; simpl; intros Hin Hx; [contradiction|].
  destruct Hin as [->|Hin].
  - destruct (f x); [congruence | discriminate].
  - intro E. apply app_eq_nil in E as [_ E]. exact (IH Hin Hx E).
Qed.

Lemma flat_map_nil {A B} (f : A -> list B) (l : list A) : (forall x, In x l -> f x = []) -> flat_map f l = [].
Proof.
  induction l as [|a l IH]; simpl; intro H; [reflexivity|].
  rewrite (H a (or_introl eq_refl)), IH; [reflexivity | intros; apply H; right; assumption].
Qed.

Lemma app_not_nil_l {A} (a b : list A) : a <> [] -> (a ++ b)%list <> [].
Proof. destruct a; [congruence | discriminate]. Qed.
Lemma app_not_nil_r {A} (a b : list A) : b <> [] -> (a ++ b)%list <> [].
Proof. destruct a; simpl; [auto | discriminate]. Qed.

Section P.
Variable F : Type.
Variable F_eqb : F -> F -> bool.
Variable F_ltb : F -> F -> bool.
Variable F_of_dec : dec -> F.
Variable parse_float : string -> option F.

Notation value := (value F).
Notation obj := (obj F).
Notation validate := (validate F_eqb F_ltb F_of_dec parse_float).
Notation validate_members := (validate_members F_eqb F_ltb F_of_dec parse_float).
Notation validate_gen := (validate_gen F_eqb F_ltb F_of_dec parse_float).
Notation validate_own := (validate_own F_eqb F_ltb F_of_dec parse_float).
Notation local_msgs := (local_msgs F_eqb F_ltb F_of_dec parse_float).
Notation own_msgs := (own_msgs F_eqb F_ltb F_of_dec parse_float).

(* ---------------------------------------------------------------- depth *)
Definition vdepth (v : value) : nat :=
  match v with
  | VObj o' => odepth o'
  | VObjs os => fold_right (fun x acc => Nat.max (odepth x) acc) O os
  | _ => O
  end.

Definition fdepth (fs : list (string * value)) : nat :=
  fold_right (fun nv acc => Nat.max (vdepth (snd nv)) acc) O fs.

Lemma odepth_unfold c fs : odepth (Obj c fs) = S (fdepth fs).
Proof.
  simpl. f_equal. induction fs as [|[n v] fs IH]; simpl; [reflexivity|].
  rewrite IH. reflexivity.
Qed.

Lemma lookup_vdepth m (fs : list (string * value)) v : lookup m fs = Some v -> vdepth v <= fdepth fs.
Proof.
  induction fs as [|[n w] fs IH]; simpl; [discriminate|].
  destruct (String.eqb n m).
  - intro E. inversion E; subst. lia.
  - intro E. specialize (IH E). lia.
Qed.

Lemma kid_depth (v : value) c : In c (kids_of v) -> odepth c <= vdepth v.
Proof.
  destruct v; simpl; try contradiction.
  - intros [->|[]]. lia.
  - induction l as [|x l IH]; simpl; [contradiction|]. intros [->|Hin]; [lia | specialize (IH Hin); lia].
Qed.

Lemma odepth_kid (o : obj) m c : In c (kids_of (field o m)) -> odepth c < odepth o.
Proof.
  destruct o as [cn fs]. unfold field. simpl o_fields. rewrite odepth_unfold.
  destruct (lookup m fs) as [v|] eqn:E; simpl opt_value; [|simpl; contradiction].
  intro Hin. apply kid_depth in Hin. apply lookup_vdepth in E. lia.
Qed.

Lemma odepth_pos (o : obj) : 0 < odepth o.
Proof. destruct o. rewrite odepth_unfold. lia. Qed.

(* ---------------------------------------------------------------- RecAllMembers *)
(* o' is reached from o through members of any class of the MRO (own or inherited), any number of steps *)
Inductive reach_all (V : vtables) : obj -> obj -> Prop :=
| RA_here : forall o, reach_all V o o
| RA_step : forall o k m c o',
    In k (mro V (o_cls F o)) -> In m (v_members k) -> In c (kids_of (field o m)) ->
    reach_all V c o' -> reach_all V o o'.

Lemma validate_members_unfold f V o rec :
  validate_members (S f) V o rec =
  (local_msgs V o ++
   if rec then flat_map (fun k => flat_map (fun m => flat_map (fun c => validate_members f V c true)
                                                              (kids_of (field o m))) (v_members k))
                        (mro V (o_cls F o))
   else [])%list.
Proof. reflexivity. Qed.

Lemma members_reject V root o :
  reach_all V root o -> local_msgs V o <> [] ->
  forall f, odepth root <= f -> validate_members f V root true <> [].
Proof.
  induction 1 as [o|o k m c o' Hk Hm Hc Hr IH]; intros Hloc f Hf.
  - destruct f as [|f]; [pose proof (odepth_pos o); lia|].
    rewrite validate_members_unfold. apply app_not_nil_l. exact Hloc.
  - destruct f as [|f]; [pose proof (odepth_pos o); lia|].
    rewrite validate_members_unfold. apply app_not_nil_r.
    apply (flat_map_not_nil _ _ k Hk). apply (flat_map_not_nil _ _ m Hm). apply (flat_map_not_nil _ _ c Hc).
    apply IH; [exact Hloc|]. pose proof (odepth_kid o m c Hc). lia.
Qed.

Theorem all_members_reject V root o :
  vt_mode V = RecAllMembers -> reach_all V root o -> local_msgs V o <> [] -> validate V root true <> [].
Proof.
  intros Hm Hr Hl. unfold Validate.validate. rewrite Hm. apply (members_reject V root o Hr Hl). lia.
Qed.

(* validate(recursive) of the root alone: all classes of the MRO *)
Lemma members_local V o f rec : local_msgs V o <> [] -> validate_members (S f) V o rec <> [].
Proof. intro H. rewrite validate_members_unfold. apply app_not_nil_l. exact H. Qed.

(* ---------------------------------------------------------------- RecGenerated *)
Definition head_msgs (V : vtables) (o : obj) : list msg :=
  match mro V (o_cls F o) with [] => [] | k :: _ => own_msgs (mro V (o_cls F o)) k o end.

(* below a child, only the recursion list of its most-derived class is followed *)
Inductive reach_own (V : vtables) : obj -> obj -> Prop :=
| RO_here : forall o, reach_own V o o
| RO_step : forall o k rest mr c o',
    mro V (o_cls F o) = k :: rest -> In mr (v_rec k) -> In c (kids_of (field o (fst mr))) ->
    reach_own V c o' -> reach_own V o o'.

Lemma own_reject V c o :
  reach_own V c o -> head_msgs V o <> [] -> forall f, odepth c <= f -> validate_own f V c <> [].
Proof.
  induction 1 as [o|o k rest mr c o' Hk Hm Hc Hr IH]; intros Hloc f Hf.
  - destruct f as [|f]; [pose proof (odepth_pos o); lia|].
    simpl. unfold head_msgs in Hloc. destruct (mro V (o_cls F o)) as [|k rest]; [congruence|].
    apply app_not_nil_l. exact Hloc.
  - destruct f as [|f]; [pose proof (odepth_pos o); lia|].
    simpl. rewrite Hk. apply app_not_nil_r.
    apply (flat_map_not_nil _ _ mr Hm). apply (flat_map_not_nil _ _ c Hc).
    apply IH; [exact Hloc|]. pose proof (odepth_kid o (fst mr) c Hc). lia.
Qed.

(* the original recursion: the root is validated by every class of its MRO, each following its own recursion list;
   what lies below is validated by most-derived classes only *)
Theorem generated_reject V root k mr c o :
  vt_mode V = RecGenerated ->
  In k (mro V (o_cls F root)) -> In mr (v_rec k) -> In c (kids_of (field root (fst mr))) ->
  reach_own V c o -> head_msgs V o <> [] -> validate V root true <> [].
Proof.
  intros Hm Hk Hmr Hc Hr Hl. unfold Validate.validate. rewrite Hm. unfold Validate.validate_gen.
  apply (flat_map_not_nil _ _ k Hk). apply app_not_nil_r.
  apply (flat_map_not_nil _ _ mr Hmr). apply (flat_map_not_nil _ _ c Hc).
  apply (own_reject V c o Hr Hl). pose proof (odepth_kid root (fst mr) c Hc). lia.
Qed.

Lemma flat_map_app_nil {A B} (g h : A -> list B) (l : list A) k :
  flat_map (fun x => (g x ++ h x)%list) l = [] -> In k l -> g k = [].
Proof.
  induction l as [|a l IH]; simpl; intros E Hin; [contradiction|].
  apply app_eq_nil in E as [E1 E2]. destruct Hin as [->|Hin]; [|exact (IH E2 Hin)].
  apply app_eq_nil in E1 as [E1 _]. exact E1.
Qed.

Theorem generated_reject_root V root rec :
  vt_mode V = RecGenerated -> local_msgs V root <> [] -> validate V root rec <> [].
Proof.
  intros Hm Hl. unfold Validate.validate. rewrite Hm. unfold Validate.validate_gen.
  unfold Validate.local_msgs in Hl.
  intro E. apply Hl. apply flat_map_nil. intros k Hk.
  exact (flat_map_app_nil _ _ _ k E Hk).
Qed.

Theorem all_members_reject_root V root rec :
  vt_mode V = RecAllMembers -> local_msgs V root <> [] -> validate V root rec <> [].
Proof.
  intros Hm Hl. unfold Validate.validate. rewrite Hm. apply members_local. exact Hl.
Qed.

(* ---------------------------------------------------------------- the file-level wrapper *)
Theorem is_valid_neuroml2_spec V load file doc :
  load file = Some doc ->
  (is_valid_neuroml2 F_eqb F_ltb F_of_dec parse_float V load file = Some false <-> validate V doc true <> []).
Proof.
  intro Hl. unfold is_valid_neuroml2, raises. rewrite Hl.
  destruct (validate V doc true); simpl; split; intro H; try discriminate; try congruence; reflexivity.
Qed.

End P.
