(* C07 proofs about Model/State.v *)
From Coq Require Import String List Bool ZArith Arith Lia.
From LNML Require Import Model.State.
Import ListNotations.
Open Scope string_scope.

(* ------------------------------------------------------------------------------------------- *)
(* B1. the table obligations                                                                     *)
(* ------------------------------------------------------------------------------------------- *)
Lemma is_nil_true {A} (l : list A) : is_nil l = true -> l = [].
Proof. destruct l; simpl; congruence. Qed.

Lemma forallb_negb_filter {A} (p : A -> bool) (l : list A) :
  forallb (fun x => negb (p x)) l = true -> filter p l = [].
Proof.
  induction l as [|x l IH]; simpl; intro H; auto.
  apply andb_true_iff in H as [H1 H2]. destruct (p x); simpl in H1; try discriminate. auto.
Qed.

Lemma filter_nil_forallb {A} (p : A -> bool) (l : list A) :
  filter p l = [] -> forallb (fun x => negb (p x)) l = true.
Proof.
  induction l as [|x l IH]; simpl; intro H; auto.
  destruct (p x); try discriminate. simpl. auto.
Qed.

Lemma all_own_shared_nil t : all_own t = true <-> shared_fields t = [].
Proof. split; [apply forallb_negb_filter | apply filter_nil_forallb]. Qed.

Lemma state_ok_split t :
  state_ok t = true <->
  mutated_defaults t = [] /\ all_own t = true /\ globals_read t = [] /\ mutated_class_attrs t = [] /\ process_leaks t = []
  /\ argument_writes t = [].
Proof.
  unfold state_ok. split.
  - intro H. apply andb_true_iff in H as [H H6]. apply andb_true_iff in H as [H H5]. apply andb_true_iff in H as [H H4].
    apply andb_true_iff in H as [H H3]. apply andb_true_iff in H as [H1 H2]. repeat split; auto using is_nil_true.
  - intros (H1 & H2 & H3 & H4 & H5 & H6). rewrite H1, H2, H3, H4, H5, H6. reflexivity.
Qed.

Lemma argwrites_ok_spec t :
  argument_writes t = [] <-> forall s, In s (st_argwrites t) -> aw_handler s = false.
Proof.
  unfold argument_writes. split.
  - intros H s Hs. destruct (aw_handler s) eqn:E; auto.
    assert (In s (filter aw_handler (st_argwrites t))) by (apply filter_In; auto). rewrite H in H0. destruct H0.
  - intro H. induction (st_argwrites t) as [|a l IH]; simpl; auto.
    rewrite (H a (or_introl eq_refl)). apply IH. intros s Hs. apply H. right. exact Hs.
Qed.

Lemma process_ok_spec t :
  process_leaks t = [] <->
  forall s, In s (st_process t) -> ps_import_time s = true \/ ps_restored s = true \/ known_proc_site s = true.
Proof.
  unfold process_leaks. split.
  - intros H s Hs. destruct (proc_bad s) eqn:E.
    + assert (In s (filter proc_bad (st_process t))) by (apply filter_In; auto). rewrite H in H0. destruct H0.
    + unfold proc_bad in E. destruct (ps_import_time s), (ps_restored s), (known_proc_site s); simpl in E; auto; discriminate E.
  - intro H. apply forallb_negb_filter. apply forallb_forall. intros s Hs. unfold proc_bad.
    destruct (H s Hs) as [A|[A|A]]; rewrite A; destruct (ps_import_time s), (ps_restored s), (known_proc_site s);
      simpl; auto; discriminate.
Qed.

Lemma classmeta_ok_spec t :
  mutated_class_attrs t = [] <-> forall m, In m (st_classmeta t) -> cm_mutated m = false /\ cm_aliases m = false.
Proof.
  unfold mutated_class_attrs. split.
  - intros H m Hm. destruct (meta_bad m) eqn:E.
    + assert (In m (filter meta_bad (st_classmeta t))) by (apply filter_In; auto). rewrite H in H0. destruct H0.
    + unfold meta_bad in E. apply orb_false_iff in E. exact E.
  - intro H. apply forallb_negb_filter. apply forallb_forall. intros m Hm.
    destruct (H m Hm) as [A B]. unfold meta_bad. rewrite A, B. reflexivity.
Qed.

Lemma modes_of_ok t : mutated_defaults t = [] -> modes_of t = none_modes.
Proof. intro H. unfold modes_of, flagged. rewrite H. reflexivity. Qed.

Lemma placement_of_ok t : all_own t = true -> forall f, placement_of t f = true.
Proof. intros H f. apply all_own_shared_nil in H. unfold placement_of. rewrite H. reflexivity. Qed.

(* what the boolean obligations mean, spelled out *)
Lemma defaults_ok_spec t :
  mutated_defaults t = [] <-> forall d, In d (st_defaults t) -> ds_mutated d = false /\ ds_escapes d = false.
Proof.
  unfold mutated_defaults. split.
  - intros H d Hd. destruct (default_bad d) eqn:E.
    + assert (In d (filter default_bad (st_defaults t))) by (apply filter_In; auto). rewrite H in H0. destruct H0.
    + unfold default_bad in E. apply orb_false_iff in E. exact E.
  - intro H. apply forallb_negb_filter. apply forallb_forall. intros d Hd.
    destruct (H d Hd) as [A B]. unfold default_bad. rewrite A, B. reflexivity.
Qed.

Lemma fields_ok_spec t :
  all_own t = true <-> forall f, In f (st_fields t) -> field_shared f = false.
Proof.
  unfold all_own. rewrite forallb_forall. split; intros H f Hf; specialize (H f Hf).
  - destruct (field_shared f); simpl in H; congruence.
  - rewrite H. reflexivity.
Qed.

(* ------------------------------------------------------------------------------------------- *)
(* B2. history independence from disjoint footprints                                             *)
(* ------------------------------------------------------------------------------------------- *)
Section HistoryP.
  Variables C V call res : Type.
  Variable sem : call -> gworld C V -> res * gworld C V.
  Variables Rd Wr : call -> list C.

  Hypothesis Hreads : reads_only C V call res sem Rd Wr.
  Hypothesis Hwrites : writes_only C V call res sem Wr.
  Hypothesis Hni : no_interference C call Rd Wr.

  Lemma step_agree x y w : agree C V (Rd x) (snd (sem y w)) w.
  Proof. intros c Hc. apply Hwrites. intro Hin. exact (Hni y x c Hin Hc). Qed.

  Lemma run_agree : forall hist x w0, agree C V (Rd x) (run C V call res sem hist w0) w0.
  Proof.
    induction hist as [|y h IH]; intros x w0 c Hc; simpl.
    - reflexivity.
    - rewrite (IH x _ c Hc). exact (step_agree x y w0 c Hc).
  Qed.

  Theorem history_independent :
    forall hist x w0, fst (sem x (run C V call res sem hist w0)) = fst (sem x w0).
  Proof. intros hist x w0. exact (proj1 (Hreads x _ _ (run_agree hist x w0))). Qed.

  (* every call of every history returns what it returns when it is the only call *)
  (* state that nobody writes is a constant of the world: reading it keeps the no-interference premise
     (this is how class metadata such as member_data_items_ enters: cells in no write footprint) *)
  Lemma constants_keep_no_interference (Kc : list C) :
    (forall x c, In c Kc -> ~ In c (Wr x)) ->
    no_interference C call (fun x => (Rd x ++ Kc)%list) Wr.
  Proof.
    intros HK x y c Hw Hr. apply in_app_or in Hr as [Hr|Hr].
    - exact (Hni x y c Hw Hr).
    - exact (HK x c Hr Hw).
  Qed.

  Corollary results_independent :
    forall hist w0, results C V call res sem hist w0 = map (fun x => fst (sem x w0)) hist.
  Proof.
    induction hist as [|y h IH]; intro w0; simpl; auto.
    f_equal. rewrite IH. apply map_ext. intro x.
    exact (proj1 (Hreads x _ _ (step_agree x y w0))).
  Qed.
End HistoryP.

(* history independence when the cells that are both read and written are RESTORED by every call (process state such as the
   working directory, when every change is undone on every path): such cells behave as constants along any history *)
Section HistoryRestored.
  Variables C V call res : Type.
  Variable sem : call -> gworld C V -> res * gworld C V.
  Variables Rd Wr : call -> list C.
  Hypothesis Hreads : reads_only C V call res sem Rd Wr.
  Hypothesis Hwrites : writes_only C V call res sem Wr.
  Hypothesis Hstable : stable_reads C V call res sem Rd Wr.

  Lemma step_agree_r x y w : agree C V (Rd x) (snd (sem y w)) w.
  Proof.
    intros c Hc. destruct (Hstable x y c Hc) as [N|R].
    - apply Hwrites. exact N.
    - apply R.
  Qed.

  Lemma run_agree_r : forall hist x w0, agree C V (Rd x) (run C V call res sem hist w0) w0.
  Proof.
    induction hist as [|y h IH]; intros x w0 c Hc; simpl.
    - reflexivity.
    - rewrite (IH x _ c Hc). exact (step_agree_r x y w0 c Hc).
  Qed.

  Theorem history_independent_restored :
    forall hist x w0, fst (sem x (run C V call res sem hist w0)) = fst (sem x w0).
  Proof. intros hist x w0. exact (proj1 (Hreads x _ _ (run_agree_r hist x w0))). Qed.

  (* a restored cell keeps its initial value along every history *)
  Lemma restored_cell_constant c : restores C V call res sem c ->
    forall hist w0, run C V call res sem hist w0 c = w0 c.
  Proof.
    intro R. induction hist as [|y h IH]; intro w0; simpl; auto. rewrite IH. apply R.
  Qed.
End HistoryRestored.

Lemma no_interference_stable C V call res sem Rd Wr :
  no_interference C call Rd Wr -> stable_reads C V call res sem Rd Wr.
Proof. intros H x y c Hc. left. intro Hw. exact (H y x c Hw Hc). Qed.

(* non-vacuity: call true saves cell 0, overwrites it, restores it, and returns cell 0 + cell 1; call false writes cell 1.
   cell 0 is read and written (so no_interference fails) but restored *)
Definition exr_sem (x : bool) (w : gworld nat nat) : nat * gworld nat nat :=
  if x then (w 0 + w 2, fun c => if Nat.eqb c 0 then w 0 else w c) else (w 0, fun c => if Nat.eqb c 1 then w 0 else w c).

Example history_restored_example :
  forall hist x w0, fst (exr_sem x (run nat nat bool nat exr_sem hist w0)) = fst (exr_sem x w0).
Proof.
  apply (history_independent_restored nat nat bool nat exr_sem (fun x => if x then [0; 2] else [0]) (fun x => if x then [0] else [1])).
  - intros x w1 w2 H. destruct x; simpl in *.
    + assert (E0 : w1 0 = w2 0) by (apply H; simpl; auto). assert (E2 : w1 2 = w2 2) by (apply H; simpl; auto).
      split; [rewrite E0, E2; reflexivity|]. intros c [<-|[]]. simpl. exact E0.
    + assert (E0 : w1 0 = w2 0) by (apply H; simpl; auto). split; [exact E0|]. intros c [<-|[]]. simpl. exact E0.
  - intros x w c H. destruct x; simpl in *.
    + destruct (Nat.eqb c 0) eqn:E; auto. apply Nat.eqb_eq in E. subst. reflexivity.
    + destruct (Nat.eqb c 1) eqn:E; auto. apply Nat.eqb_eq in E. subst. exfalso. apply H. left. reflexivity.
  - intros x y c Hc. destruct x, y; simpl in *.
    + destruct Hc as [<-|[<-|[]]]; [right|left; intros [E|[]]; discriminate E].
      intros x w. destruct x; simpl; reflexivity.
    + destruct Hc as [<-|[<-|[]]]; left; intros [E|[]]; discriminate E.
    + destruct Hc as [<-|[]]. right. intros x w. destruct x; simpl; reflexivity.
    + destruct Hc as [<-|[]]. left. intros [E|[]]. discriminate E.
Qed.

(* a keyed memo whose values are a function of the key (and of constants) is transparent: every history of lookups
   returns f on each key, whatever was looked up before, and the table stays consistent *)
Section MemoP.
  Variables K V : Type.
  Variable keqb : K -> K -> bool.
  Variable f : K -> V.
  Hypothesis keqb_eq : forall a b, keqb a b = true -> a = b.

  Lemma mget_result m k : mconsistent K V keqb f m -> fst (mget K V keqb f m k) = f k.
  Proof. intro H. unfold mget. destruct (mlookup K V keqb m k) eqn:E; simpl; auto. Qed.

  Lemma mget_consistent m k : mconsistent K V keqb f m -> mconsistent K V keqb f (snd (mget K V keqb f m k)).
  Proof.
    intro H. unfold mget. destruct (mlookup K V keqb m k) eqn:E; simpl; auto.
    intros k' v. simpl. destruct (keqb k k') eqn:Q.
    - intro S. inversion S. apply keqb_eq in Q. subst. reflexivity.
    - apply H.
  Qed.

  Theorem memo_transparent : forall ks m, mconsistent K V keqb f m ->
    fst (mrun K V keqb f ks m) = map f ks /\ mconsistent K V keqb f (snd (mrun K V keqb f ks m)).
  Proof.
    induction ks as [|k r IH]; intros m H; simpl; auto.
    pose proof (mget_result m k H) as R. pose proof (mget_consistent m k H) as Cn.
    destruct (mget K V keqb f m k) as [v m1]. simpl in *.
    destruct (IH m1 Cn) as [A B]. destruct (mrun K V keqb f r m1) as [vs m2]. simpl in *. subst. auto.
  Qed.

  Corollary memo_from_empty ks : fst (mrun K V keqb f ks []) = map f ks.
  Proof. apply memo_transparent. intros k v E. discriminate E. Qed.
End MemoP.

Example memo_example :
  fst (mrun string nat String.eqb String.length ["ab"; "c"; "ab"; "abc"; "c"] []) = [2; 1; 2; 3; 1].
Proof. vm_compute. reflexivity. Qed.

(* non-vacuity: a semantics with non-trivial, non-interfering footprints.
   cells are naturals; call true reads cell 0 and writes cell 1; call false reads cells 0,2 and writes cell 3 *)
Definition ex_upd (w : gworld nat nat) (c v : nat) : gworld nat nat := fun c' => if Nat.eqb c c' then v else w c'.
Definition ex_sem (x : bool) (w : gworld nat nat) : nat * gworld nat nat :=
  if x then (w 0, ex_upd w 1 (w 0 + 1)) else (w 0 + w 2, ex_upd w 3 (w 2)).
Definition ex_R (x : bool) : list nat := if x then [0] else [0; 2].
Definition ex_W (x : bool) : list nat := if x then [1] else [3].

Example history_example :
  forall hist x w0, fst (ex_sem x (run nat nat bool nat ex_sem hist w0)) = fst (ex_sem x w0).
Proof.
  apply (history_independent nat nat bool nat ex_sem ex_R ex_W).
  - intros x w1 w2 H. destruct x; unfold ex_sem, ex_R, ex_W in *; simpl.
    + assert (E : w1 0 = w2 0) by (apply H; simpl; auto). split; [exact E|].
      intros c [<-|[]]. unfold ex_upd. simpl. rewrite E. reflexivity.
    + assert (E0 : w1 0 = w2 0) by (apply H; simpl; auto).
      assert (E2 : w1 2 = w2 2) by (apply H; simpl; auto). split; [rewrite E0, E2; reflexivity|].
      intros c [<-|[]]. unfold ex_upd. simpl. exact E2.
  - intros x w c H. destruct x; unfold ex_sem, ex_W in *; simpl in *; unfold ex_upd.
    + destruct (Nat.eqb 1 c) eqn:E; auto. apply Nat.eqb_eq in E. tauto.
    + destruct (Nat.eqb 3 c) eqn:E; auto. apply Nat.eqb_eq in E. tauto.
  - intros x y c Hx Hy. destruct x, y; simpl in *; lia.
Qed.

(* ------------------------------------------------------------------------------------------- *)
(* B3. the loaders                                                                               *)
(* ------------------------------------------------------------------------------------------- *)
Lemma cell_eqb_eq a b : cell_eqb a b = true -> a = b.
Proof. destruct a, b; simpl; congruence. Qed.

Section Loaders.
  Variable ms : modes.
  Variable sh : lshape.
  Variable fs : fstore.

  Definition shared (c : cell) : Prop := mode_of ms c = DSharedList.
  Definition wagree (w1 w2 : lworld) : Prop := forall c, shared c -> w1 c = w2 c.
  Definition ref_ok (r : aref) : Prop := match r with ALocal => True | AWorld c => shared c end.

  (* two runs from worlds that agree on the shared default objects: same result, same local list,
     worlds still agree, and the cells that are not shared defaults are untouched *)
  Definition out_rel (w1 w2 : lworld) (o1 o2 : out) : Prop :=
    fst (fst o1) = fst (fst o2) /\ snd (fst o1) = snd (fst o2) /\ wagree (snd o1) (snd o2) /\
    (forall c, mode_of ms c = DNone -> snd o1 c = w1 c /\ snd o2 c = w2 c).

  Definition good (rd : reader) : Prop :=
    forall src incl r loc w1 w2, ref_ok r -> wagree w1 w2 -> out_rel w1 w2 (rd src incl r loc w1) (rd src incl r loc w2).

  Lemma out_rel_same a loc w1 w2 : wagree w1 w2 -> out_rel w1 w2 (a, loc, w1) (a, loc, w2).
  Proof. intro H. unfold out_rel; simpl. repeat split; auto. Qed.

  Lemma out_rel_trans w1 w2 w1' w2' o1 o2 :
    (forall c, mode_of ms c = DNone -> w1' c = w1 c /\ w2' c = w2 c) ->
    out_rel w1' w2' o1 o2 -> out_rel w1 w2 o1 o2.
  Proof.
    intros Hf (A & B & Cc & D). unfold out_rel. repeat split; auto;
      destruct (D c H) as [D1 D2]; destruct (Hf c H) as [F1 F2]; congruence.
  Qed.

  (* continue after an intermediate result (a1,l,x1)/(a2,l,x2) that is itself related *)
  Lemma out_rel_step w1 w2 (o1 o2 : out) (k : res -> list string -> lworld -> out) :
    out_rel w1 w2 o1 o2 ->
    (forall a l x1 x2, wagree x1 x2 -> out_rel x1 x2 (k a l x1) (k a l x2)) ->
    out_rel w1 w2 (k (fst (fst o1)) (snd (fst o1)) (snd o1)) (k (fst (fst o2)) (snd (fst o2)) (snd o2)).
  Proof.
    intros (A & B & Cc & D) K. rewrite A, B. eapply out_rel_trans; [exact D|]. apply K. exact Cc.
  Qed.

  Lemma aget_agree r loc w1 w2 : ref_ok r -> wagree w1 w2 -> aget r loc w1 = aget r loc w2.
  Proof. destruct r; simpl; auto. Qed.

  Lemma aapp_rel r i loc w1 w2 :
    ref_ok r -> wagree w1 w2 ->
    out_rel w1 w2 (ROk [], fst (aapp r i loc w1), snd (aapp r i loc w1)) (ROk [], fst (aapp r i loc w2), snd (aapp r i loc w2)).
  Proof.
    intros Hr Hw. unfold out_rel. destruct r as [|c0]; simpl; repeat split; auto.
    - intros c Hc. unfold wupd. destruct (cell_eqb c0 c); auto. rewrite (Hw c0 Hr). reflexivity.
    - unfold wupd. destruct (cell_eqb c0 c) eqn:E; auto. apply cell_eqb_eq in E. subst.
      simpl in Hr. unfold shared in Hr. congruence.
    - unfold wupd. destruct (cell_eqb c0 c) eqn:E; auto. apply cell_eqb_eq in E. subst.
      simpl in Hr. unfold shared in Hr. congruence.
  Qed.

  Lemma good_load_h5 rd : good rd ->
    forall p r loc w1 w2, ref_ok r -> wagree w1 w2 ->
      out_rel w1 w2 (load_h5_with rd ms sh fs p r loc w1) (load_h5_with rd ms sh fs p r loc w2).
  Proof.
    intros G p r loc w1 w2 Hr Hw. unfold load_h5_with.
    destruct (lookup_file fs p) as [f|]; [|apply out_rel_same; auto].
    destruct (f_kind f); [apply out_rel_same; auto|].
    destruct (sh_h5_threads sh).
    - pose proof (G (SEmb p) true r loc w1 w2 Hr Hw) as (A & B & Cc & D).
      destruct (rd (SEmb p) true r loc w1) as [[a1 l1] x1].
      destruct (rd (SEmb p) true r loc w2) as [[a2 l2] x2]. simpl in *. subst.
      destruct a2; unfold out_rel; simpl; repeat split; auto; apply D; auto.
    - destruct (m_string ms) eqn:M.
      + pose proof (G (SEmb p) true ALocal [] w1 w2 I Hw) as (A & B & Cc & D).
        destruct (rd (SEmb p) true ALocal [] w1) as [[a1 l1] x1].
        destruct (rd (SEmb p) true ALocal [] w2) as [[a2 l2] x2]. simpl in *. subst.
        destruct a2; unfold out_rel; simpl; repeat split; auto; apply D; auto.
      + assert (S : ref_ok (AWorld CellString)) by exact M.
        pose proof (G (SEmb p) true (AWorld CellString) loc w1 w2 S Hw) as (A & B & Cc & D).
        destruct (rd (SEmb p) true (AWorld CellString) loc w1) as [[a1 l1] x1].
        destruct (rd (SEmb p) true (AWorld CellString) loc w2) as [[a2 l2] x2]. simpl in *. subst.
        destruct a2; unfold out_rel; simpl; repeat split; auto; apply D; auto.
  Qed.

  Lemma good_load_top rd : good rd ->
    forall src r loc w1 w2, ref_ok r -> wagree w1 w2 ->
      fst (load_top rd ms sh fs src r loc w1) = fst (load_top rd ms sh fs src r loc w2) /\
      out_rel w1 w2 (snd (load_top rd ms sh fs src r loc w1)) (snd (load_top rd ms sh fs src r loc w2)).
  Proof.
    intros G src r loc w1 w2 Hr Hw.
    assert (OF : forall name k,
      fst (of_file fs name k loc w1) = fst (of_file fs name k loc w2) /\
      out_rel w1 w2 (snd (of_file fs name k loc w1)) (snd (of_file fs name k loc w2))).
    { intros name k. unfold of_file. destruct (lookup_file fs name) as [f|]; [destruct (f_kind f), k|]; simpl;
        split; auto; apply out_rel_same; auto. }
    unfold load_top. destruct src as [p|name|p]; try apply OF.
    destruct (ends_with ".h5" p || ends_with ".hdf5" p); [|apply OF].
    pose proof (good_load_h5 rd G p r loc w1 w2 Hr Hw) as (A & B & Cc & D).
    destruct (load_h5_with rd ms sh fs p r loc w1) as [[a1 l1] x1].
    destruct (load_h5_with rd ms sh fs p r loc w2) as [[a2 l2] x2]. simpl in *. subst.
    destruct a2; simpl; split; auto; unfold out_rel; simpl; repeat split; auto; apply D; auto.
  Qed.

  Lemma good_follow rd : good rd ->
    forall r i h5 loc w1 w2, ref_ok r -> wagree w1 w2 ->
      out_rel w1 w2 (follow rd ms sh fs r i h5 loc w1) (follow rd ms sh fs r i h5 loc w2).
  Proof.
    intros G r i h5 loc w1 w2 Hr Hw. unfold follow. destruct h5.
    - apply good_load_h5; auto.
    - destruct (lookup_file fs i); [apply G; auto|apply out_rel_same; auto].
  Qed.

  Lemma good_inc_loop rd : good rd ->
    forall r, ref_ok r ->
    forall incs doc loc w1 w2, wagree w1 w2 ->
      out_rel w1 w2 (inc_loop rd ms sh fs r incs doc loc w1) (inc_loop rd ms sh fs r incs doc loc w2).
  Proof.
    intros G r Hr. induction incs as [|i rest IH]; intros doc loc w1 w2 Hw; simpl.
    - apply out_rel_same; auto.
    - rewrite (aget_agree r loc w1 w2 Hr Hw).
      destruct (mem i (aget r loc w2)); [apply IH; auto|].
      set (xml := ends_with ".nml" i || ends_with ".xml" i).
      destruct (xml || ends_with ".nml.h5" i); [|apply out_rel_same; auto].
      destruct (sh_append_first sh).
      + (* append, then follow, then continue *)
        pose proof (aapp_rel r i loc w1 w2 Hr Hw) as AP.
        apply (out_rel_step w1 w2 _ _
                 (fun _ l x =>
                    match follow rd ms sh fs r i (negb xml) l x with
                    | (ROk sub, loc2, w2') => inc_loop rd ms sh fs r rest (add_all sub doc) loc2 w2'
                    | (e, loc2, w2') => (e, loc2, w2')
                    end) AP).
        intros _ l x1 x2 Hx.
        pose proof (good_follow rd G r i (negb xml) l x1 x2 Hr Hx) as (A & B & Cc & D).
        destruct (follow rd ms sh fs r i (negb xml) l x1) as [[a1 l1] y1].
        destruct (follow rd ms sh fs r i (negb xml) l x2) as [[a2 l2] y2]. simpl in *. subst.
        destruct a2; try (unfold out_rel; simpl; repeat split; auto; apply D; auto).
        eapply out_rel_trans; [exact D|]. apply IH. exact Cc.
      + (* follow, then append, then continue *)
        pose proof (good_follow rd G r i (negb xml) loc w1 w2 Hr Hw) as (A & B & Cc & D).
        destruct (follow rd ms sh fs r i (negb xml) loc w1) as [[a1 l1] y1].
        destruct (follow rd ms sh fs r i (negb xml) loc w2) as [[a2 l2] y2]. simpl in *. subst.
        destruct a2; try (unfold out_rel; simpl; repeat split; auto; apply D; auto).
        eapply out_rel_trans; [exact D|].
        pose proof (aapp_rel r i l2 y1 y2 Hr Cc) as AP.
        apply (out_rel_step y1 y2 _ _ (fun _ l x => inc_loop rd ms sh fs r rest (add_all items doc) l x) AP).
        intros _ l x1 x2 Hx. apply IH. exact Hx.
  Qed.

  Lemma good_read2 : forall fuel, good (read2 fuel ms sh fs).
  Proof.
    induction fuel as [|n IH]; intros src incl r loc w1 w2 Hr Hw; simpl.
    - apply out_rel_same; auto.
    - assert (M : (match src with SPath p => sh_mark_entry sh && negb (mem p (aget r loc w1)) | _ => false end)
                  = (match src with SPath p => sh_mark_entry sh && negb (mem p (aget r loc w2)) | _ => false end)).
      { destruct src; auto. rewrite (aget_agree r loc w1 w2 Hr Hw). reflexivity. }
      rewrite M. clear M.
      set (mark := match src with SPath p => sh_mark_entry sh && negb (mem p (aget r loc w2)) | _ => false end).
      set (p0 := match src with SPath p => p | _ => "" end).
      set (K := fun (_ : res) (l : list string) (x : lworld) =>
                  match load_top (read2 n ms sh fs) ms sh fs src r l x with
                  | (None, o) => o
                  | (Some (incs, items), (_, loc1, x1)) =>
                    if incl then inc_loop (read2 n ms sh fs) ms sh fs r incs items loc1 x1 else (ROk items, loc1, x1)
                  end).
      assert (KK : forall a l x1 x2, wagree x1 x2 -> out_rel x1 x2 (K a l x1) (K a l x2)).
      { intros a l x1 x2 Hx. unfold K.
        destruct (good_load_top _ IH src r l x1 x2 Hr Hx) as (A & B).
        destruct (load_top (read2 n ms sh fs) ms sh fs src r l x1) as [o1 [[a1 l1] y1]].
        destruct (load_top (read2 n ms sh fs) ms sh fs src r l x2) as [o2 [[a2 l2] y2]]. simpl in A. subst o2.
        destruct o1 as [[incs items]|]; [|exact B].
        destruct B as (B1 & B2 & B3 & B4). simpl in *. subst.
        destruct incl.
        - eapply out_rel_trans; [exact B4|]. apply good_inc_loop; auto.
        - unfold out_rel; simpl; repeat split; auto; apply B4; auto. }
      destruct mark.
      + exact (out_rel_step w1 w2 _ _ K (aapp_rel r p0 loc w1 w2 Hr Hw) KK).
      + exact (KK RErr loc w1 w2 Hw).
  Qed.

  Lemma start_ref_ok c ai : ref_ok (fst (start_ref (mode_of ms c) c ai)).
  Proof.
    unfold start_ref. destruct ai; simpl; auto. unfold default_ref.
    destruct (mode_of ms c) eqn:E; simpl; auto.
  Qed.

  (* the entry points: result and final world *)
  Lemma exec_call_rel fuel x w1 w2 : wagree w1 w2 ->
    fst (exec_call fuel ms sh fs x w1) = fst (exec_call fuel ms sh fs x w2) /\
    wagree (snd (exec_call fuel ms sh fs x w1)) (snd (exec_call fuel ms sh fs x w2)) /\
    (forall c, mode_of ms c = DNone ->
       snd (exec_call fuel ms sh fs x w1) c = w1 c /\ snd (exec_call fuel ms sh fs x w2) c = w2 c).
  Proof.
    intro Hw.
    destruct x as [p incl ai|name incl ai|src incl ai|p|p]; simpl.
    - pose proof (start_ref_ok CellFile ai) as Hr. change (mode_of ms CellFile) with (m_file ms) in Hr.
      destruct (start_ref (m_file ms) CellFile ai) as [r loc]. simpl in Hr.
      destruct (lookup_file fs p); [|simpl; repeat split; auto].
      pose proof (good_read2 fuel (SPath p) incl r loc w1 w2 Hr Hw) as (A & B & Cc & D).
      destruct (read2 fuel ms sh fs (SPath p) incl r loc w1) as [[a1 l1] x1].
      destruct (read2 fuel ms sh fs (SPath p) incl r loc w2) as [[a2 l2] x2]. simpl in *. repeat split; auto; apply D; auto.
    - pose proof (start_ref_ok CellString ai) as Hr. change (mode_of ms CellString) with (m_string ms) in Hr.
      destruct (start_ref (m_string ms) CellString ai) as [r loc]. simpl in Hr.
      pose proof (good_read2 fuel (SStr name) incl r loc w1 w2 Hr Hw) as (A & B & Cc & D).
      destruct (read2 fuel ms sh fs (SStr name) incl r loc w1) as [[a1 l1] x1].
      destruct (read2 fuel ms sh fs (SStr name) incl r loc w2) as [[a2 l2] x2]. simpl in *. repeat split; auto; apply D; auto.
    - pose proof (start_ref_ok CellInner ai) as Hr. change (mode_of ms CellInner) with (m_inner ms) in Hr.
      destruct (start_ref (m_inner ms) CellInner ai) as [r loc]. simpl in Hr.
      pose proof (good_read2 fuel src incl r loc w1 w2 Hr Hw) as (A & B & Cc & D).
      destruct (read2 fuel ms sh fs src incl r loc w1) as [[a1 l1] x1].
      destruct (read2 fuel ms sh fs src incl r loc w2) as [[a2 l2] x2]. simpl in *. repeat split; auto; apply D; auto.
    - assert (Hr : ref_ok (default_ref (m_h5 ms) CellH5)) by exact (start_ref_ok CellH5 None).
      pose proof (good_load_h5 _ (good_read2 fuel) p (default_ref (m_h5 ms) CellH5) [] w1 w2 Hr Hw) as (A & B & Cc & D).
      destruct (load_h5_with (read2 fuel ms sh fs) ms sh fs p (default_ref (m_h5 ms) CellH5) [] w1) as [[a1 l1] x1].
      destruct (load_h5_with (read2 fuel ms sh fs) ms sh fs p (default_ref (m_h5 ms) CellH5) [] w2) as [[a2 l2] x2].
      simpl in *. repeat split; auto; apply D; auto.
    - destruct (lookup_file fs p) as [f|]; [destruct (f_kind f)|]; simpl; repeat split; auto.
  Qed.

  Lemma in_shared_cells c : In c (shared_cells ms) <-> shared c.
  Proof.
    unfold shared_cells, shared. rewrite filter_In. split.
    - intros [_ H]. destruct (mode_of ms c); congruence.
    - intro H. split; [destruct c; simpl; auto|]. rewrite H. reflexivity.
  Qed.

  Lemma agree_wagree w1 w2 : agree cell (list string) (shared_cells ms) w1 w2 <-> wagree w1 w2.
  Proof. unfold agree, wagree. split; intros H c Hc; apply H; apply in_shared_cells; auto. Qed.

  (* the tie of B2 and B3: with the footprints "the shared default objects" the concrete loader semantics
     satisfies the two footprint conditions, for every layout of the defaults and every shape of the loop *)
  Theorem loaders_reads_only fuel :
    reads_only cell (list string) lcall res (exec_call fuel ms sh fs) (fun _ => shared_cells ms) (fun _ => shared_cells ms).
  Proof.
    intros x w1 w2 H. apply agree_wagree in H. destruct (exec_call_rel fuel x w1 w2 H) as (A & B & _).
    split; auto. apply agree_wagree. exact B.
  Qed.

  Theorem loaders_writes_only fuel :
    writes_only cell (list string) lcall res (exec_call fuel ms sh fs) (fun _ => shared_cells ms).
  Proof.
    intros x w c Hc.
    assert (M : mode_of ms c = DNone).
    { destruct (mode_of ms c) eqn:E; auto. exfalso. apply Hc. apply in_shared_cells. exact E. }
    assert (R : wagree w w) by (intros ? ?; reflexivity).
    destruct (exec_call_rel fuel x w w R) as (_ & _ & D). apply D; auto.
  Qed.

  (* no shared default object -> no history dependence, for histories of any length *)
  Theorem loads_history_independent :
    shared_cells ms = [] ->
    forall fuel hist x w0,
      fst (exec_call fuel ms sh fs x (run_hist fuel ms sh fs hist w0)) = fst (exec_call fuel ms sh fs x w0).
  Proof.
    intros Hs fuel hist x w0. unfold run_hist.
    apply (history_independent cell (list string) lcall res (exec_call fuel ms sh fs)
             (fun _ => shared_cells ms) (fun _ => shared_cells ms)).
    - apply loaders_reads_only.
    - apply loaders_writes_only.
    - intros a b c Hc. rewrite Hs in Hc. destruct Hc.
  Qed.

  Theorem loads_results_independent :
    shared_cells ms = [] ->
    forall fuel hist w0,
      results cell (list string) lcall res (exec_call fuel ms sh fs) hist w0
      = map (fun x => fst (exec_call fuel ms sh fs x w0)) hist.
  Proof.
    intros Hs fuel hist w0.
    apply (results_independent cell (list string) lcall res (exec_call fuel ms sh fs)
             (fun _ => shared_cells ms) (fun _ => shared_cells ms)).
    - apply loaders_reads_only.
    - apply loaders_writes_only.
    - intros a b c Hc. rewrite Hs in Hc. destruct Hc.
  Qed.
End Loaders.

Theorem C07_history_none :
  forall sh fuel fs hist x w0,
    fst (exec_call fuel none_modes sh fs x (run_hist fuel none_modes sh fs hist w0)) = fst (exec_call fuel none_modes sh fs x w0).
Proof. intros. apply loads_history_independent. reflexivity. Qed.

(* stated over a generated table *)
Theorem loads_history_of_table t :
  mutated_defaults t = [] ->
  forall sh fuel fs hist x w0,
    fst (exec_call fuel (modes_of t) sh fs x (run_hist fuel (modes_of t) sh fs hist w0))
    = fst (exec_call fuel (modes_of t) sh fs x w0).
Proof. intro H. rewrite (modes_of_ok t H). apply C07_history_none. Qed.

(* the shared default of read_neuroml2_string is observable: the concrete witness seen on the real code *)
Definition wit_fs : fstore :=
  [("/d/cell.nml", {| f_kind := FXml; f_includes := []; f_items := ["iaf_cells:iaf0"]; f_net := [] |});
   ("/d/main.nml", {| f_kind := FXml; f_includes := ["/d/cell.nml"]; f_items := ["pulse_generators:pg0"]; f_net := [] |})].
Definition wit_call : lcall := CString "/d/main.nml" true None.

Theorem C07_history_shared_refuted :
  forall mf mi mh me af ht,
  let ms := {| m_file := mf; m_string := DSharedList; m_inner := mi; m_h5 := mh |} in
  let sh := {| sh_mark_entry := me; sh_append_first := af; sh_h5_threads := ht |} in
  exists fs hist x,
    fst (exec_call 10 ms sh fs x (run_hist 10 ms sh fs hist w_empty)) <> fst (exec_call 10 ms sh fs x w_empty)
    /\ fst (exec_call 10 ms sh fs x w_empty) <> RFuel.
Proof.
  intros mf mi mh me af ht ms sh. exists wit_fs, [wit_call], wit_call.
  destruct mf, mi, mh, me, af, ht; vm_compute; split; discriminate.
Qed.

(* the same through the HDF5 loader: the embedded XML is read with the shared default *)
Definition wit_fs_h5 : fstore :=
  [("/d/cell.nml", {| f_kind := FXml; f_includes := []; f_items := ["iaf_cells:iaf0"]; f_net := [] |});
   ("/d/net.nml.h5", {| f_kind := FH5; f_includes := ["/d/cell.nml"]; f_items := ["pulse_generators:pg0"];
                        f_net := ["networks:net0"] |})].

Theorem C07_history_shared_refuted_h5 :
  let ms := {| m_file := DNone; m_string := DSharedList; m_inner := DSharedList; m_h5 := DNone |} in
  fst (exec_call 10 ms shape0 wit_fs_h5 (CLoadH5 "/d/net.nml.h5") (run_hist 10 ms shape0 wit_fs_h5 [CLoadH5 "/d/net.nml.h5"] w_empty))
  <> fst (exec_call 10 ms shape0 wit_fs_h5 (CLoadH5 "/d/net.nml.h5") w_empty).
Proof. vm_compute. discriminate. Qed.

Example loads_example :
  fst (exec_call 10 none_modes shape0 wit_fs wit_call (run_hist 10 none_modes shape0 wit_fs [wit_call; wit_call] w_empty))
  = ROk ["pulse_generators:pg0"; "iaf_cells:iaf0"].
Proof. vm_compute. reflexivity. Qed.

(* ------------------------------------------------------------------------------------------- *)
(* B4. interleaving                                                                              *)
(* ------------------------------------------------------------------------------------------- *)
Section InterleaveP.
  Variables F V : Type.
  Variable pl : F -> bool.
  Hypothesis all_own_pl : forall f, pl f = true.

  Notation view := (view F V pl).
  Notation step := (step F V pl).
  Notation run_sched := (run_sched F V pl).
  Notation run_solo := (run_solo F V).
  Notation proj := (proj F V).
  Notation hext := (hext F V).

  Lemma view_step_same w h s f : view w (step w h s) f = h (view w s) f.
  Proof. unfold State.view, State.step. simpl. rewrite all_own_pl. destruct w; simpl; rewrite all_own_pl; reflexivity. Qed.

  Lemma view_step_other w w' h s f : w <> w' -> view w' (step w h s) f = view w' s f.
  Proof.
    intro N. unfold State.view, State.step. simpl. rewrite all_own_pl.
    destruct w, w'; simpl; try congruence; reflexivity.
  Qed.

  Lemma run_solo_ext hs : Forall hext hs ->
    forall v1 v2, (forall f, v1 f = v2 f) -> forall f, run_solo hs v1 f = run_solo hs v2 f.
  Proof.
    induction 1 as [|h t Hh Ht IH]; intros v1 v2 E f; simpl; [apply E|].
    apply IH. intro g. apply Hh. exact E.
  Qed.

  Lemma proj_ext w sched : Forall hext (map snd sched) -> Forall hext (proj w sched).
  Proof.
    unfold State.proj. induction sched as [|[w' h] r IH]; simpl; intro H; auto.
    inversion H; subst. destruct (who_eqb w' w); simpl; auto.
  Qed.

  (* frame theorem: with every field Own, what a builder sees after ANY schedule is what it sees after
     running its own calls alone *)
  Theorem interleave_view :
    forall sched, Forall hext (map snd sched) ->
    forall w s f, view w (run_sched sched s) f = run_solo (proj w sched) (view w s) f.
  Proof.
    induction sched as [|[w' h] r IH]; intros Hx w s f; simpl.
    - reflexivity.
    - inversion Hx as [|? ? Hh Hr]; subst. rewrite (IH Hr).
      unfold State.proj. simpl. destruct (who_eqb w' w) eqn:E; simpl.
      + assert (w' = w) by (destruct w', w; simpl in E; congruence). subst.
        apply run_solo_ext; [apply proj_ext; exact Hr|]. intro g. apply view_step_same.
      + assert (w' <> w) by (destruct w', w; simpl in E; congruence).
        apply run_solo_ext; [apply proj_ext; exact Hr|]. intro g. apply view_step_other; auto.
  Qed.
End InterleaveP.

(* a store that both builders share but that no handler writes (objects the handlers receive as arguments: a component object
   passed as component_obj to two builders is ONE cell of a Shared store) does not break the frame theorem: fields may be
   Shared as long as every handler leaves them as it found them *)
Section InterleaveFrozen.
  Variables F V : Type.
  Variable pl : F -> bool.

  Notation view := (view F V pl).
  Notation step := (step F V pl).
  Notation run_sched := (run_sched F V pl).
  Notation run_solo := (run_solo F V).
  Notation proj := (proj F V).
  Notation hext := (hext F V).

  Definition leaves_shared (h : handler F V) : Prop := forall v f, pl f = false -> h v f = v f.

  Lemma view_step_same_any w h s f : view w (step w h s) f = h (view w s) f.
  Proof. unfold State.view, State.step. simpl. destruct (pl f) eqn:E; destruct w; simpl; rewrite ?E; reflexivity. Qed.

  Lemma view_step_other_frozen w w' h s f : leaves_shared h -> w <> w' -> view w' (step w h s) f = view w' s f.
  Proof.
    intros L N. unfold State.view, State.step. simpl. destruct (pl f) eqn:E.
    - destruct w, w'; simpl; try congruence; rewrite ?E; reflexivity.
    - rewrite (L _ f E). unfold State.view. rewrite E. reflexivity.
  Qed.

  Theorem interleave_view_frozen :
    forall sched, Forall hext (map snd sched) -> Forall leaves_shared (map snd sched) ->
    forall w s f, view w (run_sched sched s) f = run_solo (proj w sched) (view w s) f.
  Proof.
    induction sched as [|[w' h] r IH]; intros Hx Hl w s f; simpl.
    - reflexivity.
    - inversion Hx as [|? ? Hh Hr]; subst. inversion Hl as [|? ? Lh Lr]; subst. rewrite (IH Hr Lr).
      assert (PX : Forall hext (proj w r)).
      { clear -Hr. unfold State.proj. induction r as [|[w2 h2] r IH]; simpl in *; auto.
        inversion Hr; subst. destruct (who_eqb w2 w); simpl; auto. }
      assert (RX : forall hs, Forall hext hs -> forall v1 v2, (forall g, v1 g = v2 g) -> forall g, run_solo hs v1 g = run_solo hs v2 g).
      { induction 1 as [|h0 t Hh0 Ht IH0]; intros v1 v2 E g; simpl; [apply E|]. apply IH0. intro g'. apply Hh0. exact E. }
      unfold State.proj. simpl. destruct (who_eqb w' w) eqn:E; simpl.
      + assert (w' = w) by (destruct w', w; simpl in E; congruence). subst.
        apply RX; [exact PX|]. intro g. apply view_step_same_any.
      + assert (w' <> w) by (destruct w', w; simpl in E; congruence).
        apply RX; [exact PX|]. intro g. apply view_step_other_frozen; auto.
  Qed.
End InterleaveFrozen.

(* ... and a handler that WRITES the argument object is the refuted case.  Field true = the builder's own document (the number
   of components in it, Own), field false = the flag on the component object the caller passed (Shared by both builders).
   `append unless flagged, then flag`: B, given the object A has already seen, leaves the component out *)
Definition flag_handler : handler bool nat :=
  fun v f => if f then (match v false with 0 => S (v true) | _ => v true end) else 1.

Theorem argument_flag_refuted :
  let pl := fun f : bool => f in
  let sched := [(WA, flag_handler); (WB, flag_handler)] in
  let s := {| sh := fun _ => 0; ownA := fun _ => 0; ownB := fun _ => 0 |} in
  Forall (hext bool nat) (map snd sched) /\
  view bool nat pl WB (run_sched bool nat pl sched s) true = 0 /\
  run_solo bool nat (proj bool nat WB sched) (view bool nat pl WB s) true = 1.
Proof.
  split; [|split; vm_compute; reflexivity].
  assert (X : hext bool nat flag_handler).
  { intros v1 v2 E f. unfold flag_handler. destruct f; [rewrite (E false), (E true)|]; reflexivity. }
  simpl. constructor; [exact X|]. constructor; [exact X|]. constructor.
Qed.

(* the same two handlers, reading the flag but not writing it: every builder gets its component *)
Example argument_read_only_example :
  let pl := fun f : bool => f in
  let h : handler bool nat := fun v f => if f then (match v false with 0 => S (v true) | _ => v true end) else v false in
  forall w f, view bool nat pl w (run_sched bool nat pl [(WA, h); (WB, h); (WA, h)] {| sh := fun _ => 0; ownA := fun _ => 0; ownB := fun _ => 0 |}) f
              = run_solo bool nat (proj bool nat w [(WA, h); (WB, h); (WA, h)]) (fun _ => 0) f.
Proof. intros pl h w f. destruct w, f; vm_compute; reflexivity. Qed.

(* one Shared field is enough to break it *)
Theorem interleave_refuted :
  exists (pl : unit -> bool) (sched : list (who * handler unit nat)) (s : sys unit nat),
    Forall (hext unit nat) (map snd sched) /\
    view unit nat pl WA (run_sched unit nat pl sched s) tt
    <> run_solo unit nat (proj unit nat WA sched) (view unit nat pl WA s) tt.
Proof.
  exists (fun _ => false), [(WA, fun _ _ => 1); (WB, fun _ _ => 2)],
         {| sh := fun _ => 0; ownA := fun _ => 0; ownB := fun _ => 0 |}.
  split.
  - repeat constructor; intros v1 v2 E f; reflexivity.
  - vm_compute. discriminate.
Qed.

Example interleave_example :
  let pl := fun _ : bool => true in
  let inc : handler bool nat := fun v f => if f then S (v true) else v false in
  let cp : handler bool nat := fun v f => if f then v true else v true in
  forall f, view bool nat pl WA (run_sched bool nat pl [(WA, inc); (WB, inc); (WB, cp); (WA, cp); (WA, inc)]
                                  {| sh := fun _ => 7; ownA := fun _ => 0; ownB := fun _ => 5 |}) f
            = run_solo bool nat [inc; cp; inc] (fun _ => 0) f.
Proof. intros pl inc cp f. destruct f; vm_compute; reflexivity. Qed.

(* ------------------------------------------------------------------------------------------- *)
(* B5. the network builder                                                                       *)
(* ------------------------------------------------------------------------------------------- *)
Lemma to_rec_ext (s1 s2 : bstore) : (forall f, s1 f = s2 f) -> to_rec s1 = to_rec s2.
Proof. intro H. unfold to_rec. rewrite !H. reflexivity. Qed.

Lemma to_of_rec v : to_rec (of_rec v) = v.
Proof. destruct v; reflexivity. Qed.

Lemma h_op_ext eg o : hext bfield fval (h_op eg o).
Proof. intros v1 v2 E f. unfold h_op. rewrite (to_rec_ext v1 v2 E). reflexivity. Qed.

Lemma lift_sched_ext eg sched : Forall (hext bfield fval) (map snd (lift_sched eg sched)).
Proof. unfold lift_sched. induction sched as [|[w o] r IH]; simpl; constructor; auto using h_op_ext. Qed.

Lemma proj_lift eg w sched : proj bfield fval w (lift_sched eg sched) = map (h_op eg) (ops_of w sched).
Proof.
  unfold State.proj, lift_sched, ops_of. induction sched as [|[w' o] r IH]; simpl; auto.
  destruct (who_eqb w' w); simpl; rewrite IH; reflexivity.
Qed.

Lemma run_solo_h_op eg ops :
  forall s, to_rec (run_solo bfield fval (map (h_op eg) ops) s) = solo_view eg ops (to_rec s).
Proof.
  unfold solo_view. induction ops as [|o t IH]; intro s; simpl; auto.
  rewrite IH. unfold h_op. rewrite to_of_rec. reflexivity.
Qed.

Lemma mk_pl_all p : (forall d, p d = true) -> forall f, mk_pl p f = true.
Proof. intros H f. destruct f; simpl; auto. Qed.

Lemma bview_of_bsys0 p w : bview_of p w bsys0 = empty_view.
Proof.
  unfold bview_of, view, to_rec, bsys0, mk_pl, own_of. simpl.
  destruct w; simpl; destruct (p DPops), (p DProjs), (p DSyns), (p DTypes), (p DSynsPre), (p DILists), (p DWD); reflexivity.
Qed.

(* with the seven dicts per instance, ANY interleaving of the handler calls of two builders leaves each
   builder with exactly the state (document, dicts, raised flags) it reaches when it runs alone *)
Theorem builder_interleave eg p :
  (forall d, p d = true) ->
  forall sched s w, bview_of p w (brun eg p sched s) = solo_view eg (ops_of w sched) (bview_of p w s).
Proof.
  intros H sched s w. unfold bview_of, brun.
  rewrite <- run_solo_h_op. apply to_rec_ext. intro f.
  rewrite (interleave_view bfield fval (mk_pl p) (mk_pl_all p H) (lift_sched eg sched) (lift_sched_ext eg sched) w s f).
  rewrite proj_lift. reflexivity.
Qed.

Theorem builder_interleave_dump eg p :
  (forall d, p d = true) ->
  forall sched w, bdump p w (brun eg p sched bsys0) = solo_dump eg (ops_of w sched).
Proof.
  intros H sched w. unfold bdump, solo_dump. rewrite (builder_interleave eg p H). rewrite bview_of_bsys0. reflexivity.
Qed.

Theorem builder_interleave_of_table t :
  all_own t = true ->
  forall eg sched w, bdump (placement_of t) w (brun eg (placement_of t) sched bsys0) = solo_dump eg (ops_of w sched).
Proof. intros H eg. apply builder_interleave_dump. apply placement_of_ok. exact H. Qed.

(* the class-level layout is observable: builder A's location lands in builder B's population *)
Definition wit_sched : list (who * op) :=
  [(WA, OpDocStart "docA"); (WA, OpNetwork "netA"); (WA, OpPopulation "p" "cellA" 1%Z);
   (WB, OpDocStart "docB"); (WB, OpNetwork "netB"); (WB, OpPopulation "p" "cellB" 1%Z);
   (WA, OpLocation 0%Z "p" (Some (1, 2, 3)%Z))].

Definition mkp (a b c d e f g : bool) : dfield -> bool := fun x =>
  match x with DPops => a | DProjs => b | DSyns => c | DTypes => d | DSynsPre => e | DILists => f | DWD => g end.

Theorem builder_interleave_refuted :
  forall eg b c d e f g, let p := mkp false b c d e f g in
  exists sched w, bdump p w (brun eg p sched bsys0) <> solo_dump eg (ops_of w sched).
Proof.
  intros eg b c d e f g p. exists wit_sched, WA. subst p.
  destruct eg, b, c, d, e, f, g; vm_compute; discriminate.
Qed.

Example builder_example :
  bdump (fun _ => true) WB (brun false (fun _ => true) wit_sched bsys0)
  = ([("doc", ["docB"], []); ("network", ["netB"], []); ("population", ["p"; "cellB"; ""], [1%Z])], [false; false; false]).
Proof. vm_compute. reflexivity. Qed.

(* every one of the seven dicts matters: with that dict alone shared there is a schedule (the directed stored schedules of
   checks/c07.py: A's prefix, all of B, A's last call) after which builder A's document differs from its solo run *)
Definition dfield_eqb (a b : dfield) : bool :=
  match a, b with
  | DPops, DPops | DProjs, DProjs | DSyns, DSyns | DTypes, DTypes | DSynsPre, DSynsPre | DILists, DILists | DWD, DWD => true
  | _, _ => false
  end.

Definition only_shared (f : dfield) : dfield -> bool := fun x => negb (dfield_eqb x f).

Definition dhead (t : string) : list op :=
  [OpDocStart ("doc" ++ t); OpNetwork ("net" ++ t); OpPopulation "p" ("cell" ++ t) 2%Z].
Definition dconn : op := OpConnection "pr" 0%Z "p" "p" 0%Z 1%Z 0%Z 1%Z.

Definition directed_streams (f : dfield) : list op * list op :=
  match f with
  | DPops => ((dhead "A" ++ [OpLocation 0%Z "p" (Some (1, 2, 3)%Z)])%list, dhead "B")
  | DProjs => ((dhead "A" ++ [OpProjection "pr" "p" "p" "synA" PProj false false None; dconn])%list,
               (dhead "B" ++ [OpProjection "pr" "p" "p" "synB" PProj false false None])%list)
  | DSyns => ((dhead "A" ++ [OpProjection "pr" "p" "p" "synA" PElec false false None; dconn])%list,
              (dhead "B" ++ [OpProjection "pr" "p" "p" "synB" PElec false false None])%list)
  | DTypes => ((dhead "A" ++ [OpProjection "pr" "p" "p" "synA" PProj false false None; OpFinalise "pr" "p" "p" "synA" None])%list,
               (dhead "B" ++ [OpProjection "pr" "p" "p" "synB" PElec false false None])%list)
  | DSynsPre => ((dhead "A" ++ [OpProjection "pr" "p" "p" "synA" PCont false false (Some "preA"); dconn])%list,
                 (dhead "B" ++ [OpProjection "pr" "p" "p" "synB" PCont false false (Some "preB")])%list)
  | DILists => ((dhead "A" ++ [OpInputList "il0" "p" "pgA"; OpSingleInput "il0" 0%Z 1%Z 1%Z])%list,
                (dhead "B" ++ [OpInputList "il0" "p" "pgB"])%list)
  | DWD => ((dhead "A" ++ [OpProjection "pr" "p" "p" "synA" PProj true true None; dconn])%list,
            (dhead "B" ++ [OpProjection "pr" "p" "p" "synB" PProj false false None])%list)
  end.

Definition directed_sched (f : dfield) : list (who * op) :=
  let '(sa, sb) := directed_streams f in
  (map (fun o => (WA, o)) (removelast sa) ++ map (fun o => (WB, o)) sb ++ [(WA, last sa (OpDocStart ""))])%list.

Theorem each_dict_matters :
  forall eg f, bdump (only_shared f) WA (brun eg (only_shared f) (directed_sched f) bsys0)
               <> solo_dump eg (ops_of WA (directed_sched f)).
Proof. intros eg f. destruct eg, f; vm_compute; discriminate. Qed.

(* ... and the same schedules are harmless when nothing is shared (instance of builder_interleave_dump) *)
Example directed_schedules_all_own :
  forall eg f w, bdump (fun _ => true) w (brun eg (fun _ => true) (directed_sched f) bsys0)
                 = solo_dump eg (ops_of w (directed_sched f)).
Proof. intros. apply builder_interleave_dump. reflexivity. Qed.
