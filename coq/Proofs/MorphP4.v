(* C13 proofs, part 5: get_ordered_segments_in_groups (both branches of its loop, any id order),
   cumulative lengths, all distances from a segment, the segments-at-distance query, and the agreement of
   the graph-based with the ordered-segments results. *)
From Coq Require Import List ZArith QArith Qabs Bool Lia Permutation Setoid Sorted.
From LNML Require Import Model.Morph Proofs.MorphP Proofs.MorphP1 Proofs.MorphP2 Proofs.MorphP3.
Import ListNotations.
Open Scope Z_scope.

(* ------------------------------------------------------------------ sorting by id *)
Lemma insertZ_perm : forall x l, Permutation (insertZ x l) (x :: l).
Proof.
  induction l as [|y r IH]; simpl; auto. destruct (x <=? y); auto.
  eapply perm_trans; [apply perm_skip; exact IH|apply perm_swap].
Qed.

Lemma isort_perm : forall l, Permutation (isort l) l.
Proof.
  induction l as [|x r IH]; simpl; auto. eapply perm_trans; [apply insertZ_perm|now apply perm_skip].
Qed.

Lemma insertZ_sorted : forall x l, StronglySorted Z.le l -> StronglySorted Z.le (insertZ x l).
Proof.
  induction l as [|y r IH]; intros H; simpl.
  - constructor; constructor.
  - inversion H as [|? ? Hr Hall]; subst. destruct (x <=? y) eqn:E.
    + apply Z.leb_le in E. constructor; auto. constructor; auto.
      eapply Forall_impl; [|exact Hall]. intros; lia.
    + apply Z.leb_gt in E. constructor; auto.
      assert (Hf : Forall (Z.le y) (x :: r)) by (constructor; auto; lia).
      eapply Permutation_Forall; [apply Permutation_sym, insertZ_perm|exact Hf].
Qed.

Lemma isort_sorted : forall l, StronglySorted Z.le (isort l).
Proof. induction l as [|x r IH]; simpl; [constructor|now apply insertZ_sorted]. Qed.

(* ------------------------------------------------------------------ the loop *)
Fixpoint prefix_sums (acc : Q) (l : list Q) : list Q :=
  match l with
  | [] => []
  | x :: r => (acc + x)%Q :: prefix_sums (acc + x)%Q r
  end.

Section Ordered.
  Variable len : Z -> Q.
  Variable c : cell.
  Hypothesis Hwf : wf c.
  Let Hnd : NoDup (ids c) := wf_nodup c Hwf.

  (* both dictionaries have the same keys; every entry is the distance given by the definition *)
  Definition ord_inv (st : ordst) : Prop :=
    forall id, match alookup (o_pp st) id, alookup (o_pd st) id with
               | Some ppv, Some pdv => pdv = (ppv + len id)%Q /\ DistRoot len c id ppv
               | None, None => True
               | _, _ => False
               end.

  Lemma ord_step_ok : forall st id, ord_inv st -> In id (ids c) ->
    exists st', ord_step (fuel_of c) len c st id = Ok st' /\ ord_inv st' /\
                (exists v, o_pp st' = (id, v) :: o_pp st /\ o_pd st' = (id, (v + len id)%Q) :: o_pd st) /\
                o_tot st' = (o_tot st + len id)%Q /\ o_cum st' = (o_cum st ++ [(o_tot st + len id)%Q])%list.
  Proof.
    intros st id Hinv Hid. apply ids_in in Hid. destruct Hid as [s [Hs Hsid]]. subst id.
    unfold ord_step. rewrite (find_seg_nodup c s Hnd Hs).
    assert (Hpp : exists v, (match sparent s with
                            | None => Ok 0%Q
                            | Some (p, f) =>
                              match alookup (o_pd st) p with
                              | None => walk_up (fuel_of c) len c s 0%Q
                              | Some pdv => match alookup (o_pp st) p with
                                            | Some ppv => Ok (Qred (ppv + (pdv - ppv) * f))
                                            | None => Err EKey
                                            end
                              end
                            end) = Ok v /\ DistRoot len c (sid s) v).
    { destruct (sparent s) as [[p f]|] eqn:Ep.
      - pose proof (Hinv p) as Hp. destruct (alookup (o_pd st) p) as [pdv|] eqn:Epd.
        + destruct (alookup (o_pp st) p) as [ppv|] eqn:Epp; cbn iota in Hp; [|contradiction].
          destruct Hp as [-> Hd]. exists (Qred (ppv + (ppv + len p - ppv) * f)). split; auto.
          eapply DR_eq; [eapply DR_kid; eauto|]. rewrite Qred_correct. ring.
        + apply walk_up_spec; auto.
      - exists 0%Q. split; auto. now apply DR_root. }
    destruct Hpp as [v [Hv Hdv]]. rewrite Hv. cbn [bind].
    eexists. split; [reflexivity|]. cbn [o_pp o_pd o_tot o_cum]. repeat split; eauto.
    intro id. simpl. destruct (sid s =? id) eqn:E.
    - apply Z.eqb_eq in E. subst id. split; auto.
    - apply Hinv.
  Qed.

  Lemma ord_loop_ok : forall l st, ord_inv st -> (forall id, In id l -> In id (ids c)) ->
    exists st', ord_loop (fuel_of c) len c st l = Ok st' /\ ord_inv st' /\
                (forall id, In id l \/ alookup (o_pp st) id <> None -> alookup (o_pp st') id <> None) /\
                o_cum st' = (o_cum st ++ prefix_sums (o_tot st) (map len l))%list.
  Proof.
    induction l as [|id r IH]; intros st Hinv Hl; simpl.
    - exists st. repeat split; auto.
      + intros id [[]|H]; auto.
      + now rewrite app_nil_r.
    - destruct (ord_step_ok st id Hinv (Hl id (or_introl eq_refl))) as [st1 [H1 [Hinv1 [[v [Hpp Hpd]] [Htot Hcum]]]]].
      rewrite H1. cbn [bind].
      destruct (IH st1 Hinv1 (fun x Hx => Hl x (or_intror Hx))) as [st2 [H2 [Hinv2 [Hkeep Hcum2]]]].
      exists st2. repeat split; auto.
      + intros x Hx. apply Hkeep. destruct (Z.eq_dec id x) as [->|Hne].
        * right. rewrite Hpp. simpl. rewrite Z.eqb_refl. discriminate.
        * destruct Hx as [[->|Hx]|Hx]; [congruence|now left|].
          right. rewrite Hpp. simpl. assert (id =? x = false) as -> by now apply Z.eqb_neq. exact Hx.
      + rewrite Hcum2, Hcum, Htot, <- app_assoc. reflexivity.
  Qed.

  (* get_ordered_segments_in_groups on a group whose resolved members are `grp`:
     - the segments come back sorted by id,
     - path length to the proximal end = distance from the root by the definition (whichever branch of the loop
       computed it, whatever the id order), path length to the distal end = that + the segment's length,
     - cumulative lengths = running sums of the lengths in id order *)
  Theorem ordered_run_spec : forall grp, (forall id, In id grp -> In id (ids c)) ->
    exists o st, ordered_run (fuel_of c) len c grp = Ok (o, st) /\
      Permutation o grp /\ StronglySorted Z.le o /\
      (forall id, In id grp -> exists v, alookup (o_pp st) id = Some v /\ DistRoot len c id v /\
                                        alookup (o_pd st) id = Some (v + len id)%Q) /\
      o_cum st = prefix_sums 0%Q (map len o).
  Proof.
    intros grp Hg. unfold ordered_run.
    assert (Hinit : ord_inv ord_init) by (intro id; simpl; auto).
    destruct (ord_loop_ok (isort grp) ord_init Hinit) as [st [H [Hinv [Hkeep Hcum]]]].
    { intros id Hid. apply Hg. eapply Permutation_in; [apply isort_perm|auto]. }
    rewrite H. cbn [bind]. exists (isort grp), st. repeat split; auto using isort_perm, isort_sorted.
    intros id Hid. assert (Hk : alookup (o_pp st) id <> None).
    { apply Hkeep. left. eapply Permutation_in; [apply Permutation_sym, isort_perm|auto]. }
    pose proof (Hinv id) as Hi. destruct (alookup (o_pp st) id) as [v|]; [|congruence].
    destruct (alookup (o_pd st) id) as [pdv|]; [|contradiction]. destruct Hi as [-> Hd]. eauto.
  Qed.

  (* the graph-based distance and the ordered-segments path length agree *)
  Theorem graph_and_ordered_agree : forall grp o st r id d v,
    ordered_run (fuel_of c) len c grp = Ok (o, st) -> (forall x, In x grp -> In x (ids c)) ->
    In r c -> sparent r = None ->
    nx_dist (fuel_of c) (graph_of len c) (sid r) id = Ok d ->
    alookup (o_pp st) id = Some v -> In id grp -> (d == v)%Q.
  Proof.
    intros grp o st r id d v Hrun Hg Hr Hrp Hd Hv Hid.
    destruct (ordered_run_spec grp Hg) as [o' [st' [Hrun' [_ [_ [Hall _]]]]]].
    rewrite Hrun in Hrun'. inversion Hrun'; subst o' st'.
    destruct (Hall id Hid) as [v' [Hv' [Hdr _]]]. rewrite Hv in Hv'. inversion Hv'; subst v'.
    eapply DistRoot_unique; eauto. eapply nx_dist_root; eauto.
  Qed.
End Ordered.

(* ------------------------------------------------------------------ all distances from a segment *)
Theorem nx_sssp_spec : forall len c src, wf c -> In src (ids c) ->
  exists l, nx_sssp (fuel_of c) (graph_of len c) src None = Ok l /\
    (forall t d p, In (t, d, p) l -> exists w, gpath (graph_of len c) src t w /\ (d == w)%Q) /\
    (forall t w, gpath (graph_of len c) src t w -> exists d p, In (t, d, p) l /\ (d == w)%Q).
Proof.
  intros len c src Hwf Hs. unfold nx_sssp.
  assert (memZ src (gnodes (graph_of len c)) = true) as -> by (apply memZ_spec; now apply graph_nodes).
  destruct (reach_tree_total len c None src 0%Q [src] Hwf Hs) as [l Hl].
  change (gedges (graph_of len c)) with (tree_edges len c). rewrite Hl. exists l. split; auto. split.
  - intros t d p Hin. destruct (reach_sound _ _ _ _ _ _ _ Hl _ _ _ Hin) as [w [k [Hp Hd]]].
    exists w. split; [apply gpath_epath; eauto|]. rewrite Hd. ring.
  - intros t w Hp. apply gpath_epath in Hp. destruct Hp as [k Hp]. simpl in Hp.
    pose proof (epath_short len c Hwf _ _ _ _ Hs Hp) as Hk.
    destruct (reach_complete _ _ _ _ _ Hp (fuel_of c) 0%Q [src] l ltac:(unfold fuel_of; lia) Hl) as [dt [p [Hin Hd]]].
    exists dt, p. split; auto. rewrite Hd. ring.
Qed.

(* ------------------------------------------------------------------ segments at a distance *)
Lemma epath_nonneg : forall es a t w k, (forall e, In e es -> (0 <= ew e)%Q) -> epath es a t w k -> (0 <= w)%Q.
Proof.
  intros es a t w k Hnn H. induction H as [n|a b t w0 d k Hin _ IH]; [apply Qle_refl|].
  specialize (Hnn _ Hin). unfold ew in Hnn. simpl in Hnn.
  replace 0%Q with (0 + 0)%Q by reflexivity. now apply Qplus_le_compat.
Qed.

Lemma reach_complete_cutoff : forall es m, (forall e, In e es -> (0 <= ew e)%Q) ->
  forall n t w k, epath es n t w k ->
  forall fuel d rp l, (k < fuel)%nat -> (d + w <= m)%Q -> reach fuel es (Some m) n d rp = Ok l ->
  exists dt p, In (t, dt, p) l /\ (dt == d + w)%Q.
Proof.
  intros es m Hnn n t w k H. induction H as [n|a b t w0 d0 k Hin Hp IH]; intros fuel d rp l Hf Hm H.
  - destruct fuel as [|f]; [lia|]. simpl in H.
    match type of H with (bind ?X _ = _) => destruct X as [sub|e] eqn:E end; simpl in H; [|discriminate].
    inversion H; subst. exists d, (rev rp). split; [now left|ring].
  - destruct fuel as [|f]; [lia|]. simpl in H.
    match type of H with (bind ?X _ = _) => destruct X as [sub|e] eqn:E end; simpl in H; [|discriminate].
    inversion H; subst l; clear H.
    set (g := fun e : edge => if (esrc e =? a) && negb (over (Some m) (d + ew e)%Q)
                              then reach f es (Some m) (edst e) (d + ew e)%Q (edst e :: rp) else Ok []) in E.
    assert (Hg : In (g (a, b, w0)) (map g es)) by now apply in_map.
    destruct (rconcat_elem_ok _ _ E _ Hg) as [r' Hr'].
    pose proof (epath_nonneg _ _ _ _ _ Hnn Hp) as Hd0.
    assert (Hle : (d + w0 <= m)%Q).
    { eapply Qle_trans; [|exact Hm]. rewrite <- (Qplus_0_r (d + w0)) at 1.
      rewrite (Qplus_assoc d w0 d0). apply Qplus_le_compat; [apply Qle_refl|exact Hd0]. }
    assert (Hgv : g (a, b, w0) = reach f es (Some m) b (d + w0)%Q (b :: rp)).
    { unfold g, esrc, edst, ew, over. simpl. rewrite Z.eqb_refl.
      assert (Qle_bool (d + w0) m = true) as -> by now apply Qle_bool_iff. reflexivity. }
    rewrite Hgv in Hr'.
    destruct (IH f (d + w0)%Q (b :: rp) r' ltac:(lia)) as [dt [p [Hx Hd]]]; auto.
    { rewrite <- Qplus_assoc. exact Hm. }
    exists dt, p. split.
    + right. apply (rconcat_in _ _ E). exists r'. split; auto. rewrite <- Hr', <- Hgv. exact Hg.
    + rewrite Hd. ring.
Qed.

Lemma reach_cutoff_le : forall fuel es m n d rp l, reach fuel es (Some m) n d rp = Ok l ->
  forall t dt p, In (t, dt, p) l -> (t = n /\ dt = d) \/ (dt <= m)%Q.
Proof.
  induction fuel as [|f IH]; intros es m n d rp l H t dt p Hin; simpl in H; [discriminate|].
  match type of H with (bind ?X _ = _) => destruct X as [sub|e] eqn:E end; simpl in H; [|discriminate].
  inversion H; subst l; clear H. destruct Hin as [Heq|Hin].
  - inversion Heq; subst. now left.
  - right. rewrite (rconcat_in _ _ E) in Hin. destruct Hin as [r' [Hr' Hx]].
    apply in_map_iff in Hr'. destruct Hr' as [[[a b] w0] [He Hine]].
    unfold esrc, edst, ew in He. simpl in He.
    destruct ((a =? n) && negb (negb (Qle_bool (d + w0) m))) eqn:Ec.
    + apply andb_prop in Ec. destruct Ec as [_ Eo]. rewrite negb_involutive in Eo.
      apply Qle_bool_iff in Eo.
      destruct (IH _ _ _ _ _ _ He _ _ _ Hx) as [[_ ->]|Hle]; auto.
    + inversion He; subst. inversion Hx.
Qed.

(* get_segments_at_distance(distance, src): exactly the segments t below src (src included) that have
   non-zero length and contain the point at `distance` from src's proximal end, each with the fraction along
   it at which that point lies:  fraction = (distance - dist(src, t)) / len(t),  0 <= fraction <= 1 *)
Theorem segments_at_distance_sound : forall len c dist src l t fr, wf c ->
  segments_at_distance (fuel_of c) len (graph_of len c) dist src = Ok l -> In (t, fr) l ->
  exists dt w, gpath (graph_of len c) src t w /\ (dt == w)%Q /\ ~ (len t == 0)%Q /\
               fr = ((dist - dt) / len t)%Q /\ (fr <= 1)%Q /\ (t = src \/ (dt <= dist)%Q).
Proof.
  intros len c dist src l t fr Hwf H Hin. unfold segments_at_distance in H.
  destruct (nx_sssp (fuel_of c) (graph_of len c) src (Some dist)) as [r|e] eqn:E; cbn [bind] in H; [|discriminate].
  inversion H; subst l; clear H. apply in_flat_map in Hin. destruct Hin as [[[t' dt] p] [Hr Hx]].
  destruct (Qeq_bool (len t') 0) eqn:E0; [inversion Hx|].
  destruct (Qle_bool ((dist - dt) / len t') 1) eqn:E1; [|inversion Hx].
  destruct Hx as [Hx|[]]. inversion Hx; subst t' fr; clear Hx.
  unfold nx_sssp in E. destruct (memZ src (gnodes (graph_of len c))); [|discriminate].
  destruct (reach_sound _ _ _ _ _ _ _ E _ _ _ Hr) as [w [k [Hp Hd]]].
  exists dt, w. repeat split.
  - apply gpath_epath. eauto.
  - rewrite Hd. ring.
  - intro Hz. apply Qeq_bool_iff in Hz. congruence.
  - now apply Qle_bool_iff.
  - destruct (reach_cutoff_le _ _ _ _ _ _ _ E _ _ _ Hr) as [[-> _]|Hle]; auto.
Qed.

Theorem segments_at_distance_complete : forall len c dist src t w, wf c -> In src (ids c) ->
  (forall s p f, In s c -> sparent s = Some (p, f) -> (0 <= len p * f)%Q) ->
  gpath (graph_of len c) src t w -> (w <= dist)%Q -> ~ (len t == 0)%Q -> ((dist - w) / len t <= 1)%Q ->
  exists l fr, segments_at_distance (fuel_of c) len (graph_of len c) dist src = Ok l /\ In (t, fr) l /\
               (fr == (dist - w) / len t)%Q.
Proof.
  intros len c dist src t w Hwf Hs Hnn Hp Hw Hz H1. unfold segments_at_distance, nx_sssp.
  assert (memZ src (gnodes (graph_of len c)) = true) as -> by (apply memZ_spec; now apply graph_nodes).
  destruct (reach_tree_total len c (Some dist) src 0%Q [src] Hwf Hs) as [r Hr].
  change (gedges (graph_of len c)) with (tree_edges len c). rewrite Hr. cbn [bind].
  apply gpath_epath in Hp. destruct Hp as [k Hp]. simpl in Hp.
  pose proof (epath_short len c Hwf _ _ _ _ Hs Hp) as Hk.
  assert (Hedges : forall e, In e (tree_edges len c) -> (0 <= ew e)%Q).
  { intros [[a b] w0] He. apply tree_edges_spec in He; [|now apply wf_nodup].
    destruct He as [s [f [Hs' [_ [Hpar ->]]]]]. unfold ew. simpl. eapply Hnn; eauto. }
  destruct (reach_complete_cutoff _ dist Hedges _ _ _ _ Hp (fuel_of c) 0%Q [src] r
              ltac:(unfold fuel_of; lia)) as [dt [p [Hin Hd]]]; auto.
  { rewrite Qplus_0_l. exact Hw. }
  assert (Hdw : (dt == w)%Q) by (rewrite Hd; ring).
  eexists. exists ((dist - dt) / len t)%Q. split; [reflexivity|]. split.
  - apply in_flat_map. exists (t, dt, p). split; auto.
    assert (Qeq_bool (len t) 0 = false) as ->.
    { destruct (Qeq_bool (len t) 0) eqn:E; auto. apply Qeq_bool_iff in E. contradiction. }
    assert (Qle_bool ((dist - dt) / len t) 1 = true) as ->.
    { apply Qle_bool_iff. rewrite Hdw. exact H1. }
    now left.
  - now rewrite Hdw.
Qed.

(* several groups in one call: each group's results are those of the call with that group alone (the running total and the
   dictionaries start afresh for every group), whatever precedes or follows it in group_list *)
Theorem ordered_multi_independent : forall fuel len c gs1 g gs2,
  nth (length gs1) (ordered_multi fuel len c (gs1 ++ g :: gs2)) (Err EFuel) = ordered_run fuel len c g.
Proof.
  intros. unfold ordered_multi. rewrite map_app. simpl.
  rewrite app_nth2; rewrite map_length; [|lia]. now rewrite Nat.sub_diag.
Qed.
