(* Content models: if the numbers of children satisfy the cardinalities and choices of a content model (counts_ok)
   and the model is order-safe, then writing the children grouped by element declaration, in the order of the
   declarations, gives a word of the model's language -- the children-order part of C02. *)
From Coq Require Import String List ZArith Bool Arith Lia.
From LNML Require Import Lib.Dec Lib.Regex Model.Gds Model.Validate Model.Xsd Proofs.RegexP Proofs.ValidateP3.
Import ListNotations.
Open Scope string_scope.
Open Scope nat_scope.

Notation TM := (Matches tsat).

(* the children written for a list of tags: cnt t copies of t, tag after tag *)
Definition word (cnt : string -> nat) (tags : list string) : list string :=
  flat_map (fun t => repeat t (cnt t)) tags.

Lemma word_app cnt a b : word cnt (a ++ b) = (word cnt a ++ word cnt b)%list.
Proof. unfold word. apply flat_map_app. Qed.

Lemma word_zero cnt tags : (forall t, In t tags -> cnt t = 0) -> word cnt tags = [].
Proof.
  induction tags as [|t tags IH]; simpl; intro H; [reflexivity|].
  rewrite (H t (or_introl eq_refl)). simpl. apply IH. intros; apply H; right; assumption.
Qed.

(* ---------------------------------------------------------------- occurrence expressions *)
Lemma rep_repeat t k : TM (rep k (Sym (Some t))) (repeat t k).
Proof.
  induction k as [|k IH]; simpl; [constructor|].
  change (t :: repeat t k) with ([t] ++ repeat t k)%list. constructor; [|exact IH].
  constructor. simpl. apply String.eqb_refl.
Qed.

Lemma star_repeat t k : TM (Star (Sym (Some t))) (repeat t k).
Proof.
  induction k as [|k IH]; simpl; [constructor|].
  change (t :: repeat t k) with ([t] ++ repeat t k)%list. constructor; [|exact IH].
  constructor. simpl. apply String.eqb_refl.
Qed.

Lemma rep_opt_repeat t : forall m k, k <= m -> TM (rep_opt m (Sym (Some t))) (repeat t k).
Proof.
  induction m as [|m IH]; intros k Hk.
  - assert (k = 0) by lia. subst. simpl. constructor.
  - destruct k as [|k]; simpl.
    + apply MAltR. constructor.
    + apply MAltL. change (t :: repeat t k) with ([t] ++ repeat t k)%list. constructor; [|apply IH; lia].
      constructor. simpl. apply String.eqb_refl.
Qed.

Lemma repeat_add {A} (x : A) a b : repeat x (a + b) = (repeat x a ++ repeat x b)%list.
Proof. induction a; simpl; [reflexivity | f_equal; assumption]. Qed.

Lemma occurs_repeat t lo hi n :
  lo <= n -> (forall h, hi = Some h -> n <= h) -> TM (occurs_re lo hi (Sym (Some t))) (repeat t n).
Proof.
  intros Hlo Hhi. replace n with (lo + (n - lo)) by lia. rewrite repeat_add. unfold occurs_re.
  destruct hi as [h|]; constructor; try apply rep_repeat.
  - apply rep_opt_repeat. specialize (Hhi h eq_refl). lia.
  - apply star_repeat.
Qed.

Lemma alts_in (l : list tre) r w : In r l -> TM r w -> TM (alts l) w.
Proof.
  induction l as [|a l IH]; simpl; intros Hin Hm; [contradiction|].
  destruct Hin as [->|Hin]; [apply MAltL; exact Hm | apply MAltR; auto].
Qed.

(* ---------------------------------------------------------------- tags of particles *)
Lemma map_fst_flat_map {A B C} (f : A -> list (B * C)) l : map fst (flat_map f l) = flat_map (fun x => map fst (f x)) l.
Proof. induction l as [|a l IH]; simpl; [reflexivity|]. rewrite map_app, IH. reflexivity. Qed.

Lemma ptags_seq l : ptags (PSeq l) = flat_map ptags l.
Proof. unfold ptags. simpl. apply map_fst_flat_map. Qed.
Lemma ptags_choice lo hi l : ptags (PChoice lo hi l) = flat_map ptags l.
Proof. unfold ptags. simpl. apply map_fst_flat_map. Qed.
Lemma ptags_all l : ptags (PAll l) = flat_map ptags l.
Proof. unfold ptags. simpl. apply map_fst_flat_map. Qed.

Lemma NoDup_app_l {A} (a b : list A) : NoDup (a ++ b) -> NoDup a.
Proof. induction a as [|x a IH]; simpl; intro H; [constructor|]. inversion H; subst. constructor; [|auto].
  intro Hin. apply H2. apply in_or_app. left. exact Hin. Qed.
Lemma NoDup_app_r {A} (a b : list A) : NoDup (a ++ b) -> NoDup b.
Proof. induction a as [|x a IH]; simpl; intro H; [exact H|]. inversion H; subst. auto. Qed.
Lemma NoDup_app_disj {A} (a b : list A) x : NoDup (a ++ b) -> In x a -> ~ In x b.
Proof.
  induction a as [|y a IH]; simpl; intros H Hin; [contradiction|]. inversion H; subst.
  destruct Hin as [->|Hin]; [|auto]. intro Hb. apply H2. apply in_or_app. right. exact Hb.
Qed.

Lemma mem_false_notin k l : mem k l = false -> ~ In k l.
Proof.
  induction l as [|x l IH]; simpl; [auto|]. intro H. apply orb_false_iff in H as [H1 H2].
  intros [->|Hin]; [rewrite String.eqb_refl in H1; discriminate | exact (IH H2 Hin)].
Qed.
Lemma notin_mem_false k l : ~ In k l -> mem k l = false.
Proof.
  induction l as [|x l IH]; simpl; [reflexivity|]. intro H. apply orb_false_iff. split.
  - apply String.eqb_neq. intro E. apply H. left. exact E.
  - apply IH. intro Hin. apply H. right. exact Hin.
Qed.

(* ---------------------------------------------------------------- the main lemma on one particle *)
Section Word.
Variable cnt : string -> nat.

Lemma seq_word : forall l,
  Forall (fun p => order_safe p = true -> NoDup (ptags p) -> counts_ok cnt p = true ->
                   TM (particle_re p) (word cnt (ptags p))) l ->
  forallb order_safe l = true -> NoDup (flat_map ptags l) -> forallb (counts_ok cnt) l = true ->
  TM (cats (map particle_re l)) (word cnt (flat_map ptags l)).
Proof.
  induction 1 as [|p l Hp Hl IH]; simpl; intros Hs Hn Hc; [constructor|].
  apply andb_true_iff in Hs as [Hs1 Hs2]. apply andb_true_iff in Hc as [Hc1 Hc2].
  rewrite word_app. constructor.
  - apply Hp; auto. exact (NoDup_app_l _ _ Hn).
  - apply IH; auto. exact (NoDup_app_r _ _ Hn).
Qed.

Lemma choice_word : forall l q,
  In q l -> NoDup (flat_map ptags l) ->
  forallb (fun t => mem t (ptags q) || Nat.eqb (cnt t) 0) (flat_map ptags l) = true ->
  word cnt (flat_map ptags l) = word cnt (ptags q).
Proof.
  intros l q Hin Hn Hz. apply in_split in Hin as (l1 & l2 & ->).
  rewrite flat_map_app in *. simpl in *. rewrite !word_app.
  assert (Hout : forall t, In t (flat_map ptags l1) \/ In t (flat_map ptags l2) -> cnt t = 0).
  { intros t Ht.
    assert (Hnq : ~ In t (ptags q)).
    { destruct Ht as [Ht|Ht].
      - intro Hq. apply (NoDup_app_disj _ _ t Hn Ht). apply in_or_app. left. exact Hq.
      - apply NoDup_app_r in Hn. intro Hq. exact (NoDup_app_disj _ _ t Hn Hq Ht). }
    assert (Hall : In t (flat_map ptags l1 ++ ptags q ++ flat_map ptags l2)).
    { apply in_or_app. destruct Ht; [left; assumption | right; apply in_or_app; right; assumption]. }
    rewrite forallb_forall in Hz. specialize (Hz t Hall). rewrite (notin_mem_false _ _ Hnq) in Hz. simpl in Hz.
    apply Nat.eqb_eq in Hz. exact Hz. }
  rewrite (word_zero cnt (flat_map ptags l1)), (word_zero cnt (flat_map ptags l2)); auto.
  simpl. apply app_nil_r.
Qed.

Lemma particle_word : forall p,
  order_safe p = true -> NoDup (ptags p) -> counts_ok cnt p = true -> TM (particle_re p) (word cnt (ptags p)).
Proof.
  induction p as [tag ty lo hi|l IH|lo hi l IH|l IH|lo hi] using particle_ind'; intros Hs Hn Hc.
  - simpl in *. unfold ptags. simpl. unfold word. simpl. rewrite app_nil_r.
    apply andb_true_iff in Hc as [H1 H2]. apply Nat.leb_le in H1. apply occurs_repeat; [exact H1|].
    intros h ->. apply Nat.leb_le in H2. exact H2.
  - rewrite ptags_seq in *. simpl in *. apply seq_word; auto.
  - rewrite ptags_choice in *. simpl in Hs.
    apply andb_true_iff in Hs as [Hs Hsl]. apply andb_true_iff in Hs as [Hlo Hhi]. apply Nat.eqb_eq in Hlo. subst lo.
    destruct hi as [[|[|h]]|]; try discriminate.
    simpl in Hc. apply existsb_exists in Hc as (q & Hq & Hc). apply andb_true_iff in Hc as [Hcq Hz].
    rewrite (choice_word l q Hq Hn Hz).
    simpl. unfold occurs_re. simpl.
    rewrite <- (app_nil_r (word cnt (ptags q))). constructor; [|constructor].
    rewrite <- (app_nil_r (word cnt (ptags q))). constructor; [|constructor].
    apply (alts_in _ (particle_re q)); [apply in_map; exact Hq|].
    rewrite Forall_forall in IH. apply IH; auto.
    + rewrite forallb_forall in Hsl. auto.
    + apply in_split in Hq as (l1 & l2 & ->). rewrite flat_map_app in Hn. simpl in Hn.
      apply NoDup_app_r in Hn. exact (NoDup_app_l _ _ Hn).
  - discriminate.
  - discriminate.
Qed.

(* a list of particles in sequence (the effective content of a type: base content then own content) *)
Lemma parts_word : forall ps,
  forallb order_safe ps = true -> NoDup (flat_map ptags ps) -> forallb (counts_ok cnt) ps = true ->
  match_tags (cats (map particle_re ps)) (word cnt (flat_map ptags ps)) = true.
Proof.
  intros ps Hs Hn Hc. unfold match_tags. apply matchl_correct. apply seq_word; auto.
  apply Forall_forall. intros p _. apply particle_word.
Qed.

(* ---------------------------------------------------------------- xs:all *)
Lemma count_tag_repeat t u n : count_tag t (repeat u n) = if String.eqb u t then n else 0.
Proof.
  induction n as [|n IH]; simpl; [destruct (String.eqb u t); reflexivity|].
  rewrite IH. destruct (String.eqb u t); reflexivity.
Qed.

Lemma count_tag_app t a b : count_tag t (a ++ b) = count_tag t a + count_tag t b.
Proof. induction a as [|x a IH]; simpl; [reflexivity|]. rewrite IH. lia. Qed.

Lemma count_word_notin t tags : ~ In t tags -> count_tag t (word cnt tags) = 0.
Proof.
  induction tags as [|u tags IH]; simpl; intro H; [reflexivity|].
  unfold word in *. simpl. rewrite count_tag_app, count_tag_repeat.
  destruct (String.eqb u t) eqn:E; [apply String.eqb_eq in E; subst; exfalso; apply H; left; reflexivity|].
  simpl. apply IH. intro Hin. apply H. right. exact Hin.
Qed.

Lemma count_word t tags : NoDup tags -> In t tags -> count_tag t (word cnt tags) = cnt t.
Proof.
  induction tags as [|u tags IH]; simpl; intros Hn Hin; [contradiction|].
  inversion Hn; subst. unfold word in *. simpl. rewrite count_tag_app, count_tag_repeat.
  destruct Hin as [->|Hin].
  - rewrite String.eqb_refl. fold (word cnt tags). rewrite (count_word_notin t tags H1). lia.
  - destruct (String.eqb u t) eqn:E; [apply String.eqb_eq in E; subst; contradiction|]. simpl. auto.
Qed.

Lemma word_in t tags : In t (word cnt tags) -> In t tags.
Proof.
  unfold word. intro H. apply in_flat_map in H as (u & Hu & Hr). apply repeat_spec in Hr. subst. exact Hu.
Qed.

Lemma In_mem k l : In k l -> mem k l = true.
Proof.
  induction l as [|x l IH]; simpl; [contradiction|]. intros [->|H]; [rewrite String.eqb_refl; reflexivity|].
  rewrite (IH H). apply orb_true_r.
Qed.

Lemma all_word : forall l,
  forallb (fun p => match p with PElem _ _ lo (Some 1) => Nat.leb lo 1 | _ => false end) l = true ->
  NoDup (flat_map ptags l) -> forallb (counts_ok cnt) l = true ->
  all_match l (word cnt (flat_map ptags l)) = true.
Proof.
  intros l Hsh Hn Hc. unfold all_match. apply andb_true_iff. split.
  - apply forallb_forall. intros t Ht. apply In_mem. apply word_in. exact Ht.
  - apply forallb_forall. intros p Hp.
    rewrite forallb_forall in Hsh, Hc. specialize (Hsh p Hp). specialize (Hc p Hp).
    destruct p as [tag ty lo [[|[|h]]|]| | | |]; try discriminate.
    simpl in Hc. apply andb_true_iff in Hc as [H1 H2].
    assert (Hin : In tag (flat_map ptags l)).
    { apply in_flat_map. exists (PElem tag ty lo (Some 1)). split; [exact Hp | left; reflexivity]. }
    rewrite (count_word tag _ Hn Hin). rewrite H1, H2. reflexivity.
Qed.

End Word.
