(* C16 proofs, part 2: what create_unbranched_segment_group_branches does NOT change (list-level model, any
   adjacency list, any fuel): segment ids, parents, distal points, document order; a proximal point is only ever
   added where there was none, and then it is the effective proximal point of the ORIGINAL cell; pre-existing groups
   keep their place and content. *)
From Coq Require Import List ZArith QArith Bool Lia Permutation String.
From LNML Require Import Model.Morph Model.Section Proofs.MorphP Proofs.MorphP1.
Import ListNotations.
Open Scope Z_scope.

(* ------------------------------------------------------------------ set_prox and lookups *)
Lemma find_seg_set_prox_other : forall c id p x, x <> id -> find_seg (set_prox_c id p c) x = find_seg c x.
Proof.
  induction c as [|s r IH]; intros id p x Hx; simpl; auto.
  destruct (sid s =? id) eqn:E.
  - apply Z.eqb_eq in E. unfold find_seg. simpl.
    assert (sid s =? x = false) as -> by (apply Z.eqb_neq; congruence). reflexivity.
  - unfold find_seg in *. simpl. destruct (sid s =? x); auto.
Qed.

Lemma find_seg_set_prox_same : forall c id p s, find_seg c id = Some s ->
  find_seg (set_prox_c id p c) id = Some (mkseg (sid s) (sparent s) (Some p) (sdist s)).
Proof.
  induction c as [|s0 r IH]; intros id p s H; [discriminate|]. unfold find_seg in H. simpl in H. simpl.
  destruct (sid s0 =? id) eqn:E.
  - inversion H; subst. unfold find_seg. simpl. now rewrite E.
  - unfold find_seg. simpl. rewrite E. now apply IH.
Qed.

Lemma find_seg_set_prox_dist : forall c id p x s, find_seg c x = Some s ->
  exists s', find_seg (set_prox_c id p c) x = Some s' /\ sdist s' = sdist s /\ sid s' = sid s /\ sparent s' = sparent s /\
             (x <> id -> s' = s).
Proof.
  intros c id p x s H. destruct (Z.eq_dec x id) as [->|Hne].
  - eexists. split; [eapply find_seg_set_prox_same; eauto|]. simpl. repeat split; auto. congruence.
  - exists s. rewrite find_seg_set_prox_other by auto. auto.
Qed.

Lemma length_set_prox : forall c id p, List.length (set_prox_c id p c) = List.length c.
Proof. induction c as [|s r IH]; intros; simpl; auto. destruct (sid s =? id); simpl; auto. Qed.

Lemma fuel_of_set_prox : forall c id p, fuel_of (set_prox_c id p c) = fuel_of c.
Proof. intros. unfold fuel_of. now rewrite length_set_prox. Qed.

(* ------------------------------------------------------------------ fuel monotonicity *)
Lemma actual_prox_mono : forall f c x p, actual_prox f c x = Ok p -> forall f', (f <= f')%nat -> actual_prox f' c x = Ok p.
Proof.
  induction f as [|k IH]; intros c x p H f' Hf; [discriminate|].
  destruct f' as [|k']; [lia|]. simpl in *.
  destruct (get_segment c x) as [s|e]; simpl in *; [|discriminate].
  destruct (sprox s); auto. destruct (sparent s) as [[pid fr]|]; auto.
  destruct (get_segment c pid) as [par|e]; simpl in *; [|discriminate].
  destruct (Qeq_bool fr 1); auto. destruct (Qeq_bool fr 0).
  - apply IH; auto. lia.
  - destruct (actual_prox k c pid) as [pp|e] eqn:E; simpl in *; [|discriminate].
    rewrite (IH _ _ _ E k') by lia. simpl. exact H.
Qed.

Lemma actual_prox_det : forall f1 f2 c x p q, actual_prox f1 c x = Ok p -> actual_prox f2 c x = Ok q -> p = q.
Proof.
  intros f1 f2 c x p q H1 H2.
  pose proof (actual_prox_mono _ _ _ _ H1 (Nat.max f1 f2) (Nat.le_max_l _ _)) as G1.
  pose proof (actual_prox_mono _ _ _ _ H2 (Nat.max f1 f2) (Nat.le_max_r _ _)) as G2.
  congruence.
Qed.

(* making a segment's effective proximal point explicit changes no effective proximal point *)
Lemma set_prox_refines : forall c id p F, actual_prox F c id = Ok p ->
  forall fuel x q, actual_prox fuel c x = Ok q -> actual_prox fuel (set_prox_c id p c) x = Ok q.
Proof.
  intros c id p F HF. induction fuel as [|k IH]; intros x q H; [discriminate|]. simpl in *.
  unfold get_segment in *. destruct (find_seg c x) as [s|] eqn:Es; cbn [bind] in H; [|discriminate].
  destruct (Z.eq_dec x id) as [->|Hne].
  - rewrite (find_seg_set_prox_same c id p s Es). cbn [bind sprox].
    assert (Hq : actual_prox (S k) c id = Ok q).
    { simpl. unfold get_segment. rewrite Es. exact H. }
    f_equal. eapply actual_prox_det; eauto.
  - rewrite find_seg_set_prox_other by auto. rewrite Es. cbn [bind].
    destruct (sprox s); auto. destruct (sparent s) as [[pid fr]|]; auto.
    destruct (find_seg c pid) as [par|] eqn:Ep; cbn [bind] in H; [|discriminate].
    destruct (find_seg_set_prox_dist c id p pid par Ep) as [par' [Hf' [Hd _]]].
    rewrite Hf'. cbn [bind]. rewrite Hd.
    destruct (Qeq_bool fr 1); auto. destruct (Qeq_bool fr 0); [now apply IH|].
    destruct (actual_prox k c pid) as [pp|e] eqn:E; cbn [bind] in H; [|discriminate].
    rewrite (IH _ _ E). exact H.
Qed.

(* ------------------------------------------------------------------ the segment invariant *)
Definition seg_upd (c0 : cell) (s s' : seg) : Prop :=
  sid s' = sid s /\ sparent s' = sparent s /\ sdist s' = sdist s /\
  (sprox s' = sprox s \/
   (sprox s = None /\ exists q, sprox s' = Some q /\ actual_prox (fuel_of c0) c0 (sid s) = Ok q)).

Definition cell_upd (c0 c : cell) : Prop := Forall2 (seg_upd c0) c0 c.

Definition refines (c0 c : cell) : Prop :=
  forall fuel x q, actual_prox fuel c0 x = Ok q -> actual_prox fuel c x = Ok q.

Definition all_ok (c0 : cell) : Prop :=
  forall s, In s c0 -> exists q, actual_prox (fuel_of c0) c0 (sid s) = Ok q.

Definition seg_inv (c0 c : cell) : Prop := cell_upd c0 c /\ refines c0 c.

Lemma cell_upd_refl_gen : forall c0 c, Forall2 (seg_upd c0) c c.
Proof. induction c; constructor; auto. unfold seg_upd. repeat split; auto. Qed.

Lemma cell_upd_length : forall c0 c, cell_upd c0 c -> List.length c = List.length c0.
Proof. intros c0 c H. unfold cell_upd in H. induction H; simpl; auto. Qed.

(* in related cells the first segment with a given id sits at the same place *)
Lemma upd_find : forall c0 (l0 l : cell) x s, Forall2 (seg_upd c0) l0 l -> find_seg l x = Some s ->
  exists s0, find_seg l0 x = Some s0 /\ seg_upd c0 s0 s.
Proof.
  intros c0 l0 l x s H. induction H as [|a b l0 l Hab Hl IH]; intros Hf; [discriminate|].
  unfold find_seg in *. simpl in *. destruct Hab as [Hid Hrest].
  rewrite <- Hid. destruct (sid b =? x) eqn:E.
  - inversion Hf; subst. exists a. split; auto. split; auto.
  - now apply IH.
Qed.

Lemma upd_set_prox : forall c0 (l0 l : cell) id p,
  Forall2 (seg_upd c0) l0 l ->
  (forall s0 s, find_seg l0 id = Some s0 -> find_seg l id = Some s -> seg_upd c0 s0 (mkseg (sid s) (sparent s) (Some p) (sdist s))) ->
  Forall2 (seg_upd c0) l0 (set_prox_c id p l).
Proof.
  intros c0 l0 l id p H. induction H as [|a b l0 l Hab Hl IH]; intros Hnew; simpl; [constructor|].
  pose proof Hab as [Hid _]. destruct (sid b =? id) eqn:E.
  - constructor; auto. apply Hnew; unfold find_seg; simpl; [rewrite <- Hid|]; now rewrite E.
  - constructor; auto. apply IH. intros s0 s H0 H1. apply Hnew; unfold find_seg in *; simpl; [rewrite <- Hid|]; now rewrite E.
Qed.

Lemma seg_inv_set_prox : forall c0 c s p, all_ok c0 -> seg_inv c0 c ->
  get_segment c (sid s) = Ok s -> actual_prox (fuel_of c) c (sid s) = Ok p ->
  seg_inv c0 (set_prox_c (sid s) p c).
Proof.
  intros c0 c s p Hok [Hupd Href] Hs Hp. split.
  - apply upd_set_prox; auto. intros s0 s1 H0 H1.
    unfold get_segment in Hs. rewrite H1 in Hs. inversion Hs; subst s1.
    destruct (upd_find c0 c0 c (sid s) s Hupd H1) as [s0' [H0' [Hid [Hpar [Hdist Hprox]]]]].
    rewrite H0 in H0'. inversion H0'; subst s0'.
    unfold seg_upd. simpl. repeat split; auto.
    destruct (sprox s) as [p1|] eqn:Eps.
    + (* it already had one: get_actual_proximal returns it *)
      assert (p = p1).
      { unfold fuel_of in Hp. simpl in Hp. unfold get_segment in Hp. rewrite H1 in Hp. cbn [bind] in Hp.
        rewrite Eps in Hp. congruence. }
      subst p1. destruct Hprox as [Hsame|[Hnone [q [Hq _]]]]; [left; congruence|].
      right. split; auto. exists p. split; auto.
      destruct (Hok s0) as [q0 Hq0]. { apply find_seg_some in H0. tauto. }
      pose proof (Href _ _ _ Hq0) as Hc. rewrite <- Hid in Hc.
      assert (Hfu : fuel_of c = fuel_of c0) by (unfold fuel_of; now rewrite (cell_upd_length c0 c Hupd)).
      rewrite Hfu in Hp. rewrite Hp in Hc. inversion Hc; subst q0. exact Hq0.
    + destruct Hprox as [Hsame|[Hnone [q [Hq _]]]]; [|congruence].
      right. split; [congruence|]. exists p. split; auto.
      destruct (Hok s0) as [q0 Hq0]. { apply find_seg_some in H0. tauto. }
      pose proof (Href _ _ _ Hq0) as Hc. rewrite <- Hid in Hc.
      assert (Hfu : fuel_of c = fuel_of c0) by (unfold fuel_of; now rewrite (cell_upd_length c0 c Hupd)).
      rewrite Hfu in Hp. rewrite Hp in Hc. inversion Hc; subst q0. exact Hq0.
  - intros fuel x q Hq. eapply set_prox_refines; eauto.
Qed.

(* every segment's length is unchanged: the effective proximal point and the distal point are *)
Lemma seg_length_preserved : forall c0 c, all_ok c0 -> seg_inv c0 c ->
  forall s, In s c0 -> seg_length (fuel_of c) c (sid s) = seg_length (fuel_of c0) c0 (sid s).
Proof.
  intros c0 c Hok [Hupd Href] s Hs.
  assert (Hfu : fuel_of c = fuel_of c0) by (unfold fuel_of; now rewrite (cell_upd_length c0 c Hupd)).
  destruct (Hok s Hs) as [q Hq]. pose proof (Href _ _ _ Hq) as Hqc. rewrite <- Hfu in Hqc.
  (* the first segment with this id, in both cells *)
  assert (Hfind : exists s1, find_seg c (sid s) = Some s1).
  { pose proof Hqc as H. unfold fuel_of in H. simpl in H. unfold get_segment in H.
    destruct (find_seg c (sid s)); [eauto|discriminate]. }
  destruct Hfind as [s1 Hs1].
  destruct (upd_find c0 c0 c (sid s) s1 Hupd Hs1) as [s0 [Hs0 [Hid [Hpar [Hdist Hprox]]]]].
  unfold seg_length, get_segment. rewrite Hs1, Hs0. cbn [bind]. rewrite Hdist.
  assert (Hq0 : actual_prox (fuel_of c0) c0 (sid s) = Ok q) by exact Hq.
  assert (Hsame : (match sprox s1 with Some p => Ok p | None => actual_prox (fuel_of c) c (sid s) end)
                  = (match sprox s0 with Some p => Ok p | None => actual_prox (fuel_of c0) c0 (sid s) end)).
  { destruct Hprox as [Heq|[Hnone [q' [Hq' Hact]]]].
    - rewrite Heq. destruct (sprox s0); auto. now rewrite Hqc, Hq0.
    - rewrite Hq', Hnone. assert (Hids : sid s0 = sid s) by (apply find_seg_some in Hs0; tauto).
      rewrite Hids in Hact. congruence. }
  now rewrite Hsame.
Qed.

(* ------------------------------------------------------------------ group bookkeeping *)
Open Scope string_scope.

Definition gen_name (nm : string) : bool := prefix "seg_group_" nm.

Lemma mkname_gen : forall n id, gen_name (mkname n id) = true.
Proof. intros. unfold gen_name, mkname. cbn. match goal with |- prefix "" ?x = true => destruct x; reflexivity end. Qed.

(* every group whose id is not of the generated form stays where it is, unchanged; the list may grow *)
Definition keep (gs gs' : list group) : Prop :=
  forall i g, nth_error gs i = Some g -> gen_name (gid g) = false -> nth_error gs' i = Some g.

Lemma keep_refl : forall gs, keep gs gs.
Proof. intros gs i g H _. exact H. Qed.

Lemma keep_trans : forall a b c, keep a b -> keep b c -> keep a c.
Proof. intros a b c H1 H2 i g H Hn. apply H2; auto. Qed.

Lemma keep_app : forall gs new, keep gs (gs ++ new).
Proof. intros gs new i g H _. rewrite nth_error_app1; auto. apply nth_error_Some. congruence. Qed.

Lemma keep_upd_first : forall name f gs, gen_name name = true -> (forall g, gid (f g) = gid g) ->
  keep gs (upd_first_group name f gs).
Proof.
  intros name f gs Hn Hf. induction gs as [|g r IH]; intros i g0 H Hg0; [destruct i; discriminate|].
  simpl. destruct (has_gid name g) eqn:E.
  - destruct i; simpl in *; auto. inversion H; subst g0. unfold has_gid in E. apply String.eqb_eq in E. congruence.
  - destruct i; simpl in *; auto.
Qed.

Lemma keep_add_member : forall name id st, gen_name name = true -> keep (st_groups st) (st_groups (add_member name id st)).
Proof.
  intros. unfold add_member. simpl. apply keep_upd_first; auto.
  intro g. unfold add_member_g. destruct (memZ id (gmembers g)); reflexivity.
Qed.

Lemma keep_add_group : forall name st, keep (st_groups st) (st_groups (add_unbranched_group name st)).
Proof.
  intros. unfold add_unbranched_group. destruct (existsb (has_gid name) (st_groups st)); [apply keep_refl|apply keep_app].
Qed.

(* ------------------------------------------------------------------ the recursive sectioniser *)
Definition st_inv (c0 : cell) (gs0 : list group) (st : mstate) : Prop :=
  seg_inv c0 (st_segs st) /\ keep gs0 (st_groups st).

Lemma st_inv_add_member : forall c0 gs0 name id st, gen_name name = true -> st_inv c0 gs0 st -> st_inv c0 gs0 (add_member name id st).
Proof.
  intros c0 gs0 name id st Hn [H1 H2]. split; auto. eapply keep_trans; [exact H2|now apply keep_add_member].
Qed.

Lemma sect_inv : forall c0 gs0, all_ok c0 -> forall fuel a r gname st st',
  gen_name gname = true -> st_inv c0 gs0 st -> sect fuel a r gname st = Ok st' -> st_inv c0 gs0 st'.
Proof.
  intros c0 gs0 Hok. induction fuel as [|k IH]; intros a r gname st st' Hn Hinv H; [discriminate|].
  simpl in H. destruct (alookup a r) as [[|ch [|ch2 rest]]|] eqn:Ea.
  - inversion H; subst. exact Hinv.
  - eapply IH; [exact Hn| |exact H]. now apply st_inv_add_member.
  - (* branch point: fold over the children *)
    assert (Hstart : st_inv c0 gs0 (add_member gname r st)) by now apply st_inv_add_member.
    revert H. generalize (add_member gname r st) Hstart. generalize (ch :: ch2 :: rest).
    induction l as [|x xs IHl]; intros st1 Hst1 H; cbn [fold_left] in H.
    + inversion H; subst. exact Hst1.
    + destruct (sect_child (sect k a) (Ok st1) x) as [st2|e] eqn:E.
      * apply (IHl st2); [|exact H].
        unfold sect_child in E. cbn [bind] in E.
        destruct (get_segment (st_segs st1) x) as [s|e] eqn:Es; cbn [bind] in E; [|discriminate].
        destruct (actual_prox (fuel_of (st_segs st1)) (st_segs st1) (sid s)) as [p|e] eqn:Ep; cbn [bind] in E; [|discriminate].
        eapply IH; [apply mkname_gen| |exact E].
        destruct Hst1 as [Hs1 Hg1]. split.
        -- unfold add_unbranched_group, set_prox. simpl.
           assert (Hx : sid s = x) by (unfold get_segment in Es; destruct (find_seg (st_segs st1) x) eqn:Ef; [inversion Es; subst; apply find_seg_some in Ef; tauto|discriminate]).
           assert (Hseg : seg_inv c0 (set_prox_c (sid s) p (st_segs st1))).
           { apply seg_inv_set_prox; auto. now rewrite Hx. }
           destruct (existsb _ _); simpl; exact Hseg.
        -- eapply keep_trans; [exact Hg1|]. eapply keep_trans; [|apply keep_add_group]. unfold set_prox. simpl. apply keep_refl.
      * exfalso. clear -H. induction xs as [|y ys IHy]; cbn [fold_left] in H; [discriminate|]. apply IHy. exact H.
  - inversion H; subst. now apply st_inv_add_member.
Qed.

(* ------------------------------------------------------------------ reorder_segment_groups only permutes *)
Lemma remove_first_perm : forall name gs g, find (has_gid name) gs = Some g ->
  Permutation (remove_first_group name gs ++ [g]) gs.
Proof.
  induction gs as [|x r IH]; intros g H; [discriminate|]. simpl in *. destruct (has_gid name x).
  - inversion H; subst. apply Permutation_sym. apply Permutation_cons_append.
  - simpl. apply perm_skip. now apply IH.
Qed.

Lemma move_last_perm : forall gs name, Permutation (move_last gs name) gs.
Proof.
  intros. unfold move_last. destruct (find (has_gid name) gs) eqn:E; [now apply remove_first_perm|apply Permutation_refl].
Qed.

Theorem reorder_groups_perm : forall gs, Permutation (reorder_groups gs) gs.
Proof.
  intro gs. unfold reorder_groups. generalize default_group_names. intro l. revert gs.
  induction l as [|n r IH]; intro gs; simpl; [apply Permutation_refl|].
  eapply perm_trans; [apply IH|apply move_last_perm].
Qed.

(* ------------------------------------------------------------------ the whole call *)
Theorem create_branches_preserves : forall c gs root reorder st',
  all_ok c -> create_branches c gs root reorder false = Ok st' ->
  cell_upd c (st_segs st') /\
  (forall s, In s c -> seg_length (fuel_of (st_segs st')) (st_segs st') (sid s) = seg_length (fuel_of c) c (sid s)) /\
  (forall g, In g gs -> gen_name (gid g) = false -> In g (st_groups st')) /\
  (reorder = false -> keep gs (st_groups st')).
Proof.
  intros c gs root reorder st' Hok H. unfold create_branches in H.
  destruct (get_segment c root) as [s|e] eqn:Es; cbn [bind] in H; [|discriminate].
  assert (Hinit : st_inv c gs (mkst c gs)).
  { split; [split; [apply cell_upd_refl_gen|intros f x q Hq; exact Hq]|apply keep_refl]. }
  assert (Hsid : sid s = root).
  { unfold get_segment in Es. destruct (find_seg c root) eqn:Ef; [|discriminate]. inversion Es; subst.
    apply find_seg_some in Ef. tauto. }
  subst root.
  destruct (root_prox (mkst c gs) s) as [st0|e] eqn:E0; cbn [bind] in H; [|discriminate].
  assert (Hst0 : st_inv c gs st0).
  { unfold root_prox in E0. destruct (sprox s) as [px0|]; [inversion E0; subst; exact Hinit|].
    destruct (sparent s) as [pf|]; [|inversion E0; subst; exact Hinit].
    cbn [st_segs] in E0. destruct (actual_prox (fuel_of c) c (sid s)) as [pq|e] eqn:Ep; cbn [bind] in E0; [|discriminate].
    inversion E0; subst. destruct Hinit as [Hs Hg]. split; auto. unfold set_prox. simpl.
    apply seg_inv_set_prox; auto. }
  match type of H with (bind ?X _ = _) => destruct X as [st1|e] eqn:E1 end; cbn [bind] in H; [|discriminate].
  inversion H; subst st'; clear H. simpl.
  assert (Hst1 : st_inv c gs st1).
  { eapply sect_inv; [exact Hok|apply mkname_gen| |exact E1].
    destruct Hst0 as [Hs Hg]. split.
    - unfold add_unbranched_group. destruct (existsb _ _); simpl; exact Hs.
    - eapply keep_trans; [exact Hg|apply keep_add_group]. }
  destruct Hst1 as [Hseg1 Hkeep]. split; [exact (proj1 Hseg1)|].
  split; [intros s0 Hs0; now apply seg_length_preserved|]. split.
  - intros g Hg Hn. apply In_nth_error in Hg. destruct Hg as [i Hi]. pose proof (Hkeep i g Hi Hn) as Hi'.
    apply nth_error_In in Hi'. destruct reorder; auto.
    eapply Permutation_in; [apply Permutation_sym, reorder_groups_perm|exact Hi'].
  - intros ->. exact Hkeep.
Qed.

(* on a tree-shaped cell every effective proximal point exists, so the theorem applies *)
Lemma wf_all_ok : forall c, wf c -> root_has_prox c -> all_ok c.
Proof. intros c Hwf Hr s Hs. destruct (actual_prox_spec c s Hwf Hr Hs) as [p [Hp _]]. eauto. Qed.
