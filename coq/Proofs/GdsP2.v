(* Presentation independence of build (C04): the spelling of attribute values, explicitly written defaults,
   presentation changes inside child elements, and the text between child elements do not change what is
   loaded.  Generic over table sets, classes and trees; no hypothesis on the float type is needed. *)
From Coq Require Import String Ascii List ZArith Bool Lia Permutation.
From LNML Require Import Lib.Dec Model.Gds Model.GdsWf Proofs.DecP Proofs.GdsP1 Proofs.GdsP.
Import ListNotations.
Open Scope string_scope.

(* ------------------------------------------------------------------ integer spellings (Lib/Dec.v) *)
Lemma fmt_int_nonneg z : (0 <= z)%Z -> fmt_int z = show_nat z.
Proof. intro H. unfold fmt_int. destruct (z <? 0)%Z eqn:E; [apply Z.ltb_lt in E; lia | reflexivity]. Qed.

Lemma fmt_int_digit_head z : (0 <= z)%Z -> exists c r, fmt_int z = String c r /\ digit_of c <> None.
Proof.
  intro H. rewrite fmt_int_nonneg by assumption.
  destruct (show_nat_nonempty z) as (c & r & E). exists c, r. split; [assumption|].
  pose proof (digits_val_show_nat z H) as D. rewrite E in D. cbn [digits_val] in D.
  destruct (digit_of c); congruence.
Qed.

(* "+7" *)
Lemma parse_int_plus z : (0 <= z)%Z -> parse_int ("+" ++ fmt_int z) = Some z.
Proof.
  intro H. rewrite fmt_int_nonneg by assumption. cbn [append parse_int].
  apply parse_nat_str_show_nat. assumption.
Qed.

(* "07": one more leading zero in front of any unsigned spelling *)
Lemma parse_int_leading_zero c r z :
  digit_of c <> None -> parse_int (String c r) = Some z -> parse_int ("0" ++ String c r) = Some z.
Proof.
  intros D P. rewrite parse_int_digit_head in P by assumption. cbn [append].
  rewrite parse_int_digit_head by (vm_compute; discriminate).
  unfold parse_nat_str in *.
  change (digits_val (String "0"%char (String c r)) 0%Z) with (digits_val (String c r) 0%Z). assumption.
Qed.

Fixpoint zeros (k : nat) : string := match k with O => "" | S k' => String "0"%char (zeros k') end.

(* "007" *)
Lemma parse_int_leading_zeros k z : (0 <= z)%Z -> parse_int (zeros k ++ fmt_int z) = Some z.
Proof.
  intro H. induction k as [|k IH]; cbn [zeros append]; [apply parse_int_fmt_int|].
  assert (HD : exists c r, (zeros k ++ fmt_int z) = String c r /\ digit_of c <> None).
  { destruct k as [|k']; cbn [zeros append].
    - apply fmt_int_digit_head. assumption.
    - eexists _, _. split; [reflexivity|]. vm_compute. discriminate. }
  destruct HD as (c & r & E & D). rewrite E in IH |- *.
  apply (parse_int_leading_zero c r z D IH).
Qed.

Section Pres.
Variable F : Type.
Variable F_of_dec : dec -> F.
Variable parse_float : string -> option F.

Notation value := (Gds.value F).
Notation fields := (list (string * Gds.value F)).
Notation inject := (Gds.inject F F_of_dec).
Notation parse_attr := (Gds.parse_attr F parse_float).
Notation build_attrs := (Gds.build_attrs F parse_float).
Notation build := (Gds.build F F_of_dec parse_float).
Notation set_field := (Gds.set_field F).
Notation default_fields := (Gds.default_fields F F_of_dec).
Notation step := (GdsP.bld_step F F_of_dec parse_float).
Notation build_S := (GdsP.build_S F F_of_dec parse_float).

(* ------------------------------------------------------------------ 1. spelling of attribute values *)
Definition attrs_equiv (BA : list bld_attr) (a a' : list (string * string)) : Prop :=
  forall b, In b BA ->
    match lookup (ba_xml b) a, lookup (ba_xml b) a' with
    | Some s, Some s' => parse_attr (ba_kind b) (ba_range b) s = parse_attr (ba_kind b) (ba_range b) s'
    | None, None => True
    | _, _ => False
    end.

Lemma build_attrs_spelling a a' : forall BA seen fs,
  attrs_equiv BA a a' -> build_attrs a BA seen fs = build_attrs a' BA seen fs.
Proof.
  induction BA as [|b r IH]; intros seen fs E; [reflexivity|].
  assert (Er : attrs_equiv r a a') by (intros b' Hb'; apply E; right; assumption).
  specialize (E b (or_introl eq_refl)). cbn [Gds.build_attrs].
  destruct (lookup (ba_xml b) a) as [s|], (lookup (ba_xml b) a') as [s'|]; try contradiction; auto.
  destruct (mem (ba_key b) seen); auto. rewrite E. destruct (parse_attr _ _ s'); auto.
Qed.

Theorem build_attr_spelling : forall n T c t a a' tx k,
  attrs_equiv (bld_attrs_of (cfuel T) T c) a a' ->
  build n T c (Elem t a tx k) = build n T c (Elem t a' tx k).
Proof.
  intros n T c t a a' tx k E. destruct n as [|f]; [reflexivity|].
  rewrite !build_S. cbn [x_attrs x_kids].
  destruct (find_cls T c); [|reflexivity]. destruct (default_fields T c); [|reflexivity].
  rewrite (build_attrs_spelling a a' _ [] _ E). reflexivity.
Qed.

(* respelt integers parse alike, whatever the range check *)
Lemma parse_attr_int_plus rg z : (0 <= z)%Z ->
  parse_attr KInt rg ("+" ++ fmt_int z) = parse_attr KInt rg (fmt_int z).
Proof. intro H. unfold Gds.parse_attr. rewrite parse_int_plus, parse_int_fmt_int by assumption. reflexivity. Qed.

Lemma parse_attr_int_zeros rg k z : (0 <= z)%Z ->
  parse_attr KInt rg (zeros k ++ fmt_int z) = parse_attr KInt rg (fmt_int z).
Proof. intro H. unfold Gds.parse_attr. rewrite parse_int_leading_zeros, parse_int_fmt_int by assumption. reflexivity. Qed.

(* ------------------------------------------------------------------ 2. a default written explicitly *)
Lemma set_field_hit k (v : value) l : lookup k l = Some v -> set_field k v l = l.
Proof.
  induction l as [|[k' v'] l IH]; simpl; [discriminate|].
  destruct (String.eqb k' k) eqn:E.
  - intro H. inversion H. apply String.eqb_eq in E. subst. reflexivity.
  - intro H. rewrite IH; auto.
Qed.

(* attributes other than the added one are processed alike; the processed-key lists may differ in its key *)
Lemma build_attrs_skip xb kb s a : forall BA seen1 seen2 fs,
  (forall b', In b' BA -> ba_xml b' <> xb /\ ba_key b' <> kb) ->
  (forall k, k <> kb -> mem k seen1 = mem k seen2) ->
  build_attrs ((xb, s) :: a) BA seen1 fs = build_attrs a BA seen2 fs.
Proof.
  induction BA as [|b' r IH]; intros seen1 seen2 fs HB HS; [reflexivity|].
  destruct (HB b' (or_introl eq_refl)) as [Nx Nk].
  assert (HB' : forall b0, In b0 r -> ba_xml b0 <> xb /\ ba_key b0 <> kb) by (intros b0 H0; apply HB; right; assumption).
  cbn [Gds.build_attrs lookup].
  destruct (String.eqb xb (ba_xml b')) eqn:E; [apply String.eqb_eq in E; congruence|].
  destruct (lookup (ba_xml b') a) as [s0|]; [|apply IH; assumption].
  rewrite (HS _ Nk). destruct (mem (ba_key b') seen2); [apply IH; assumption|].
  destruct (parse_attr (ba_kind b') (ba_range b') s0); [|reflexivity].
  apply IH; [assumption|]. intros k N. cbn [mem]. rewrite (HS k N). reflexivity.
Qed.

Lemma build_attrs_default b s (v : value) a :
  lookup (ba_xml b) a = None -> parse_attr (ba_kind b) (ba_range b) s = Some v ->
  forall BA seen fs,
  NoDup (map ba_xml BA) -> NoDup (map ba_key BA) -> NoDup (map ba_py BA) -> In b BA ->
  lookup (ba_py b) fs = Some v ->
  build_attrs ((ba_xml b, s) :: a) BA seen fs = build_attrs a BA seen fs.
Proof.
  intros La Pv. induction BA as [|b0 r IH]; intros seen fs NX NK NP Hin Lf; [contradiction|].
  cbn [map] in NX, NK, NP.
  inversion NX as [|? ? HnX NX']; subst. inversion NK as [|? ? HnK NK']; subst.
  inversion NP as [|? ? HnP NP']; subst.
  destruct Hin as [->|Hin].
  - assert (TL : forall b', In b' r -> ba_xml b' <> ba_xml b /\ ba_key b' <> ba_key b).
    { intros b' Hb'. split; intro E.
      - apply HnX. rewrite <- E. apply in_map. assumption.
      - apply HnK. rewrite <- E. apply in_map. assumption. }
    cbn [Gds.build_attrs lookup]. rewrite String.eqb_refl, La.
    destruct (mem (ba_key b) seen) eqn:M.
    + apply (build_attrs_skip (ba_xml b) (ba_key b)); auto.
    + rewrite Pv, (set_field_hit _ _ _ Lf). apply (build_attrs_skip (ba_xml b) (ba_key b)); auto.
      intros k N. cbn [mem]. destruct (String.eqb (ba_key b) k) eqn:E; [|reflexivity].
      apply String.eqb_eq in E. congruence.
  - assert (Nx : ba_xml b0 <> ba_xml b).
    { intro E. apply HnX. rewrite E. apply in_map. assumption. }
    assert (Np : ba_py b <> ba_py b0).
    { intro E. apply HnP. rewrite <- E. apply in_map. assumption. }
    cbn [Gds.build_attrs lookup].
    destruct (String.eqb (ba_xml b) (ba_xml b0)) eqn:E; [apply String.eqb_eq in E; congruence|].
    destruct (lookup (ba_xml b0) a) as [s0|]; [|apply IH; assumption].
    destruct (mem (ba_key b0) seen); [apply IH; assumption|].
    destruct (parse_attr (ba_kind b0) (ba_range b0) s0) as [v0|]; [|reflexivity].
    apply IH; auto. rewrite lookup_set_other by assumption. assumption.
Qed.

Theorem build_explicit_default : forall T, rt_wf T = true ->
  forall n c dfl b d s t a tx k,
  init_lits T c = Some dfl ->
  In b (bld_attrs_of (cfuel T) T c) ->
  lookup (ba_xml b) a = None ->
  lookup (ba_py b) dfl = Some d ->
  parse_attr (ba_kind b) (ba_range b) s = Some (inject d) ->
  build n T c (Elem t ((ba_xml b, s) :: a) tx k) = build n T c (Elem t a tx k).
Proof.
  intros T W n c dfl b d s t a tx k I Hb La Ld Pv. destruct n as [|f]; [reflexivity|].
  rewrite !build_S. cbn [x_attrs x_kids].
  destruct (rt_wf_cls T c dfl W I) as (kc & Fk & C). rewrite Fk.
  unfold Gds.default_fields. rewrite I. cbn [option_map].
  rewrite (build_attrs_default b s (inject d) a La Pv (bld_attrs_of (cfuel T) T c) []).
  - reflexivity.
  - apply (w_ba_xml _ _ _ _ _ _ _ C).
  - apply (w_ba_key _ _ _ _ _ _ _ C).
  - apply (w_ba_py _ _ _ _ _ _ _ C).
  - assumption.
  - rewrite lookup_map_snd, Ld. reflexivity.
Qed.

(* ------------------------------------------------------------------ 3. presentation changes inside children *)
(* the child is not kept verbatim (as raw __ANY__ content) by the class that holds it *)
Definition kid_raw_free (kc : cls) (BK : list bld_kid) (x : xml) : bool :=
  negb (c_any_always kc)
  && match find_branch (x_tag x) BK with
     | Some _ => true
     | None => negb (existsb (fun b => match bk_kind b with CAny => true | _ => false end) BK)
     end.

(* two children that the builder of the holding class cannot tell apart *)
Definition kid_equiv (f : nat) (T : tables) (kc : cls) (BK : list bld_kid) (x y : xml) : Prop :=
  x = y \/
  (kid_raw_free kc BK x = true /\ x_tag x = x_tag y /\
   match find_branch (x_tag x) BK with
   | Some b => match bk_kind b with
               | CObj | CObjList => build f T (bk_cls b) x = build f T (bk_cls b) y
               | CText => x_text x = x_text y
               | CAny => True
               end
   | None => True
   end).

Lemma bld_step_equiv f T kc BK x y : kid_equiv f T kc BK x y ->
  forall acc, step f T kc BK acc x = step f T kc BK acc y.
Proof.
  intros [->|(R & Tg & B)] acc; [reflexivity|].
  unfold kid_raw_free in R. apply andb_true_iff in R as [R1 R2]. apply negb_true_iff in R1.
  unfold GdsP.bld_step. destruct acc as [fs|]; [|reflexivity]. rewrite R1, <- Tg.
  destruct (find_branch (x_tag x) BK) as [b|].
  - destruct (bk_kind b); rewrite ?B; reflexivity.
  - apply negb_true_iff in R2. rewrite R2. reflexivity.
Qed.

Lemma fold_step_equiv f T kc BK ks ks' : Forall2 (kid_equiv f T kc BK) ks ks' ->
  forall acc, fold_left (step f T kc BK) ks acc = fold_left (step f T kc BK) ks' acc.
Proof.
  induction 1 as [|x y ks ks' E _ IH]; intro acc; [reflexivity|].
  cbn [fold_left]. rewrite (bld_step_equiv _ _ _ _ _ _ E). apply IH.
Qed.

Theorem build_kids_congr_gen : forall f T c t a tx ks ks',
  (forall kc, find_cls T c = Some kc -> Forall2 (kid_equiv f T kc (bld_kids_of (cfuel T) T c)) ks ks') ->
  build (S f) T c (Elem t a tx ks) = build (S f) T c (Elem t a tx ks').
Proof.
  intros f T c t a tx ks ks' H. rewrite !build_S. cbn [x_attrs x_kids].
  destruct (find_cls T c) as [kc|]; [|reflexivity]. destruct (default_fields T c); [|reflexivity].
  destruct (build_attrs _ _ _ _); [|reflexivity].
  rewrite (fold_step_equiv _ _ _ _ _ _ (H kc eq_refl)). reflexivity.
Qed.

(* the class keeps no raw content at all: true of every class without an __ANY__ member *)
Definition no_raw (T : tables) (c : string) : bool :=
  match find_cls T c with
  | Some kc => negb (c_any_always kc)
               && negb (existsb (fun b => match bk_kind b with CAny => true | _ => false end) (bld_kids_of (cfuel T) T c))
  | None => true
  end.

Theorem build_kids_congr : forall f T c t a tx ks ks',
  no_raw T c = true ->
  Forall2 (fun x y => x_tag x = x_tag y /\ x_text x = x_text y /\
                      forall c', build f T c' x = build f T c' y) ks ks' ->
  build (S f) T c (Elem t a tx ks) = build (S f) T c (Elem t a tx ks').
Proof.
  intros f T c t a tx ks ks' NR H. apply build_kids_congr_gen. intros kc Fk.
  unfold no_raw in NR. rewrite Fk in NR. apply andb_true_iff in NR as [N1 N2].
  induction H as [|x y ks ks' (Tg & Tx & B) _ IH]; constructor; [|assumption].
  right. split.
  - unfold kid_raw_free. rewrite N1, N2. destruct (find_branch _ _); reflexivity.
  - split; [assumption|]. destruct (find_branch _ _) as [b|]; [|exact I].
    destruct (bk_kind b); auto.
Qed.

(* the element's own text (white space between the child elements) and its own tag are not read *)
Theorem build_ignores_element_text : forall n T c t a tx tx' k,
  build n T c (Elem t a tx k) = build n T c (Elem t a tx' k).
Proof. intros. destruct n as [|f]; [reflexivity|]. rewrite !build_S. reflexivity. Qed.

Theorem build_ignores_element_tag : forall n T c t t' a tx k,
  build n T c (Elem t a tx k) = build n T c (Elem t' a tx k).
Proof. intros. destruct n as [|f]; [reflexivity|]. rewrite !build_S. reflexivity. Qed.

End Pres.

(* ------------------------------------------------------------------ examples (F := dec, tables ex_T of GdsP.v) *)
Notation xbuild := (build dec dec_norm parse_dec).

Example ex_int_spellings :
  parse_int "+7" = Some 7%Z /\ parse_int "007" = Some 7%Z /\ parse_int ("+" ++ fmt_int 7) = parse_int (zeros 2 ++ fmt_int 7).
Proof.
  split; [exact (parse_int_plus 7 ltac:(lia))|]. split; [exact (parse_int_leading_zeros 2 7 ltac:(lia))|].
  rewrite parse_int_plus, parse_int_leading_zeros by lia. reflexivity.
Qed.

(* 1: n="+3" / n="003" / weight="0.250" load like n="3" / weight="0.25" *)
Example ex_attr_spelling :
  xbuild 2 ex_T "A" (Elem "a" [("id", "a1"); ("n", "+3"); ("weight", "0.250")] "" [])
  = xbuild 2 ex_T "A" (Elem "a" [("id", "a1"); ("n", "003"); ("weight", "0.25")] "" []).
Proof.
  apply build_attr_spelling. intros b Hb. vm_compute in Hb.
  destruct Hb as [<-|[<-|[<-|[]]]]; vm_compute; reflexivity.
Qed.

Example ex_attr_spelling_nontrivial :
  xbuild 2 ex_T "A" (Elem "a" [("id", "a1"); ("n", "+3"); ("weight", "0.250")] "" [])
  = Some (Obj "A" [("id", VStr "a1"); ("w", VFlt (25%Z, 2%nat)); ("n", VInt 3%Z); ("bs", VObjs []); ("note", VNone)]).
Proof. vm_compute. reflexivity. Qed.

(* 2: weight="1.50" is the constructor default of B.w *)
Example ex_explicit_default :
  xbuild 2 ex_T "B" (Elem "b" [("weight", "1.50"); ("id", "b1")] "" [])
  = xbuild 2 ex_T "B" (Elem "b" [("id", "b1")] "" []).
Proof.
  apply (build_explicit_default dec dec_norm parse_dec ex_T ex_rt_wf 2 "B"
           [("id", LNone); ("w", LDec (15%Z, 1%nat))]
           {| ba_xml := "weight"; ba_py := "w"; ba_kind := KFloat; ba_range := RNone; ba_key := "weight" |}
           (LDec (15%Z, 1%nat)) "1.50").
  - vm_compute. reflexivity.
  - vm_compute. auto.
  - reflexivity.
  - reflexivity.
  - vm_compute. reflexivity.
Qed.

(* 3: attributes reordered inside a child (equal for every class, so the simple form applies) *)
Example ex_kids_congr :
  xbuild 3 ex_T "A" (Elem "a" [("id", "a1")] ""
                       [Elem "b" [("id", "b1"); ("weight", "0.5")] "" []; Elem "note" [] "hi" []])
  = xbuild 3 ex_T "A" (Elem "a" [("id", "a1")] ""
                       [Elem "b" [("weight", "0.5"); ("id", "b1")] "" []; Elem "note" [] "hi" []]).
Proof.
  apply build_kids_congr; [vm_compute; reflexivity|].
  constructor; [|constructor; [auto|constructor]].
  split; [reflexivity|]. split; [reflexivity|]. intro c'.
  apply build_attr_order; [apply perm_swap | repeat constructor; simpl; intuition discriminate].
Qed.

(* the lemmas compose: inside the child the float is respelt, the attributes are reordered, white space is added
   (only the class the holder builds for that tag matters: a string-typed "weight" elsewhere would tell
   "0.50" from "0.5") *)
Example ex_kids_congr_gen :
  xbuild 3 ex_T "A" (Elem "a" [("id", "a1")] ""
                       [Elem "b" [("id", "b1"); ("weight", "0.5")] "" []; Elem "note" [] "hi" []])
  = xbuild 3 ex_T "A" (Elem "a" [("id", "a1")] ""
                       [Elem "b" [("weight", "0.50"); ("id", "b1")] "  " []; Elem "note" [] "hi" []]).
Proof.
  apply build_kids_congr_gen. intros kc Fk. vm_compute in Fk. inversion Fk; subst kc. clear Fk.
  constructor; [|constructor; [left; reflexivity | constructor]].
  right. split; [vm_compute; reflexivity|]. split; [reflexivity|].
  change (xbuild 2 ex_T "B" (Elem "b" [("id", "b1"); ("weight", "0.5")] "" [])
          = xbuild 2 ex_T "B" (Elem "b" [("weight", "0.50"); ("id", "b1")] "  " [])).
  rewrite (build_ignores_element_text dec dec_norm parse_dec 2 ex_T "B" "b" _ "  " "").
  rewrite (build_attr_order dec dec_norm parse_dec 2 ex_T "B" "b" [("id", "b1"); ("weight", "0.5")]
             [("weight", "0.5"); ("id", "b1")]);
    [| apply perm_swap | repeat constructor; simpl; intuition discriminate].
  apply build_attr_spelling. intros b Hb. vm_compute in Hb.
  destruct Hb as [<-|[<-|[]]]; vm_compute; reflexivity.
Qed.

Example ex_document :
  let x1 := Elem "a" [("id", "a1"); ("n", "3")] ""
              [Elem "b" [("id", "b1"); ("weight", "0.5")] "" []; Elem "note" [] "hi" []] in
  let x2 := Elem "a" [("n", "+03"); ("id", "a1")] "  "
              [Elem "b" [("weight", "0.50"); ("id", "b1")] " " []; Elem "note" [("junk", "1")] "hi" []] in
  xbuild 3 ex_T "A" x1 = xbuild 3 ex_T "A" x2 /\ xbuild 3 ex_T "A" x1 <> None.
Proof. vm_compute. split; [reflexivity | discriminate]. Qed.

Example ex_element_text :
  xbuild 2 ex_T "B" (Elem "b" [("id", "b1")] "" []) = xbuild 2 ex_T "B" (Elem "b" [("id", "b1")] "   " []).
Proof. apply build_ignores_element_text. Qed.

(* the side condition of build_kids_congr is needed: a class that keeps every child verbatim (c_any_always, as the
   annotation-like classes do) retains the presentation of the children *)
Definition ex_R : cls := {|
  c_name := "R"; c_super := None;
  c_params := [ {| p_name := "anytypeobjs_"; p_default := DNone |} ];
  c_super_args := [];
  c_assign := [("anytypeobjs_", CastAnyList)];
  c_has_content := ["anytypeobjs_"]; c_hc_super := false;
  c_exp_attrs := []; c_exp_attrs_super := SupNone;
  c_bld_attrs := []; c_bld_attrs_super := SupNone;
  c_exp_kids := [ {| ek_py := "anytypeobjs_"; ek_tag := ""; ek_kind := CAny |} ]; c_exp_kids_super := SupNone;
  c_bld_kids := [ {| bk_tag := ""; bk_py := "anytypeobjs_"; bk_cls := ""; bk_kind := CAny; bk_dispatch := false |} ];
  c_bld_kids_super := SupNone;
  c_any_always := true |}.

Example ex_raw_wf : rt_wf [ex_R] = true.
Proof. vm_compute. reflexivity. Qed.

Example build_kids_congr_needs_no_raw :
  let x := Elem "z" [("p", "1"); ("q", "2")] "" [] in
  let y := Elem "z" [("q", "2"); ("p", "1")] "" [] in
  (x_tag x = x_tag y /\ x_text x = x_text y /\ forall c', xbuild 1 [ex_R] c' x = xbuild 1 [ex_R] c' y) /\
  xbuild 2 [ex_R] "R" (Elem "r" [] "" [x]) <> xbuild 2 [ex_R] "R" (Elem "r" [] "" [y]).
Proof.
  split.
  - split; [reflexivity|]. split; [reflexivity|]. intro c'.
    apply build_attr_order; [apply perm_swap | repeat constructor; simpl; intuition discriminate].
  - vm_compute. discriminate.
Qed.

Print Assumptions build_attr_spelling.
Print Assumptions parse_int_plus.
Print Assumptions parse_int_leading_zeros.
Print Assumptions build_explicit_default.
Print Assumptions build_kids_congr_gen.
Print Assumptions build_kids_congr.
Print Assumptions build_ignores_element_text.
Print Assumptions build_ignores_element_tag.
