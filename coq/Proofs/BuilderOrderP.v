(* C15, part C: reorder_segment_groups puts the user groups first (in their order) and the default
   groups that exist last, so that - default groups including only user groups - every group is
   defined before any group that includes it; optimising keeps that. *)
From Coq Require Import String List ZArith Bool Arith Lia Permutation.
From LNML Require Import Model.Groups Model.Builder Proofs.GroupsP Proofs.BuilderSegP Proofs.BuilderGroupP.
Import ListNotations.
Open Scope string_scope.

Definition found (G : list group) (a : string) : list group :=
  match lookup G a with Some g => [g] | None => [] end.

Lemma remove_first_filter : forall G a, NoDup (map gid G) ->
  remove_first G a = filter (fun g => negb (String.eqb (gid g) a)) G.
Proof.
  induction G as [|h G IH]; intros a Hn; simpl; [reflexivity|].
  inversion Hn as [|x l Hx Hn']; subst.
  destruct (String.eqb (gid h) a) eqn:E; simpl.
  - apply String.eqb_eq in E. symmetry. apply filter_all. intros g Hg.
    apply negb_true_iff. apply String.eqb_neq. intro E2. apply Hx. rewrite E, <- E2. apply in_map. exact Hg.
  - f_equal. apply IH. exact Hn'.
Qed.

Lemma filter_filter : forall (A : Type) (f g : A -> bool) l,
  filter f (filter g l) = filter (fun x => g x && f x) l.
Proof.
  induction l as [|x l IH]; simpl; [reflexivity|].
  destruct (g x); simpl; [destruct (f x); simpl; congruence | exact IH].
Qed.

Lemma move_last_shape : forall G a, NoDup (map gid G) -> a <> "" ->
  move_last G a = (filter (fun g => negb (String.eqb (gid g) a)) G ++ found G a)%list.
Proof.
  intros G a Hn Ha. unfold move_last, found. rewrite get_group_lookup by exact Ha.
  destruct (lookup G a) as [g|] eqn:E.
  - rewrite remove_first_filter by exact Hn. reflexivity.
  - rewrite app_nil_r. symmetry. apply filter_all. intros g Hg. apply negb_true_iff. apply String.eqb_neq.
    intro E2. apply lookup_none in E. apply E. rewrite <- E2. apply in_map. exact Hg.
Qed.

Lemma fold_move_last : forall L G, NoDup (map gid G) -> NoDup L -> ~ In "" L ->
  fold_left move_last L G =
  (filter (fun g => negb (memS (gid g) L)) G ++ flat_map (found G) L)%list.
Proof.
  induction L as [|a L IH]; intros G Hn HL Hne; simpl.
  - rewrite app_nil_r. symmetry. apply filter_all. intros; reflexivity.
  - inversion HL as [|x l Ha HL']; subst.
    assert (Hane : a <> "") by (intro E; apply Hne; left; exact E).
    assert (HP : Permutation G (move_last G a)) by (apply Permutation_sym, move_last_perm).
    assert (Hn1 : NoDup (map gid (move_last G a))).
    { eapply Permutation_NoDup; [apply Permutation_map; exact HP | exact Hn]. }
    rewrite IH; [|exact Hn1 | exact HL' | intro E; apply Hne; right; exact E].
    assert (Hf : flat_map (found (move_last G a)) L = flat_map (found G) L).
    { apply flat_map_ext. intros b. unfold found. rewrite (lookup_perm G (move_last G a) b HP Hn). reflexivity. }
    rewrite Hf. rewrite move_last_shape by assumption.
    rewrite filter_app, filter_filter. rewrite <- app_assoc. f_equal.
    + apply filter_ext. intros g. unfold memS at 2. simpl. rewrite negb_orb. reflexivity.
    + f_equal. unfold found. destruct (lookup G a) as [g|] eqn:E; [|reflexivity]. simpl.
      destruct (lookup_some _ _ _ E) as [_ Hg]. rewrite Hg.
      destruct (memS a L) eqn:Em; [apply memS_iff in Em; contradiction | reflexivity].
Qed.

Definition default_names : list string := ["soma_group"; "axon_group"; "dendrite_group"; "all"].

Lemma memS_default : forall a, memS a default_names = is_default a.
Proof.
  intros a. unfold memS, default_names, is_default. simpl.
  destruct (String.eqb a "soma_group"), (String.eqb a "axon_group"), (String.eqb a "dendrite_group"), (String.eqb a "all");
    reflexivity.
Qed.

Theorem reorder_shape : forall G, NoDup (map gid G) ->
  reorder G = (filter (fun g => negb (is_default (gid g))) G ++ flat_map (found G) default_names)%list.
Proof.
  intros G Hn. unfold reorder. fold default_names. rewrite fold_move_last.
  - f_equal. apply filter_ext. intros g. rewrite memS_default. reflexivity.
  - exact Hn.
  - unfold default_names. repeat constructor; simpl; intuition discriminate.
  - unfold default_names. simpl. intuition discriminate.
Qed.

(* ---------- "defined before use" ---------- *)
Lemma ordered_from_spec : forall G seen,
  (forall pre g post i, G = (pre ++ g :: post)%list -> In i (includes g) -> In i seen \/ In i (map gid pre)) ->
  ordered_from seen G = true.
Proof.
  induction G as [|g G IH]; intros seen H; simpl; [reflexivity|].
  apply andb_true_iff. split.
  - apply forallb_forall. intros i Hi. apply memS_iff.
    destruct (H [] g G i eq_refl Hi) as [Hs|[]]. exact Hs.
  - apply IH. intros pre h post i E Hi.
    destruct (H (g :: pre) h post i) as [Hs|Hs]; [simpl; rewrite E; reflexivity | exact Hi | left; right; exact Hs|].
    simpl in Hs. destruct Hs as [Hs|Hs]; [left; left; exact Hs | right; exact Hs].
Qed.

Lemma split_prefix : forall (U M pre post : list group) g,
  (U ++ M = pre ++ g :: post)%list -> ~ In g U -> exists M1, pre = (U ++ M1)%list.
Proof.
  induction U as [|u U IH]; intros M pre post g E Hn; simpl in *.
  - exists pre. reflexivity.
  - destruct pre as [|p pre]; simpl in E.
    + inversion E; subst. exfalso. apply Hn. left. reflexivity.
    + inversion E; subst. destruct (IH M pre post g H1) as [M1 HM1]; [intro Hin; apply Hn; right; exact Hin|].
      exists M1. rewrite HM1. reflexivity.
Qed.

Theorem reorder_ordered : forall G, GStruct G -> ordered (reorder G) = true.
Proof.
  intros G [Hn [Hne [Hu Hd]]]. unfold ordered. apply ordered_from_spec.
  intros pre g post i E Hi. right.
  rewrite reorder_shape in E by exact Hn.
  set (U := filter (fun g => negb (is_default (gid g))) G) in *.
  assert (HgG : In g G).
  { eapply Permutation_in; [apply reorder_perm|]. rewrite reorder_shape by exact Hn. fold U. rewrite E.
    apply in_or_app. right. left. reflexivity. }
  assert (Hgd : is_default (gid g) = true).
  { destruct (is_default (gid g)) eqn:Ed; [reflexivity|]. rewrite (Hu g HgG Ed) in Hi. contradiction. }
  assert (HnU : ~ In g U).
  { unfold U. intro Hin. apply filter_In in Hin. destruct Hin as [_ Hin]. rewrite Hgd in Hin. discriminate. }
  destruct (split_prefix U _ pre post g E HnU) as [M1 Hpre].
  destruct (Hd g i HgG Hi) as [Hind Hiin].
  apply in_map_iff in Hiin. destruct Hiin as [gi [Hgi HgiG]].
  rewrite Hpre, map_app. apply in_or_app. left. apply in_map_iff. exists gi. split; [exact Hgi|].
  unfold U. apply filter_In. split; [exact HgiG|]. rewrite Hgi, Hind. reflexivity.
Qed.

Lemma ordered_same_shape : forall G G' seen, same_shape G G' -> ordered_from seen G = true -> ordered_from seen G' = true.
Proof.
  intros G G' seen H. revert seen. induction H as [|g g' l l' [Hid [Hinc _]] _ IH]; intros seen Ho; simpl in *; [reflexivity|].
  apply andb_true_iff in Ho. destruct Ho as [H1 H2]. apply andb_true_iff. split.
  - rewrite forallb_forall in *. intros i Hi. apply H1. apply Hinc. exact Hi.
  - rewrite Hid. apply IH. exact H2.
Qed.
