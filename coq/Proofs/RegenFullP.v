From Coq Require Import String List Bool.
From LNML Require Import Model.Regen Model.RegenFull Proofs.RegenP.
Import ListNotations.
Open Scope string_scope.

Lemma units_eqb_eq a : forall b, units_eqb a b = true -> a = b.
Proof.
  induction a as [|[[o1 m1] d1] a IH]; intros [|[[o2 m2] d2] b] H; simpl in H; try discriminate; auto.
  apply andb_true_iff in H as [H H4]. apply andb_true_iff in H as [H H3]. apply andb_true_iff in H as [H1 H2].
  apply String.eqb_eq in H1, H2, H3. subst. f_equal. auto.
Qed.

Lemma units_eqb_refl a : units_eqb a a = true.
Proof. induction a as [|[[o m] d] a IH]; simpl; auto. rewrite !String.eqb_refl, IH. reflexivity. Qed.

Definition full_spec (f : full_facts) : Prop :=
  (* unit for unit, in the same order *)
  ff_regen f = ff_shipped f /\
  (* every (owner, member) pair: same definition on both sides, present on both sides or on neither *)
  (forall o m, unit_of (ff_regen f) o m = unit_of (ff_shipped f) o m) /\
  (* the classes (and module-level statements) are the same, in the same order *)
  owners (ff_regen f) = owners (ff_shipped f) /\
  (* whatever is computed from the units is the same on both sides *)
  (forall (B : Type) (sem : list unit -> B), sem (ff_regen f) = sem (ff_shipped f)) /\
  (* the shipped header records the options the regeneration script passes *)
  ff_header_opts f = ff_script_opts f.

Theorem full_sound f : full_ok f = true -> full_spec f.
Proof.
  unfold full_ok, full_spec. intro H. apply andb_true_iff in H as [H1 H2].
  apply units_eqb_eq in H1. apply pairs_eqb_eq in H2. rewrite H1. repeat split; auto.
Qed.

Theorem full_complete f : full_spec f -> full_ok f = true.
Proof.
  unfold full_ok, full_spec. intros (E & _ & _ & _ & O). rewrite E, O, units_eqb_refl, pairs_eqb_refl. reflexivity.
Qed.

(* a one-sided change of any unit is seen *)
Theorem one_sided_change_detected f o m d d' :
  unit_of (ff_regen f) o m = Some d -> unit_of (ff_shipped f) o m = Some d' -> d <> d' -> full_ok f = false.
Proof.
  intros H1 H2 N. destruct (full_ok f) eqn:E; auto. apply full_sound in E. destruct E as (_ & U & _).
  rewrite U in H1. congruence.
Qed.

Theorem missing_unit_detected f o m d :
  unit_of (ff_regen f) o m = Some d -> unit_of (ff_shipped f) o m = None -> full_ok f = false.
Proof.
  intros H1 H2. destruct (full_ok f) eqn:E; auto. apply full_sound in E. destruct E as (_ & U & _).
  rewrite U in H1. congruence.
Qed.

Example full_example_ok :
  full_ok {| ff_regen := [("<module>", "import math", "aa"); ("Segment", "length", "bb")];
             ff_shipped := [("<module>", "import math", "aa"); ("Segment", "length", "bb")];
             ff_header_opts := [("-o", "nml.py")]; ff_script_opts := [("-o", "nml.py")] |} = true.
Proof. vm_compute. reflexivity. Qed.

Example full_example_bad :
  full_ok {| ff_regen := [("Segment", "length", "bb")];
             ff_shipped := [("<module>", "import math", "aa"); ("Segment", "length", "bb")];
             ff_header_opts := []; ff_script_opts := [] |} = false.
Proof. vm_compute. reflexivity. Qed.
