(* Accept direction: on a tree that conforms to the schema (Xsd.conformsb), for tables whose validate_ statements are
   all implied by the schema (Xsd.agree_val_cls), validate collects no message -- in both recursion variants,
   recursive or not, for trees of any size and depth. *)
From Coq Require Import String List ZArith Bool Arith Lia.
From LNML Require Import Lib.Dec Lib.Regex Model.Gds Model.Validate Model.Xsd
     Proofs.RegexP Proofs.DecP Proofs.ValidateP Proofs.ValidateP2.
Import ListNotations.
Open Scope string_scope.
Open Scope nat_scope.

(* ---------------------------------------------------------------- small list facts *)
Lemma mem_true_In k l : mem k l = true -> In k l.
Proof.
  induction l as [|x l IH]; simpl; [discriminate|]. intro H. apply orb_true_iff in H as [H|H].
  - left. apply String.eqb_eq. exact H.
  - right. auto.
Qed.

Lemma lookup_Some_In {A} k (l : list (string * A)) v : lookup k l = Some v -> In (k, v) l.
Proof.
  induction l as [|[k' v'] l IH]; simpl; [discriminate|]. destruct (String.eqb k' k) eqn:E.
  - intro H. inversion H; subst. apply String.eqb_eq in E. subst. left. reflexivity.
  - intro H. right. auto.
Qed.

Lemma flat_map_nil_inv {A B} (f : A -> list B) l : flat_map f l = [] -> forall x, In x l -> f x = [].
Proof.
  induction l as [|a l IH]; simpl; intros E x Hin; [contradiction|].
  apply app_eq_nil in E as [E1 E2]. destruct Hin as [->|Hin]; auto.
Qed.

Lemma forallb_In {A} (p : A -> bool) l x : forallb p l = true -> In x l -> p x = true.
Proof. intros H Hin. rewrite forallb_forall in H. auto. Qed.

(* ---------------------------------------------------------------- induction over particles *)
Section PInd.
Variable P : particle -> Prop.
Hypothesis HE : forall t ty lo hi, P (PElem t ty lo hi).
Hypothesis HS : forall l, Forall P l -> P (PSeq l).
Hypothesis HC : forall lo hi l, Forall P l -> P (PChoice lo hi l).
Hypothesis HA : forall l, Forall P l -> P (PAll l).
Hypothesis HY : forall lo hi, P (PAny lo hi).
Fixpoint particle_ind' (p : particle) : P p :=
  let go := fix go (l : list particle) : Forall P l :=
              match l with [] => Forall_nil P | x :: r => Forall_cons x (particle_ind' x) (go r) end in
  match p with
  | PElem t ty lo hi => HE t ty lo hi
  | PSeq l => HS l (go l)
  | PChoice lo hi l => HC lo hi l (go l)
  | PAll l => HA l (go l)
  | PAny lo hi => HY lo hi
  end.
End PInd.

Lemma plain_fold_counts cnt t l :
  Forall (fun p => forall xlo xhi, counts_ok cnt p = true -> plain_bounds t p = Some (xlo, xhi) ->
                   xlo <= cnt t /\ (forall h, xhi = Some h -> cnt t <= h)) l ->
  forall xlo xhi, forallb (counts_ok cnt) l = true ->
  fold_right (fun q acc => match plain_bounds t q with Some b => Some b | None => acc end) None l = Some (xlo, xhi) ->
  xlo <= cnt t /\ (forall h, xhi = Some h -> cnt t <= h).
Proof.
  induction 1 as [|x l Hx Hl IH]; simpl; intros xlo xhi Hc Hb; [discriminate|].
  apply andb_true_iff in Hc as [Hc1 Hc2].
  destruct (plain_bounds t x) as [b|] eqn:E.
  - inversion Hb; subst. apply Hx; assumption.
  - apply IH; assumption.
Qed.

Lemma plain_bounds_counts cnt t : forall p xlo xhi,
  counts_ok cnt p = true -> plain_bounds t p = Some (xlo, xhi) ->
  xlo <= cnt t /\ (forall h, xhi = Some h -> cnt t <= h).
Proof.
  induction p as [tag ty lo hi|l IH|lo hi l IH|l IH|lo hi] using particle_ind'; intros xlo xhi Hc Hb.
  - simpl in Hb, Hc. destruct (String.eqb tag t) eqn:E; [|discriminate]. apply String.eqb_eq in E. subst tag.
    inversion Hb; subst. apply andb_true_iff in Hc as [H1 H2]. apply Nat.leb_le in H1. split; [exact H1|].
    intros h ->. apply Nat.leb_le in H2. exact H2.
  - simpl in Hb, Hc. eapply plain_fold_counts; eauto.
  - simpl in Hb. discriminate.
  - simpl in Hb, Hc. eapply plain_fold_counts; eauto.
  - simpl in Hb. discriminate.
Qed.

Lemma plain_bounds_of_counts cnt t ps xlo xhi :
  forallb (counts_ok cnt) ps = true -> plain_bounds_of ps t = Some (xlo, xhi) ->
  xlo <= cnt t /\ (forall h, xhi = Some h -> cnt t <= h).
Proof.
  unfold plain_bounds_of. apply plain_fold_counts. apply Forall_forall. intros p _. apply plain_bounds_counts.
Qed.

Section P3.
Variable F : Type.
Variable F_eqb : F -> F -> bool.
Variable F_ltb : F -> F -> bool.
Variable F_of_dec : dec -> F.
Variable parse_float : string -> option F.
Variable finite : F -> bool.
Variable good : string -> bool.

Notation value := (value F).
Notation obj := (obj F).
Notation conformsb := (conformsb F_eqb F_ltb F_of_dec parse_float finite good).
Notation attr_conf := (attr_conf F_eqb F_ltb F_of_dec finite).
Notation kid_conf := (kid_conf F_eqb F_ltb F_of_dec parse_float finite).
Notation value_ok := (value_ok F_eqb F_ltb F_of_dec finite).
Notation run_stv := (run_stv F F_eqb F_ltb F_of_dec).
Notation item_msgs := (item_msgs F_eqb F_ltb F_of_dec parse_float).
Notation local_msgs := (local_msgs F_eqb F_ltb F_of_dec parse_float).
Notation own_msgs := (own_msgs F_eqb F_ltb F_of_dec parse_float).
Notation validate := (validate F_eqb F_ltb F_of_dec parse_float).
Notation validate_members := (validate_members F_eqb F_ltb F_of_dec parse_float).
Notation validate_gen := (validate_gen F_eqb F_ltb F_of_dec parse_float).
Notation validate_own := (validate_own F_eqb F_ltb F_of_dec parse_float).

Lemma conformsb_S f T S (o : obj) :
  conformsb (Datatypes.S f) T S o = true ->
  let c := o_cls F o in
  let EK := exp_kids_of (cfuel T) T c in
  let PS := eff_parts S c in
  good c = true /\
  forallb (attr_conf S o (eff_attrs S c)) (exp_attrs_of (cfuel T) T c) = true /\
  forallb (kid_conf S (conformsb f T S) o PS) EK = true /\
  forallb (counts_ok (cnt_of o EK)) PS = true /\
  forallb (holder_ok EK) (o_fields F o) = true.
Proof.
  simpl. destruct (find_cls T (o_cls F o)); [|discriminate]. destruct (find_ct (s_ctypes S) (o_cls F o)); [|discriminate].
  intro H. repeat (apply andb_true_iff in H as [H ?]). auto.
Qed.

(* the children the recursion of validate visits conform, with one unit of fuel less *)
Lemma conforms_kids f T S (o : obj) m ch :
  conformsb (Datatypes.S f) T S o = true -> In ch (kids_of (field o m)) -> conformsb f T S ch = true.
Proof.
  intros Hc Hin. apply conformsb_S in Hc as (_ & _ & Hk & _ & Hh). cbv zeta in *.
  unfold field in Hin. destruct (lookup m (o_fields F o)) as [v|] eqn:El; [|simpl in Hin; contradiction].
  simpl in Hin. pose proof (lookup_Some_In _ _ _ El) as Hf.
  pose proof (forallb_In _ _ _ Hh Hf) as Hho. unfold holder_ok in Hho. simpl in Hho.
  assert (Hm : mem m (map ek_py (exp_kids_of (cfuel T) T (o_cls F o))) = true).
  { apply orb_true_iff in Hho as [H|H]; [exact H|]. destruct v as [| | | |o'|[|x l]|]; simpl in Hin; try contradiction; discriminate. }
  apply mem_true_In in Hm. apply in_map_iff in Hm as (ek & Hpy & Hek).
  pose proof (forallb_In _ _ _ Hk Hek) as Hkc. unfold Xsd.kid_conf in Hkc. rewrite Hpy, El in Hkc.
  apply andb_true_iff in Hkc as [_ Hkc].
  destruct v as [| | | |o'|l|]; simpl in Hin; try contradiction.
  - destruct Hin as [<-|[]]. destruct (ek_kind ek); try discriminate.
    destruct (decl_of _ _); [|discriminate]. apply andb_true_iff in Hkc as [_ H]. exact H.
  - destruct (ek_kind ek); try discriminate. destruct (decl_of _ _); [|discriminate].
    pose proof (forallb_In _ _ _ Hkc Hin) as H. apply andb_true_iff in H as [_ H]. exact H.
Qed.

(* ---------------------------------------------------------------- no statement of any validate_ reports anything *)
Lemma value_scalar S a (v : value) : value_ok S a v = true ->
  exists st, find_st (s_stypes S) (xa_type a) = Some st /\
  ((exists s, v = VStr s /\ prim_is_string (st_prim st) = true /\ printable s = true /\ string_ok st s = true) \/
   (exists x, v = VFlt x /\ (st_prim st = PFloat \/ st_prim st = PDouble) /\
              float_facets_ok F_eqb F_ltb F_of_dec st x = true) \/
   (exists z, v = VInt z /\ (st_prim st = PNonNegInt \/ st_prim st = PPosInt))).
Proof.
  unfold Xsd.value_ok. destruct (find_st (s_stypes S) (xa_type a)) as [st|]; [|discriminate].
  intro H. exists st. split; [reflexivity|].
  destruct (st_prim st) eqn:Ep; destruct v; try discriminate.
  - left. eexists; split; [reflexivity|]. apply andb_true_iff in H as [H _]. apply andb_true_iff in H as [H1 H2]. auto.
  - left. eexists; split; [reflexivity|]. apply andb_true_iff in H as [H _]. apply andb_true_iff in H as [H _].
    apply andb_true_iff in H as [H1 H2]. auto.
  - right; left. eexists; split; [reflexivity|]. split; [auto|]. apply andb_true_iff in H as [H _].
    unfold float_ok in H. unfold float_facets_ok. apply andb_true_iff in H as [H H3]. apply andb_true_iff in H as [_ H2].
    rewrite H2, H3. reflexivity.
  - right; left. eexists; split; [reflexivity|]. split; [auto|]. apply andb_true_iff in H as [H _].
    unfold float_ok in H. unfold float_facets_ok. apply andb_true_iff in H as [H H3]. apply andb_true_iff in H as [_ H2].
    rewrite H2, H3. reflexivity.
  - right; right. eexists; split; [reflexivity|]. auto.
  - right; right. eexists; split; [reflexivity|]. auto.
Qed.

Lemma sv_accepts_exact sv st : (forall p, st_prim st = p -> p <> PNonNegInt /\ p <> PPosInt) ->
  sv_accepts sv st = true -> sv_exact sv st = true.
Proof.
  intros Hp. unfold sv_accepts. destruct (st_prim st) eqn:E; auto; destruct (Hp _ eq_refl); congruence.
Qed.

(* what a member that carries a simple type holds on a conforming object *)
Lemma member_value f T S (o : obj) m xt is_attr oa :
  conformsb (Datatypes.S f) T S o = true ->
  member_stype T S (o_cls F o) m = Some (xt, is_attr, oa) ->
  field o m = VNone /\ (forall a, oa = Some a -> xa_req a = false) \/
  (exists s, field o m = VStr s /\ prim_is_string (st_prim xt) = true /\ printable s = true /\ string_ok xt s = true) \/
  (exists x, field o m = VFlt x /\ (st_prim xt = PFloat \/ st_prim xt = PDouble) /\
             float_facets_ok F_eqb F_ltb F_of_dec xt x = true) \/
  (exists z, field o m = VInt z /\ (st_prim xt = PNonNegInt \/ st_prim xt = PPosInt)).
Proof.
  intros Hc Hms. apply conformsb_S in Hc as (_ & Ha & Hk & _ & _). cbv zeta in *.
  unfold member_stype in Hms. set (c := o_cls F o) in *.
  destruct (find_ea_py m (exp_attrs_of (cfuel T) T c)) as [ea|] eqn:Eea.
  - unfold find_ea_py in Eea. apply find_some in Eea as [Hin Hpy]. apply String.eqb_eq in Hpy.
    destruct (find_xa (eff_attrs S c) (ea_xml ea)) as [a|] eqn:Exa; [|discriminate].
    destruct (find_st (s_stypes S) (xa_type a)) as [st|] eqn:Est; [|discriminate]. inversion Hms; subst xt is_attr oa.
    pose proof (forallb_In _ _ _ Ha Hin) as Hac. unfold Xsd.attr_conf in Hac. rewrite Exa, Hpy in Hac.
    unfold field. destruct (lookup m (o_fields F o)) as [v|]; [|discriminate]. simpl.
    destruct v as [|s|z|x|o'|l|l].
    + left. split; [reflexivity|]. intros a' Ha'. inversion Ha'; subst. apply andb_true_iff in Hac as [H _].
      apply negb_true_iff in H. exact H.
    + right. apply value_scalar in Hac as (st' & Hst' & Hv). rewrite Est in Hst'. inversion Hst'; subst st'.
      destruct Hv as [(s0 & E & H)|[(x & E & H)|(z & E & H)]]; inversion E; subst. left. eauto.
    + right. apply value_scalar in Hac as (st' & Hst' & Hv). rewrite Est in Hst'. inversion Hst'; subst st'.
      destruct Hv as [(s0 & E & H)|[(x & E & H)|(z0 & E & H)]]; inversion E; subst. right; right. eauto.
    + right. apply value_scalar in Hac as (st' & Hst' & Hv). rewrite Est in Hst'. inversion Hst'; subst st'.
      destruct Hv as [(s0 & E & H)|[(x0 & E & H)|(z0 & E & H)]]; inversion E; subst. right; left. eauto.
    + apply value_scalar in Hac as (st' & _ & [(? & E & _)|[(? & E & _)|(? & E & _)]]); discriminate.
    + apply value_scalar in Hac as (st' & _ & [(? & E & _)|[(? & E & _)|(? & E & _)]]); discriminate.
    + apply value_scalar in Hac as (st' & _ & [(? & E & _)|[(? & E & _)|(? & E & _)]]); discriminate.
  - destruct (find_ek_py m (exp_kids_of (cfuel T) T c)) as [ek|] eqn:Eek; [|discriminate].
    unfold find_ek_py in Eek. apply find_some in Eek as [Hin Hpy]. apply String.eqb_eq in Hpy.
    destruct (ek_kind ek) eqn:Ekind; try discriminate.
    destruct (decl_of (eff_parts S c) (ek_tag ek)) as [ty|] eqn:Ed; [|discriminate].
    destruct (find_st (s_stypes S) ty) as [st|] eqn:Est; [|discriminate].
    destruct (prim_is_string (st_prim st)) eqn:Eps; [|discriminate]. inversion Hms; subst xt is_attr oa.
    pose proof (forallb_In _ _ _ Hk Hin) as Hkc. unfold Xsd.kid_conf in Hkc. rewrite Hpy, Ekind, Ed in Hkc.
    unfold field. destruct (lookup m (o_fields F o)) as [v|]; [|discriminate]. simpl.
    apply andb_true_iff in Hkc as [_ Hkc].
    destruct v as [|s|z|x|o'|l|l]; try discriminate.
    + left. split; [reflexivity|]. intros a' Ha'. discriminate.
    + right; left. exists s. split; [reflexivity|]. split; [exact Eps|]. apply andb_true_iff in Hkc as [Hp Hl].
      split; [exact Hp|]. unfold lex_ok_named in Hl. rewrite Est in Hl. unfold lex_ok in Hl.
      destruct (st_prim st); simpl in Eps; try discriminate; [exact Hl | apply andb_true_iff in Hl as [_ Hl]; exact Hl].
Qed.

Lemma scalar_card m (v : value) req :
  (forall b, req = Some b -> b = true -> v <> VNone) ->
  (v = VNone \/ (exists s, v = VStr s) \/ (exists x, v = VFlt x) \/ (exists z, v = VInt z)) ->
  card_msgs F m v req 0 1 = [].
Proof.
  intros Hreq Hv. unfold card_msgs.
  destruct Hv as [->|[(s & ->)|[(x & ->)|(z & ->)]]]; simpl; try (destruct req as [[|]|]; reflexivity).
  destruct req as [[|]|]; try reflexivity. exfalso. apply (Hreq true eq_refl eq_refl). reflexivity.
Qed.

Variable V : vtables.
Variable T : tables.
Variable S : schema.
Hypothesis Hgood : forall c, good c = true -> agree_val_cls V T S c = true.

Lemma item_quiet f (o : obj) it :
  conformsb (Datatypes.S f) T S o = true ->
  item_sound V T S (o_cls F o) it = true ->
  item_msgs (mro V (o_cls F o)) o it = [].
Proof.
  intros Hc Hs. set (c := o_cls F o) in *. destruct it as [m g|m stn|m req|m lo hi]; simpl in Hs |- *.
  - (* builtin *)
    destruct (member_stype T S c m) as [[[xt ia] oa]|] eqn:Ems; [|discriminate].
    destruct (member_value f T S o m xt ia oa Hc Ems) as [[-> _]|[(s & -> & Hp & _)|[(x & -> & _)|(z & -> & _)]]];
      try reflexivity.
    + destruct g; try reflexivity; destruct (st_prim xt); simpl in Hp, Hs; discriminate.
    + destruct g; reflexivity.
    + destruct g; reflexivity.
  - (* defined *)
    destruct (member_stype T S c m) as [[[xt ia] oa]|] eqn:Ems; [|discriminate].
    destruct (find_stv (mro V c) stn) as [sv|] eqn:Esv; [|discriminate].
    destruct (member_value f T S o m xt ia oa Hc Ems)
      as [[-> _]|[(s & -> & Hp & Hpr & Hok)|[(x & -> & Hp & Hok)|(z & -> & Hp)]]]; try reflexivity.
    + apply (run_stv_string F F_eqb F_ltb F_of_dec parse_float sv xt s Hp); [|exact Hpr|exact Hok].
      apply sv_accepts_exact; [|exact Hs]. intros p Ep. rewrite Ep in Hp. split; intro Hx; rewrite Hx in Hp; discriminate.
    + apply (run_stv_float F F_eqb F_ltb F_of_dec parse_float finite sv xt x Hp); [|exact Hok].
      apply sv_accepts_exact; [|exact Hs]. intros p Ep. split; intro; subst; destruct Hp; congruence.
    + apply (run_stv_int F F_eqb F_ltb F_of_dec sv xt z Hp Hs).
  - (* required *)
    destruct (member_stype T S c m) as [[[xt [|]] [a|]]|] eqn:Ems; try discriminate.
    destruct (member_value f T S o m xt true (Some a) Hc Ems)
      as [[E Hr]|[(s & E & _)|[(x & E & _)|(z & E & _)]]]; rewrite E; apply scalar_card; eauto; try (intros; discriminate).
    intros b Hb Hbt. inversion Hb; subst. rewrite (Hr a eq_refl) in Hs. discriminate.
  - (* cardinality *)
    destruct (find_ek_py m (exp_kids_of (cfuel T) T c)) as [ek|] eqn:Eek; [|discriminate].
    destruct (plain_bounds_of (eff_parts S c) (ek_tag ek)) as [[xlo xhi]|] eqn:Eb; [|discriminate].
    destruct (find_ek_tag (ek_tag ek) (exp_kids_of (cfuel T) T c)) as [e'|] eqn:Et; [|discriminate].
    apply andb_true_iff in Hs as [Hs _]. apply andb_true_iff in Hs as [Hs Hhi]. apply andb_true_iff in Hs as [Hpy Hlo].
    apply String.eqb_eq in Hpy. apply Z.leb_le in Hlo.
    apply conformsb_S in Hc as (_ & _ & Hk & Hcnt & _). cbv zeta in *. fold c in Hk, Hcnt.
    destruct (plain_bounds_of_counts _ _ _ _ _ Hcnt Eb) as [H1 H2].
    assert (Ecnt : cnt_of o (exp_kids_of (cfuel T) T c) (ek_tag ek) = vcount (field o m)).
    { unfold cnt_of. rewrite Et, Hpy. reflexivity. }
    rewrite Ecnt in H1, H2.
    unfold find_ek_py in Eek. apply find_some in Eek as [Hin Hpy']. apply String.eqb_eq in Hpy'.
    pose proof (forallb_In _ _ _ Hk Hin) as Hkc. unfold Xsd.kid_conf in Hkc. rewrite Hpy' in Hkc.
    assert (Hub : (Z.of_nat (vcount (field o m)) <= gds_unbounded)%Z).
    { unfold field. destruct (lookup m (o_fields F o)) as [v|]; [|discriminate].
      apply andb_true_iff in Hkc as [Hu _]. apply Z.leb_le in Hu. exact Hu. }
    unfold card_msgs. rewrite card_len_vcount. simpl.
    assert ((Z.of_nat (vcount (field o m)) <? lo)%Z = false) as -> by (apply Z.ltb_ge; lia).
    assert ((hi <? Z.of_nat (vcount (field o m)))%Z = false) as ->; [|reflexivity].
    apply Z.ltb_ge. destruct xhi as [h|].
    + apply Z.leb_le in Hhi. specialize (H2 h eq_refl). lia.
    + apply Z.leb_le in Hhi. lia.
Qed.

Lemma conforms_local f (o : obj) : conformsb (Datatypes.S f) T S o = true -> local_msgs V o = [].
Proof.
  intro Hc. pose proof (conformsb_S _ _ _ _ Hc) as (Hg & _). cbv zeta in Hg. apply Hgood in Hg.
  unfold agree_val_cls in Hg. unfold Validate.local_msgs. apply flat_map_nil. intros k Hk.
  unfold Validate.own_msgs. rewrite (flat_map_nil (item_msgs (mro V (o_cls F o)) o)); [reflexivity|].
  intros it Hit. apply (item_quiet f o it Hc).
  exact (forallb_In _ _ _ (forallb_In _ _ _ Hg Hk) Hit).
Qed.

Lemma conforms_pos n (o : obj) : conformsb n T S o = true -> exists f, n = Datatypes.S f.
Proof. destruct n; [discriminate | eauto]. Qed.

Lemma members_accept : forall fuel n (o : obj) rec,
  odepth o <= fuel -> conformsb n T S o = true -> validate_members fuel V o rec = [].
Proof.
  induction fuel as [|fuel IH]; intros n o rec Hd Hc.
  - pose proof (odepth_pos F o). lia.
  - destruct (conforms_pos n o Hc) as [f ->]. rewrite validate_members_unfold.
    rewrite (conforms_local f o Hc). simpl. destruct rec; [|reflexivity].
    apply flat_map_nil. intros k _. apply flat_map_nil. intros m _. apply flat_map_nil. intros ch Hch.
    apply (IH f ch true); [|exact (conforms_kids f T S o m ch Hc Hch)].
    pose proof (odepth_kid F o m ch Hch). lia.
Qed.

Lemma own_accept : forall fuel n (o : obj),
  odepth o <= fuel -> conformsb n T S o = true -> validate_own fuel V o = [].
Proof.
  induction fuel as [|fuel IH]; intros n o Hd Hc.
  - pose proof (odepth_pos F o). lia.
  - destruct (conforms_pos n o Hc) as [f ->]. simpl.
    pose proof (conforms_local f o Hc) as Hl. unfold Validate.local_msgs in Hl.
    destruct (mro V (o_cls F o)) as [|k rest] eqn:Em; [reflexivity|].
    rewrite (flat_map_nil_inv _ _ Hl k (or_introl eq_refl)). simpl.
    apply flat_map_nil. intros mr _. apply flat_map_nil. intros ch Hch.
    apply (IH f ch); [|exact (conforms_kids f T S o (fst mr) ch Hc Hch)].
    pose proof (odepth_kid F o (fst mr) ch Hch). lia.
Qed.

(* C02, first half: a conforming tree passes validate(), recursive or not, whichever code does the recursion *)
Theorem conforming_accepted n (o : obj) rec : conformsb n T S o = true -> validate V o rec = [].
Proof.
  intro Hc. unfold Validate.validate. destruct (vt_mode V).
  - destruct (conforms_pos n o Hc) as [f ->]. unfold Validate.validate_gen.
    pose proof (conforms_local f o Hc) as Hl. unfold Validate.local_msgs in Hl.
    apply flat_map_nil. intros k Hk. rewrite (flat_map_nil_inv _ _ Hl k Hk). simpl.
    destruct rec; [|reflexivity].
    apply flat_map_nil. intros mr _. apply flat_map_nil. intros ch Hch.
    apply (own_accept (odepth o) f ch); [|exact (conforms_kids f T S o (fst mr) ch Hc Hch)].
    pose proof (odepth_kid F o (fst mr) ch Hch). lia.
  - apply (members_accept _ n o rec); [lia | exact Hc].
Qed.

End P3.
