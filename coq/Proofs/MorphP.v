(* C13 proofs, part 1: list-level facts that hold for EVERY segment list (no tree hypothesis):
   the adjacency list, rational square roots, sorting. *)
From Coq Require Import List ZArith QArith Qabs Bool Lia Permutation.
From LNML Require Import Model.Morph.
Import ListNotations.
Open Scope Z_scope.

(* ------------------------------------------------------------------ adjacency list *)
Definition is_child_of (p : Z) (s : seg) : bool :=
  match sparent s with Some (q, _) => q =? p | None => false end.

Lemma children_app : forall c1 c2 p, children (c1 ++ c2) p = (children c1 p ++ children c2 p)%list.
Proof. intros. unfold children. now rewrite filter_app, map_app. Qed.

Lemma alookup_adj_add_same : forall a p ch,
  alookup (adj_add a p ch) p = Some (match alookup a p with Some l => l ++ [ch] | None => [ch] end)%list.
Proof.
  induction a as [|[k v] r IH]; intros p ch; simpl.
  - now rewrite Z.eqb_refl.
  - destruct (k =? p) eqn:E; simpl; rewrite E; auto.
Qed.

Lemma alookup_adj_add_other : forall a p ch q, q <> p -> alookup (adj_add a p ch) q = alookup a q.
Proof.
  induction a as [|[k v] r IH]; intros p ch q Hq; simpl.
  - destruct (p =? q) eqn:E; auto. apply Z.eqb_eq in E. congruence.
  - destruct (k =? p) eqn:E; simpl.
    + apply Z.eqb_eq in E. subst k.
      assert (p =? q = false) as -> by (apply Z.eqb_neq; congruence). reflexivity.
    + now rewrite IH.
Qed.

Definition adj_spec (a : adj) (c : cell) : Prop :=
  forall p, alookup a p = match children c p with [] => None | l => Some l end.

Lemma adj_step_spec : forall a c s, adj_spec a c -> adj_spec (adj_step a s) (c ++ [s]).
Proof.
  intros a c s H p. rewrite children_app. unfold adj_step.
  unfold children at 2. simpl.
  destruct (sparent s) as [[q f]|] eqn:Ep; simpl.
  - destruct (Z.eq_dec q p) as [->|Hne].
    + rewrite Z.eqb_refl. simpl. rewrite alookup_adj_add_same, H.
      destruct (children c p); reflexivity.
    + assert (q =? p = false) as -> by now apply Z.eqb_neq.
      simpl. rewrite app_nil_r, alookup_adj_add_other by congruence. apply H.
  - rewrite app_nil_r. apply H.
Qed.

Lemma fold_adj_spec : forall c2 a c1, adj_spec a c1 -> adj_spec (fold_left adj_step c2 a) (c1 ++ c2).
Proof.
  induction c2 as [|s r IH]; intros a c1 H; simpl.
  - now rewrite app_nil_r.
  - replace (c1 ++ s :: r)%list with ((c1 ++ [s]) ++ r)%list by now rewrite <- app_assoc.
    apply IH. now apply adj_step_spec.
Qed.

(* the adjacency list maps every segment that has children to its children in document order,
   and has no entry for a segment without children — for every segment list *)
Theorem adjacency_spec : forall c p,
  alookup (adjacency c) p = match children c p with [] => None | l => Some l end.
Proof.
  intros c. unfold adjacency. change c with ([] ++ c)%list at 2. apply fold_adj_spec.
  intro p. reflexivity.
Qed.
