(* Facts about Lib/Dec.v used by the round-trip proofs: "%d" / int() round trip, dec_eqb reflects equality. *)
From Coq Require Import String Ascii List ZArith Bool Lia.
From LNML Require Import Lib.Dec.
Import ListNotations.
Open Scope Z_scope.

Lemma digit_of_ascii_of_digit d : 0 <= d < 10 -> digit_of (ascii_of_digit d) = Some d.
Proof.
  intro H.
  assert (C : d = 0 \/ d = 1 \/ d = 2 \/ d = 3 \/ d = 4 \/ d = 5 \/ d = 6 \/ d = 7 \/ d = 8 \/ d = 9) by lia.
  repeat (destruct C as [C | C]; [subst d; reflexivity |]). subst d; reflexivity.
Qed.

(* the digits of n, written in front of acc, read back as n (given enough fuel) *)
Lemma digits_val_show_pos fuel : forall n acc,
  0 <= n < 2 ^ Z.of_nat fuel ->
  digits_val (show_pos_fuel fuel n acc) 0 = digits_val acc n.
Proof.
  induction fuel as [|f IH]; intros n acc Hn.
  - simpl in Hn. assert (n = 0) by lia. subst. reflexivity.
  - cbn [show_pos_fuel]. destruct (n <? 10) eqn:E.
    + apply Z.ltb_lt in E. cbn [digits_val]. rewrite digit_of_ascii_of_digit by lia. f_equal.
    + apply Z.ltb_ge in E. rewrite IH.
      * cbn [digits_val]. rewrite digit_of_ascii_of_digit by (apply Z.mod_pos_bound; lia).
        f_equal. pose proof (Z.div_mod n 10). lia.
      * rewrite Nat2Z.inj_succ, Z.pow_succ_r in Hn by lia.
        split; [apply Z.div_pos; lia|]. apply Z.div_lt_upper_bound; lia.
Qed.

Lemma show_pos_fuel_nonempty fuel : forall n c r, exists c' r', show_pos_fuel fuel n (String c r) = String c' r'.
Proof.
  induction fuel as [|f IH]; intros n c r; cbn [show_pos_fuel]; eauto.
  destruct (n <? 10); eauto.
Qed.

Lemma show_nat_nonempty n : exists c r, show_nat n = String c r.
Proof.
  unfold show_nat. cbn [show_pos_fuel]. destruct (n <? 10); eauto. apply show_pos_fuel_nonempty.
Qed.

Lemma digits_val_show_nat n : 0 <= n -> digits_val (show_nat n) 0 = Some n.
Proof.
  intro Hn. unfold show_nat. rewrite digits_val_show_pos; [reflexivity|].
  split; [assumption|].
  destruct (Z.eq_dec n 0) as [->|Hz]; [reflexivity|].
  assert (Hp : 0 < n) by lia.
  pose proof (Z.log2_spec n Hp) as [_ Hlt]. pose proof (Z.log2_nonneg n) as Hl.
  rewrite Nat2Z.inj_succ, Z2Nat.id by lia.
  eapply Z.lt_trans; [exact Hlt|]. unfold Z.succ. apply Z.pow_lt_mono_r; lia.
Qed.

Lemma parse_nat_str_show_nat n : 0 <= n -> parse_nat_str (show_nat n) = Some n.
Proof.
  intro Hn. destruct (show_nat_nonempty n) as (c & r & E).
  unfold parse_nat_str. rewrite <- (digits_val_show_nat n Hn). rewrite E. reflexivity.
Qed.

Lemma parse_int_digit_head c r : digit_of c <> None -> parse_int (String c r) = parse_nat_str (String c r).
Proof.
  intro H. destruct c as [[] [] [] [] [] [] [] []]; try reflexivity; exfalso; apply H; reflexivity.
Qed.

Theorem parse_int_fmt_int z : parse_int (fmt_int z) = Some z.
Proof.
  unfold fmt_int. destruct (z <? 0) eqn:E.
  - apply Z.ltb_lt in E. cbn [parse_int]. rewrite parse_nat_str_show_nat by lia. cbn. f_equal. lia.
  - apply Z.ltb_ge in E. destruct (show_nat_nonempty z) as (c & r & Es).
    pose proof (digits_val_show_nat z E) as D. rewrite Es in D |- *.
    rewrite parse_int_digit_head.
    + rewrite <- Es. apply parse_nat_str_show_nat; assumption.
    + cbn [digits_val] in D. destruct (digit_of c); congruence.
Qed.

Lemma dec_eqb_eq (a b : dec) : dec_eqb a b = true -> a = b.
Proof.
  destruct a as [m e], b as [m' e']. unfold dec_eqb. cbn [fst snd]. intro H.
  apply andb_true_iff in H as [H1 H2]. apply Z.eqb_eq in H1. apply Nat.eqb_eq in H2. congruence.
Qed.

Lemma dec_eqb_refl (a : dec) : dec_eqb a a = true.
Proof. destruct a as [m e]. unfold dec_eqb. cbn [fst snd]. rewrite Z.eqb_refl, Nat.eqb_refl. reflexivity. Qed.
