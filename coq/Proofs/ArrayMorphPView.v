(* C18 proofs, part 2: the segment view through the physical mask and the conversion to a plain morphology *)
From Coq Require Import String List ZArith Bool Lia.
From LNML Require Import Model.ArrayMorph Proofs.ArrayMorphP.
Import ListNotations.
Open Scope Z_scope.

Lemma zrange_S : forall a len, zrange a (S len) = a :: zrange (a + 1) len.
Proof.
  intros a len. unfold zrange. simpl. f_equal; [lia|].
  rewrite <- seq_shift, map_map. apply map_ext. intros k. lia.
Qed.

Lemma zrange_shift : forall a len, zrange (a + 1) len = map (fun j => j + 1) (zrange a len).
Proof. intros a len. unfold zrange. rewrite map_map. apply map_ext. intros k. lia. Qed.

Lemma nth_error_seq : forall len s j, (j < len)%nat -> nth_error (seq s len) j = Some (s + j)%nat.
Proof.
  induction len as [|len IH]; intros s j Hj; [lia|].
  destruct j as [|j]; simpl; [f_equal; lia|].
  rewrite IH by lia. f_equal. lia.
Qed.

Lemma pyget_zrange : forall a len k, 0 <= k < Z.of_nat len -> pyget (zrange a len) k = Some (a + k).
Proof.
  intros a len k Hk. unfold pyget, pynorm, zlen, zrange. rewrite map_length, seq_length.
  replace (k <? 0) with false by (symmetry; apply Z.ltb_ge; lia).
  replace ((0 <=? k) && (k <? Z.of_nat len)) with true by (symmetry; apply andb_true_iff; split; lia).
  erewrite map_nth_error; [|apply nth_error_seq; lia]. f_equal. lia.
Qed.

Lemma pyget_sget : forall (A : Type) (l : list A) v, 0 <= v -> pyget l v = sget l v.
Proof.
  intros A l v Hv. unfold pyget, pynorm, sget.
  replace (v <? 0) with false by (symmetry; apply Z.ltb_ge; lia).
  destruct ((0 <=? v) && (v <? zlen l)); auto.
Qed.

Lemma sget_in_range : forall (A : Type) (l : list A) v, 0 <= v < zlen l -> exists x, sget l v = Some x.
Proof.
  intros A l v H. unfold sget, zlen in *.
  replace ((0 <=? v) && (v <? Z.of_nat (length l))) with true by (symmetry; apply andb_true_iff; split; lia).
  destruct (nth_error l (Z.to_nat v)) eqn:E; eauto.
  apply nth_error_None in E; lia.
Qed.

Lemma filter_all : forall (A : Type) (f : A -> bool) l, (forall x, In x l -> f x = true) -> filter f l = l.
Proof.
  induction l as [|a l IH]; intros H; simpl; auto.
  rewrite (H a (or_introl eq_refl)). f_equal. apply IH. intros x Hx. apply H. now right.
Qed.

Section View.
  Variable V : Type.
  Notation amorph := (amorph V).

  Lemma where_false_all : forall mask k, existsb (fun b => b) mask = false ->
      where_false k mask = zrange k (length mask).
  Proof.
    induction mask as [|b mask IH]; intros k H; [reflexivity|].
    simpl in H. apply orb_false_iff in H. destruct H as [Hb Hm]. subst b.
    simpl where_false. simpl length. rewrite zrange_S. f_equal. auto.
  Qed.

  Lemma count_true_none : forall mask, existsb (fun b => b) mask = false -> count_true mask = 0.
  Proof.
    intros mask H. unfold count_true. rewrite filter_nil_iff; [reflexivity|].
    intros x Hx. destruct x; auto.
    assert (existsb (fun b => b) mask = true) by (apply existsb_exists; eauto). congruence.
  Qed.

  Lemma no_floating_spec : forall m : amorph, no_floating V m = true ->
      existsb (fun b => b) (am_mask m) = false /\ length (am_mask m) = length (am_vertices m).
  Proof.
    intros m H. unfold no_floating in H. apply andb_true_iff in H. destruct H as [H1 H2].
    apply negb_true_iff in H1. apply Nat.eqb_eq in H2. auto.
  Qed.

  (* without floating vertices, segment k is the segment of vertex k+1 *)
  Lemma segment_at_plain : forall (m : amorph) k, no_floating V m = true ->
      0 <= k < zlen (am_vertices m) ->
      segment_at V m k = segment_from_vertex_index V m (1 + k).
  Proof.
    intros m k Hnf Hk. destruct (no_floating_spec m Hnf) as [H1 H2].
    unfold segment_at, vertex_index_from_segment_index.
    rewrite where_false_all by auto. rewrite <- zrange_shift.
    rewrite pyget_zrange by (unfold zlen in Hk; lia). reflexivity.
  Qed.

  Lemma segments_view_plain : forall m : amorph, no_floating V m = true ->
      segments_view V m = map (segment_from_vertex_index V m) (zrange 1 (Z.to_nat (zlen (am_vertices m) - 1))).
  Proof.
    intros m Hnf. destruct (no_floating_spec m Hnf) as [H1 H2].
    unfold segments_view, num_segments. rewrite count_true_none by auto.
    replace (Z.to_nat (Z.max 0 (zlen (am_vertices m) - 0 - 1))) with (Z.to_nat (zlen (am_vertices m) - 1)) by lia.
    replace (zrange 1 (Z.to_nat (zlen (am_vertices m) - 1)))
      with (map (fun k => 1 + k) (zrange 0 (Z.to_nat (zlen (am_vertices m) - 1)))).
    - rewrite map_map. apply map_ext_in. intros k Hk. apply in_zrange in Hk.
      apply segment_at_plain; auto. lia.
    - unfold zrange. rewrite map_map. apply map_ext. intros; lia.
  Qed.

  (* conversion (repaired code) and segment view are the same list, for every morphology without floating vertices *)
  Theorem convert_is_view : forall m : amorph, no_floating V m = true ->
      to_neuroml_morphology V m = segments_view V m.
  Proof. intros m Hnf. rewrite segments_view_plain by auto. reflexivity. Qed.

  Lemma non_root_vertices_rooted_at_0 : forall c, unique_root c 0 ->
      non_root_vertices c = zrange 1 (Z.to_nat (zlen c - 1)).
  Proof.
    intros c [H0 Hu]. unfold non_root_vertices.
    pose proof (zget_Some_range _ _ _ H0) as Hn.
    replace (length c) with (S (Z.to_nat (zlen c - 1))) by (unfold zlen in *; lia).
    rewrite zrange_S. simpl filter. rewrite H0. simpl.
    apply filter_all. intros x Hx. apply in_zrange in Hx.
    destruct (zget_in_range c x) as [p Hp]; [lia|]. rewrite Hp.
    apply negb_true_iff. apply Z.eqb_neq. intros ->. apply Hu in Hp. lia.
  Qed.

  (* on a tree rooted at vertex 0, vertex v >= 1 yields the segment (row v, row parent v), strictly indexed *)
  Lemma segment_is_expected : forall (m : amorph) v,
      valid_morphology V m = true -> tree_parent (am_conn m) -> unique_root (am_conn m) 0 ->
      1 <= v < zlen (am_conn m) ->
      exists p nv pv,
        zget (am_conn m) v = Some p /\ 0 <= p < zlen (am_conn m) /\
        sget (am_vertices m) v = Some nv /\ sget (am_vertices m) p = Some pv /\
        segment_from_vertex_index V m v = expected_segment V m v /\
        expected_segment V m v = Some {| sg_id := v; sg_prox := nv; sg_dist := pv;
                                         sg_parent := if 1 <? v then Some p else None |}.
  Proof.
    intros m v Hvalid [_ Hreach] [H0 Hu] Hv.
    unfold valid_morphology in Hvalid. apply Nat.eqb_eq in Hvalid.
    assert (Hlen : zlen (am_vertices m) = zlen (am_conn m)) by (unfold zlen; lia).
    destruct (Hreach v) as [l Hl]; [lia|].
    destruct (path_inv _ _ _ Hl) as [[Hr _]|[p [l' [Hp [Hp1 [Hpl _]]]]]].
    - apply Hu in Hr. lia.
    - assert (Hpv : 0 <= p < zlen (am_conn m)).
      { eapply path_valid; [exact Hpl|]. destruct (path_head _ _ _ Hpl) as [t ->]. simpl; auto. }
      destruct (sget_in_range V (am_vertices m) v) as [nv Hnv]; [lia|].
      destruct (sget_in_range V (am_vertices m) p) as [pv Hpv']; [lia|].
      exists p, nv, pv. repeat split; auto; try lia.
      + unfold segment_from_vertex_index, expected_segment.
        rewrite pyget_nonneg by lia. rewrite Hp.
        rewrite !pyget_sget by lia. reflexivity.
      + unfold expected_segment. rewrite Hp, Hnv, Hpv'. reflexivity.
  Qed.

  (* exactly one segment per non-root vertex, end points = (that vertex, its parent vertex) *)
  Theorem segments_view_spec : forall m : amorph,
      no_floating V m = true -> valid_morphology V m = true ->
      tree_parent (am_conn m) -> root_index (am_conn m) = Some 0 ->
      num_segments V m = zlen (non_root_vertices (am_conn m)) /\
      NoDup (non_root_vertices (am_conn m)) /\
      (forall v, In v (non_root_vertices (am_conn m)) <-> (exists p, zget (am_conn m) v = Some p /\ p <> -1)) /\
      segments_view V m = map (expected_segment V m) (non_root_vertices (am_conn m)) /\
      forall v, In v (non_root_vertices (am_conn m)) ->
        exists p nv pv, zget (am_conn m) v = Some p /\ 0 <= p < zlen (am_conn m) /\
                        sget (am_vertices m) v = Some nv /\ sget (am_vertices m) p = Some pv /\
                        expected_segment V m v = Some {| sg_id := v; sg_prox := nv; sg_dist := pv;
                                                         sg_parent := if 1 <? v then Some p else None |}.
  Proof.
    intros m Hnf Hvalid Htree Hroot.
    assert (Hur : unique_root (am_conn m) 0).
    { destruct Htree as [[r Hr] _]. pose proof (root_index_unique _ _ Hr). assert (r = 0) by congruence. now subst. }
    pose proof (non_root_vertices_rooted_at_0 _ Hur) as Hnr.
    destruct (no_floating_spec m Hnf) as [Hm1 Hm2].
    pose proof Hvalid as Hvalid'. unfold valid_morphology in Hvalid'. apply Nat.eqb_eq in Hvalid'.
    assert (Hlen : zlen (am_vertices m) = zlen (am_conn m)) by (unfold zlen; lia).
    assert (Hn : 0 < zlen (am_conn m)) by (destruct Hur as [H0 _]; apply zget_Some_range in H0; lia).
    split.
    { unfold num_segments. rewrite count_true_none by auto. rewrite Hnr.
      unfold zrange, zlen. rewrite map_length, seq_length. unfold zlen in *. lia. }
    split.
    { unfold non_root_vertices. apply NoDup_filter. apply zrange_NoDup. }
    split.
    { intros v. unfold non_root_vertices. rewrite filter_In. split.
      - intros [_ H]. destruct (zget (am_conn m) v) as [p|]; [|discriminate].
        exists p. split; auto. apply negb_true_iff in H. now apply Z.eqb_neq.
      - intros [p [Hp Hp1]]. split.
        + apply in_zrange. apply zget_Some_range in Hp. unfold zlen in *. lia.
        + rewrite Hp. apply negb_true_iff. now apply Z.eqb_neq. }
    split.
    { rewrite segments_view_plain by auto. rewrite Hnr, Hlen.
      apply map_ext_in. intros v Hv. apply in_zrange in Hv.
      destruct (segment_is_expected m v Hvalid Htree Hur) as [p [nv [pv [_ [_ [_ [_ [H _]]]]]]]]; [lia|exact H]. }
    intros v Hv. rewrite Hnr in Hv. apply in_zrange in Hv.
    destruct (segment_is_expected m v Hvalid Htree Hur) as [p [nv [pv [H1 [H2 [H3 [H4 [_ H6]]]]]]]]; [lia|].
    exists p, nv, pv. auto.
  Qed.
End View.

(* the hypotheses are satisfiable *)
Definition w_verts : list vtx := [(0,0,0,1); (1,0,0,2); (2,0,0,3); (3,0,0,4)].
Definition w_morph : amorph vtx := mk_amorph vtx None w_verts [-1; 0; 1; 1] None.

Example view_example :
  no_floating vtx w_morph = true /\ valid_morphology vtx w_morph = true /\
  tree_parent (am_conn w_morph) /\ root_index (am_conn w_morph) = Some 0 /\
  segments_view vtx w_morph =
    [Some {| sg_id := 1; sg_prox := (1,0,0,2); sg_dist := (0,0,0,1); sg_parent := None |};
     Some {| sg_id := 2; sg_prox := (2,0,0,3); sg_dist := (1,0,0,2); sg_parent := Some 1 |};
     Some {| sg_id := 3; sg_prox := (3,0,0,4); sg_dist := (1,0,0,2); sg_parent := Some 1 |}].
Proof.
  split; [reflexivity|]. split; [reflexivity|]. split; [apply tree_parentb_sound; reflexivity|].
  split; reflexivity.
Qed.

(* the pinned conversion (range(n-1)) is refuted on the same morphology: it yields a segment for the
   root vertex 0 whose "parent vertex" is the LAST row (index -1 wraps), and has none for vertex 3 *)
Lemma convert_orig_refuted :
  exists m : amorph vtx,
    no_floating vtx m = true /\ valid_morphology vtx m = true /\ tree_parent (am_conn m) /\
    root_index (am_conn m) = Some 0 /\
    to_neuroml_morphology_orig vtx m <> segments_view vtx m /\
    hd None (to_neuroml_morphology_orig vtx m)
      = Some {| sg_id := 0; sg_prox := (0,0,0,1); sg_dist := (3,0,0,4); sg_parent := None |} /\
    ~ In 3 (map (fun s => match s with Some x => sg_id x | None => -1 end) (to_neuroml_morphology_orig vtx m)).
Proof.
  exists w_morph.
  split; [reflexivity|]. split; [reflexivity|]. split; [apply tree_parentb_sound; reflexivity|].
  split; [reflexivity|]. split; [vm_compute; discriminate|]. split; [reflexivity|].
  vm_compute. intros [H|[H|[H|[]]]]; discriminate.
Qed.

Lemma view_domb_sound : forall (V : Type) (m : amorph V), view_domb m = true ->
    no_floating V m = true /\ valid_morphology V m = true /\ tree_parent (am_conn m) /\ root_index (am_conn m) = Some 0.
Proof.
  intros V m H. unfold view_domb in H.
  apply andb_true_iff in H. destruct H as [H H4]. apply andb_true_iff in H. destruct H as [H H3].
  apply andb_true_iff in H. destruct H as [H1 H2].
  split; [exact H1|]. split; [exact H2|]. split; [now apply tree_parentb_sound|].
  destruct (root_index (am_conn m)) as [r|]; [|discriminate]. apply Z.eqb_eq in H4. now subst.
Qed.

Lemma to_root_domb_sound : forall c indices, to_root_domb c indices = true ->
    tree_parent c /\ forall i, In i indices -> 0 <= i < zlen c.
Proof.
  intros c indices H. unfold to_root_domb in H. apply andb_true_iff in H. destruct H as [H1 H2]. split.
  - now apply tree_parentb_sound.
  - intros i Hi. rewrite forallb_forall in H2. apply H2 in Hi. apply andb_true_iff in Hi. destruct Hi as [Ha Hb]. apply Z.leb_le in Ha. apply Z.ltb_lt in Hb. lia.
Qed.

(* ------------------------------------------------------------------ which indices the segment view answers.
   m.segments[k] for ANY integer k (negative indices wrap on the index table, as numpy does): whenever it answers, the
   answer is the segment of a NON-ROOT vertex, with that vertex's row and its parent's row as end points.  In
   particular the root never gets a segment, and k = -1, k >= n-1, k < -n are refused (IndexError). *)
Lemma pyget_In : forall (A : Type) (l : list A) k x, pyget l k = Some x -> In x l.
Proof.
  intros A l k x H. unfold pyget in H. destruct (pynorm (zlen l) k) as [j|]; [|discriminate].
  eapply nth_error_In; eauto.
Qed.

Theorem view_answers_only_non_root : forall (V : Type) (m : amorph V),
    no_floating V m = true -> valid_morphology V m = true ->
    tree_parent (am_conn m) -> root_index (am_conn m) = Some 0 ->
    forall k s, segment_at V m k = Some s ->
      In (sg_id s) (non_root_vertices (am_conn m)) /\ expected_segment V m (sg_id s) = Some s.
Proof.
  intros V m Hnf Hvalid Htree Hroot k s Hs.
  assert (Hur : unique_root (am_conn m) 0).
  { destruct Htree as [[r Hr] _]. pose proof (root_index_unique _ _ Hr). assert (r = 0) by congruence. now subst. }
  destruct (no_floating_spec V m Hnf) as [Hm1 Hm2].
  pose proof Hvalid as Hvalid'. unfold valid_morphology in Hvalid'. apply Nat.eqb_eq in Hvalid'.
  unfold segment_at, vertex_index_from_segment_index in Hs.
  rewrite where_false_all in Hs by auto. rewrite <- zrange_shift in Hs.
  destruct (pyget (zrange (0 + 1) (length (am_mask m))) k) as [v|] eqn:Ev; [|discriminate].
  apply pyget_In in Ev. apply in_zrange in Ev.
  assert (Hid : sg_id s = v).
  { unfold segment_from_vertex_index in Hs.
    destruct (pyget (am_conn m) v); [|discriminate].
    destruct (pyget (am_vertices m) v); [|discriminate].
    destruct (pyget (am_vertices m) z); [|discriminate]. inversion Hs. reflexivity. }
  assert (Hv : 1 <= v < zlen (am_conn m)).
  { split; [lia|]. unfold segment_from_vertex_index in Hs.
    destruct (pyget (am_conn m) v) eqn:E; [|discriminate].
    rewrite pyget_nonneg in E by lia. apply zget_Some_range in E. lia. }
  destruct (segment_is_expected V m v Hvalid Htree Hur Hv) as [p [nv [pv [H1 [H2 [H3 [H4 [H5 H6]]]]]]]].
  rewrite Hid. split.
  - rewrite (non_root_vertices_rooted_at_0 _ Hur). apply in_zrange. unfold zlen in *. lia.
  - rewrite <- H5. exact Hs.
Qed.
