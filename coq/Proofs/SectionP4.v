(* C16 proofs, part 3 (refinement): on every cell whose adjacency list is that of a rose tree t, the list-level model
   `sect` / `create_branches` (the one diffed against the real method) creates exactly the groups of `sect_tree t`,
   in that order and with the generated names, and gives the first segment of every new group below a branch point
   an explicit proximal point.  Induction over the rose tree (any depth, any branching). *)
From Coq Require Import List ZArith QArith Bool Lia Permutation String.
From LNML Require Import Model.Morph Model.Section Proofs.MorphP Proofs.MorphP1 Proofs.MorphP2 Proofs.MorphP6 Proofs.SectionP Proofs.SectionP2.
Import ListNotations.
Open Scope Z_scope.

(* ------------------------------------------------------------------ tree vs adjacency list *)
Lemma list_eqb_Z_eq : forall l1 l2, list_eqb Z.eqb l1 l2 = true -> l1 = l2.
Proof.
  induction l1 as [|x r IH]; intros [|y s] H; simpl in H; try discriminate; auto.
  apply andb_prop in H. destruct H as [H1 H2]. apply Z.eqb_eq in H1. f_equal; auto.
Qed.

Lemma tree_adjb_node : forall a n kids, tree_adjb a (Node n kids) = true ->
  alookup a n = (match kids with [] => None | _ => Some (map root_id kids) end) /\
  Forall (fun k => tree_adjb a k = true) kids.
Proof.
  intros a n kids H. simpl in H. apply andb_prop in H. destruct H as [H1 H2]. split.
  - destruct kids as [|k r]; destruct (alookup a n) as [l|]; try discriminate; auto.
    f_equal. now apply list_eqb_Z_eq.
  - apply Forall_forall. intros k Hk. rewrite forallb_forall in H2. now apply H2.
Qed.

(* ------------------------------------------------------------------ first group / remaining groups *)
Definition first_chain (t : tree) : list Z := hd [] (sect_tree t []).
Definition rest_groups (t : tree) : list (list Z) := tl (sect_tree t []).

Lemma sect_tree_cur : forall t cur, sect_tree t cur = (rev cur ++ first_chain t)%list :: rest_groups t.
Proof.
  induction t as [n kids IH] using tree_ind'; intros cur.
  destruct kids as [|k [|k2 r]].
  - reflexivity.
  - inversion IH as [|? ? Hk _]; subst. unfold first_chain, rest_groups. cbn [sect_tree].
    rewrite (Hk (n :: cur)), (Hk [n]). cbn [hd tl rev app]. now rewrite <- app_assoc.
  - reflexivity.
Qed.

Lemma sect_tree_split : forall t, sect_tree t [] = first_chain t :: rest_groups t.
Proof. intro t. now rewrite (sect_tree_cur t []). Qed.

Lemma first_chain_hd : forall t, hd 0 (first_chain t) = root_id t.
Proof.
  intros [n [|k [|k2 r]]]; try reflexivity.
  unfold first_chain. cbn [sect_tree]. rewrite (sect_tree_cur k [n]). reflexivity.
Qed.

Lemma rest_groups_single : forall n k, rest_groups (Node n [k]) = rest_groups k.
Proof. intros. unfold rest_groups at 1. cbn [sect_tree]. now rewrite (sect_tree_cur k [n]). Qed.

Lemma first_chain_single : forall n k, first_chain (Node n [k]) = n :: first_chain k.
Proof. intros. unfold first_chain at 1. cbn [sect_tree]. now rewrite (sect_tree_cur k [n]). Qed.

(* ------------------------------------------------------------------ explicit proximal points *)
Definition has_prox (c : cell) (x : Z) : Prop := exists s, find_seg c x = Some s /\ sprox s <> None.

Lemma has_prox_set_same : forall c id p s, find_seg c id = Some s -> has_prox (set_prox_c id p c) id.
Proof. intros c id p s H. eexists. split; [eapply find_seg_set_prox_same; eauto|]. simpl. discriminate. Qed.

Lemma has_prox_set_mono : forall c id p x, has_prox c x -> has_prox (set_prox_c id p c) x.
Proof.
  intros c id p x [s [Hs Hp]]. destruct (Z.eq_dec x id) as [->|Hne].
  - eapply has_prox_set_same; eauto.
  - exists s. rewrite find_seg_set_prox_other; auto.
Qed.

Lemma fold_err : forall (rec : Z -> string -> mstate -> res mstate) l e, fold_left (sect_child rec) l (Err e) = Err e.
Proof. induction l as [|x r IH]; intros; simpl; auto. Qed.

Lemma sect_prox_mono : forall fuel a r gname st st', sect fuel a r gname st = Ok st' ->
  forall x, has_prox (st_segs st) x -> has_prox (st_segs st') x.
Proof.
  induction fuel as [|k IH]; intros a r gname st st' H x Hx; [discriminate|].
  simpl in H. destruct (alookup a r) as [[|ch [|ch2 rest]]|] eqn:Ea.
  - inversion H; subst. exact Hx.
  - eapply IH; [exact H|exact Hx].
  - assert (Hstart : has_prox (st_segs (add_member gname r st)) x) by exact Hx.
    revert H. generalize (add_member gname r st) Hstart. generalize (ch :: ch2 :: rest).
    induction l as [|y ys IHl]; intros st1 Hst1 H; cbn [fold_left] in H.
    + inversion H; subst. exact Hst1.
    + destruct (sect_child (sect k a) (Ok st1) y) as [st2|e] eqn:E; [|rewrite fold_err in H; discriminate].
      apply (IHl st2); [|exact H].
      unfold sect_child in E. cbn [bind] in E.
      destruct (get_segment (st_segs st1) y) as [s|e] eqn:Es; cbn [bind] in E; [|discriminate].
      destruct (actual_prox (fuel_of (st_segs st1)) (st_segs st1) (sid s)) as [p|e] eqn:Ep; cbn [bind] in E; [|discriminate].
      eapply IH; [exact E|]. unfold add_unbranched_group, set_prox. simpl.
      destruct (existsb _ _); simpl; now apply has_prox_set_mono.
  - inversion H; subst. exact Hx.
Qed.

(* ------------------------------------------------------------------ group list algebra *)
Definition add_members (ms : list Z) (g : group) : group :=
  mkgroup (gid g) (gmembers g ++ ms) (gincludes g) (gnlx g).

Lemma length_upd_first : forall nm f gs, List.length (upd_first_group nm f gs) = List.length gs.
Proof. induction gs as [|g r IH]; simpl; auto. destruct (has_gid nm g); simpl; auto. Qed.

Lemma gids_upd_first : forall nm f gs, (forall g, gid (f g) = gid g) ->
  map gid (upd_first_group nm f gs) = map gid gs.
Proof.
  intros nm f gs Hf. induction gs as [|g r IH]; simpl; auto. destruct (has_gid nm g); simpl; [now rewrite Hf|now rewrite IH].
Qed.

Lemma upd_first_ext : forall nm f f' gs, (forall g, find (has_gid nm) gs = Some g -> f g = f' g) ->
  upd_first_group nm f gs = upd_first_group nm f' gs.
Proof.
  induction gs as [|g r IH]; intros H; simpl; auto. simpl in H. destruct (has_gid nm g).
  - now rewrite H.
  - now rewrite IH.
Qed.

Lemma upd_first_compose : forall nm f h gs, (forall g, gid (h g) = gid g) ->
  upd_first_group nm f (upd_first_group nm h gs) = upd_first_group nm (fun g => f (h g)) gs.
Proof.
  intros nm f h gs Hh. induction gs as [|g r IH]; simpl; auto. destruct (has_gid nm g) eqn:E; simpl.
  - unfold has_gid in *. rewrite Hh, E. reflexivity.
  - rewrite E. now rewrite IH.
Qed.

Lemma find_upd_first : forall nm f gs, (forall g, gid (f g) = gid g) ->
  find (has_gid nm) (upd_first_group nm f gs) = option_map f (find (has_gid nm) gs).
Proof.
  intros nm f gs Hf. induction gs as [|g r IH]; simpl; auto. destruct (has_gid nm g) eqn:E; simpl.
  - unfold has_gid in *. now rewrite Hf, E.
  - now rewrite E.
Qed.

Lemma has_gid_not_in : forall nm gs, ~ In nm (map gid gs) -> forall g, In g gs -> has_gid nm g = false.
Proof.
  intros nm gs H g Hg. unfold has_gid. destruct (String.eqb (gid g) nm) eqn:E; auto.
  apply String.eqb_eq in E. exfalso. apply H. rewrite <- E. now apply in_map.
Qed.

Lemma existsb_not_in : forall nm gs, ~ In nm (map gid gs) -> existsb (has_gid nm) gs = false.
Proof.
  intros nm gs H. destruct (existsb (has_gid nm) gs) eqn:E; auto.
  apply existsb_exists in E. destruct E as [g [Hg Hh]]. rewrite (has_gid_not_in nm gs H g Hg) in Hh. discriminate.
Qed.

Lemma upd_first_app_last : forall nm f G g, ~ In nm (map gid G) -> gid g = nm ->
  upd_first_group nm f (G ++ [g]) = (G ++ [f g])%list.
Proof.
  intros nm f G g H Hg. induction G as [|x r IH]; simpl.
  - unfold has_gid. rewrite Hg, String.eqb_refl. reflexivity.
  - rewrite (has_gid_not_in nm (x :: r) H x (or_introl eq_refl)). f_equal. apply IH.
    intro Hin. apply H. simpl. now right.
Qed.

Lemma find_app_last : forall nm G g, ~ In nm (map gid G) -> gid g = nm -> find (has_gid nm) (G ++ [g]) = Some g.
Proof.
  intros nm G g H Hg. induction G as [|x r IH]; simpl.
  - unfold has_gid. now rewrite Hg, String.eqb_refl.
  - rewrite (has_gid_not_in nm (x :: r) H x (or_introl eq_refl)). apply IH. intro Hin. apply H. simpl. now right.
Qed.

Lemma fresh_name_free : forall gs n id, ~ In (mkname n id) (map gid gs) -> fresh_name gs n id = mkname n id.
Proof.
  intros gs n id H. unfold fresh_name. destruct (List.length gs); simpl; auto.
  unfold name_taken. now rewrite (existsb_not_in _ gs H).
Qed.

(* the i-th group created when L groups exist is named with index L - 1 *)
Fixpoint named (L : nat) (rest : list (list Z)) : list group :=
  match rest with
  | [] => []
  | ms :: r => mkgroup (mkname (Z.of_nat L - 1) (hd 0 ms)) ms [] (Some section_nlx) :: named (S L) r
  end.

Lemma named_app : forall l1 l2 L, named L (l1 ++ l2) = (named L l1 ++ named (L + List.length l1) l2)%list.
Proof.
  induction l1 as [|x r IH]; intros l2 L; simpl.
  - now rewrite Nat.add_0_r.
  - rewrite IH. replace (S L + List.length r)%nat with (L + S (List.length r))%nat by lia. reflexivity.
Qed.

Lemma named_length : forall l L, List.length (named L l) = List.length l.
Proof. induction l as [|x r IH]; intros; simpl; auto. Qed.

Lemma name_groups_named : forall (n : nat) i l, name_groups (Z.of_nat n) (S i) l = named (n + S i) l.
Proof.
  intros n i l. revert i. induction l as [|ms r IH]; intros i; simpl; auto.
  rewrite IH. replace (n + S (S i))%nat with (S (n + S i)) by lia.
  replace (Z.of_nat (n + S i) - 1) with (Z.of_nat n + Z.of_nat i) by lia. reflexivity.
Qed.

Lemma NoDup_app_l : forall {A} (l1 l2 : list A), NoDup (l1 ++ l2) -> NoDup l1.
Proof. induction l1 as [|x r IH]; intros l2 H; [constructor|]. simpl in H. inversion H; subst. constructor; eauto. rewrite in_app_iff in *. tauto. Qed.

Lemma NoDup_app_r : forall {A} (l1 l2 : list A), NoDup (l1 ++ l2) -> NoDup l2.
Proof. induction l1 as [|x r IH]; intros l2 H; auto. simpl in H. inversion H; subst. eauto. Qed.

Lemma NoDup_app_not_in : forall {A} (l1 l2 : list A) x, NoDup (l1 ++ x :: l2) -> ~ In x l1.
Proof. intros A l1 l2 x H. apply NoDup_remove_2 in H. rewrite in_app_iff in H. tauto. Qed.

Lemma nodup_mid : forall {A} (l : list A) x X Y, NoDup (l ++ x :: (X ++ Y)) -> NoDup ((l ++ [x]) ++ X).
Proof.
  intros A l x X Y H. replace (l ++ x :: X ++ Y)%list with (((l ++ [x]) ++ X) ++ Y)%list in H.
  - now apply NoDup_app_l in H.
  - rewrite <- !app_assoc. reflexivity.
Qed.

Lemma nodup_reassoc : forall {A} (l : list A) x X Y, NoDup (l ++ x :: (X ++ Y)) -> NoDup ((l ++ x :: X) ++ Y).
Proof. intros A l x X Y H. rewrite <- app_assoc. exact H. Qed.

(* ------------------------------------------------------------------ the refinement *)
Definition group_disjoint (gname : string) (gs : list group) (l : list Z) : Prop :=
  forall g, find (has_gid gname) gs = Some g -> forall x, In x l -> ~ In x (gmembers g).

Lemma add_member_as_members : forall gname n gs, group_disjoint gname gs [n] ->
  upd_first_group gname (add_member_g n) gs = upd_first_group gname (add_members [n]) gs.
Proof.
  intros gname n gs H. apply upd_first_ext. intros g Hg. unfold add_member_g.
  assert (memZ n (gmembers g) = false) as ->; [|reflexivity].
  apply memZ_false. apply (H g Hg). now left.
Qed.

Lemma seg_inv_ready : forall c0 c x, all_ok c0 -> seg_inv c0 c -> In x (ids c0) ->
  exists s p, get_segment c x = Ok s /\ sid s = x /\ actual_prox (fuel_of c) c x = Ok p.
Proof.
  intros c0 c x Hok [Hupd Href] Hx. apply ids_in in Hx. destruct Hx as [s0 [Hs0 Hid]]. subst x.
  destruct (Hok s0 Hs0) as [q Hq]. pose proof (Href _ _ _ Hq) as Hc.
  assert (Hfu : fuel_of c = fuel_of c0) by (unfold fuel_of; now rewrite (cell_upd_length c0 c Hupd)).
  rewrite <- Hfu in Hc. pose proof Hc as Hc'. unfold fuel_of in Hc'. simpl in Hc'.
  unfold get_segment in *. destruct (find_seg c (sid s0)) as [s|] eqn:E; [|discriminate].
  exists s, q. repeat split; auto. apply find_seg_some in E. tauto.
Qed.

Lemma nodup_flat_map_in : forall ks x, NoDup (flat_map preorder ks) -> In x ks -> NoDup (preorder x).
Proof.
  induction ks as [|y ys IH]; intros x H Hx; [inversion Hx|]. simpl in H. destruct Hx as [->|Hx].
  - now apply NoDup_app_l in H.
  - apply IH; auto. now apply NoDup_app_r in H.
Qed.

Lemma tsize_in : forall ks x, In x ks -> (tsize x <= list_sum (map tsize ks))%nat.
Proof.
  induction ks as [|y ys IH]; intros x Hx; [inversion Hx|]. simpl. destruct Hx as [->|Hx]; [lia|].
  specialize (IH x Hx). lia.
Qed.

Section Refine.
  Variable c0 : cell.
  Hypothesis Hok : all_ok c0.
  Variable a : adj.

  (* what the induction carries for one subtree *)
  Definition refines_at (t : tree) : Prop :=
    forall fuel gname st, (tsize t <= fuel)%nat -> gen_name gname = true ->
    seg_inv c0 (st_segs st) ->
    group_disjoint gname (st_groups st) (preorder t) ->
    NoDup (map gid (st_groups st) ++ map gid (named (List.length (st_groups st)) (rest_groups t))) ->
    exists st', sect fuel a (root_id t) gname st = Ok st' /\
      st_groups st' = (upd_first_group gname (add_members (first_chain t)) (st_groups st)
                       ++ named (List.length (st_groups st)) (rest_groups t))%list /\
      (forall ms, In ms (rest_groups t) -> has_prox (st_segs st') (hd 0 ms)).

  Lemma sect_seg_inv : forall fuel r gname st st', gen_name gname = true -> seg_inv c0 (st_segs st) ->
    sect fuel a r gname st = Ok st' -> seg_inv c0 (st_segs st').
  Proof.
    intros fuel r gname st st' Hn Hs H.
    assert (Hi : st_inv c0 [] st) by (split; [exact Hs|intros i g Hg; destruct i; discriminate]).
    destruct (sect_inv c0 [] Hok fuel a r gname st st' Hn Hi H) as [H1 _]. exact H1.
  Qed.

  Lemma fold_kids : forall f ks, Forall refines_at ks ->
    NoDup (flat_map preorder ks) -> incl (flat_map preorder ks) (ids c0) ->
    (forall k, In k ks -> (tsize k <= f)%nat) ->
    forall st1, seg_inv c0 (st_segs st1) ->
    NoDup (map gid (st_groups st1) ++
           map gid (named (List.length (st_groups st1)) (flat_map (fun k => sect_tree k []) ks))) ->
    exists st', fold_left (sect_child (sect f a)) (map root_id ks) (Ok st1) = Ok st' /\
      st_groups st' = (st_groups st1 ++ named (List.length (st_groups st1)) (flat_map (fun k => sect_tree k []) ks))%list /\
      seg_inv c0 (st_segs st') /\
      (forall ms, In ms (flat_map (fun k => sect_tree k []) ks) -> has_prox (st_segs st') (hd 0 ms)) /\
      (forall x, has_prox (st_segs st1) x -> has_prox (st_segs st') x).
  Proof.
    intros f ks HIH. induction HIH as [|k r Hk Hr IHr]; intros Hnd Hincl Hsz st1 Hs1 Hfresh.
    - exists st1. simpl. rewrite app_nil_r. split; [reflexivity|]. split; [reflexivity|]. split; [exact Hs1|].
      split; [intros ms []|auto].
    - cbn [map fold_left flat_map] in *.
      assert (Hroot : In (root_id k) (ids c0)).
      { apply Hincl. apply in_or_app. left. destruct k; simpl; now left. }
      destruct (seg_inv_ready c0 (st_segs st1) (root_id k) Hok Hs1 Hroot) as [s [p [Hget [Hsid Hp]]]].
      unfold sect_child at 2. cbn [bind]. rewrite Hget. cbn [bind]. rewrite Hsid, Hp. cbn [bind].
      set (G := st_groups st1) in *. set (L := List.length G) in *.
      rewrite (sect_tree_split k) in Hfresh. cbn [app named map] in Hfresh. rewrite first_chain_hd in Hfresh.
      rewrite named_app, map_app in Hfresh.
      assert (Hnotin : ~ In (mkname (Z.of_nat L - 1) (root_id k)) (map gid G)).
      { eapply NoDup_app_not_in. exact Hfresh. }
      assert (Hfn : fresh_name (st_groups (set_prox (root_id k) p st1))
                      (Z.of_nat (List.length (st_groups (set_prox (root_id k) p st1))) - 1) (root_id k)
                    = mkname (Z.of_nat L - 1) (root_id k)).
      { cbn [set_prox st_groups]. fold G. fold L. now apply fresh_name_free. }
      rewrite Hfn.
      set (name := mkname (Z.of_nat L - 1) (root_id k)) in *.
      assert (Hname : name = mkname (Z.of_nat L - 1) (root_id k)) by reflexivity.
      assert (Hst3 : add_unbranched_group name (set_prox (root_id k) p st1)
                     = mkst (set_prox_c (root_id k) p (st_segs st1)) (G ++ [mkgroup name [] [] (Some section_nlx)])).
      { unfold add_unbranched_group. cbn [set_prox st_groups st_segs]. fold G. now rewrite (existsb_not_in name G Hnotin). }
      rewrite Hst3.
      assert (Hs2 : seg_inv c0 (set_prox_c (root_id k) p (st_segs st1))).
      { rewrite <- Hsid. apply seg_inv_set_prox; auto; now rewrite Hsid. }
      (* the child's own call *)
      destruct (Hk f name (mkst (set_prox_c (root_id k) p (st_segs st1)) (G ++ [mkgroup name [] [] (Some section_nlx)])))
        as [st4 [Hsect [Hgroups Hprox]]].
      + apply Hsz. now left.
      + apply mkname_gen.
      + exact Hs2.
      + intros g Hg x Hx. cbn [st_groups] in Hg. rewrite (find_app_last name G (mkgroup name [] [] (Some section_nlx)) Hnotin eq_refl) in Hg.
        inversion Hg; subst g. simpl. tauto.
      + cbn [st_groups]. rewrite map_app, app_length. cbn [map gid List.length].
        fold L. replace (L + 1)%nat with (S L) by lia. cbn [gid] in Hfresh.
        exact (nodup_mid _ _ _ _ Hfresh).
      + rewrite Hsect.
        cbn [st_groups] in Hgroups. rewrite (upd_first_app_last name _ G (mkgroup name [] [] (Some section_nlx)) Hnotin eq_refl) in Hgroups.
        rewrite app_length in Hgroups. cbn [List.length] in Hgroups. fold L in Hgroups.
        replace (L + 1)%nat with (S L) in Hgroups by lia.
        assert (Hg4 : st_groups st4 = (G ++ named L (sect_tree k []))%list).
        { rewrite Hgroups, (sect_tree_split k). cbn [named]. rewrite first_chain_hd. fold name.
          unfold add_members. cbn [gid gmembers gincludes gnlx app]. rewrite <- app_assoc. cbn [app]. reflexivity. }
        assert (Hs4 : seg_inv c0 (st_segs st4)) by (eapply sect_seg_inv; [apply mkname_gen| |exact Hsect]; exact Hs2).
        destruct (IHr) with (st1 := st4) as [st' [Hfold [Hg' [Hs' [Hprox' Hmono']]]]].
        * apply NoDup_app_r in Hnd. exact Hnd.
        * intros x Hx. apply Hincl. apply in_or_app. now right.
        * intros k' Hk'. apply Hsz. now right.
        * exact Hs4.
        * rewrite Hg4, app_length, named_length, map_app.
          rewrite (sect_tree_split k). cbn [named map List.length gid]. rewrite first_chain_hd.
          cbn [gid] in Hfresh.
          fold L. replace (L + S (List.length (rest_groups k)))%nat with (S L + List.length (rest_groups k))%nat by lia.
          exact (nodup_reassoc _ _ _ _ Hfresh).
        * exists st'. split; [exact Hfold|]. split; [|split; [exact Hs'|split]].
          -- rewrite Hg', Hg4, app_length, named_length, <- app_assoc, named_app. reflexivity.
          -- intros ms Hms. apply in_app_or in Hms. destruct Hms as [Hms|Hms]; [|now apply Hprox'].
             apply Hmono'. rewrite (sect_tree_split k) in Hms. destruct Hms as [<-|Hms]; [|now apply Hprox].
             rewrite first_chain_hd. eapply sect_prox_mono; [exact Hsect|]. cbn [st_segs].
             unfold get_segment in Hget. destruct (find_seg (st_segs st1) (root_id k)) eqn:Ef; [|discriminate].
             eapply has_prox_set_same; eauto.
          -- intros x Hx. apply Hmono'. eapply sect_prox_mono; [exact Hsect|]. cbn [st_segs]. now apply has_prox_set_mono.
  Qed.

  Lemma sect_refines_tree : forall t, tree_adjb a t = true -> NoDup (preorder t) -> incl (preorder t) (ids c0) ->
    refines_at t.
  Proof.
    induction t as [n kids IH] using tree_ind'; intros Hadj Hnd Hincl fuel gname st Hfuel Hgen Hseg Hdisj Hfresh.
    destruct (tree_adjb_node a n kids Hadj) as [Hlook Hkids].
    destruct fuel as [|f]; [simpl in Hfuel; lia|]. cbn [sect root_id]. rewrite Hlook.
    assert (Hn1 : group_disjoint gname (st_groups st) [n]).
    { intros g Hg x [<-|[]]. apply (Hdisj g Hg). simpl. now left. }
    destruct kids as [|k [|k2 r]].
    - (* leaf *)
      eexists. split; [reflexivity|]. split; [|intros ms []].
      cbn [add_member st_groups]. rewrite add_member_as_members by exact Hn1.
      unfold rest_groups, first_chain. cbn [sect_tree rev app hd tl named]. now rewrite app_nil_r.
    - (* exactly one child: the while loop *)
      inversion IH as [|? ? Hk _]; subst. inversion Hkids as [|? ? Hak _]; subst.
      cbn [map root_id]. simpl in Hnd. inversion Hnd as [|? ? Hnot Hnd']; subst. rewrite app_nil_r in Hnot, Hnd'.
      destruct (Hk Hak Hnd') with (fuel := f) (gname := gname) (st := add_member gname n st) as [st' [Hsect [Hg Hp]]].
      + intros x Hx. apply Hincl. simpl. right. rewrite app_nil_r. exact Hx.
      + simpl in Hfuel. lia.
      + exact Hgen.
      + exact Hseg.
      + intros g Hg x Hx. cbn [add_member st_groups] in Hg.
        rewrite find_upd_first in Hg by (intro g0; unfold add_member_g; destruct (memZ n (gmembers g0)); reflexivity).
        destruct (find (has_gid gname) (st_groups st)) as [g1|] eqn:Ef; [|discriminate]. inversion Hg; subst g.
        unfold add_member_g. assert (memZ n (gmembers g1) = false) as ->.
        { apply memZ_false. apply (Hn1 g1 Ef). now left. }
        simpl. rewrite in_app_iff. intros [Hin|[<-|[]]]; [|tauto].
        apply (Hdisj g1 Ef x); auto. simpl. right. rewrite app_nil_r. exact Hx.
      + cbn [add_member st_groups]. rewrite length_upd_first, gids_upd_first
          by (intro g0; unfold add_member_g; destruct (memZ n (gmembers g0)); reflexivity).
        rewrite rest_groups_single in Hfresh. exact Hfresh.
      + exists st'. split; [exact Hsect|]. split.
        * rewrite Hg. cbn [add_member st_groups]. rewrite length_upd_first, rest_groups_single. f_equal.
          rewrite upd_first_compose by (intro g0; unfold add_member_g; destruct (memZ n (gmembers g0)); reflexivity).
          apply upd_first_ext. intros g Hgf. unfold add_member_g.
          assert (memZ n (gmembers g) = false) as -> by (apply memZ_false; apply (Hn1 g Hgf); now left).
          rewrite first_chain_single. unfold add_members. simpl. now rewrite <- app_assoc.
        * rewrite rest_groups_single. exact Hp.
    - (* branch point *)
      set (kids := k :: k2 :: r) in *.
      assert (Hrest : rest_groups (Node n kids) = flat_map (fun x => sect_tree x []) kids) by reflexivity.
      assert (Hfirst : first_chain (Node n kids) = [n]) by reflexivity.
      change (preorder (Node n kids)) with (n :: flat_map preorder kids) in Hnd, Hincl.
      change (tsize (Node n kids)) with (S (list_sum (map tsize kids))) in Hfuel.
      inversion Hnd as [|? ? Hnot Hnd']; subst.
      destruct (fold_kids f kids) with (st1 := add_member gname n st) as [st' [Hfold [Hg [Hs' [Hp _]]]]].
      + apply Forall_forall. intros x Hx. rewrite Forall_forall in IH, Hkids.
        apply IH; auto.
        * exact (nodup_flat_map_in kids x Hnd' Hx).
        * intros z Hz. apply Hincl. right. apply in_flat_map. eauto.
      + exact Hnd'.
      + intros z Hz. apply Hincl. now right.
      + intros x Hx. pose proof (tsize_in kids x Hx). lia.
      + exact Hseg.
      + cbn [add_member st_groups]. rewrite length_upd_first, gids_upd_first
          by (intro g0; unfold add_member_g; destruct (memZ n (gmembers g0)); reflexivity).
        rewrite Hrest in Hfresh. exact Hfresh.
      + exists st'. split; [exact Hfold|]. split.
        * rewrite Hg, Hrest, Hfirst. cbn [add_member st_groups]. rewrite length_upd_first.
          now rewrite add_member_as_members by exact Hn1.
        * rewrite Hrest. exact Hp.
  Qed.
End Refine.

(* ------------------------------------------------------------------ the whole call *)
Lemma tsize_preorder : forall t, tsize t = List.length (preorder t).
Proof.
  induction t as [n kids IH] using tree_ind'. simpl. f_equal.
  induction IH as [|k r Hk _ IHr]; simpl; auto. rewrite app_length. congruence.
Qed.

Lemma seg_inv_self : forall c, seg_inv c c.
Proof. intro c. split; [apply cell_upd_refl_gen|intros f x q H; exact H]. Qed.

(* On a cell whose adjacency list is that of the rose tree t (distinct ids, all of them segments of the cell), with
   group ids that do not clash with the generated names, the model of create_unbranched_segment_group_branches
   returns: the old groups, followed by exactly the groups of sect_tree t in creation order under the generated names;
   segments related to the original ones by cell_upd; an explicit proximal point on the first segment of every group. *)
Theorem create_branches_refines : forall c gs t,
  all_ok c -> tree_adjb (adjacency c) t = true -> NoDup (preorder t) -> incl (preorder t) (ids c) ->
  NoDup (map gid gs ++ map gid (name_groups (Z.of_nat (List.length gs)) 0 (sect_tree t []))) ->
  exists segs', create_branches c gs (root_id t) false false =
                Ok (mkst segs' (gs ++ name_groups (Z.of_nat (List.length gs)) 0 (sect_tree t []))) /\
    cell_upd c segs' /\
    (forall ms, In ms (rest_groups t) -> has_prox segs' (hd 0 ms)) /\
    (forall s, find_seg c (root_id t) = Some s -> sprox s <> None \/ sparent s <> None -> has_prox segs' (root_id t)).
Proof.
  intros c gs t Hok Hadj Hnd Hincl Hfresh.
  assert (Hroot : In (root_id t) (ids c)) by (apply Hincl; destruct t; simpl; now left).
  destruct (seg_inv_ready c c (root_id t) Hok (seg_inv_self c) Hroot) as [s [p [Hget [Hsid Hp]]]].
  unfold create_branches. rewrite Hget. cbn [bind].
  (* the given root's own proximal (C16 fix) *)
  assert (Hst0 : exists segs0, root_prox (mkst c gs) s = Ok (mkst segs0 gs) /\ seg_inv c segs0 /\
                               (forall x, has_prox c x -> has_prox segs0 x) /\
                               (sprox s <> None \/ sparent s <> None -> has_prox segs0 (root_id t))).
  { unfold root_prox. unfold get_segment in Hget. destruct (find_seg c (root_id t)) as [s1|] eqn:Ef; [|discriminate].
    inversion Hget; subst s1.
    destruct (sprox s) as [px0|] eqn:Eprox.
    - exists c. split; [reflexivity|]. split; [apply seg_inv_self|]. split; [auto|].
      intros _. exists s. split; auto. congruence.
    - destruct (sparent s) as [pf|] eqn:Epar.
      + cbn [st_segs]. rewrite Hsid, Hp. cbn [bind]. exists (set_prox_c (root_id t) p c).
        split; [reflexivity|]. split; [|split].
        * rewrite <- Hsid. apply seg_inv_set_prox; auto using seg_inv_self.
          -- unfold get_segment. now rewrite Hsid, Ef.
          -- now rewrite Hsid.
        * intros x Hx. now apply has_prox_set_mono.
        * intros _. eapply has_prox_set_same; eauto.
      + exists c. split; [reflexivity|]. split; [apply seg_inv_self|]. split; [auto|].
        intros [H|H]; congruence. }
  destruct Hst0 as [segs0 [Hrp [Hs0 [Hmono0 Hroot0]]]]. rewrite Hrp. cbn [bind].
  set (N := List.length gs) in *. rewrite Hsid.
  set (name := mkname (Z.of_nat N) (root_id t)).
  rewrite (sect_tree_split t) in Hfresh |- *. cbn [name_groups] in Hfresh |- *.
  rewrite first_chain_hd in Hfresh |- *. rewrite name_groups_named in Hfresh |- *.
  replace (Z.of_nat N + Z.of_nat (Init.Nat.pred 0)) with (Z.of_nat N) in Hfresh |- * by (simpl; lia).
  fold name in Hfresh |- *.
  cbn [map gid] in Hfresh.
  assert (Hnotin : ~ In name (map gid gs)) by (eapply NoDup_app_not_in; exact Hfresh).
  cbn [st_groups]. rewrite (fresh_name_free gs (Z.of_nat N) (root_id t) Hnotin). fold name.
  assert (Hst1 : add_unbranched_group name (mkst segs0 gs) = mkst segs0 (gs ++ [mkgroup name [] [] (Some section_nlx)])).
  { unfold add_unbranched_group. cbn [st_groups st_segs]. now rewrite (existsb_not_in name gs Hnotin). }
  rewrite Hst1.
  destruct (sect_refines_tree c Hok (adjacency c) t Hadj Hnd Hincl (fuel_of c) name
              (mkst segs0 (gs ++ [mkgroup name [] [] (Some section_nlx)]))) as [st' [Hsect [Hg Hprox]]].
  - rewrite tsize_preorder. unfold fuel_of.
    assert (List.length (preorder t) <= List.length (ids c))%nat by (apply NoDup_incl_length; auto).
    unfold ids in H. rewrite map_length in H. lia.
  - apply mkname_gen.
  - exact Hs0.
  - intros g Hgf x Hx. cbn [st_groups] in Hgf.
    rewrite (find_app_last name gs (mkgroup name [] [] (Some section_nlx)) Hnotin eq_refl) in Hgf.
    inversion Hgf; subst g. simpl. tauto.
  - cbn [st_groups]. rewrite map_app, app_length. cbn [map gid List.length]. fold N.
    replace (map gid gs ++ name :: map gid (named (N + 1) (rest_groups t)))%list
      with ((map gid gs ++ [name]) ++ map gid (named (N + 1) (rest_groups t)))%list in Hfresh
      by (rewrite <- app_assoc; reflexivity).
    exact Hfresh.
  - rewrite Hsect. cbn [bind]. exists (st_segs st'). split; [|split; [|split]].
    + f_equal. destruct st' as [segs' groups']. cbn [st_segs st_groups] in *. f_equal.
      rewrite Hg. rewrite (upd_first_app_last name _ gs (mkgroup name [] [] (Some section_nlx)) Hnotin eq_refl).
      rewrite app_length. cbn [List.length]. fold N. unfold add_members. cbn [gid gmembers gincludes gnlx app].
      rewrite <- app_assoc. reflexivity.
    + assert (Hi : st_inv c [] (mkst segs0 (gs ++ [mkgroup name [] [] (Some section_nlx)])))
        by (split; [exact Hs0|intros i g Hgi; destruct i; discriminate]).
      destruct (sect_inv c [] Hok _ _ _ _ _ _ (mkname_gen _ _) Hi Hsect) as [[Hupd _] _]. exact Hupd.
    + exact Hprox.
    + intros s1 Hs1 Hor. unfold get_segment in Hget. rewrite Hs1 in Hget. inversion Hget; subst s1.
      eapply sect_prox_mono; [exact Hsect|]. cbn [st_segs]. now apply Hroot0.
Qed.

(* build_tree is a way to obtain such a tree from a concrete cell; the hypotheses are then checked by computation:
   a 5-segment example with a pre-existing group *)
Example refine_example :
  let c := [SG 0 None (Some (P4 0 0 0 2)) (P4 4 0 0 2); SG 1 (Some (0, 1%Q)) None (P4 8 0 0 2);
            SG 2 (Some (1, 1%Q)) None (P4 8 4 0 1); SG 3 (Some (1, (1 # 2)%Q)) None (P4 6 0 3 1);
            SG 4 (Some (3, 1%Q)) None (P4 6 0 5 1)] in
  match build_tree 6 (adjacency c) 0 with
  | Some t => tree_adjb (adjacency c) t = true /\ preorder t = [0; 1; 2; 3; 4]
  | None => False
  end.
Proof. vm_compute. split; reflexivity. Qed.

(* ------------------------------------------------------------------ the tree is the cell's own parent relation *)
Lemma tree_adjb_children : forall c t, tree_adjb (adjacency c) t = true ->
  forall n kids, subtree t (Node n kids) -> children c n = map root_id kids.
Proof.
  intros c t Hadj n kids Hsub. remember (Node n kids) as s eqn:Es. revert Hadj.
  induction Hsub as [t|m ks k s Hk Hsub IH]; intros Hadj.
  - subst t. destruct (tree_adjb_node _ _ _ Hadj) as [Hl _]. rewrite adjacency_spec in Hl.
    destruct kids as [|k r]; destruct (children c n) as [|x xs]; try discriminate; auto. now inversion Hl.
  - apply IH; auto. destruct (tree_adjb_node _ _ _ Hadj) as [_ Hf]. rewrite Forall_forall in Hf. now apply Hf.
Qed.

Lemma gmembers_name_groups : forall N i l, map gmembers (name_groups N i l) = l.
Proof. intros N i l. revert i. induction l as [|x r IH]; intros i; simpl; auto. now rewrite IH. Qed.

(* all clauses of C16 for the list-level model at once *)
Theorem create_branches_correct : forall c gs t,
  all_ok c -> tree_adjb (adjacency c) t = true -> NoDup (preorder t) -> incl (preorder t) (ids c) ->
  NoDup (map gid gs ++ map gid (name_groups (Z.of_nat (List.length gs)) 0 (sect_tree t []))) ->
  exists segs' new,
    create_branches c gs (root_id t) false false = Ok (mkst segs' (gs ++ new)) /\
    (* every segment below the root in exactly one new group *)
    List.concat (map gmembers new) = preorder t /\ NoDup (List.concat (map gmembers new)) /\
    (* each new group: marked as a section, no includes, a maximal unbranched chain of the cell's own tree *)
    (forall g, In g new -> gnlx g = Some section_nlx /\ gincludes g = [] /\
       exists s e, branch_start t s /\ chain s (gmembers g) e /\ List.length (subtrees e) <> 1%nat) /\
    (forall n kids, subtree t (Node n kids) -> children c n = map root_id kids) /\
    (* explicit proximal point on the first segment of every group *)
    (forall g, In g new -> hd 0 (gmembers g) <> root_id t -> has_prox segs' (hd 0 (gmembers g))) /\
    (forall s, find_seg c (root_id t) = Some s -> sprox s <> None \/ sparent s <> None -> has_prox segs' (root_id t)) /\
    (* nothing else altered *)
    cell_upd c segs'.
Proof.
  intros c gs t Hok Hadj Hnd Hincl Hfresh.
  destruct (create_branches_refines c gs t Hok Hadj Hnd Hincl Hfresh) as [segs' [Hrun [Hupd [Hrest Hroot]]]].
  exists segs', (name_groups (Z.of_nat (List.length gs)) 0 (sect_tree t [])).
  split; [exact Hrun|]. rewrite gmembers_name_groups, sect_tree_partition.
  split; [reflexivity|]. split; [exact Hnd|]. split; [|split; [|split; [|split; [exact Hroot|exact Hupd]]]].
  - intros g Hg.
    assert (Hm : In (gmembers g) (sect_tree t [])).
    { rewrite <- (gmembers_name_groups (Z.of_nat (List.length gs)) 0 (sect_tree t [])). now apply in_map. }
    assert (Hshape : gnlx g = Some section_nlx /\ gincludes g = []).
    { clear -Hg. revert Hg. generalize 0%nat. induction (sect_tree t []) as [|x r IH]; intros i Hg; [inversion Hg|].
      simpl in Hg. destruct Hg as [<-|Hg]; [simpl; auto|eauto]. }
    destruct Hshape as [H1 H2]. repeat split; auto. now apply sect_tree_groups.
  - now apply tree_adjb_children.
  - intros g Hg Hne.
    assert (Hm : In (gmembers g) (sect_tree t [])).
    { rewrite <- (gmembers_name_groups (Z.of_nat (List.length gs)) 0 (sect_tree t [])). now apply in_map. }
    rewrite (sect_tree_split t) in Hm. destruct Hm as [Hm|Hm]; [|now apply Hrest].
    exfalso. apply Hne. rewrite <- Hm. apply first_chain_hd.
Qed.

(* ------------------------------------------------------------------ the hypotheses are decidable *)
Lemma nodup_strb_sound : forall l, nodup_strb l = true -> NoDup l.
Proof.
  induction l as [|x r IH]; intros H; [constructor|]. simpl in H. apply andb_prop in H. destruct H as [H1 H2].
  constructor; auto. intro Hin. apply negb_true_iff in H1.
  assert (existsb (String.eqb x) r = true); [|congruence].
  apply existsb_exists. exists x. split; auto. apply String.eqb_refl.
Qed.

Lemma build_tree_root : forall fuel a r t, build_tree fuel a r = Some t -> root_id t = r.
Proof.
  intros [|k] a r t H; simpl in H; [discriminate|].
  match type of H with (match ?X with _ => _ end = _) => destruct X end; [|discriminate]. inversion H. reflexivity.
Qed.

(* hyps_ok (evaluated by the kernel on every generated case) implies every hypothesis of create_branches_correct *)
Theorem hyps_ok_sound : forall c gs root, hyps_ok c gs root = true ->
  exists t, root_id t = root /\ wf c /\ all_ok c /\ tree_adjb (adjacency c) t = true /\ NoDup (preorder t) /\
            incl (preorder t) (ids c) /\
            NoDup (map gid gs ++ map gid (name_groups (Z.of_nat (List.length gs)) 0 (sect_tree t []))).
Proof.
  intros c gs root H. unfold hyps_ok in H. destruct (build_tree (fuel_of c) (adjacency c) root) as [t|] eqn:Eb; [|discriminate].
  apply andb_prop in H. destruct H as [H Hnames]. apply andb_prop in H. destruct H as [H Hincl].
  apply andb_prop in H. destruct H as [H Hnd]. apply andb_prop in H. destruct H as [H Hadj].
  apply andb_prop in H. destruct H as [Hwfb Hrhp].
  exists t. split; [eapply build_tree_root; eauto|].
  assert (Hwf : wf c) by now apply wfb_sound.
  split; [exact Hwf|]. split; [apply wf_all_ok; auto; now apply root_has_proxb_sound|].
  split; [exact Hadj|]. split.
  - apply Zlist_eqb_eq in Hnd. rewrite <- Hnd. apply dedup_nodup.
  - split; [|now apply nodup_strb_sound].
    intros x Hx. rewrite forallb_forall in Hincl. specialize (Hincl x Hx). now apply memZ_spec.
Qed.
