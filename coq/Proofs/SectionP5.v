(* C16: the generated group names  seg_group_<n>_seg_<id>  determine the segment id (decimal printing is injective
   and contains no underscore), so groups created for different first segments never share a name. *)
From Coq Require Import List ZArith QArith Bool String Ascii DecimalString DecimalZ DecimalPos Decimal Lia Permutation.
From LNML Require Import Model.Morph Model.Section Proofs.MorphP Proofs.MorphP1 Proofs.SectionP Proofs.SectionP2 Proofs.SectionP4.
Import ListNotations.
Open Scope string_scope.

Definition us : ascii := "_"%char.

Fixpoint no_us (s : string) : Prop :=
  match s with
  | EmptyString => True
  | String c r => c <> us /\ no_us r
  end.

Lemma no_us_uint : forall d, no_us (NilEmpty.string_of_uint d).
Proof. induction d; simpl; auto; split; auto; discriminate. Qed.

Lemma no_us_zstr : forall z, no_us (zstr z).
Proof.
  intro z. unfold zstr, NilZero.string_of_int.
  destruct (Z.to_int z) as [d|d]; unfold NilZero.string_of_uint.
  - destruct d; try apply no_us_uint. simpl. split; [discriminate|exact I].
  - simpl. split; [discriminate|]. destruct d; try apply no_us_uint. simpl. split; [discriminate|exact I].
Qed.

Lemma to_int_not_nil : forall z, Z.to_int z <> Pos Nil /\ Z.to_int z <> Neg Nil.
Proof.
  intros [|p|p]; simpl; split; try discriminate; intro H; inversion H as [H1];
    now apply Unsigned.to_uint_nonnil in H1.
Qed.

Lemma zstr_inj : forall a b, zstr a = zstr b -> a = b.
Proof.
  intros a b H. unfold zstr in H. apply to_int_inj.
  destruct (to_int_not_nil a) as [Ha1 Ha2]. destruct (to_int_not_nil b) as [Hb1 Hb2].
  pose proof (NilZero.isi _ Ha1 Ha2) as Ia. pose proof (NilZero.isi _ Hb1 Hb2) as Ib.
  rewrite H in Ia. rewrite Ia in Ib. now inversion Ib.
Qed.

(* a ++ "_" ++ x = b ++ "_" ++ y with underscore-free a, b forces a = b *)
Lemma split_at_us : forall a b x y, no_us a -> no_us b ->
  a ++ String us x = b ++ String us y -> a = b /\ x = y.
Proof.
  induction a as [|c r IH]; intros b x y Ha Hb H.
  - destruct b as [|d s]; simpl in *.
    + inversion H. auto.
    + inversion H. destruct Hb as [Hd _]. congruence.
  - destruct b as [|d s]; simpl in *.
    + inversion H. destruct Ha as [Hc _]. congruence.
    + inversion H; subst d. destruct Ha as [_ Ha]. destruct Hb as [_ Hb].
      destruct (IH s x y Ha Hb) as [-> ->]; auto.
Qed.

Theorem mkname_inj : forall n id n' id', mkname n id = mkname n' id' -> n = n' /\ id = id'.
Proof.
  intros n id n' id' H. unfold mkname in H.
  assert (H1 : zstr n ++ "_seg_" ++ zstr id = zstr n' ++ "_seg_" ++ zstr id').
  { simpl in H. now inversion H. }
  change ("_seg_" ++ zstr id) with (String us ("seg_" ++ zstr id)) in H1.
  change ("_seg_" ++ zstr id') with (String us ("seg_" ++ zstr id')) in H1.
  destruct (split_at_us _ _ _ _ (no_us_zstr n) (no_us_zstr n') H1) as [Hn Hid].
  split; [now apply zstr_inj|]. simpl in Hid. inversion Hid. now apply zstr_inj.
Qed.

(* ------------------------------------------------------------------ hence: freshness only has to be asked of the old groups *)
Open Scope Z_scope.

Lemma sect_tree_nonempty : forall t g, In g (sect_tree t []) -> g <> [].
Proof.
  intros t g Hg. destruct (sect_tree_groups t g Hg) as [s [e [_ [Hc _]]]]. now destruct (chain_head _ _ _ Hc).
Qed.

Lemma heads_nodup : forall (gs : list (list Z)), (forall g, In g gs -> g <> []) -> NoDup (List.concat gs) ->
  NoDup (map (hd 0) gs).
Proof.
  induction gs as [|g r IH]; intros Hne Hnd; simpl; [constructor|].
  simpl in Hnd. constructor.
  - intro Hin. apply in_map_iff in Hin. destruct Hin as [g' [Heq Hg']].
    destruct g as [|x xs]; [exact (Hne [] (or_introl eq_refl) eq_refl)|].
    destruct g' as [|y ys]; [exact (Hne [] (or_intror Hg') eq_refl)|]. simpl in Heq. subst y.
    simpl in Hnd. inversion Hnd as [|? ? Hnot _]; subst. apply Hnot. apply in_or_app. right.
    apply in_concat. exists (x :: ys). split; [exact Hg'|now left].
  - apply IH; [intros; apply Hne; now right|]. clear -Hnd. induction g; simpl in *; auto. inversion Hnd; auto.
Qed.

Lemma name_groups_gids_in : forall N l i nm, In nm (map gid (name_groups N i l)) ->
  exists n ms, In ms l /\ nm = mkname n (hd 0 ms).
Proof.
  induction l as [|ms r IH]; intros i nm H; simpl in H; [contradiction|].
  destruct H as [<-|H]; [exists (N + Z.of_nat (Init.Nat.pred i)), ms; split; [now left|reflexivity]|].
  destruct (IH _ _ H) as [n [ms' [H1 H2]]]. exists n, ms'. split; [now right|exact H2].
Qed.

Lemma name_groups_nodup : forall N l i, NoDup (map (hd 0) l) -> NoDup (map gid (name_groups N i l)).
Proof.
  induction l as [|ms r IH]; intros i H; simpl; [constructor|]. simpl in H. inversion H as [|? ? Hnot Hr]; subst.
  constructor; [|now apply IH]. intro Hin. destruct (name_groups_gids_in _ _ _ _ Hin) as [n [ms' [Hms' Heq]]].
  apply mkname_inj in Heq. destruct Heq as [_ Heq]. apply Hnot. rewrite Heq. now apply in_map.
Qed.

Lemma NoDup_app_intro : forall {A} (l1 l2 : list A), NoDup l1 -> NoDup l2 -> (forall x, In x l1 -> ~ In x l2) -> NoDup (l1 ++ l2).
Proof.
  induction l1 as [|x r IH]; intros l2 H1 H2 Hd; simpl; auto. inversion H1; subst. constructor.
  - rewrite in_app_iff. intros [Hin|Hin]; [tauto|]. apply (Hd x); [now left|exact Hin].
  - apply IH; auto. intros y Hy. apply Hd. now right.
Qed.

(* the freshness hypothesis of create_branches_correct follows from: old group ids distinct and none of the
   generated form *)
Theorem names_fresh : forall gs t, NoDup (preorder t) -> NoDup (map gid gs) ->
  (forall g, In g gs -> gen_name (gid g) = false) ->
  NoDup (map gid gs ++ map gid (name_groups (Z.of_nat (List.length gs)) 0 (sect_tree t []))).
Proof.
  intros gs t Hnd Hgs Hold. apply NoDup_app_intro; auto.
  - apply name_groups_nodup. apply heads_nodup; [apply sect_tree_nonempty|]. now rewrite sect_tree_partition.
  - intros nm Hin Hin'. apply in_map_iff in Hin. destruct Hin as [g [<- Hg]].
    destruct (name_groups_gids_in _ _ _ _ Hin') as [n [ms [_ Heq]]].
    pose proof (Hold g Hg) as Hf. rewrite Heq, mkname_gen in Hf. discriminate.
Qed.

Theorem create_branches_correct_fresh : forall c gs t,
  all_ok c -> tree_adjb (adjacency c) t = true -> NoDup (preorder t) -> incl (preorder t) (ids c) ->
  NoDup (map gid gs) -> (forall g, In g gs -> gen_name (gid g) = false) ->
  exists segs' new,
    create_branches c gs (root_id t) false false = Ok (mkst segs' (gs ++ new)) /\
    List.concat (map gmembers new) = preorder t /\ NoDup (List.concat (map gmembers new)) /\
    (forall g, In g new -> gnlx g = Some section_nlx /\ gincludes g = [] /\
       exists s e, branch_start t s /\ chain s (gmembers g) e /\ List.length (subtrees e) <> 1%nat) /\
    (forall n kids, subtree t (Node n kids) -> children c n = map root_id kids) /\
    (forall g, In g new -> hd 0 (gmembers g) <> root_id t -> has_prox segs' (hd 0 (gmembers g))) /\
    (forall s, find_seg c (root_id t) = Some s -> sprox s <> None \/ sparent s <> None -> has_prox segs' (root_id t)) /\
    cell_upd c segs'.
Proof.
  intros c gs t Hok Hadj Hnd Hincl Hgs Hold. apply create_branches_correct; auto. now apply names_fresh.
Qed.

(* ------------------------------------------------------------------ no hidden state (table obligation) *)
Theorem writes_ok_sound : forall t, writes_ok t = true ->
  forall m, In m tracked_methods -> exists ws, slookup t m = Some ws /\ forall w, In w ws -> In w (allowed_writes m).
Proof.
  intros t H m Hm. unfold writes_ok in H. rewrite forallb_forall in H. specialize (H m Hm).
  destruct (slookup t m) as [ws|]; [|discriminate]. exists ws. split; auto.
  intros w Hw. rewrite forallb_forall in H. specialize (H w Hw). unfold str_mem in H.
  apply existsb_exists in H. destruct H as [x [Hx He]]. apply String.eqb_eq in He. now subst.
Qed.

Example writes_ok_example :
  writes_ok (map (fun m => (m, allowed_writes m)) tracked_methods) = true.
Proof. vm_compute. reflexivity. Qed.
