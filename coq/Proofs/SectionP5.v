(* C16: the generated group names  seg_group_<n>_seg_<id>  determine the segment id (decimal printing is injective
   and contains no underscore), so groups created for different first segments never share a name. *)
From Coq Require Import List ZArith QArith Bool String Ascii DecimalString DecimalZ DecimalPos Decimal Lia Permutation.
From LNML Require Import Model.Morph Model.Section Proofs.MorphP Proofs.MorphP1 Proofs.SectionP Proofs.SectionP2 Proofs.SectionP4.
Import ListNotations.
Open Scope string_scope.

Definition us : ascii := "_"%char.

Fixpoint no_us (s : string) : Prop :=
  match s with
  | EmptyString => True
  | String c r => c <> us /\ no_us r
  end.

Lemma no_us_uint : forall d, no_us (NilEmpty.string_of_uint d).
Proof. induction d; simpl; auto; split; auto; discriminate. Qed.

Lemma no_us_zstr : forall z, no_us (zstr z).
Proof.
  intro z. unfold zstr, NilZero.string_of_int.
  destruct (Z.to_int z) as [d|d]; unfold NilZero.string_of_uint.
  - destruct d; try apply no_us_uint. simpl. split; [discriminate|exact I].
  - simpl. split; [discriminate|]. destruct d; try apply no_us_uint. simpl. split; [discriminate|exact I].
Qed.

Lemma to_int_not_nil : forall z, Z.to_int z <> Pos Nil /\ Z.to_int z <> Neg Nil.
Proof.
  intros [|p|p]; simpl; split; try discriminate; intro H; inversion H as [H1];
    now apply Unsigned.to_uint_nonnil in H1.
Qed.

Lemma zstr_inj : forall a b, zstr a = zstr b -> a = b.
Proof.
  intros a b H. unfold zstr in H. apply to_int_inj.
  destruct (to_int_not_nil a) as [Ha1 Ha2]. destruct (to_int_not_nil b) as [Hb1 Hb2].
  pose proof (NilZero.isi _ Ha1 Ha2) as Ia. pose proof (NilZero.isi _ Hb1 Hb2) as Ib.
  rewrite H in Ia. rewrite Ia in Ib. now inversion Ib.
Qed.

(* a ++ "_" ++ x = b ++ "_" ++ y with underscore-free a, b forces a = b *)
Lemma split_at_us : forall a b x y, no_us a -> no_us b ->
  a ++ String us x = b ++ String us y -> a = b /\ x = y.
Proof.
  induction a as [|c r IH]; intros b x y Ha Hb H.
  - destruct b as [|d s]; simpl in *.
    + inversion H. auto.
    + inversion H. destruct Hb as [Hd _]. congruence.
  - destruct b as [|d s]; simpl in *.
    + inversion H. destruct Ha as [Hc _]. congruence.
    + inversion H; subst d. destruct Ha as [_ Ha]. destruct Hb as [_ Hb].
      destruct (IH s x y Ha Hb) as [-> ->]; auto.
Qed.

Theorem mkname_inj : forall n id n' id', mkname n id = mkname n' id' -> n = n' /\ id = id'.
Proof.
  intros n id n' id' H. unfold mkname in H.
  assert (H1 : zstr n ++ "_seg_" ++ zstr id = zstr n' ++ "_seg_" ++ zstr id').
  { simpl in H. now inversion H. }
  change ("_seg_" ++ zstr id) with (String us ("seg_" ++ zstr id)) in H1.
  change ("_seg_" ++ zstr id') with (String us ("seg_" ++ zstr id')) in H1.
  destruct (split_at_us _ _ _ _ (no_us_zstr n) (no_us_zstr n') H1) as [Hn Hid].
  split; [now apply zstr_inj|]. simpl in Hid. inversion Hid. now apply zstr_inj.
Qed.

(* ------------------------------------------------------------------ hence: freshness only has to be asked of the old groups *)
Open Scope Z_scope.

Lemma sect_tree_nonempty : forall t g, In g (sect_tree t []) -> g <> [].
Proof.
  intros t g Hg. destruct (sect_tree_groups t g Hg) as [s [e [_ [Hc _]]]]. now destruct (chain_head _ _ _ Hc).
Qed.

Lemma heads_nodup : forall (gs : list (list Z)), (forall g, In g gs -> g <> []) -> NoDup (List.concat gs) ->
  NoDup (map (hd 0) gs).
Proof.
  induction gs as [|g r IH]; intros Hne Hnd; simpl; [constructor|].
  simpl in Hnd. constructor.
  - intro Hin. apply in_map_iff in Hin. destruct Hin as [g' [Heq Hg']].
    destruct g as [|x xs]; [exact (Hne [] (or_introl eq_refl) eq_refl)|].
    destruct g' as [|y ys]; [exact (Hne [] (or_intror Hg') eq_refl)|]. simpl in Heq. subst y.
    simpl in Hnd. inversion Hnd as [|? ? Hnot _]; subst. apply Hnot. apply in_or_app. right.
    apply in_concat. exists (x :: ys). split; [exact Hg'|now left].
  - apply IH; [intros; apply Hne; now right|]. clear -Hnd. induction g; simpl in *; auto. inversion Hnd; auto.
Qed.

Lemma name_groups_gids_in : forall N l i nm, In nm (map gid (name_groups N i l)) ->
  exists n ms, In ms l /\ nm = mkname n (hd 0 ms).
Proof.
  induction l as [|ms r IH]; intros i nm H; simpl in H; [contradiction|].
  destruct H as [<-|H]; [exists (N + Z.of_nat (Init.Nat.pred i)), ms; split; [now left|reflexivity]|].
  destruct (IH _ _ H) as [n [ms' [H1 H2]]]. exists n, ms'. split; [now right|exact H2].
Qed.

Lemma name_groups_nodup : forall N l i, NoDup (map (hd 0) l) -> NoDup (map gid (name_groups N i l)).
Proof.
  induction l as [|ms r IH]; intros i H; simpl; [constructor|]. simpl in H. inversion H as [|? ? Hnot Hr]; subst.
  constructor; [|now apply IH]. intro Hin. destruct (name_groups_gids_in _ _ _ _ Hin) as [n [ms' [Hms' Heq]]].
  apply mkname_inj in Heq. destruct Heq as [_ Heq]. apply Hnot. rewrite Heq. now apply in_map.
Qed.

Lemma NoDup_app_intro : forall {A} (l1 l2 : list A), NoDup l1 -> NoDup l2 -> (forall x, In x l1 -> ~ In x l2) -> NoDup (l1 ++ l2).
Proof.
  induction l1 as [|x r IH]; intros l2 H1 H2 Hd; simpl; auto. inversion H1; subst. constructor.
  - rewrite in_app_iff. intros [Hin|Hin]; [tauto|]. apply (Hd x); [now left|exact Hin].
  - apply IH; auto. intros y Hy. apply Hd. now right.
Qed.

(* the freshness hypothesis of create_branches_correct follows from: old group ids distinct and none of the
   generated form *)
Theorem names_fresh : forall gs t, NoDup (preorder t) -> NoDup (map gid gs) ->
  (forall g, In g gs -> gen_name (gid g) = false) ->
  NoDup (map gid gs ++ map gid (name_groups (Z.of_nat (List.length gs)) 0 (sect_tree t []))).
Proof.
  intros gs t Hnd Hgs Hold. apply NoDup_app_intro; auto.
  - apply name_groups_nodup. apply heads_nodup; [apply sect_tree_nonempty|]. now rewrite sect_tree_partition.
  - intros nm Hin Hin'. apply in_map_iff in Hin. destruct Hin as [g [<- Hg]].
    destruct (name_groups_gids_in _ _ _ _ Hin') as [n [ms [_ Heq]]].
    pose proof (Hold g Hg) as Hf. rewrite Heq, mkname_gen in Hf. discriminate.
Qed.

Theorem create_branches_correct_fresh : forall c gs t,
  all_ok c -> tree_adjb (adjacency c) t = true -> NoDup (preorder t) -> incl (preorder t) (ids c) ->
  NoDup (map gid gs) -> (forall g, In g gs -> gen_name (gid g) = false) ->
  exists segs' new,
    create_branches c gs (root_id t) false false = Ok (mkst segs' (gs ++ new)) /\
    List.concat (map gmembers new) = preorder t /\ NoDup (List.concat (map gmembers new)) /\
    (forall g, In g new -> gnlx g = Some section_nlx /\ gincludes g = [] /\
       exists s e, branch_start t s /\ chain s (gmembers g) e /\ List.length (subtrees e) <> 1%nat) /\
    (forall n kids, subtree t (Node n kids) -> children c n = map root_id kids) /\
    (forall g, In g new -> hd 0 (gmembers g) <> root_id t -> has_prox segs' (hd 0 (gmembers g))) /\
    (forall s, find_seg c (root_id t) = Some s -> sprox s <> None \/ sparent s <> None -> has_prox segs' (root_id t)) /\
    cell_upd c segs'.
Proof.
  intros c gs t Hok Hadj Hnd Hincl Hgs Hold. apply create_branches_correct; auto. now apply names_fresh.
Qed.

(* ------------------------------------------------------------------ no hidden state (table obligation) *)
Theorem writes_ok_sound : forall t, writes_ok t = true ->
  forall m, In m tracked_methods -> exists ws, slookup t m = Some ws /\ forall w, In w ws -> In w (allowed_writes m).
Proof.
  intros t H m Hm. unfold writes_ok in H. rewrite forallb_forall in H. specialize (H m Hm).
  destruct (slookup t m) as [ws|]; [|discriminate]. exists ws. split; auto.
  intros w Hw. rewrite forallb_forall in H. specialize (H w Hw). unfold str_mem in H.
  apply existsb_exists in H. destruct H as [x [Hx He]]. apply String.eqb_eq in He. now subst.
Qed.

Example writes_ok_example :
  writes_ok (map (fun m => (m, allowed_writes m)) tracked_methods) = true.
Proof. vm_compute. reflexivity. Qed.

(* ------------------------------------------------------------------ the ID chosen for a new group is never in use (C16 fix) *)
Lemma name_taken_in : forall gs nm, name_taken gs nm = true <-> In nm (map gid gs).
Proof.
  intros gs nm. unfold name_taken. rewrite existsb_exists. split.
  - intros [g [Hg Hh]]. unfold has_gid in Hh. apply String.eqb_eq in Hh. subst. now apply in_map.
  - intro H. apply in_map_iff in H. destruct H as [g [<- Hg]]. exists g. split; auto. unfold has_gid. apply String.eqb_refl.
Qed.

Lemma fresh_index_taken : forall fuel gs n id,
  name_taken gs (mkname (fresh_index fuel gs n id) id) = true ->
  forall k, (k <= fuel)%nat -> name_taken gs (mkname (n + Z.of_nat k) id) = true.
Proof.
  induction fuel as [|f IH]; intros gs n id H k Hk; simpl in H.
  - assert (k = O) by lia. subst. now rewrite Z.add_0_r.
  - destruct (name_taken gs (mkname n id)) eqn:E.
    + destruct k as [|k']; [now rewrite Z.add_0_r|].
      replace (n + Z.of_nat (S k')) with ((n + 1) + Z.of_nat k') by lia. apply (IH gs (n + 1) id H). lia.
    + congruence.
Qed.

(* the while loop of __unused_branch_group_id ends within len(groups) increments, with an ID no group carries *)
Theorem fresh_name_not_taken : forall gs n id, ~ In (fresh_name gs n id) (map gid gs).
Proof.
  intros gs n id Hin. unfold fresh_name in Hin. apply name_taken_in in Hin.
  pose proof (fresh_index_taken (List.length gs) gs n id Hin) as Hall.
  set (cands := map (fun k => mkname (n + Z.of_nat k) id) (seq 0 (S (List.length gs)))).
  assert (Hnd : NoDup cands).
  { unfold cands. apply FinFun.Injective_map_NoDup; [|apply seq_NoDup].
    intros a b Hab. apply mkname_inj in Hab. lia. }
  assert (Hincl : incl cands (map gid gs)).
  { intros x Hx. unfold cands in Hx. apply in_map_iff in Hx. destruct Hx as [k [<- Hk]]. apply in_seq in Hk.
    apply name_taken_in. apply Hall. lia. }
  pose proof (NoDup_incl_length Hnd Hincl) as Hlen. unfold cands in Hlen.
  rewrite !map_length, seq_length in Hlen. lia.
Qed.

(* hence NO pre-existing group is touched, whatever its ID: the group list after the call is the old list followed by
   new, section-tagged groups (before the optional reordering; optimise flag off) *)
Lemma upd_first_skip_prefix : forall nm f gs0 tail, ~ In nm (map gid gs0) ->
  upd_first_group nm f (gs0 ++ tail) = (gs0 ++ upd_first_group nm f tail)%list.
Proof.
  intros nm f gs0 tail H. induction gs0 as [|g r IH]; simpl; auto.
  rewrite (has_gid_not_in nm (g :: r) H g (or_introl eq_refl)). f_equal. apply IH. intro Hin. apply H. simpl. now right.
Qed.

Definition tagged (g : group) : Prop := gnlx g = Some section_nlx.

Definition tail_inv (gs0 : list group) (st : mstate) : Prop :=
  exists tail, st_groups st = (gs0 ++ tail)%list /\ Forall tagged tail.

Lemma upd_first_tagged : forall nm id tail, Forall tagged tail -> Forall tagged (upd_first_group nm (add_member_g id) tail).
Proof.
  intros nm id tail H. induction H as [|g r Hg Hr IH]; simpl; [constructor|].
  destruct (has_gid nm g); constructor; auto. unfold tagged, add_member_g in *. destruct (memZ id (gmembers g)); auto.
Qed.

Lemma tail_inv_add_member : forall gs0 gname id st, ~ In gname (map gid gs0) -> tail_inv gs0 st -> tail_inv gs0 (add_member gname id st).
Proof.
  intros gs0 gname id st Hn [tail [Hg Ht]]. exists (upd_first_group gname (add_member_g id) tail). split.
  - unfold add_member. cbn [st_groups]. rewrite Hg. now apply upd_first_skip_prefix.
  - now apply upd_first_tagged.
Qed.

Lemma sect_tail_inv : forall gs0 fuel a r gname st st', ~ In gname (map gid gs0) -> tail_inv gs0 st ->
  sect fuel a r gname st = Ok st' -> tail_inv gs0 st'.
Proof.
  intros gs0. induction fuel as [|k IH]; intros a r gname st st' Hn Hinv H; [discriminate|].
  simpl in H. destruct (alookup a r) as [[|ch [|ch2 rest]]|] eqn:Ea.
  - inversion H; subst. exact Hinv.
  - eapply IH; [exact Hn| |exact H]. now apply tail_inv_add_member.
  - assert (Hstart : tail_inv gs0 (add_member gname r st)) by now apply tail_inv_add_member.
    revert H. generalize (add_member gname r st) Hstart. generalize (ch :: ch2 :: rest).
    induction l as [|x xs IHl]; intros st1 Hst1 H; cbn [fold_left] in H.
    + inversion H; subst. exact Hst1.
    + destruct (sect_child (sect k a) (Ok st1) x) as [st2|e] eqn:E; [|rewrite fold_err in H; discriminate].
      apply (IHl st2); [|exact H].
      unfold sect_child in E. cbn [bind] in E.
      destruct (get_segment (st_segs st1) x) as [s|e] eqn:Es; cbn [bind] in E; [|discriminate].
      destruct (actual_prox (fuel_of (st_segs st1)) (st_segs st1) (sid s)) as [p|e] eqn:Ep; cbn [bind] in E; [|discriminate].
      cbn [set_prox st_groups] in E.
      destruct Hst1 as [tail [Hg Ht]].
      set (name := fresh_name (st_groups st1) (Z.of_nat (List.length (st_groups st1)) - 1) (sid s)) in *.
      assert (Hfree : ~ In name (map gid (st_groups st1))) by apply fresh_name_not_taken.
      eapply IH; [| |exact E].
      * intro Hin. apply Hfree. rewrite Hg, map_app. apply in_or_app. now left.
      * unfold add_unbranched_group. cbn [set_prox st_groups st_segs].
        rewrite (existsb_not_in name (st_groups st1) Hfree). cbn [st_groups].
        exists (tail ++ [mkgroup name [] [] (Some section_nlx)])%list. split.
        -- rewrite Hg, <- app_assoc. reflexivity.
        -- apply Forall_app. split; auto. constructor; [reflexivity|constructor].
  - inversion H; subst. now apply tail_inv_add_member.
Qed.

Theorem create_branches_old_groups_untouched : forall c gs root st',
  create_branches c gs root false false = Ok st' ->
  exists new, st_groups st' = (gs ++ new)%list /\ Forall tagged new.
Proof.
  intros c gs root st' H. unfold create_branches in H.
  destruct (get_segment c root) as [s|e]; cbn [bind] in H; [|discriminate].
  destruct (root_prox (mkst c gs) s) as [st0|e] eqn:E0; cbn [bind] in H; [|discriminate].
  assert (Hg0 : st_groups st0 = gs).
  { unfold root_prox in E0. destruct (sprox s); [inversion E0; reflexivity|].
    destruct (sparent s); [|inversion E0; reflexivity].
    destruct (actual_prox _ _ _); cbn [bind] in E0; [|discriminate]. inversion E0. reflexivity. }
  match type of H with (bind ?X _ = _) => destruct X as [st1|e] eqn:E1 end; cbn [bind] in H; [|discriminate].
  inversion H; subst st'; clear H. cbn [st_groups].
  set (name := fresh_name (st_groups st0) (Z.of_nat (List.length gs)) (sid s)) in *.
  assert (Hfree : ~ In name (map gid (st_groups st0))) by apply fresh_name_not_taken.
  assert (Hinv : tail_inv gs st1).
  { eapply sect_tail_inv; [| |exact E1].
    - now rewrite <- Hg0.
    - unfold add_unbranched_group. rewrite (existsb_not_in name (st_groups st0) Hfree). cbn [st_groups].
      exists [mkgroup name [] [] (Some section_nlx)]. split; [now rewrite Hg0|]. constructor; [reflexivity|constructor]. }
  exact Hinv.
Qed.
