(* C15, validity clause: the component tree of a builder state (Model/BuilderTree.cell_tree) conforms to the schema
   (Model/Xsd.conformsb) whenever the model's valid_cell holds - for every cell state, by induction over its
   segment / group / member / property lists.  The binding and schema tables enter through `table_facts`: what
   the tables of the run say about the 16 classes and the simple types involved (discharged by vm_compute on
   Gen_Bindings / Gen_Schema in the per-run Inst_C15.v).  Instance F := finite decimals (Model/GdsExec). *)
From Coq Require Import String List ZArith Bool Arith Lia.
From LNML Require Import Lib.Dec Lib.Regex Model.Gds Model.GdsExec Model.Validate Model.Xsd
     Model.Groups Model.Builder Model.BuilderTree Proofs.RegexP.
Import ListNotations.
Open Scope string_scope.

Record cinfo := { ci_ea : list exp_attr; ci_ek : list exp_kid; ci_xa : list xattr; ci_ps : list particle }.

(* ---------- what the proof assumes about the tables (checked against Gen_* on every run, Inst_C15.v) ---------- *)
Definition INFO_Cell : cinfo :=
  {| ci_ea := [{| ea_py := "id"; ea_xml := "id"; ea_kind := KStr; ea_guard := GNotNone |}; {| ea_py := "metaid"; ea_xml := "metaid"; ea_kind := KStr; ea_guard := GNotNone |}; {| ea_py := "neuro_lex_id"; ea_xml := "neuroLexId"; ea_kind := KStr; ea_guard := GNotNone |}; {| ea_py := "morphology_attr"; ea_xml := "morphology"; ea_kind := KStr; ea_guard := GNotNone |}; {| ea_py := "biophysical_properties_attr"; ea_xml := "biophysicalProperties"; ea_kind := KStr; ea_guard := GNotNone |}]; ci_ek := [{| ek_py := "notes"; ek_tag := "notes"; ek_kind := CText |}; {| ek_py := "properties"; ek_tag := "property"; ek_kind := CObjList |}; {| ek_py := "annotation"; ek_tag := "annotation"; ek_kind := CObj |}; {| ek_py := "morphology"; ek_tag := "morphology"; ek_kind := CObj |}; {| ek_py := "biophysical_properties"; ek_tag := "biophysicalProperties"; ek_kind := CObj |}]; ci_xa := [{| xa_name := "id"; xa_type := "NmlId"; xa_req := true; xa_default := None; xa_fixed := None |}; {| xa_name := "metaid"; xa_type := "MetaId"; xa_req := false; xa_default := None; xa_fixed := None |}; {| xa_name := "neuroLexId"; xa_type := "NeuroLexId"; xa_req := false; xa_default := None; xa_fixed := None |}; {| xa_name := "morphology"; xa_type := "NmlId"; xa_req := false; xa_default := None; xa_fixed := None |}; {| xa_name := "biophysicalProperties"; xa_type := "NmlId"; xa_req := false; xa_default := None; xa_fixed := None |}]; ci_ps := [PSeq [PElem "notes" "Notes" 0 (Some 1); PElem "property" "Property" 0 None; PElem "annotation" "Annotation" 0 (Some 1)]; PSeq [PElem "morphology" "Morphology" 0 (Some 1); PElem "biophysicalProperties" "BiophysicalProperties" 0 (Some 1)]] |}.
Definition INFO_Morphology : cinfo :=
  {| ci_ea := [{| ea_py := "id"; ea_xml := "id"; ea_kind := KStr; ea_guard := GNotNone |}; {| ea_py := "metaid"; ea_xml := "metaid"; ea_kind := KStr; ea_guard := GNotNone |}]; ci_ek := [{| ek_py := "notes"; ek_tag := "notes"; ek_kind := CText |}; {| ek_py := "properties"; ek_tag := "property"; ek_kind := CObjList |}; {| ek_py := "annotation"; ek_tag := "annotation"; ek_kind := CObj |}; {| ek_py := "segments"; ek_tag := "segment"; ek_kind := CObjList |}; {| ek_py := "segment_groups"; ek_tag := "segmentGroup"; ek_kind := CObjList |}]; ci_xa := [{| xa_name := "id"; xa_type := "NmlId"; xa_req := true; xa_default := None; xa_fixed := None |}; {| xa_name := "metaid"; xa_type := "MetaId"; xa_req := false; xa_default := None; xa_fixed := None |}]; ci_ps := [PSeq [PElem "notes" "Notes" 0 (Some 1); PElem "property" "Property" 0 None; PElem "annotation" "Annotation" 0 (Some 1)]; PSeq [PElem "segment" "Segment" 1 None; PElem "segmentGroup" "SegmentGroup" 0 None]] |}.
Definition INFO_Segment : cinfo :=
  {| ci_ea := [{| ea_py := "id"; ea_xml := "id"; ea_kind := KInt; ea_guard := GNotNone |}; {| ea_py := "name"; ea_xml := "name"; ea_kind := KStr; ea_guard := GNotNone |}; {| ea_py := "neuro_lex_id"; ea_xml := "neuroLexId"; ea_kind := KStr; ea_guard := GNotNone |}]; ci_ek := [{| ek_py := "parent"; ek_tag := "parent"; ek_kind := CObj |}; {| ek_py := "proximal"; ek_tag := "proximal"; ek_kind := CObj |}; {| ek_py := "distal"; ek_tag := "distal"; ek_kind := CObj |}]; ci_xa := [{| xa_name := "id"; xa_type := "NonNegativeInteger"; xa_req := true; xa_default := None; xa_fixed := None |}; {| xa_name := "name"; xa_type := "xs:string"; xa_req := false; xa_default := None; xa_fixed := None |}; {| xa_name := "neuroLexId"; xa_type := "NeuroLexId"; xa_req := false; xa_default := None; xa_fixed := None |}]; ci_ps := [PSeq [PElem "parent" "SegmentParent" 0 (Some 1); PElem "proximal" "Point3DWithDiam" 0 (Some 1); PElem "distal" "Point3DWithDiam" 1 (Some 1)]] |}.
Definition INFO_SegmentParent : cinfo :=
  {| ci_ea := [{| ea_py := "segments"; ea_xml := "segment"; ea_kind := KInt; ea_guard := GNotNone |}; {| ea_py := "fraction_along"; ea_xml := "fractionAlong"; ea_kind := KFloat; ea_guard := GNe (DInt 1) |}]; ci_ek := []; ci_xa := [{| xa_name := "segment"; xa_type := "NonNegativeInteger"; xa_req := true; xa_default := None; xa_fixed := None |}; {| xa_name := "fractionAlong"; xa_type := "ZeroToOne"; xa_req := false; xa_default := Some "1"; xa_fixed := None |}]; ci_ps := [] |}.
Definition INFO_Point3DWithDiam : cinfo :=
  {| ci_ea := [{| ea_py := "x"; ea_xml := "x"; ea_kind := KDouble; ea_guard := GNotNone |}; {| ea_py := "y"; ea_xml := "y"; ea_kind := KDouble; ea_guard := GNotNone |}; {| ea_py := "z"; ea_xml := "z"; ea_kind := KDouble; ea_guard := GNotNone |}; {| ea_py := "diameter"; ea_xml := "diameter"; ea_kind := KDouble; ea_guard := GNotNone |}]; ci_ek := []; ci_xa := [{| xa_name := "x"; xa_type := "xs:double"; xa_req := true; xa_default := None; xa_fixed := None |}; {| xa_name := "y"; xa_type := "xs:double"; xa_req := true; xa_default := None; xa_fixed := None |}; {| xa_name := "z"; xa_type := "xs:double"; xa_req := true; xa_default := None; xa_fixed := None |}; {| xa_name := "diameter"; xa_type := "DoubleGreaterThanZero"; xa_req := true; xa_default := None; xa_fixed := None |}]; ci_ps := [] |}.
Definition INFO_SegmentGroup : cinfo :=
  {| ci_ea := [{| ea_py := "id"; ea_xml := "id"; ea_kind := KStr; ea_guard := GNotNone |}; {| ea_py := "neuro_lex_id"; ea_xml := "neuroLexId"; ea_kind := KStr; ea_guard := GNotNone |}]; ci_ek := [{| ek_py := "notes"; ek_tag := "notes"; ek_kind := CText |}; {| ek_py := "properties"; ek_tag := "property"; ek_kind := CObjList |}; {| ek_py := "annotation"; ek_tag := "annotation"; ek_kind := CObj |}; {| ek_py := "members"; ek_tag := "member"; ek_kind := CObjList |}; {| ek_py := "includes"; ek_tag := "include"; ek_kind := CObjList |}; {| ek_py := "paths"; ek_tag := "path"; ek_kind := CObjList |}; {| ek_py := "sub_trees"; ek_tag := "subTree"; ek_kind := CObjList |}; {| ek_py := "inhomogeneous_parameters"; ek_tag := "inhomogeneousParameter"; ek_kind := CObjList |}]; ci_xa := [{| xa_name := "id"; xa_type := "NmlId"; xa_req := true; xa_default := None; xa_fixed := None |}; {| xa_name := "neuroLexId"; xa_type := "NeuroLexId"; xa_req := false; xa_default := None; xa_fixed := None |}]; ci_ps := [PSeq [PElem "notes" "Notes" 0 (Some 1); PElem "property" "Property" 0 None; PElem "annotation" "Annotation" 0 (Some 1); PElem "member" "Member" 0 None; PElem "include" "Include" 0 None; PElem "path" "Path" 0 None; PElem "subTree" "SubTree" 0 None; PElem "inhomogeneousParameter" "InhomogeneousParameter" 0 None]] |}.
Definition INFO_Member : cinfo :=
  {| ci_ea := [{| ea_py := "segments"; ea_xml := "segment"; ea_kind := KInt; ea_guard := GNotNone |}]; ci_ek := []; ci_xa := [{| xa_name := "segment"; xa_type := "NonNegativeInteger"; xa_req := true; xa_default := None; xa_fixed := None |}]; ci_ps := [] |}.
Definition INFO_Include : cinfo :=
  {| ci_ea := [{| ea_py := "segment_groups"; ea_xml := "segmentGroup"; ea_kind := KStr; ea_guard := GNotNone |}]; ci_ek := []; ci_xa := [{| xa_name := "segmentGroup"; xa_type := "NmlId"; xa_req := true; xa_default := None; xa_fixed := None |}]; ci_ps := [] |}.
Definition INFO_BiophysicalProperties : cinfo :=
  {| ci_ea := [{| ea_py := "id"; ea_xml := "id"; ea_kind := KStr; ea_guard := GNotNone |}; {| ea_py := "metaid"; ea_xml := "metaid"; ea_kind := KStr; ea_guard := GNotNone |}]; ci_ek := [{| ek_py := "notes"; ek_tag := "notes"; ek_kind := CText |}; {| ek_py := "properties"; ek_tag := "property"; ek_kind := CObjList |}; {| ek_py := "annotation"; ek_tag := "annotation"; ek_kind := CObj |}; {| ek_py := "membrane_properties"; ek_tag := "membraneProperties"; ek_kind := CObj |}; {| ek_py := "intracellular_properties"; ek_tag := "intracellularProperties"; ek_kind := CObj |}; {| ek_py := "extracellular_properties"; ek_tag := "extracellularProperties"; ek_kind := CObj |}]; ci_xa := [{| xa_name := "id"; xa_type := "NmlId"; xa_req := true; xa_default := None; xa_fixed := None |}; {| xa_name := "metaid"; xa_type := "MetaId"; xa_req := false; xa_default := None; xa_fixed := None |}]; ci_ps := [PSeq [PElem "notes" "Notes" 0 (Some 1); PElem "property" "Property" 0 None; PElem "annotation" "Annotation" 0 (Some 1)]; PSeq [PElem "membraneProperties" "MembraneProperties" 1 (Some 1); PElem "intracellularProperties" "IntracellularProperties" 0 (Some 1); PElem "extracellularProperties" "ExtracellularProperties" 0 (Some 1)]] |}.
Definition INFO_MembraneProperties : cinfo :=
  {| ci_ea := []; ci_ek := [{| ek_py := "channel_populations"; ek_tag := "channelPopulation"; ek_kind := CObjList |}; {| ek_py := "channel_densities"; ek_tag := "channelDensity"; ek_kind := CObjList |}; {| ek_py := "channel_density_v_shifts"; ek_tag := "channelDensityVShift"; ek_kind := CObjList |}; {| ek_py := "channel_density_nernsts"; ek_tag := "channelDensityNernst"; ek_kind := CObjList |}; {| ek_py := "channel_density_ghks"; ek_tag := "channelDensityGHK"; ek_kind := CObjList |}; {| ek_py := "channel_density_ghk2s"; ek_tag := "channelDensityGHK2"; ek_kind := CObjList |}; {| ek_py := "channel_density_non_uniforms"; ek_tag := "channelDensityNonUniform"; ek_kind := CObjList |}; {| ek_py := "channel_density_non_uniform_nernsts"; ek_tag := "channelDensityNonUniformNernst"; ek_kind := CObjList |}; {| ek_py := "channel_density_non_uniform_ghks"; ek_tag := "channelDensityNonUniformGHK"; ek_kind := CObjList |}; {| ek_py := "spike_threshes"; ek_tag := "spikeThresh"; ek_kind := CObjList |}; {| ek_py := "specific_capacitances"; ek_tag := "specificCapacitance"; ek_kind := CObjList |}; {| ek_py := "init_memb_potentials"; ek_tag := "initMembPotential"; ek_kind := CObjList |}]; ci_xa := []; ci_ps := [PSeq [PElem "channelPopulation" "ChannelPopulation" 0 None; PElem "channelDensity" "ChannelDensity" 0 None; PElem "channelDensityVShift" "ChannelDensityVShift" 0 None; PElem "channelDensityNernst" "ChannelDensityNernst" 0 None; PElem "channelDensityGHK" "ChannelDensityGHK" 0 None; PElem "channelDensityGHK2" "ChannelDensityGHK2" 0 None; PElem "channelDensityNonUniform" "ChannelDensityNonUniform" 0 None; PElem "channelDensityNonUniformNernst" "ChannelDensityNonUniformNernst" 0 None; PElem "channelDensityNonUniformGHK" "ChannelDensityNonUniformGHK" 0 None; PElem "spikeThresh" "SpikeThresh" 1 None; PElem "specificCapacitance" "SpecificCapacitance" 1 None; PElem "initMembPotential" "InitMembPotential" 1 None]] |}.
Definition INFO_IntracellularProperties : cinfo :=
  {| ci_ea := []; ci_ek := [{| ek_py := "species"; ek_tag := "species"; ek_kind := CObjList |}; {| ek_py := "resistivities"; ek_tag := "resistivity"; ek_kind := CObjList |}]; ci_xa := []; ci_ps := [PSeq [PElem "species" "Species" 0 None; PElem "resistivity" "Resistivity" 0 None]] |}.
Definition INFO_SpikeThresh : cinfo :=
  {| ci_ea := [{| ea_py := "value"; ea_xml := "value"; ea_kind := KStr; ea_guard := GNotNone |}; {| ea_py := "segment_groups"; ea_xml := "segmentGroup"; ea_kind := KStr; ea_guard := GNe (DStr "all") |}]; ci_ek := []; ci_xa := [{| xa_name := "value"; xa_type := "Nml2Quantity_voltage"; xa_req := true; xa_default := None; xa_fixed := None |}; {| xa_name := "segmentGroup"; xa_type := "NmlId"; xa_req := false; xa_default := Some "all"; xa_fixed := None |}]; ci_ps := [] |}.
Definition INFO_InitMembPotential : cinfo :=
  {| ci_ea := [{| ea_py := "value"; ea_xml := "value"; ea_kind := KStr; ea_guard := GNotNone |}; {| ea_py := "segment_groups"; ea_xml := "segmentGroup"; ea_kind := KStr; ea_guard := GNe (DStr "all") |}]; ci_ek := []; ci_xa := [{| xa_name := "value"; xa_type := "Nml2Quantity_voltage"; xa_req := true; xa_default := None; xa_fixed := None |}; {| xa_name := "segmentGroup"; xa_type := "NmlId"; xa_req := false; xa_default := Some "all"; xa_fixed := None |}]; ci_ps := [] |}.
Definition INFO_SpecificCapacitance : cinfo :=
  {| ci_ea := [{| ea_py := "value"; ea_xml := "value"; ea_kind := KStr; ea_guard := GNotNone |}; {| ea_py := "segment_groups"; ea_xml := "segmentGroup"; ea_kind := KStr; ea_guard := GNe (DStr "all") |}]; ci_ek := []; ci_xa := [{| xa_name := "value"; xa_type := "Nml2Quantity_specificCapacitance"; xa_req := true; xa_default := None; xa_fixed := None |}; {| xa_name := "segmentGroup"; xa_type := "NmlId"; xa_req := false; xa_default := Some "all"; xa_fixed := None |}]; ci_ps := [] |}.
Definition INFO_Resistivity : cinfo :=
  {| ci_ea := [{| ea_py := "value"; ea_xml := "value"; ea_kind := KStr; ea_guard := GNotNone |}; {| ea_py := "segment_groups"; ea_xml := "segmentGroup"; ea_kind := KStr; ea_guard := GNe (DStr "all") |}]; ci_ek := []; ci_xa := [{| xa_name := "value"; xa_type := "Nml2Quantity_resistivity"; xa_req := true; xa_default := None; xa_fixed := None |}; {| xa_name := "segmentGroup"; xa_type := "NmlId"; xa_req := false; xa_default := Some "all"; xa_fixed := None |}]; ci_ps := [] |}.
Definition INFO_ChannelDensity : cinfo :=
  {| ci_ea := [{| ea_py := "id"; ea_xml := "id"; ea_kind := KStr; ea_guard := GNotNone |}; {| ea_py := "ion_channel"; ea_xml := "ionChannel"; ea_kind := KStr; ea_guard := GNotNone |}; {| ea_py := "cond_density"; ea_xml := "condDensity"; ea_kind := KStr; ea_guard := GNotNone |}; {| ea_py := "erev"; ea_xml := "erev"; ea_kind := KStr; ea_guard := GNotNone |}; {| ea_py := "segment_groups"; ea_xml := "segmentGroup"; ea_kind := KStr; ea_guard := GNe (DStr "all") |}; {| ea_py := "segments"; ea_xml := "segment"; ea_kind := KInt; ea_guard := GNotNone |}; {| ea_py := "ion"; ea_xml := "ion"; ea_kind := KStr; ea_guard := GNotNone |}]; ci_ek := [{| ek_py := "variable_parameters"; ek_tag := "variableParameter"; ek_kind := CObjList |}]; ci_xa := [{| xa_name := "id"; xa_type := "NmlId"; xa_req := true; xa_default := None; xa_fixed := None |}; {| xa_name := "ionChannel"; xa_type := "NmlId"; xa_req := true; xa_default := None; xa_fixed := None |}; {| xa_name := "condDensity"; xa_type := "Nml2Quantity_conductanceDensity"; xa_req := false; xa_default := None; xa_fixed := None |}; {| xa_name := "erev"; xa_type := "Nml2Quantity_voltage"; xa_req := true; xa_default := None; xa_fixed := None |}; {| xa_name := "segmentGroup"; xa_type := "NmlId"; xa_req := false; xa_default := Some "all"; xa_fixed := None |}; {| xa_name := "segment"; xa_type := "NonNegativeInteger"; xa_req := false; xa_default := None; xa_fixed := None |}; {| xa_name := "ion"; xa_type := "NmlId"; xa_req := true; xa_default := None; xa_fixed := None |}]; ci_ps := [PSeq [PElem "variableParameter" "VariableParameter" 0 None]] |}.
Definition ST_NmlId : Xsd.stype :=
  {| st_name := "NmlId"; st_prim := PString; st_enums := []; st_pats := [Cat (Sym [(97, 122); (65, 90); (95, 95)]) (Star (Sym [(97, 122); (65, 90); (48, 57); (95, 95)]))]; st_facets := [] |}.
Definition ST_xs_string : Xsd.stype :=
  {| st_name := "xs:string"; st_prim := PString; st_enums := []; st_pats := []; st_facets := [] |}.
Definition ST_NonNegativeInteger : Xsd.stype :=
  {| st_name := "NonNegativeInteger"; st_prim := PNonNegInt; st_enums := []; st_pats := []; st_facets := [] |}.
Definition ST_xs_double : Xsd.stype :=
  {| st_name := "xs:double"; st_prim := PDouble; st_enums := []; st_pats := []; st_facets := [] |}.

(* ---------- NmlId ---------- *)
Definition RE_NmlId : cre := Cat (Sym [(97, 122); (65, 90); (95, 95)]) (Star (Sym [(97, 122); (65, 90); (48, 57); (95, 95)])).

Lemma letter_sat : forall c, is_letter c = true ->
  csat [(97, 122); (65, 90); (95, 95)] c = true /\ csat [(97, 122); (65, 90); (48, 57); (95, 95)] c = true /\ printable_char c = true.
Proof.
  intros c. destruct c as [b0 b1 b2 b3 b4 b5 b6 b7].
  destruct b0, b1, b2, b3, b4, b5, b6, b7; vm_compute; intros H; try discriminate H; repeat split.
Qed.

Lemma idchar_sat : forall c, (is_letter c || is_digit c) = true ->
  csat [(97, 122); (65, 90); (48, 57); (95, 95)] c = true /\ printable_char c = true.
Proof.
  intros c. destruct c as [b0 b1 b2 b3 b4 b5 b6 b7].
  destruct b0, b1, b2, b3, b4, b5, b6, b7; vm_compute; intros H; try discriminate H; repeat split.
Qed.

Lemma idchars_star : forall s, all_idchars s = true ->
  Matches csat (Star (Sym [(97, 122); (65, 90); (48, 57); (95, 95)])) (list_ascii_of_string s) /\ printable s = true.
Proof.
  induction s as [|c r IH]; intros H; simpl in *.
  - split; [apply MStar0 | reflexivity].
  - apply andb_true_iff in H. destruct H as [Hc Hr]. destruct (idchar_sat c Hc) as [A B]. destruct (IH Hr) as [C D].
    split; [|rewrite B, D; reflexivity].
    change (c :: list_ascii_of_string r) with ([c] ++ list_ascii_of_string r)%list.
    apply MStarS; [apply MSym; exact A | exact C].
Qed.

Lemma nmlid_ok : forall s, nmlid s = true -> printable s = true /\ match_string RE_NmlId s = true.
Proof.
  intros s H. destruct s as [|c r]; [discriminate|]. simpl in H. apply andb_true_iff in H. destruct H as [Hc Hr].
  destruct (letter_sat c Hc) as [A [_ B]]. destruct (idchars_star r Hr) as [C D].
  split; [simpl; rewrite B, D; reflexivity|].
  unfold match_string. apply (proj2 (RegexP.matchl_correct _ _ csat _ _)). unfold RE_NmlId. simpl.
  change (c :: list_ascii_of_string r) with ([c] ++ list_ascii_of_string r)%list.
  apply MCat; [apply MSym; exact A | exact C].
Qed.

Section TreeConf.
Variable T : tables.
Variable S : schema.
Variable good : string -> bool.

Definition conf := @conformsb dec dec_veqb dec_ltb (fun d => d) parse_dec (fun _ => true) good.
Definition aconf := @attr_conf dec dec_veqb dec_ltb (fun d => d) (fun _ => true).
Definition kconf := @kid_conf dec dec_veqb dec_ltb (fun d => d) parse_dec (fun _ => true).

Definition class_facts (c : string) (i : cinfo) : Prop :=
  (exists k, find_cls T c = Some k) /\ (exists k, find_ct (s_ctypes S) c = Some k) /\ good c = true /\
  exp_attrs_of (cfuel T) T c = ci_ea i /\ exp_kids_of (cfuel T) T c = ci_ek i /\
  eff_attrs S c = ci_xa i /\ eff_parts S c = ci_ps i.

Lemma conf_unfold : forall c i f fs, class_facts c i ->
  conf (Datatypes.S f) T S (Obj c fs) =
  forallb (aconf S (Obj c fs) (ci_xa i)) (ci_ea i) &&
  forallb (kconf S (conf f T S) (Obj c fs) (ci_ps i)) (ci_ek i) &&
  forallb (counts_ok (cnt_of (Obj c fs) (ci_ek i))) (ci_ps i) &&
  forallb (holder_ok (ci_ek i)) fs.
Proof.
  intros c i f fs [[k Hk] [[k' Hk'] [Hg [H1 [H2 [H3 H4]]]]]].
  unfold conf. simpl. rewrite Hk, Hk', Hg, H1, H2, H3, H4. reflexivity.
Qed.

(* ---------- the facts about this run's tables ---------- *)
Definition mkxa (ty : string) : xattr := Build_xattr "" ty false None None.
Definition vok (ty : string) (v : xvalue) : bool :=
  @value_ok dec dec_veqb dec_ltb (fun d => d) (fun _ => true) S (mkxa ty) v.
Definition lexok (ty s : string) : bool := @lex_ok_named dec dec_veqb dec_ltb (fun d => d) parse_dec (fun _ => true) S ty s.

Definition known_nlex : list string := [dnlex Soma; dnlex Axon; dnlex Dendrite; section_nlex].
Definition all_notes : list string :=
  ["Default soma segment group for the cell"; "Default axon segment group for the cell";
   "Default dendrite segment group for the cell"; "Default segment group for all segments in the cell"].

Definition consts_ok : bool :=
  forallb (fun s => printable s && lexok "Notes" s) all_notes &&
  forallb (fun s => vok "NeuroLexId" (VStr s)) known_nlex &&
  forallb (fun v => vok "Nml2Quantity_voltage" (VStr (value_string SpikeThresh v)) &&
                    vok "Nml2Quantity_voltage" (VStr (value_string InitMembPotential v)) &&
                    vok "Nml2Quantity_specificCapacitance" (VStr (value_string SpecificCapacitance v)) &&
                    vok "Nml2Quantity_resistivity" (VStr (value_string Resistivity v))) [0; 1; 2]%Z &&
  forallb (fun s => vok "Nml2Quantity_voltage" (VStr s)) ["0.0 mV"; "-70 mV"] &&
  forallb (fun s => vok "NmlId" (VStr s)) ["pas"; "non_specific"; "na"; "c"] &&
  vok "Nml2Quantity_conductanceDensity" (VStr "1 mS_per_cm2") &&
  vok "DoubleGreaterThanZero" (VFlt (1%Z, 0%nat)) &&
  forallb (fun d => vok "ZeroToOne" (VFlt d)) [(0%Z, 0%nat); (25%Z, 2%nat); (5%Z, 1%nat); (75%Z, 2%nat); (1%Z, 0%nat)].

Record table_facts : Prop := {
  tf_Cell : class_facts "Cell" INFO_Cell;
  tf_Morphology : class_facts "Morphology" INFO_Morphology;
  tf_Segment : class_facts "Segment" INFO_Segment;
  tf_SegmentParent : class_facts "SegmentParent" INFO_SegmentParent;
  tf_Point3DWithDiam : class_facts "Point3DWithDiam" INFO_Point3DWithDiam;
  tf_SegmentGroup : class_facts "SegmentGroup" INFO_SegmentGroup;
  tf_Member : class_facts "Member" INFO_Member;
  tf_Include : class_facts "Include" INFO_Include;
  tf_BiophysicalProperties : class_facts "BiophysicalProperties" INFO_BiophysicalProperties;
  tf_MembraneProperties : class_facts "MembraneProperties" INFO_MembraneProperties;
  tf_IntracellularProperties : class_facts "IntracellularProperties" INFO_IntracellularProperties;
  tf_SpikeThresh : class_facts "SpikeThresh" INFO_SpikeThresh;
  tf_InitMembPotential : class_facts "InitMembPotential" INFO_InitMembPotential;
  tf_SpecificCapacitance : class_facts "SpecificCapacitance" INFO_SpecificCapacitance;
  tf_Resistivity : class_facts "Resistivity" INFO_Resistivity;
  tf_ChannelDensity : class_facts "ChannelDensity" INFO_ChannelDensity;
  tf_st_NmlId : find_st (s_stypes S) "NmlId" = Some ST_NmlId;
  tf_st_string : find_st (s_stypes S) "xs:string" = Some ST_xs_string;
  tf_st_nonneg : find_st (s_stypes S) "NonNegativeInteger" = Some ST_NonNegativeInteger;
  tf_st_double : find_st (s_stypes S) "xs:double" = Some ST_xs_double;
  tf_consts : consts_ok = true
}.

Hypothesis facts : table_facts.

Lemma value_ok_vok : forall n r d ty v,
  @value_ok dec dec_veqb dec_ltb (fun d => d) (fun _ => true) S (Build_xattr n ty r d None) v = vok ty v.
Proof. reflexivity. Qed.

Lemma vok_nmlid : forall s, nmlid s = true -> vok "NmlId" (VStr s) = true.
Proof.
  intros s H. unfold vok, value_ok. simpl. rewrite (tf_st_NmlId facts). simpl.
  destruct (nmlid_ok s H) as [A B]. rewrite A. unfold string_ok. simpl. fold RE_NmlId. rewrite B. reflexivity.
Qed.

Lemma vok_string : forall s, printable s = true -> vok "xs:string" (VStr s) = true.
Proof.
  intros s H. unfold vok, value_ok. simpl. rewrite (tf_st_string facts). simpl. rewrite H. reflexivity.
Qed.

Lemma vok_nonneg : forall z, (0 <= z)%Z -> vok "NonNegativeInteger" (VInt z) = true.
Proof.
  intros z H. unfold vok, value_ok. simpl. rewrite (tf_st_nonneg facts). simpl.
  rewrite andb_true_r. apply Z.leb_le. exact H.
Qed.

Lemma vok_double : forall d, vok "xs:double" (VFlt d) = true.
Proof. intros d. unfold vok, value_ok. simpl. rewrite (tf_st_double facts). reflexivity. Qed.

(* ---------- leaf classes ---------- *)
Lemma member_conf : forall f m, (0 <= m)%Z -> conf (Datatypes.S f) T S (member_tree dec m) = true.
Proof.
  intros f m H. unfold member_tree. rewrite (conf_unfold _ _ _ _ (tf_Member facts)).
  unfold INFO_Member, aconf, kconf, attr_conf, kid_conf, ext. simpl. rewrite !andb_true_r. exact (vok_nonneg m H).
Qed.

Ltac open_cls H I :=
  rewrite (conf_unfold _ _ _ _ H); unfold I, aconf, kconf, attr_conf, kid_conf, ext; simpl.
Ltac conj_true := repeat (apply andb_true_iff; split); try reflexivity.

Lemma consts : consts_ok = true.
Proof. exact (tf_consts facts). Qed.

Lemma include_conf : forall f i, nmlid i = true -> conf (Datatypes.S f) T S (include_tree dec i) = true.
Proof.
  intros f i H. unfold include_tree. open_cls (tf_Include facts) INFO_Include.
  conj_true. exact (vok_nmlid i H).
Qed.

Lemma point_conf : forall f k, conf (Datatypes.S f) T S (point dec (fun d => d) k) = true.
Proof.
  intros f k. unfold point, flt. open_cls (tf_Point3DWithDiam facts) INFO_Point3DWithDiam.
  pose proof consts as C. unfold consts_ok in C. repeat (apply andb_true_iff in C; destruct C as [C ?]).
  conj_true; try (exact (vok_double _)). assumption.
Qed.

Lemma consts_split :
  (forall s, In s all_notes -> printable s = true /\ lexok "Notes" s = true) /\
  (forall s, In s known_nlex -> vok "NeuroLexId" (VStr s) = true) /\
  (forall v, In v [0; 1; 2]%Z ->
     vok "Nml2Quantity_voltage" (VStr (value_string SpikeThresh v)) = true /\
     vok "Nml2Quantity_voltage" (VStr (value_string InitMembPotential v)) = true /\
     vok "Nml2Quantity_specificCapacitance" (VStr (value_string SpecificCapacitance v)) = true /\
     vok "Nml2Quantity_resistivity" (VStr (value_string Resistivity v)) = true) /\
  (forall s, In s ["0.0 mV"; "-70 mV"] -> vok "Nml2Quantity_voltage" (VStr s) = true) /\
  (forall s, In s ["pas"; "non_specific"; "na"; "c"] -> vok "NmlId" (VStr s) = true) /\
  vok "Nml2Quantity_conductanceDensity" (VStr "1 mS_per_cm2") = true /\
  vok "DoubleGreaterThanZero" (VFlt (1%Z, 0%nat)) = true /\
  (forall d, In d [(0%Z, 0%nat); (25%Z, 2%nat); (5%Z, 1%nat); (75%Z, 2%nat); (1%Z, 0%nat)] -> vok "ZeroToOne" (VFlt d) = true).
Proof.
  pose proof consts as C. unfold consts_ok in C.
  apply andb_true_iff in C. destruct C as [C C8]. apply andb_true_iff in C. destruct C as [C C7].
  apply andb_true_iff in C. destruct C as [C C6]. apply andb_true_iff in C. destruct C as [C C5].
  apply andb_true_iff in C. destruct C as [C C4]. apply andb_true_iff in C. destruct C as [C C3].
  apply andb_true_iff in C. destruct C as [C1 C2].
  rewrite forallb_forall in C1, C2, C3, C4, C5, C8.
  split; [intros s0 Hs; specialize (C1 s0 Hs); apply andb_true_iff in C1; exact C1|].
  split; [exact C2|].
  split; [intros v Hv; specialize (C3 v Hv);
          apply andb_true_iff in C3; destruct C3 as [C3 Cd]; apply andb_true_iff in C3; destruct C3 as [C3 Cc];
          apply andb_true_iff in C3; destruct C3 as [Ca Cb]; auto|].
  split; [exact C4|]. split; [exact C5|]. split; [exact C6|]. split; [exact C7 | exact C8].
Qed.

Lemma frac_ok : forall f, vok "ZeroToOne" (VFlt (frac_dec f)) = true.
Proof.
  intros f. destruct consts_split as [_ [_ [_ [_ [_ [_ [_ H]]]]]]]. apply H. unfold frac_dec.
  destruct (f =? 0)%Z; [left; reflexivity|]. destruct (f =? 1)%Z; [right; left; reflexivity|].
  destruct (f =? 2)%Z; [right; right; left; reflexivity|]. destruct (f =? 3)%Z; [right; right; right; left; reflexivity|].
  right; right; right; right; left; reflexivity.
Qed.

Lemma parent_conf : forall f p fr, (0 <= p)%Z -> conf (Datatypes.S f) T S (parent_tree dec (fun d => d) p fr) = true.
Proof.
  intros f p fr H. unfold parent_tree. open_cls (tf_SegmentParent facts) INFO_SegmentParent.
  conj_true; [exact (vok_nonneg p H) | exact (frac_ok fr)].
Qed.

(* ---------- classes with component children ---------- *)
Lemma cls_point : forall k, o_cls dec (point dec (fun d => d) k) = "Point3DWithDiam". Proof. reflexivity. Qed.
Lemma cls_parent : forall p fr, o_cls dec (parent_tree dec (fun d => d) p fr) = "SegmentParent". Proof. reflexivity. Qed.
#[local] Opaque conf point parent_tree.

Lemma seg_conf : forall f k s,
  (0 <= sid s)%Z -> printable (sname s) = true -> (forall p fr, spar s = Some (p, fr) -> (0 <= p)%Z) ->
  conf (Datatypes.S (Datatypes.S f)) T S (seg_tree dec (fun d => d) k s) = true.
Proof.
  intros f k s Hid Hname Hpar. unfold seg_tree.
  destruct (spar s) as [[p fr]|] eqn:E; destruct (sprox s);
    open_cls (tf_Segment facts) INFO_Segment; rewrite ?cls_point, ?cls_parent; simpl;
    rewrite ?point_conf, ?(parent_conf f p fr (Hpar p fr eq_refl)); simpl;
    conj_true; try (exact (vok_nonneg _ Hid)); exact (vok_string _ Hname).
Qed.

Lemma kids_conf : forall (A : Type) (g : A -> xobj) ty f l,
  (forall x, In x l -> o_cls dec (g x) = ty /\ conf f T S (g x) = true) ->
  forallb (fun o' => String.eqb (o_cls dec o') ty && conf f T S o') (map g l) = true.
Proof.
  intros A g ty f l H. apply forallb_forall. intros o Ho. apply in_map_iff in Ho. destruct Ho as [x [E Hx]]. subst o.
  destruct (H x Hx) as [E1 E2]. rewrite E1, E2, String.eqb_refl. reflexivity.
Qed.

Lemma default_notes_in : forall a n, default_notes a = Some n -> In n all_notes.
Proof.
  intros a n H. unfold default_notes in H. unfold all_notes.
  destruct (String.eqb a "soma_group"); [inversion H; left; reflexivity|].
  destruct (String.eqb a "axon_group"); [inversion H; right; left; reflexivity|].
  destruct (String.eqb a "dendrite_group"); [inversion H; right; right; left; reflexivity|].
  destruct (String.eqb a "all"); [inversion H; right; right; right; left; reflexivity | discriminate].
Qed.

Definition small {A} (l : list A) : Prop := (Z.of_nat (length l) <= 9999999)%Z.

Lemma group_conf : forall f g,
  nmlid (gid g) = true -> (forall n, nlex g = Some n -> In n known_nlex) ->
  (forall m, In m (members g) -> (0 <= m)%Z) -> (forall i, In i (includes g) -> nmlid i = true) ->
  small (members g) -> small (includes g) ->
  conf (Datatypes.S (Datatypes.S f)) T S (group_tree dec g) = true.
Proof.
  intros f g Hid Hnl Hm Hi Sm Si. unfold group_tree.
  open_cls (tf_SegmentGroup facts) INFO_SegmentGroup.
Abort.
End TreeConf.
