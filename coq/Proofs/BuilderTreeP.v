(* C15, validity clause: the component tree of a builder state (Model/BuilderTree.cell_tree) conforms to the schema
   (Model/Xsd.conformsb) whenever the model's valid_cell holds - for every cell state, by induction over its
   segment / group / member / property lists.  The binding and schema tables enter through `table_facts`: what
   the tables of the run say about the 16 classes and the simple types involved (discharged by vm_compute on
   Gen_Bindings / Gen_Schema in the per-run Inst_C15.v).  Instance F := finite decimals (Model/GdsExec). *)
From Coq Require Import String List ZArith Bool Arith Lia.
From LNML Require Import Lib.Dec Lib.Regex Model.Gds Model.GdsExec Model.Validate Model.Xsd
     Model.Groups Model.Builder Model.BuilderTree Proofs.RegexP.
Import ListNotations.
Open Scope string_scope.

Record cinfo := { ci_ea : list exp_attr; ci_ek : list exp_kid; ci_xa : list xattr; ci_ps : list particle }.

(* ---------- what the proof assumes about the tables (checked against Gen_* on every run, Inst_C15.v) ---------- *)
Definition INFO_Cell : cinfo :=
  {| ci_ea := [{| ea_py := "id"; ea_xml := "id"; ea_kind := KStr; ea_guard := GNotNone |}; {| ea_py := "metaid"; ea_xml := "metaid"; ea_kind := KStr; ea_guard := GNotNone |}; {| ea_py := "neuro_lex_id"; ea_xml := "neuroLexId"; ea_kind := KStr; ea_guard := GNotNone |}; {| ea_py := "morphology_attr"; ea_xml := "morphology"; ea_kind := KStr; ea_guard := GNotNone |}; {| ea_py := "biophysical_properties_attr"; ea_xml := "biophysicalProperties"; ea_kind := KStr; ea_guard := GNotNone |}]; ci_ek := [{| ek_py := "notes"; ek_tag := "notes"; ek_kind := CText |}; {| ek_py := "properties"; ek_tag := "property"; ek_kind := CObjList |}; {| ek_py := "annotation"; ek_tag := "annotation"; ek_kind := CObj |}; {| ek_py := "morphology"; ek_tag := "morphology"; ek_kind := CObj |}; {| ek_py := "biophysical_properties"; ek_tag := "biophysicalProperties"; ek_kind := CObj |}]; ci_xa := [{| xa_name := "id"; xa_type := "NmlId"; xa_req := true; xa_default := None; xa_fixed := None |}; {| xa_name := "metaid"; xa_type := "MetaId"; xa_req := false; xa_default := None; xa_fixed := None |}; {| xa_name := "neuroLexId"; xa_type := "NeuroLexId"; xa_req := false; xa_default := None; xa_fixed := None |}; {| xa_name := "morphology"; xa_type := "NmlId"; xa_req := false; xa_default := None; xa_fixed := None |}; {| xa_name := "biophysicalProperties"; xa_type := "NmlId"; xa_req := false; xa_default := None; xa_fixed := None |}]; ci_ps := [PSeq [PElem "notes" "Notes" 0 (Some 1); PElem "property" "Property" 0 None; PElem "annotation" "Annotation" 0 (Some 1)]; PSeq [PElem "morphology" "Morphology" 0 (Some 1); PElem "biophysicalProperties" "BiophysicalProperties" 0 (Some 1)]] |}.
Definition INFO_Morphology : cinfo :=
  {| ci_ea := [{| ea_py := "id"; ea_xml := "id"; ea_kind := KStr; ea_guard := GNotNone |}; {| ea_py := "metaid"; ea_xml := "metaid"; ea_kind := KStr; ea_guard := GNotNone |}]; ci_ek := [{| ek_py := "notes"; ek_tag := "notes"; ek_kind := CText |}; {| ek_py := "properties"; ek_tag := "property"; ek_kind := CObjList |}; {| ek_py := "annotation"; ek_tag := "annotation"; ek_kind := CObj |}; {| ek_py := "segments"; ek_tag := "segment"; ek_kind := CObjList |}; {| ek_py := "segment_groups"; ek_tag := "segmentGroup"; ek_kind := CObjList |}]; ci_xa := [{| xa_name := "id"; xa_type := "NmlId"; xa_req := true; xa_default := None; xa_fixed := None |}; {| xa_name := "metaid"; xa_type := "MetaId"; xa_req := false; xa_default := None; xa_fixed := None |}]; ci_ps := [PSeq [PElem "notes" "Notes" 0 (Some 1); PElem "property" "Property" 0 None; PElem "annotation" "Annotation" 0 (Some 1)]; PSeq [PElem "segment" "Segment" 1 None; PElem "segmentGroup" "SegmentGroup" 0 None]] |}.
Definition INFO_Segment : cinfo :=
  {| ci_ea := [{| ea_py := "id"; ea_xml := "id"; ea_kind := KInt; ea_guard := GNotNone |}; {| ea_py := "name"; ea_xml := "name"; ea_kind := KStr; ea_guard := GNotNone |}; {| ea_py := "neuro_lex_id"; ea_xml := "neuroLexId"; ea_kind := KStr; ea_guard := GNotNone |}]; ci_ek := [{| ek_py := "parent"; ek_tag := "parent"; ek_kind := CObj |}; {| ek_py := "proximal"; ek_tag := "proximal"; ek_kind := CObj |}; {| ek_py := "distal"; ek_tag := "distal"; ek_kind := CObj |}]; ci_xa := [{| xa_name := "id"; xa_type := "NonNegativeInteger"; xa_req := true; xa_default := None; xa_fixed := None |}; {| xa_name := "name"; xa_type := "xs:string"; xa_req := false; xa_default := None; xa_fixed := None |}; {| xa_name := "neuroLexId"; xa_type := "NeuroLexId"; xa_req := false; xa_default := None; xa_fixed := None |}]; ci_ps := [PSeq [PElem "parent" "SegmentParent" 0 (Some 1); PElem "proximal" "Point3DWithDiam" 0 (Some 1); PElem "distal" "Point3DWithDiam" 1 (Some 1)]] |}.
Definition INFO_SegmentParent : cinfo :=
  {| ci_ea := [{| ea_py := "segments"; ea_xml := "segment"; ea_kind := KInt; ea_guard := GNotNone |}; {| ea_py := "fraction_along"; ea_xml := "fractionAlong"; ea_kind := KFloat; ea_guard := GNe (DInt 1) |}]; ci_ek := []; ci_xa := [{| xa_name := "segment"; xa_type := "NonNegativeInteger"; xa_req := true; xa_default := None; xa_fixed := None |}; {| xa_name := "fractionAlong"; xa_type := "ZeroToOne"; xa_req := false; xa_default := Some "1"; xa_fixed := None |}]; ci_ps := [] |}.
Definition INFO_Point3DWithDiam : cinfo :=
  {| ci_ea := [{| ea_py := "x"; ea_xml := "x"; ea_kind := KDouble; ea_guard := GNotNone |}; {| ea_py := "y"; ea_xml := "y"; ea_kind := KDouble; ea_guard := GNotNone |}; {| ea_py := "z"; ea_xml := "z"; ea_kind := KDouble; ea_guard := GNotNone |}; {| ea_py := "diameter"; ea_xml := "diameter"; ea_kind := KDouble; ea_guard := GNotNone |}]; ci_ek := []; ci_xa := [{| xa_name := "x"; xa_type := "xs:double"; xa_req := true; xa_default := None; xa_fixed := None |}; {| xa_name := "y"; xa_type := "xs:double"; xa_req := true; xa_default := None; xa_fixed := None |}; {| xa_name := "z"; xa_type := "xs:double"; xa_req := true; xa_default := None; xa_fixed := None |}; {| xa_name := "diameter"; xa_type := "DoubleGreaterThanZero"; xa_req := true; xa_default := None; xa_fixed := None |}]; ci_ps := [] |}.
Definition INFO_SegmentGroup : cinfo :=
  {| ci_ea := [{| ea_py := "id"; ea_xml := "id"; ea_kind := KStr; ea_guard := GNotNone |}; {| ea_py := "neuro_lex_id"; ea_xml := "neuroLexId"; ea_kind := KStr; ea_guard := GNotNone |}]; ci_ek := [{| ek_py := "notes"; ek_tag := "notes"; ek_kind := CText |}; {| ek_py := "properties"; ek_tag := "property"; ek_kind := CObjList |}; {| ek_py := "annotation"; ek_tag := "annotation"; ek_kind := CObj |}; {| ek_py := "members"; ek_tag := "member"; ek_kind := CObjList |}; {| ek_py := "includes"; ek_tag := "include"; ek_kind := CObjList |}; {| ek_py := "paths"; ek_tag := "path"; ek_kind := CObjList |}; {| ek_py := "sub_trees"; ek_tag := "subTree"; ek_kind := CObjList |}; {| ek_py := "inhomogeneous_parameters"; ek_tag := "inhomogeneousParameter"; ek_kind := CObjList |}]; ci_xa := [{| xa_name := "id"; xa_type := "NmlId"; xa_req := true; xa_default := None; xa_fixed := None |}; {| xa_name := "neuroLexId"; xa_type := "NeuroLexId"; xa_req := false; xa_default := None; xa_fixed := None |}]; ci_ps := [PSeq [PElem "notes" "Notes" 0 (Some 1); PElem "property" "Property" 0 None; PElem "annotation" "Annotation" 0 (Some 1); PElem "member" "Member" 0 None; PElem "include" "Include" 0 None; PElem "path" "Path" 0 None; PElem "subTree" "SubTree" 0 None; PElem "inhomogeneousParameter" "InhomogeneousParameter" 0 None]] |}.
Definition INFO_Member : cinfo :=
  {| ci_ea := [{| ea_py := "segments"; ea_xml := "segment"; ea_kind := KInt; ea_guard := GNotNone |}]; ci_ek := []; ci_xa := [{| xa_name := "segment"; xa_type := "NonNegativeInteger"; xa_req := true; xa_default := None; xa_fixed := None |}]; ci_ps := [] |}.
Definition INFO_Include : cinfo :=
  {| ci_ea := [{| ea_py := "segment_groups"; ea_xml := "segmentGroup"; ea_kind := KStr; ea_guard := GNotNone |}]; ci_ek := []; ci_xa := [{| xa_name := "segmentGroup"; xa_type := "NmlId"; xa_req := true; xa_default := None; xa_fixed := None |}]; ci_ps := [] |}.
Definition INFO_BiophysicalProperties : cinfo :=
  {| ci_ea := [{| ea_py := "id"; ea_xml := "id"; ea_kind := KStr; ea_guard := GNotNone |}; {| ea_py := "metaid"; ea_xml := "metaid"; ea_kind := KStr; ea_guard := GNotNone |}]; ci_ek := [{| ek_py := "notes"; ek_tag := "notes"; ek_kind := CText |}; {| ek_py := "properties"; ek_tag := "property"; ek_kind := CObjList |}; {| ek_py := "annotation"; ek_tag := "annotation"; ek_kind := CObj |}; {| ek_py := "membrane_properties"; ek_tag := "membraneProperties"; ek_kind := CObj |}; {| ek_py := "intracellular_properties"; ek_tag := "intracellularProperties"; ek_kind := CObj |}; {| ek_py := "extracellular_properties"; ek_tag := "extracellularProperties"; ek_kind := CObj |}]; ci_xa := [{| xa_name := "id"; xa_type := "NmlId"; xa_req := true; xa_default := None; xa_fixed := None |}; {| xa_name := "metaid"; xa_type := "MetaId"; xa_req := false; xa_default := None; xa_fixed := None |}]; ci_ps := [PSeq [PElem "notes" "Notes" 0 (Some 1); PElem "property" "Property" 0 None; PElem "annotation" "Annotation" 0 (Some 1)]; PSeq [PElem "membraneProperties" "MembraneProperties" 1 (Some 1); PElem "intracellularProperties" "IntracellularProperties" 0 (Some 1); PElem "extracellularProperties" "ExtracellularProperties" 0 (Some 1)]] |}.
Definition INFO_MembraneProperties : cinfo :=
  {| ci_ea := []; ci_ek := [{| ek_py := "channel_populations"; ek_tag := "channelPopulation"; ek_kind := CObjList |}; {| ek_py := "channel_densities"; ek_tag := "channelDensity"; ek_kind := CObjList |}; {| ek_py := "channel_density_v_shifts"; ek_tag := "channelDensityVShift"; ek_kind := CObjList |}; {| ek_py := "channel_density_nernsts"; ek_tag := "channelDensityNernst"; ek_kind := CObjList |}; {| ek_py := "channel_density_ghks"; ek_tag := "channelDensityGHK"; ek_kind := CObjList |}; {| ek_py := "channel_density_ghk2s"; ek_tag := "channelDensityGHK2"; ek_kind := CObjList |}; {| ek_py := "channel_density_non_uniforms"; ek_tag := "channelDensityNonUniform"; ek_kind := CObjList |}; {| ek_py := "channel_density_non_uniform_nernsts"; ek_tag := "channelDensityNonUniformNernst"; ek_kind := CObjList |}; {| ek_py := "channel_density_non_uniform_ghks"; ek_tag := "channelDensityNonUniformGHK"; ek_kind := CObjList |}; {| ek_py := "spike_threshes"; ek_tag := "spikeThresh"; ek_kind := CObjList |}; {| ek_py := "specific_capacitances"; ek_tag := "specificCapacitance"; ek_kind := CObjList |}; {| ek_py := "init_memb_potentials"; ek_tag := "initMembPotential"; ek_kind := CObjList |}]; ci_xa := []; ci_ps := [PSeq [PElem "channelPopulation" "ChannelPopulation" 0 None; PElem "channelDensity" "ChannelDensity" 0 None; PElem "channelDensityVShift" "ChannelDensityVShift" 0 None; PElem "channelDensityNernst" "ChannelDensityNernst" 0 None; PElem "channelDensityGHK" "ChannelDensityGHK" 0 None; PElem "channelDensityGHK2" "ChannelDensityGHK2" 0 None; PElem "channelDensityNonUniform" "ChannelDensityNonUniform" 0 None; PElem "channelDensityNonUniformNernst" "ChannelDensityNonUniformNernst" 0 None; PElem "channelDensityNonUniformGHK" "ChannelDensityNonUniformGHK" 0 None; PElem "spikeThresh" "SpikeThresh" 1 None; PElem "specificCapacitance" "SpecificCapacitance" 1 None; PElem "initMembPotential" "InitMembPotential" 1 None]] |}.
Definition INFO_IntracellularProperties : cinfo :=
  {| ci_ea := []; ci_ek := [{| ek_py := "species"; ek_tag := "species"; ek_kind := CObjList |}; {| ek_py := "resistivities"; ek_tag := "resistivity"; ek_kind := CObjList |}]; ci_xa := []; ci_ps := [PSeq [PElem "species" "Species" 0 None; PElem "resistivity" "Resistivity" 0 None]] |}.
Definition INFO_SpikeThresh : cinfo :=
  {| ci_ea := [{| ea_py := "value"; ea_xml := "value"; ea_kind := KStr; ea_guard := GNotNone |}; {| ea_py := "segment_groups"; ea_xml := "segmentGroup"; ea_kind := KStr; ea_guard := GNe (DStr "all") |}]; ci_ek := []; ci_xa := [{| xa_name := "value"; xa_type := "Nml2Quantity_voltage"; xa_req := true; xa_default := None; xa_fixed := None |}; {| xa_name := "segmentGroup"; xa_type := "NmlId"; xa_req := false; xa_default := Some "all"; xa_fixed := None |}]; ci_ps := [] |}.
Definition INFO_InitMembPotential : cinfo :=
  {| ci_ea := [{| ea_py := "value"; ea_xml := "value"; ea_kind := KStr; ea_guard := GNotNone |}; {| ea_py := "segment_groups"; ea_xml := "segmentGroup"; ea_kind := KStr; ea_guard := GNe (DStr "all") |}]; ci_ek := []; ci_xa := [{| xa_name := "value"; xa_type := "Nml2Quantity_voltage"; xa_req := true; xa_default := None; xa_fixed := None |}; {| xa_name := "segmentGroup"; xa_type := "NmlId"; xa_req := false; xa_default := Some "all"; xa_fixed := None |}]; ci_ps := [] |}.
Definition INFO_SpecificCapacitance : cinfo :=
  {| ci_ea := [{| ea_py := "value"; ea_xml := "value"; ea_kind := KStr; ea_guard := GNotNone |}; {| ea_py := "segment_groups"; ea_xml := "segmentGroup"; ea_kind := KStr; ea_guard := GNe (DStr "all") |}]; ci_ek := []; ci_xa := [{| xa_name := "value"; xa_type := "Nml2Quantity_specificCapacitance"; xa_req := true; xa_default := None; xa_fixed := None |}; {| xa_name := "segmentGroup"; xa_type := "NmlId"; xa_req := false; xa_default := Some "all"; xa_fixed := None |}]; ci_ps := [] |}.
Definition INFO_Resistivity : cinfo :=
  {| ci_ea := [{| ea_py := "value"; ea_xml := "value"; ea_kind := KStr; ea_guard := GNotNone |}; {| ea_py := "segment_groups"; ea_xml := "segmentGroup"; ea_kind := KStr; ea_guard := GNe (DStr "all") |}]; ci_ek := []; ci_xa := [{| xa_name := "value"; xa_type := "Nml2Quantity_resistivity"; xa_req := true; xa_default := None; xa_fixed := None |}; {| xa_name := "segmentGroup"; xa_type := "NmlId"; xa_req := false; xa_default := Some "all"; xa_fixed := None |}]; ci_ps := [] |}.
Definition INFO_ChannelDensity : cinfo :=
  {| ci_ea := [{| ea_py := "id"; ea_xml := "id"; ea_kind := KStr; ea_guard := GNotNone |}; {| ea_py := "ion_channel"; ea_xml := "ionChannel"; ea_kind := KStr; ea_guard := GNotNone |}; {| ea_py := "cond_density"; ea_xml := "condDensity"; ea_kind := KStr; ea_guard := GNotNone |}; {| ea_py := "erev"; ea_xml := "erev"; ea_kind := KStr; ea_guard := GNotNone |}; {| ea_py := "segment_groups"; ea_xml := "segmentGroup"; ea_kind := KStr; ea_guard := GNe (DStr "all") |}; {| ea_py := "segments"; ea_xml := "segment"; ea_kind := KInt; ea_guard := GNotNone |}; {| ea_py := "ion"; ea_xml := "ion"; ea_kind := KStr; ea_guard := GNotNone |}]; ci_ek := [{| ek_py := "variable_parameters"; ek_tag := "variableParameter"; ek_kind := CObjList |}]; ci_xa := [{| xa_name := "id"; xa_type := "NmlId"; xa_req := true; xa_default := None; xa_fixed := None |}; {| xa_name := "ionChannel"; xa_type := "NmlId"; xa_req := true; xa_default := None; xa_fixed := None |}; {| xa_name := "condDensity"; xa_type := "Nml2Quantity_conductanceDensity"; xa_req := false; xa_default := None; xa_fixed := None |}; {| xa_name := "erev"; xa_type := "Nml2Quantity_voltage"; xa_req := true; xa_default := None; xa_fixed := None |}; {| xa_name := "segmentGroup"; xa_type := "NmlId"; xa_req := false; xa_default := Some "all"; xa_fixed := None |}; {| xa_name := "segment"; xa_type := "NonNegativeInteger"; xa_req := false; xa_default := None; xa_fixed := None |}; {| xa_name := "ion"; xa_type := "NmlId"; xa_req := true; xa_default := None; xa_fixed := None |}]; ci_ps := [PSeq [PElem "variableParameter" "VariableParameter" 0 None]] |}.
Definition ST_NmlId : Xsd.stype :=
  {| st_name := "NmlId"; st_prim := PString; st_enums := []; st_pats := [Cat (Sym [(97, 122); (65, 90); (95, 95)]) (Star (Sym [(97, 122); (65, 90); (48, 57); (95, 95)]))]; st_facets := [] |}.
Definition ST_xs_string : Xsd.stype :=
  {| st_name := "xs:string"; st_prim := PString; st_enums := []; st_pats := []; st_facets := [] |}.
Definition ST_NonNegativeInteger : Xsd.stype :=
  {| st_name := "NonNegativeInteger"; st_prim := PNonNegInt; st_enums := []; st_pats := []; st_facets := [] |}.
Definition ST_xs_double : Xsd.stype :=
  {| st_name := "xs:double"; st_prim := PDouble; st_enums := []; st_pats := []; st_facets := [] |}.

Definition ST_ZeroToOne : Xsd.stype :=
  {| st_name := "ZeroToOne"; st_prim := PFloat; st_enums := []; st_pats := []; st_facets := [(FMinIncl, (0%Z, 0)); (FMaxIncl, (1%Z, 0))] |}.
Definition ST_DoubleGreaterThanZero : Xsd.stype :=
  {| st_name := "DoubleGreaterThanZero"; st_prim := PDouble; st_enums := []; st_pats := []; st_facets := [(FMinExcl, (0%Z, 0))] |}.
Definition fracs : list dec := [(0%Z, 0%nat); (25%Z, 2%nat); (5%Z, 1%nat); (75%Z, 2%nat); (1%Z, 0%nat)].

(* ---------- NmlId ---------- *)
Definition RE_NmlId : cre := Cat (Sym [(97, 122); (65, 90); (95, 95)]) (Star (Sym [(97, 122); (65, 90); (48, 57); (95, 95)])).

Lemma letter_sat : forall c, is_letter c = true ->
  csat [(97, 122); (65, 90); (95, 95)] c = true /\ csat [(97, 122); (65, 90); (48, 57); (95, 95)] c = true /\ printable_char c = true.
Proof.
  intros c. destruct c as [b0 b1 b2 b3 b4 b5 b6 b7].
  destruct b0, b1, b2, b3, b4, b5, b6, b7; vm_compute; intros H; try discriminate H; repeat split.
Qed.

Lemma idchar_sat : forall c, (is_letter c || is_digit c) = true ->
  csat [(97, 122); (65, 90); (48, 57); (95, 95)] c = true /\ printable_char c = true.
Proof.
  intros c. destruct c as [b0 b1 b2 b3 b4 b5 b6 b7].
  destruct b0, b1, b2, b3, b4, b5, b6, b7; vm_compute; intros H; try discriminate H; repeat split.
Qed.

Lemma idchars_star : forall s, all_idchars s = true ->
  Matches csat (Star (Sym [(97, 122); (65, 90); (48, 57); (95, 95)])) (list_ascii_of_string s) /\ printable s = true.
Proof.
  induction s as [|c r IH]; intros H; simpl in *.
  - split; [apply MStar0 | reflexivity].
  - apply andb_true_iff in H. destruct H as [Hc Hr]. destruct (idchar_sat c Hc) as [A B]. destruct (IH Hr) as [C D].
    split; [|rewrite B, D; reflexivity].
    change (c :: list_ascii_of_string r) with ([c] ++ list_ascii_of_string r)%list.
    apply MStarS; [apply MSym; exact A | exact C].
Qed.

Lemma nmlid_ok : forall s, nmlid s = true -> printable s = true /\ match_string RE_NmlId s = true.
Proof.
  intros s H. destruct s as [|c r]; [discriminate|]. simpl in H. apply andb_true_iff in H. destruct H as [Hc Hr].
  destruct (letter_sat c Hc) as [A [_ B]]. destruct (idchars_star r Hr) as [C D].
  split; [simpl; rewrite B, D; reflexivity|].
  unfold match_string. apply (proj2 (RegexP.matchl_correct _ _ csat _ _)). unfold RE_NmlId. simpl.
  change (c :: list_ascii_of_string r) with ([c] ++ list_ascii_of_string r)%list.
  apply MCat; [apply MSym; exact A | exact C].
Qed.

Section TreeConf.
Variable T : tables.
Variable S : schema.
Variable good : string -> bool.
Variable F : Type.
Variables F_eqb F_ltb : F -> F -> bool.
Variable F_of_dec : dec -> F.
Variable parse_float : string -> option F.
Variable finite : F -> bool.

Definition conf := @conformsb F F_eqb F_ltb F_of_dec parse_float finite good.
Definition aconf := @attr_conf F F_eqb F_ltb F_of_dec finite.
Definition kconf := @kid_conf F F_eqb F_ltb F_of_dec parse_float finite.

Definition class_facts (c : string) (i : cinfo) : Prop :=
  (exists k, find_cls T c = Some k) /\ (exists k, find_ct (s_ctypes S) c = Some k) /\ good c = true /\
  exp_attrs_of (cfuel T) T c = ci_ea i /\ exp_kids_of (cfuel T) T c = ci_ek i /\
  eff_attrs S c = ci_xa i /\ eff_parts S c = ci_ps i.

Lemma conf_unfold : forall c i f fs, class_facts c i ->
  conf (Datatypes.S f) T S (Obj c fs) =
  forallb (aconf S (Obj c fs) (ci_xa i)) (ci_ea i) &&
  forallb (kconf S (conf f T S) (Obj c fs) (ci_ps i)) (ci_ek i) &&
  forallb (counts_ok (cnt_of (Obj c fs) (ci_ek i))) (ci_ps i) &&
  forallb (holder_ok (ci_ek i)) fs.
Proof.
  intros c i f fs [[k Hk] [[k' Hk'] [Hg [H1 [H2 [H3 H4]]]]]].
  unfold conf. simpl. rewrite Hk, Hk', Hg, H1, H2, H3, H4. reflexivity.
Qed.

(* ---------- the facts about this run's tables ---------- *)
Definition mkxa (ty : string) : xattr := Build_xattr "" ty false None None.
Definition vok (ty : string) (v : value F) : bool :=
  @value_ok F F_eqb F_ltb F_of_dec finite S (mkxa ty) v.
Definition lexok (ty s : string) : bool := @lex_ok_named F F_eqb F_ltb F_of_dec parse_float finite S ty s.

Definition known_nlex : list string := [dnlex Soma; dnlex Axon; dnlex Dendrite; section_nlex].
Definition all_notes : list string :=
  ["Default soma segment group for the cell"; "Default axon segment group for the cell";
   "Default dendrite segment group for the cell"; "Default segment group for all segments in the cell"].

Definition consts_ok : bool :=
  forallb (fun s => printable s && lexok "Notes" s) all_notes &&
  forallb (fun s => vok "NeuroLexId" (VStr s)) known_nlex &&
  forallb (fun v => vok "Nml2Quantity_voltage" (VStr (value_string SpikeThresh v)) &&
                    vok "Nml2Quantity_voltage" (VStr (value_string InitMembPotential v)) &&
                    vok "Nml2Quantity_specificCapacitance" (VStr (value_string SpecificCapacitance v)) &&
                    vok "Nml2Quantity_resistivity" (VStr (value_string Resistivity v))) [0; 1; 2]%Z &&
  forallb (fun s => vok "Nml2Quantity_voltage" (VStr s)) ["0.0 mV"; "-70 mV"] &&
  forallb (fun s => vok "NmlId" (VStr s)) ["pas"; "non_specific"; "na"; "c"] &&
  vok "Nml2Quantity_conductanceDensity" (VStr "1 mS_per_cm2").

Record table_facts : Prop := {
  tf_Cell : class_facts "Cell" INFO_Cell;
  tf_Morphology : class_facts "Morphology" INFO_Morphology;
  tf_Segment : class_facts "Segment" INFO_Segment;
  tf_SegmentParent : class_facts "SegmentParent" INFO_SegmentParent;
  tf_Point3DWithDiam : class_facts "Point3DWithDiam" INFO_Point3DWithDiam;
  tf_SegmentGroup : class_facts "SegmentGroup" INFO_SegmentGroup;
  tf_Member : class_facts "Member" INFO_Member;
  tf_Include : class_facts "Include" INFO_Include;
  tf_BiophysicalProperties : class_facts "BiophysicalProperties" INFO_BiophysicalProperties;
  tf_MembraneProperties : class_facts "MembraneProperties" INFO_MembraneProperties;
  tf_IntracellularProperties : class_facts "IntracellularProperties" INFO_IntracellularProperties;
  tf_SpikeThresh : class_facts "SpikeThresh" INFO_SpikeThresh;
  tf_InitMembPotential : class_facts "InitMembPotential" INFO_InitMembPotential;
  tf_SpecificCapacitance : class_facts "SpecificCapacitance" INFO_SpecificCapacitance;
  tf_Resistivity : class_facts "Resistivity" INFO_Resistivity;
  tf_ChannelDensity : class_facts "ChannelDensity" INFO_ChannelDensity;
  tf_st_NmlId : find_st (s_stypes S) "NmlId" = Some ST_NmlId;
  tf_st_string : find_st (s_stypes S) "xs:string" = Some ST_xs_string;
  tf_st_nonneg : find_st (s_stypes S) "NonNegativeInteger" = Some ST_NonNegativeInteger;
  tf_st_double : find_st (s_stypes S) "xs:double" = Some ST_xs_double;
  tf_st_zto : find_st (s_stypes S) "ZeroToOne" = Some ST_ZeroToOne;
  tf_st_dgz : find_st (s_stypes S) "DoubleGreaterThanZero" = Some ST_DoubleGreaterThanZero;
  tf_consts : consts_ok = true
}.

Hypothesis facts : table_facts.

(* what is assumed of the floats: decimal literals are finite, and 0, 0.25, 0.5, 0.75, 1 are ordered as the
   decimals are (CPython; true of the decimal instance by computation) *)
Definition float_order_ok : Prop :=
  (forall d, In d fracs -> F_ltb (F_of_dec d) (F_of_dec (0%Z, 0%nat)) = false /\ F_ltb (F_of_dec (1%Z, 0%nat)) (F_of_dec d) = false) /\
  F_ltb (F_of_dec (1%Z, 0%nat)) (F_of_dec (0%Z, 0%nat)) = false /\ F_eqb (F_of_dec (1%Z, 0%nat)) (F_of_dec (0%Z, 0%nat)) = false.
Hypothesis Hfin : forall d, finite (F_of_dec d) = true.
Hypothesis Hord : float_order_ok.

Lemma value_ok_vok : forall n r d ty v,
  @value_ok F F_eqb F_ltb F_of_dec finite S (Build_xattr n ty r d None) v = vok ty v.
Proof. reflexivity. Qed.

Lemma vok_nmlid : forall s, nmlid s = true -> vok "NmlId" (VStr s) = true.
Proof.
  intros s H. unfold vok, value_ok. simpl. rewrite (tf_st_NmlId facts). simpl.
  destruct (nmlid_ok s H) as [A B]. rewrite A. unfold string_ok. simpl. fold RE_NmlId. rewrite B. reflexivity.
Qed.

Lemma vok_string : forall s, printable s = true -> vok "xs:string" (VStr s) = true.
Proof.
  intros s H. unfold vok, value_ok. simpl. rewrite (tf_st_string facts). simpl. rewrite H. reflexivity.
Qed.

Lemma vok_nonneg : forall z, (0 <= z)%Z -> vok "NonNegativeInteger" (VInt z) = true.
Proof.
  intros z H. unfold vok, value_ok. simpl. rewrite (tf_st_nonneg facts). simpl.
  rewrite andb_true_r. apply Z.leb_le. exact H.
Qed.

Lemma vok_double : forall d, vok "xs:double" (VFlt (F_of_dec d)) = true.
Proof. intros d. unfold vok, value_ok. simpl. rewrite (tf_st_double facts). simpl. unfold float_ok. simpl. rewrite Hfin. reflexivity. Qed.

Lemma vok_diameter : vok "DoubleGreaterThanZero" (VFlt (F_of_dec (1%Z, 0%nat))) = true.
Proof.
  destruct Hord as [_ [A B]]. unfold vok, value_ok. simpl. rewrite (tf_st_dgz facts). simpl. unfold float_ok, facet_ok. simpl.
  rewrite Hfin, A, B. reflexivity.
Qed.

Lemma vok_frac : forall d, In d fracs -> vok "ZeroToOne" (VFlt (F_of_dec d)) = true.
Proof.
  intros d Hd. destruct Hord as [A _]. destruct (A d Hd) as [A1 A2]. unfold vok, value_ok. simpl. rewrite (tf_st_zto facts). simpl.
  unfold float_ok, facet_ok. simpl. rewrite Hfin, A1, A2. reflexivity.
Qed.

(* ---------- leaf classes ---------- *)
Lemma member_conf : forall f m, (0 <= m)%Z -> conf (Datatypes.S f) T S (member_tree F m) = true.
Proof.
  intros f m H. unfold member_tree. rewrite (conf_unfold _ _ _ _ (tf_Member facts)).
  unfold INFO_Member, aconf, kconf, attr_conf, kid_conf, ext. simpl. rewrite !andb_true_r. exact (vok_nonneg m H).
Qed.

Ltac open_cls H I :=
  rewrite (conf_unfold _ _ _ _ H); unfold I, aconf, kconf, attr_conf, kid_conf, ext; simpl.
Ltac conj_true := repeat (apply andb_true_iff; split); try reflexivity.

Lemma consts : consts_ok = true.
Proof. exact (tf_consts facts). Qed.

Lemma include_conf : forall f i, nmlid i = true -> conf (Datatypes.S f) T S (include_tree F i) = true.
Proof.
  intros f i H. unfold include_tree. open_cls (tf_Include facts) INFO_Include.
  conj_true. exact (vok_nmlid i H).
Qed.

Lemma point_conf : forall f k, conf (Datatypes.S f) T S (point F F_of_dec k) = true.
Proof.
  intros f k. unfold point, flt. open_cls (tf_Point3DWithDiam facts) INFO_Point3DWithDiam.
  conj_true; try (exact (vok_double _)). exact vok_diameter.
Qed.

Lemma consts_split :
  (forall s, In s all_notes -> printable s = true /\ lexok "Notes" s = true) /\
  (forall s, In s known_nlex -> vok "NeuroLexId" (VStr s) = true) /\
  (forall v, In v [0; 1; 2]%Z ->
     vok "Nml2Quantity_voltage" (VStr (value_string SpikeThresh v)) = true /\
     vok "Nml2Quantity_voltage" (VStr (value_string InitMembPotential v)) = true /\
     vok "Nml2Quantity_specificCapacitance" (VStr (value_string SpecificCapacitance v)) = true /\
     vok "Nml2Quantity_resistivity" (VStr (value_string Resistivity v)) = true) /\
  (forall s, In s ["0.0 mV"; "-70 mV"] -> vok "Nml2Quantity_voltage" (VStr s) = true) /\
  (forall s, In s ["pas"; "non_specific"; "na"; "c"] -> vok "NmlId" (VStr s) = true) /\
  vok "Nml2Quantity_conductanceDensity" (VStr "1 mS_per_cm2") = true.
Proof.
  pose proof consts as C. unfold consts_ok in C.
  apply andb_true_iff in C. destruct C as [C C6]. apply andb_true_iff in C. destruct C as [C C5].
  apply andb_true_iff in C. destruct C as [C C4]. apply andb_true_iff in C. destruct C as [C C3].
  apply andb_true_iff in C. destruct C as [C1 C2].
  rewrite forallb_forall in C1, C2, C3, C4, C5.
  split; [intros s0 Hs; specialize (C1 s0 Hs); apply andb_true_iff in C1; exact C1|].
  split; [exact C2|].
  split; [intros v Hv; specialize (C3 v Hv);
          apply andb_true_iff in C3; destruct C3 as [C3 Cd]; apply andb_true_iff in C3; destruct C3 as [C3 Cc];
          apply andb_true_iff in C3; destruct C3 as [Ca Cb]; auto|].
  split; [exact C4|]. split; [exact C5 | exact C6].
Qed.

Lemma frac_ok : forall f, vok "ZeroToOne" (VFlt (F_of_dec (frac_dec f))) = true.
Proof.
  intros f. apply vok_frac. unfold frac_dec, fracs.
  destruct (f =? 0)%Z; [left; reflexivity|]. destruct (f =? 1)%Z; [right; left; reflexivity|].
  destruct (f =? 2)%Z; [right; right; left; reflexivity|]. destruct (f =? 3)%Z; [right; right; right; left; reflexivity|].
  right; right; right; right; left; reflexivity.
Qed.

Lemma parent_conf : forall f p fr, (0 <= p)%Z -> conf (Datatypes.S f) T S (parent_tree F F_of_dec p fr) = true.
Proof.
  intros f p fr H. unfold parent_tree. open_cls (tf_SegmentParent facts) INFO_SegmentParent.
  conj_true; [exact (vok_nonneg p H) | exact (frac_ok fr)].
Qed.

(* ---------- classes with component children ---------- *)
Lemma cls_point : forall k, o_cls F (point F F_of_dec k) = "Point3DWithDiam". Proof. reflexivity. Qed.
Lemma cls_parent : forall p fr, o_cls F (parent_tree F F_of_dec p fr) = "SegmentParent". Proof. reflexivity. Qed.
#[local] Opaque conf point parent_tree.

Lemma seg_conf : forall f k s,
  (0 <= sid s)%Z -> printable (sname s) = true -> (forall p fr, spar s = Some (p, fr) -> (0 <= p)%Z) ->
  conf (Datatypes.S (Datatypes.S f)) T S (seg_tree F F_of_dec k s) = true.
Proof.
  intros f k s Hid Hname Hpar. unfold seg_tree.
  destruct (spar s) as [[p fr]|] eqn:E; destruct (sprox s);
    open_cls (tf_Segment facts) INFO_Segment; rewrite ?cls_point, ?cls_parent; simpl;
    rewrite ?point_conf, ?(parent_conf f p fr (Hpar p fr eq_refl)); simpl;
    conj_true; try (exact (vok_nonneg _ Hid)); exact (vok_string _ Hname).
Qed.

Lemma kids_conf : forall (A : Type) (g : A -> obj F) ty f l,
  (forall x, In x l -> o_cls F (g x) = ty /\ conf f T S (g x) = true) ->
  forallb (fun o' => String.eqb (o_cls F o') ty && conf f T S o') (map g l) = true.
Proof.
  intros A g ty f l H. apply forallb_forall. intros o Ho. apply in_map_iff in Ho. destruct Ho as [x [E Hx]]. subst o.
  destruct (H x Hx) as [E1 E2]. rewrite E1, E2, String.eqb_refl. reflexivity.
Qed.

Lemma default_notes_in : forall a n, default_notes a = Some n -> In n all_notes.
Proof.
  intros a n H. unfold default_notes in H. unfold all_notes.
  destruct (String.eqb a "soma_group"); [inversion H; left; reflexivity|].
  destruct (String.eqb a "axon_group"); [inversion H; right; left; reflexivity|].
  destruct (String.eqb a "dendrite_group"); [inversion H; right; right; left; reflexivity|].
  destruct (String.eqb a "all"); [inversion H; right; right; right; left; reflexivity | discriminate].
Qed.

Definition small {A} (l : list A) : Prop := (Z.of_nat (length l) <= 9999999)%Z.

Lemma group_conf : forall f g,
  nmlid (gid g) = true -> (forall n, nlex g = Some n -> In n known_nlex) ->
  (forall m, In m (members g) -> (0 <= m)%Z) -> (forall i, In i (includes g) -> nmlid i = true) ->
  small (members g) -> small (includes g) ->
  conf (Datatypes.S (Datatypes.S f)) T S (group_tree F g) = true.
Proof.
  intros f g Hid Hnl Hm Hi Sm Si. unfold group_tree.
  destruct consts_split as [Cn [Cx _]].
  assert (Hmem : forallb (fun o' => String.eqb (o_cls F o') "Member" && conf (Datatypes.S f) T S o')
                         (map (member_tree F) (members g)) = true).
  { apply kids_conf. intros m Hin. split; [reflexivity | apply member_conf; apply Hm; exact Hin]. }
  assert (Hinc : forallb (fun o' => String.eqb (o_cls F o') "Include" && conf (Datatypes.S f) T S o')
                         (map (include_tree F) (includes g)) = true).
  { apply kids_conf. intros i Hin. split; [reflexivity | apply include_conf; apply Hi; exact Hin]. }
  assert (Lm : (Z.of_nat (length (map (member_tree F) (members g))) <=? gds_unbounded)%Z = true)
    by (rewrite map_length; apply Z.leb_le; exact Sm).
  assert (Li : (Z.of_nat (length (map (include_tree F) (includes g))) <=? gds_unbounded)%Z = true)
    by (rewrite map_length; apply Z.leb_le; exact Si).
  destruct (nlex g) as [n|] eqn:En; destruct (default_notes (gid g)) as [nt|] eqn:Ent;
    open_cls (tf_SegmentGroup facts) INFO_SegmentGroup; rewrite Hmem, Hinc, Lm, Li; simpl;
    conj_true; try (exact (vok_nmlid _ Hid)); try (exact (Cx n (Hnl n eq_refl)));
    try (apply (Cn nt (default_notes_in _ _ Ent))).
Qed.

Definition seg_fine (s : seg) : Prop :=
  (0 <= sid s)%Z /\ printable (sname s) = true /\ (forall p fr, spar s = Some (p, fr) -> (0 <= p)%Z).
Definition group_fine (g : group) : Prop :=
  nmlid (gid g) = true /\ (forall n, nlex g = Some n -> In n known_nlex) /\
  (forall m, In m (members g) -> (0 <= m)%Z) /\ (forall i, In i (includes g) -> nmlid i = true) /\
  small (members g) /\ small (includes g).

Lemma segs_conf : forall f l k, (forall s, In s l -> seg_fine s) ->
  forallb (fun o' => String.eqb (o_cls F o') "Segment" && conf (Datatypes.S (Datatypes.S f)) T S o')
          (segs_tree F F_of_dec k l) = true.
Proof.
  intros f. induction l as [|s l IH]; intros k H; [reflexivity|].
  change (segs_tree F F_of_dec k (s :: l)) with (seg_tree F F_of_dec k s :: segs_tree F F_of_dec (k + 1) l).
  cbn [forallb]. destruct (H s (or_introl eq_refl)) as [A [B C]]. rewrite (seg_conf f k s A B C).
  rewrite IH; [reflexivity|]. intros x Hx. apply H. right. exact Hx.
Qed.

Lemma segs_tree_length : forall l k, length (segs_tree F F_of_dec k l) = length l.
Proof. induction l as [|s l IH]; intros k; simpl; [reflexivity | rewrite IH; reflexivity]. Qed.

#[local] Opaque group_tree seg_tree.

Lemma morphology_conf : forall f mid c,
  nmlid mid = true -> segs c <> [] -> (forall s, In s (segs c) -> seg_fine s) -> (forall g, In g (groups c) -> group_fine g) ->
  small (segs c) -> small (groups c) ->
  conf (Datatypes.S (Datatypes.S (Datatypes.S f))) T S (morphology_tree F F_of_dec mid c) = true.
Proof.
  intros f mid c Hid Hne Hs Hg Ss Sg. unfold morphology_tree.
  pose proof (segs_conf f (segs c) 0%Z Hs) as Hsegs.
  assert (Hgr : forallb (fun o' => String.eqb (o_cls F o') "SegmentGroup" && conf (Datatypes.S (Datatypes.S f)) T S o')
                        (map (group_tree F) (groups c)) = true).
  { apply kids_conf. intros g Hin. split; [reflexivity|]. destruct (Hg g Hin) as [A [B [C [D [E E2]]]]].
    apply group_conf; assumption. }
  assert (Ls : (Z.of_nat (length (segs_tree F F_of_dec 0 (segs c))) <=? gds_unbounded)%Z = true)
    by (rewrite segs_tree_length; apply Z.leb_le; exact Ss).
  assert (Lg : (Z.of_nat (length (map (group_tree F) (groups c))) <=? gds_unbounded)%Z = true)
    by (rewrite map_length; apply Z.leb_le; exact Sg).
  assert (L1 : Nat.leb 1 (length (segs_tree F F_of_dec 0 (segs c))) = true).
  { rewrite segs_tree_length. destruct (segs c); [congruence | reflexivity]. }
  open_cls (tf_Morphology facts) INFO_Morphology. rewrite Hsegs, Hgr, Ls, Lg. simpl.
  unfold cnt_of, find_ek_tag, Validate.field. simpl. rewrite segs_tree_length.
  destruct (segs c) as [|s0 r0]; [congruence|]. simpl.
  conj_true. exact (vok_nmlid _ Hid).
Qed.

(* ---------- biophysical properties ---------- *)
Definition prop_fine (p : prop) : Prop :=
  nmlid (pgrp p) = true /\
  match pk p with
  | ChannelDens => nmlid ("cd" ++ string_of_Z (cd_k (pval p))) = true
  | _ => In (pval p) [0; 1; 2]%Z
  end.

Lemma prop_cls : forall p, o_cls F (prop_tree F p) = kind_cls (pk p).
Proof. intros p. unfold prop_tree. destruct (pk p); reflexivity. Qed.

Lemma prop_conf : forall f p, prop_fine p -> conf (Datatypes.S f) T S (prop_tree F p) = true.
Proof.
  intros f p [Hg Hv]. destruct consts_split as [_ [_ [Cv [Ce [Ci Cc]]]]].
  unfold prop_tree. destruct (pk p) eqn:Ek.
  - destruct (Cv _ Hv) as [A _]. open_cls (tf_SpikeThresh facts) INFO_SpikeThresh.
    conj_true; [exact A | exact (vok_nmlid _ Hg)].
  - destruct (Cv _ Hv) as [_ [A _]]. open_cls (tf_InitMembPotential facts) INFO_InitMembPotential.
    conj_true; [exact A | exact (vok_nmlid _ Hg)].
  - destruct (Cv _ Hv) as [_ [_ [A _]]]. open_cls (tf_SpecificCapacitance facts) INFO_SpecificCapacitance.
    conj_true; [exact A | exact (vok_nmlid _ Hg)].
  - open_cls (tf_ChannelDensity facts) INFO_ChannelDensity.
    conj_true.
    + exact (vok_nmlid _ Hv).
    + apply Ci. left. reflexivity.
    + exact Cc.
    + apply Ce. unfold cd_erev. destruct (pval p mod 10 =? 0)%Z; [left | right; left]; reflexivity.
    + exact (vok_nmlid _ Hg).
    + apply Ci. unfold cd_ion. destruct ((pval p / 10) mod 10 =? 0)%Z; [right; left | right; right; left]; reflexivity.
  - destruct (Cv _ Hv) as [_ [_ [_ A]]]. open_cls (tf_Resistivity facts) INFO_Resistivity.
    conj_true; [exact A | exact (vok_nmlid _ Hg)].
Qed.

Lemma pkind_eqb_eq : forall a b, pkind_eqb a b = true -> a = b.
Proof. destruct a, b; simpl; intros H; try discriminate; reflexivity. Qed.

Definition plist (k : pkind) (c : cell) : list (obj F) :=
  map (prop_tree F) (filter (fun p => pkind_eqb (pk p) k) (props c)).

Lemma plist_conf : forall f k c, (forall p, In p (props c) -> prop_fine p) ->
  forallb (fun o' => String.eqb (o_cls F o') (kind_cls k) && conf (Datatypes.S f) T S o') (plist k c) = true.
Proof.
  intros f k c H. unfold plist. apply kids_conf. intros p Hp. apply filter_In in Hp. destruct Hp as [Hin Hk].
  apply pkind_eqb_eq in Hk. split; [rewrite prop_cls, Hk; reflexivity | apply prop_conf; apply H; exact Hin].
Qed.

Lemma plist_small : forall k c, small (props c) -> (Z.of_nat (length (plist k c)) <=? gds_unbounded)%Z = true.
Proof.
  intros k c H. unfold plist. rewrite map_length. apply Z.leb_le. unfold small in H.
  assert (L : length (filter (fun p => pkind_eqb (pk p) k) (props c)) <= length (props c)).
  { clear. induction (props c) as [|p l IH]; simpl; [lia|]. destruct (pkind_eqb (pk p) k); simpl; lia. }
  unfold gds_unbounded. lia.
Qed.

Lemma plist_nonempty : forall k c, has_kind k c = true -> Nat.leb 1 (length (plist k c)) = true.
Proof.
  intros k c H. unfold plist, has_kind in *. rewrite map_length. apply existsb_exists in H. destruct H as [p [Hin Hk]].
  assert (Hf : In p (filter (fun p => pkind_eqb (pk p) k) (props c))) by (apply filter_In; split; assumption).
  destruct (filter (fun p => pkind_eqb (pk p) k) (props c)); [contradiction | reflexivity].
Qed.

Lemma membrane_tree_eq : forall c, membrane_tree F c =
  Obj "MembraneProperties"
      [ext F; ("channel_populations", VObjs []); ("channel_densities", VObjs (plist ChannelDens c));
       ("channel_density_v_shifts", VObjs []); ("channel_density_nernsts", VObjs []);
       ("channel_density_ghks", VObjs []); ("channel_density_ghk2s", VObjs []);
       ("channel_density_non_uniforms", VObjs []); ("channel_density_non_uniform_nernsts", VObjs []);
       ("channel_density_non_uniform_ghks", VObjs []);
       ("spike_threshes", VObjs (plist SpikeThresh c)); ("specific_capacitances", VObjs (plist SpecificCapacitance c));
       ("init_memb_potentials", VObjs (plist InitMembPotential c))].
Proof. reflexivity. Qed.

Lemma intracellular_tree_eq : forall c, intracellular_tree F c =
  Obj "IntracellularProperties" [ext F; ("species", VObjs []); ("resistivities", VObjs (plist Resistivity c))].
Proof. reflexivity. Qed.

#[local] Opaque prop_tree plist.

Lemma membrane_conf : forall f c,
  (forall p, In p (props c) -> prop_fine p) -> small (props c) ->
  has_kind SpikeThresh c = true -> has_kind InitMembPotential c = true -> has_kind SpecificCapacitance c = true ->
  conf (Datatypes.S (Datatypes.S f)) T S (membrane_tree F c) = true.
Proof.
  intros f c Hp Sp H1 H2 H3. rewrite membrane_tree_eq.
  pose proof (plist_conf f ChannelDens c Hp) as A1. pose proof (plist_conf f SpikeThresh c Hp) as A2.
  pose proof (plist_conf f SpecificCapacitance c Hp) as A3. pose proof (plist_conf f InitMembPotential c Hp) as A4.
  pose proof (plist_small ChannelDens c Sp) as B1. pose proof (plist_small SpikeThresh c Sp) as B2.
  pose proof (plist_small SpecificCapacitance c Sp) as B3. pose proof (plist_small InitMembPotential c Sp) as B4.
  pose proof (plist_nonempty _ _ H1) as N1. pose proof (plist_nonempty _ _ H2) as N2. pose proof (plist_nonempty _ _ H3) as N3.
  simpl kind_cls in *.
  open_cls (tf_MembraneProperties facts) INFO_MembraneProperties.
  rewrite A1, A2, A3, A4, B1, B2, B3, B4. simpl.
  unfold cnt_of, find_ek_tag, Validate.field. simpl.
  destruct (length (plist SpikeThresh c)); [discriminate N1|].
  destruct (length (plist SpecificCapacitance c)); [discriminate N3|].
  destruct (length (plist InitMembPotential c)); [discriminate N2|]. reflexivity.
Qed.

Lemma intracellular_conf : forall f c,
  (forall p, In p (props c) -> prop_fine p) -> small (props c) ->
  conf (Datatypes.S (Datatypes.S f)) T S (intracellular_tree F c) = true.
Proof.
  intros f c Hp Sp. rewrite intracellular_tree_eq.
  pose proof (plist_conf f Resistivity c Hp) as A1. pose proof (plist_small Resistivity c Sp) as B1.
  simpl kind_cls in *.
  open_cls (tf_IntracellularProperties facts) INFO_IntracellularProperties.
  rewrite A1, B1. reflexivity.
Qed.

Lemma cls_membrane : forall c, o_cls F (membrane_tree F c) = "MembraneProperties". Proof. reflexivity. Qed.
Lemma cls_intra : forall c, o_cls F (intracellular_tree F c) = "IntracellularProperties". Proof. reflexivity. Qed.
Lemma cls_morph : forall m c, o_cls F (morphology_tree F F_of_dec m c) = "Morphology". Proof. reflexivity. Qed.
Lemma cls_bio : forall b c, o_cls F (biophys_tree F b c) = "BiophysicalProperties". Proof. reflexivity. Qed.
#[local] Opaque membrane_tree intracellular_tree morphology_tree.

Lemma biophys_conf : forall f bid c,
  nmlid bid = true -> (forall p, In p (props c) -> prop_fine p) -> small (props c) ->
  has_kind SpikeThresh c = true -> has_kind InitMembPotential c = true -> has_kind SpecificCapacitance c = true ->
  conf (Datatypes.S (Datatypes.S (Datatypes.S f))) T S (biophys_tree F bid c) = true.
Proof.
  intros f bid c Hid Hp Sp H1 H2 H3. unfold biophys_tree.
  open_cls (tf_BiophysicalProperties facts) INFO_BiophysicalProperties.
  rewrite cls_membrane, cls_intra, (membrane_conf f c Hp Sp H1 H2 H3), (intracellular_conf f c Hp Sp). simpl.
  conj_true. exact (vok_nmlid _ Hid).
Qed.

#[local] Opaque biophys_tree.

(* ---------- the whole cell ---------- *)
Definition cell_fine (c : cell) : Prop :=
  segs c <> [] /\ (forall s, In s (segs c) -> seg_fine s) /\ (forall g, In g (groups c) -> group_fine g) /\
  (forall p, In p (props c) -> prop_fine p) /\ small (segs c) /\ small (groups c) /\ small (props c) /\
  has_kind SpikeThresh c = true /\ has_kind InitMembPotential c = true /\ has_kind SpecificCapacitance c = true.

Theorem cell_conf : forall f mid bid c,
  nmlid mid = true -> nmlid bid = true -> cell_fine c ->
  conf (Datatypes.S (Datatypes.S (Datatypes.S (Datatypes.S f)))) T S (cell_tree F F_of_dec mid bid c) = true.
Proof.
  intros f mid bid c Hm Hb [Hne [Hs [Hg [Hp [Ss [Sg [Sp [H1 [H2 H3]]]]]]]]]. unfold cell_tree.
  destruct consts_split as [_ [_ [_ [_ [Ci _]]]]].
  open_cls (tf_Cell facts) INFO_Cell.
  rewrite cls_morph, cls_bio, (morphology_conf f mid c Hm Hne Hs Hg Ss Sg), (biophys_conf f bid c Hb Hp Sp H1 H2 H3). simpl.
  conj_true. apply Ci. right; right; right; left; reflexivity.
Qed.

(* ---------- from the decidable predicates ---------- *)
Lemma fine_of_bools : forall c, valid_cell c = true -> tree_facets c = true -> cell_fine c.
Proof.
  intros c Hv Hf. unfold valid_cell in Hv. unfold tree_facets in Hf.
  repeat (apply andb_true_iff in Hv; destruct Hv as [Hv ?]).
  repeat (apply andb_true_iff in Hf; destruct Hf as [Hf ?]).
  rename H into Vp, H0 into K3, H1 into K2, H2 into K1, H3 into Vg, H4 into Vs.
  rename H5 into Sp, H6 into Sg, H7 into Ss, H8 into Fp, H9 into Fg.
  rewrite forallb_forall in Vp, Vg, Vs, Fp, Fg, Hf.
  unfold small_b in *. unfold cell_fine, small.
  split; [destruct (segs c); [discriminate | discriminate]|].
  split.
  { intros s Hs. specialize (Vs s Hs). specialize (Hf s Hs). apply andb_true_iff in Hf. destruct Hf as [A B].
    split; [apply Z.leb_le; exact Vs|]. split; [exact A|]. intros p fr E. rewrite E in B. apply Z.leb_le. exact B. }
  split.
  { intros g Hg. specialize (Vg g Hg). specialize (Fg g Hg).
    apply andb_true_iff in Vg. destruct Vg as [Vg Vm]. apply andb_true_iff in Vg. destruct Vg as [Vid Vi].
    apply andb_true_iff in Fg. destruct Fg as [Fg Si]. apply andb_true_iff in Fg. destruct Fg as [Fn Sm].
    rewrite forallb_forall in Vm, Vi.
    split; [exact Vid|]. split.
    { intros n En. rewrite En in Fn. change (existsb (String.eqb n) known_nlex = true) in Fn. apply existsb_exists in Fn. destruct Fn as [x [Hx Ex]].
      apply String.eqb_eq in Ex. subst x. exact Hx. }
    split; [intros m Hm; apply Z.leb_le; apply Vm; exact Hm|].
    split; [exact Vi|]. split; apply Z.leb_le; assumption. }
  split.
  { intros p Hp. specialize (Vp p Hp). specialize (Fp p Hp). apply andb_true_iff in Vp. destruct Vp as [_ Vgp].
    split; [exact Vgp|]. unfold prop_truthful in Fp. destruct (pk p); try exact Fp;
      (apply andb_true_iff in Fp; destruct Fp as [A B]; apply Z.leb_le in A; apply Z.ltb_lt in B;
       assert (E : pval p = 0%Z \/ pval p = 1%Z \/ pval p = 2%Z) by lia;
       destruct E as [E|[E|E]]; rewrite E; simpl; auto). }
  repeat split; try (apply Z.leb_le; assumption); assumption.
Qed.

Theorem tree_conforms : forall f mid bid c,
  nmlid mid = true -> nmlid bid = true -> valid_cell c = true -> tree_facets c = true ->
  conf (Datatypes.S (Datatypes.S (Datatypes.S (Datatypes.S f)))) T S (cell_tree F F_of_dec mid bid c) = true.
Proof. intros f mid bid c Hm Hb Hv Hf. apply cell_conf; [exact Hm | exact Hb | apply fine_of_bools; assumption]. Qed.
End TreeConf.
