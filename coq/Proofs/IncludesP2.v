(* C06 proofs, part 2: the patched reader rd (Model/Includes.v).
   - what a finished read returns (files opened = already_included in load order, each once; exactly
     the files reachable through the hrefs; components = merge of their contributions in that order)
   - termination for EVERY finite file system: the number of files not yet in already_included
     bounds the recursion depth; fuel above that bound never changes the result. *)
From Coq Require Import String List Bool ZArith Arith Lia Relations.
From LNML Require Import Model.Includes Proofs.IncludesP.
Import ListNotations.
Open Scope string_scope.

Lemma NoDup_app_snoc : forall (A : Type) (l : list A) (x : A), NoDup l -> ~ In x l -> NoDup (l ++ [x])%list.
Proof.
  intros A l x. induction l as [|a l IH]; intros N H; simpl.
  - constructor; [intros [] | constructor].
  - inversion N; subst. constructor.
    + intro Hin. apply in_app_or in Hin. destruct Hin as [Hin|[E|[]]]; [tauto|].
      subst. apply H. left. reflexivity.
    + apply IH; [assumption | intro; apply H; right; assumption].
Qed.

Section R.
  Variable fs : fsys.
  Variable cwd : path.

  Notation rec_t := (bool -> path -> list path -> res).

  (* q' is named by an include of q (q' need not exist) *)
  Definition edge (q q' : path) : Prop :=
    exists h, In h (incs_at fs q) /\ q' = resolve fs cwd (dirname q) h.
  Definition reach : path -> path -> Prop := clos_refl_trans path edge.

  (* ------------------------------------------------ specification of a call *)
  Definition call_spec (loc : path) (al : list path) (d : doc) (al' : list path) : Prop :=
    exists new,
      al' = (al ++ new)%list /\
      d_comps d = merge_all (contrib fs loc) (map (contrib fs) new) /\
      d_incs d = [] /\
      (NoDup al -> NoDup al') /\
      (forall q, In q new -> reach loc q) /\
      (forall q q', In q (loc :: new) -> edge q q' -> In q' al').

  Definition rec_ok (rec : rec_t) : Prop :=
    forall h5 loc al d al', In loc al -> rec h5 loc al = Done (d, al') -> call_spec loc al d al'.

  Definition loop_spec (base : path) (incs : list href) (d : list comp) (al : list path)
             (d' : list comp) (al' : list path) : Prop :=
    exists new,
      al' = (al ++ new)%list /\
      d' = merge_all d (map (contrib fs) new) /\
      (NoDup al -> NoDup al') /\
      (forall q, In q new -> exists h, In h incs /\ reach (resolve fs cwd base h) q) /\
      (forall h, In h incs -> In (resolve fs cwd base h) al') /\
      (forall q q', In q new -> edge q q' -> In q' al').

  Lemma loop_ok : forall rec, rec_ok rec ->
    forall base incs d al d' al',
      incl_loop fs cwd rec base incs d al = Done (d', al') -> loop_spec base incs d al d' al'.
  Proof.
    intros rec Hrec base incs. induction incs as [|h rest IH]; intros d al d' al' H.
    - simpl in H. inversion H; subst. exists []. rewrite app_nil_r.
      repeat split; auto; intros; simpl in *; tauto.
    - simpl in H. set (loc := resolve fs cwd base h) in *.
      destruct (mem_path loc al) eqn:M.
      + apply IH in H. destruct H as [new [E [Ed [Nd [Rc [Tg Cl]]]]]].
        exists new. repeat split; auto.
        * intros q Hq. destruct (Rc q Hq) as [h' [Hh' R]]. exists h'. split; [right; exact Hh' | exact R].
        * intros h' [Eh|Hh'].
          -- subst h'. fold loc. rewrite E. apply in_or_app. left. apply mem_path_In. exact M.
          -- apply Tg. exact Hh'.
      + destruct (kind_bad (incl_kind loc)); [discriminate|].
        destruct (rec (kind_h5 (incl_kind loc)) loc (al ++ [loc])%list) as [[sub al1]| |] eqn:C; try discriminate.
        assert (Hin : In loc (al ++ [loc])%list) by (apply in_or_app; right; left; reflexivity).
        destruct (Hrec _ _ _ _ _ Hin C) as [new1 [E1 [Ed1 [_ [Nd1 [Rc1 Cl1]]]]]].
        apply IH in H. destruct H as [new2 [E2 [Ed2 [Nd2 [Rc2 [Tg2 Cl2]]]]]].
        exists (loc :: new1 ++ new2)%list.
        assert (Eal : al' = (al ++ loc :: new1 ++ new2)%list).
        { rewrite E2, E1. rewrite <- !app_assoc. reflexivity. }
        assert (Sub1 : forall q, In q al1 -> In q al').
        { intros q Hq. rewrite E2. apply in_or_app. left. exact Hq. }
        repeat split.
        * exact Eal.
        * rewrite Ed2, Ed1. simpl map. rewrite map_app, merge_all_cons, merge_all_app, merge_all_assoc. reflexivity.
        * intro N. apply Nd2. apply Nd1.
          apply NoDup_app_snoc; [exact N | apply mem_path_false; exact M].
        * intros q [Eq|Hq].
          -- subst q. exists h. split; [left; reflexivity | apply rt_refl].
          -- apply in_app_or in Hq. destruct Hq as [Hq|Hq].
             ++ exists h. split; [left; reflexivity | fold loc; apply Rc1; exact Hq].
             ++ destruct (Rc2 q Hq) as [h' [Hh' R]]. exists h'. split; [right; exact Hh' | exact R].
        * intros h' [Eh|Hh'].
          -- subst h'. fold loc. apply Sub1. rewrite E1. apply in_or_app. left. exact Hin.
          -- apply Tg2. exact Hh'.
        * intros q q' Hq Ed. destruct Hq as [Eq|Hq].
          -- subst q. apply Sub1. apply (Cl1 loc q'); [left; reflexivity | exact Ed].
          -- apply in_app_or in Hq. destruct Hq as [Hq|Hq].
             ++ apply Sub1. apply (Cl1 q q'); [right; exact Hq | exact Ed].
             ++ apply (Cl2 q q'); assumption.
  Qed.

  (* the includes followed at loc are those of the file found there *)
  Lemma incs_at_lookup : forall loc f, lookup loc (fs_files fs) = Some f -> incs_at fs loc = incs_file f.
  Proof. intros loc f H. unfold incs_at. rewrite H. reflexivity. Qed.
  Lemma contrib_lookup : forall loc f, lookup loc (fs_files fs) = Some f -> contrib fs loc = contrib_file f.
  Proof. intros loc f H. unfold contrib. rewrite H. reflexivity. Qed.

  (* a document whose own components are c and whose includes (followed from dirname loc) are the
     includes of the file at loc *)
  Lemma body_ok : forall rec, rec_ok rec -> forall loc (x : xfile) al d' al',
    incs_at fs loc = x_incs x ->
    incl_loop fs cwd rec (dirname loc) (x_incs x) (x_comps x) al = Done (d', al') ->
    exists new,
      al' = (al ++ new)%list /\
      d' = merge_all (x_comps x) (map (contrib fs) new) /\
      (NoDup al -> NoDup al') /\
      (forall q, In q new -> reach loc q) /\
      (forall q q', In q (loc :: new) -> edge q q' -> In q' al').
  Proof.
    intros rec Hrec loc x al d' al' Hi H.
    apply (loop_ok rec Hrec) in H. destruct H as [new [E [Ed [Nd [Rc [Tg Cl]]]]]].
    exists new. repeat split; auto.
    - intros q Hq. destruct (Rc q Hq) as [h [Hh R]].
      eapply rt_trans; [|exact R]. apply rt_step. exists h. split; [rewrite Hi; exact Hh | reflexivity].
    - intros q q' [Eq|Hq] Ed'.
      + subst q. destruct Ed' as [h [Hh Eq']]. subst q'. apply Tg. rewrite <- Hi. exact Hh.
      + apply (Cl q q'); assumption.
  Qed.

  Lemma load_h5_ok : forall rec, rec_ok rec -> forall loc al d al',
    In loc al -> load_h5 fs cwd rec loc al = Done (d, al') -> call_spec loc al d al'.
  Proof.
    intros rec Hrec loc al d al' Hin H. unfold load_h5 in H.
    destruct (lookup loc (fs_files fs)) as [[x|nets [x|]]|] eqn:L; try discriminate.
    - unfold read_x in H.
      destruct (incl_loop fs cwd rec (dirname loc) (x_incs x) (x_comps x) al) as [[d1 al1]| |] eqn:Lp; try discriminate.
      inversion H; subst; clear H.
      destruct (body_ok rec Hrec loc x al d1 al' (incs_at_lookup _ _ L) Lp) as [new [E [Ed [Nd [Rc Cl]]]]].
      exists new. repeat split; auto. simpl.
      rewrite (contrib_lookup _ _ L). simpl. rewrite Ed, merge_all_assoc. reflexivity.
    - inversion H; subst; clear H. exists []. rewrite app_nil_r. repeat split; auto.
      + simpl. rewrite (contrib_lookup _ _ L). reflexivity.
      + intros q [].
      + intros q q' [Eq|[]] [h [Hh _]]. subst q. rewrite (incs_at_lookup _ _ L) in Hh. destruct Hh.
  Qed.

  Lemma mark_In : forall loc al, In loc (mark loc al).
  Proof.
    intros loc al. unfold mark. destruct (mem_path loc al) eqn:M.
    - apply mem_path_In. exact M.
    - apply in_or_app. right. left. reflexivity.
  Qed.

  Lemma mark_id : forall loc al, In loc al -> mark loc al = al.
  Proof. intros loc al H. unfold mark. apply mem_path_In in H. rewrite H. reflexivity. Qed.

  Lemma mark_incl : forall loc al q, In q al -> In q (mark loc al).
  Proof. intros loc al q H. unfold mark. destruct (mem_path loc al); [exact H | apply in_or_app; left; exact H]. Qed.

  Lemma mark_NoDup : forall loc al, NoDup al -> NoDup (mark loc al).
  Proof.
    intros loc al N. unfold mark. destruct (mem_path loc al) eqn:M; [exact N|].
    apply NoDup_app_snoc; [exact N | apply mem_path_false; exact M].
  Qed.

  (* read_neuroml2_file, for any list: the file marks itself first *)
  Lemma read_file_ok : forall rec, rec_ok rec -> forall loc al d al',
    read_file fs cwd rec loc al = Done (d, al') -> call_spec loc (mark loc al) d al'.
  Proof.
    intros rec Hrec loc al d al' H. unfold read_file in H.
    destruct (negb (is_file fs loc)); [discriminate|].
    destruct (entry_is_h5 loc).
    - apply (load_h5_ok rec Hrec); [apply mark_In | exact H].
    - destruct (lookup loc (fs_files fs)) as [[x|nets emb]|] eqn:L; try discriminate.
      unfold read_x in H.
      destruct (incl_loop fs cwd rec (dirname loc) (x_incs x) (x_comps x) (mark loc al)) as [[d1 al1]| |] eqn:Lp; try discriminate.
      inversion H; subst; clear H.
      destruct (body_ok rec Hrec loc x _ d1 al' (incs_at_lookup _ _ L) Lp) as [new [E [Ed [Nd [Rc Cl]]]]].
      exists new. repeat split; auto. simpl. rewrite (contrib_lookup _ _ L). exact Ed.
  Qed.

  Theorem rd_ok : forall k, rec_ok (rd fs cwd k).
  Proof.
    induction k as [|k IH]; intros h5 loc al d al' Hin H; [discriminate|].
    simpl in H. destruct h5.
    - apply (load_h5_ok _ IH); assumption.
    - apply (read_file_ok _ IH) in H. rewrite (mark_id _ _ Hin) in H. exact H.
  Qed.

  (* ---------------------------------------------- the two entry points, al = [] *)
  Lemma closed_reach : forall p (S : list path),
    In p S -> (forall q q', In q S -> edge q q' -> In q' S) -> forall q, reach p q -> In q S.
  Proof.
    intros p S Hp Cl q R. apply clos_rt_rtn1 in R. induction R as [|y z E R IH]; [exact Hp|].
    apply (Cl y z); assumption.
  Qed.

  Theorem read_entry_file_spec : forall fuel p d al',
    read_entry_file fs cwd fuel p [] = Done (d, al') ->
    exists new,
      al' = p :: new /\ NoDup al' /\
      (forall q, In q al' <-> reach p q) /\
      d_comps d = merge_all (contrib fs p) (map (contrib fs) new) /\
      d_incs d = [].
  Proof.
    intros fuel p d al' H. unfold read_entry_file in H.
    apply (read_file_ok _ (rd_ok fuel)) in H. unfold mark in H. simpl in H.
    destruct H as [new [E [Ed [Ei [Nd [Rc Cl]]]]]]. simpl in E.
    exists new. repeat split; auto.
    - apply Nd. constructor; [intros [] | constructor].
    - intro Hq. rewrite E in Hq. destruct Hq as [Eq|Hq]; [subst; apply rt_refl | apply Rc; exact Hq].
    - apply closed_reach; [rewrite E; left; reflexivity|].
      intros q' q'' Hq' Ed'. apply (Cl q' q''); [rewrite E in Hq'; exact Hq' | exact Ed'].
  Qed.

  (* reading a string: the files opened are those reachable from the targets of its includes *)
  Theorem read_entry_string_spec : forall fuel x base d al',
    read_entry_string fs cwd fuel x base [] = Done (d, al') ->
    let b := match base with Some b => b | None => cwd end in
    NoDup al' /\
    (forall q, In q al' <-> exists h, In h (x_incs x) /\ reach (resolve fs cwd b h) q) /\
    d_comps d = merge_all (x_comps x) (map (contrib fs) al') /\
    d_incs d = [].
  Proof.
    intros fuel x base d al' H b. unfold read_entry_string, read_x in H. fold b in H.
    destruct (incl_loop fs cwd (rd fs cwd fuel) b (x_incs x) (x_comps x) []) as [[d1 al1]| |] eqn:Lp; try discriminate.
    inversion H; subst; clear H.
    apply (loop_ok _ (rd_ok fuel)) in Lp. destruct Lp as [new [E [Ed [Nd [Rc [Tg Cl]]]]]]. simpl in E. subst new.
    split; [apply Nd; constructor|]. split; [|split; [exact Ed | reflexivity]].
    intro q. split.
    - apply Rc.
    - intros [h [Hh R]]. eapply closed_reach; [apply Tg; exact Hh | exact Cl | exact R].
  Qed.

  (* ------------------------------------------------------------- termination *)
  Lemma filter_length_le : forall (A : Type) (f g : A -> bool) l,
    (forall x, f x = true -> g x = true) -> length (filter f l) <= length (filter g l).
  Proof.
    intros A f g l H. induction l as [|a l IH]; simpl; [lia|].
    destruct (f a) eqn:F.
    - rewrite (H a F). simpl. lia.
    - destruct (g a); simpl; lia.
  Qed.

  Lemma filter_length_lt : forall (A : Type) (f g : A -> bool) l x,
    (forall y, f y = true -> g y = true) -> In x l -> f x = false -> g x = true ->
    length (filter f l) < length (filter g l).
  Proof.
    intros A f g l x H. induction l as [|a l IH]; simpl; intros Hin Fx Gx; [destruct Hin|].
    destruct Hin as [E|Hin].
    - subst a. rewrite Fx, Gx. simpl. pose proof (filter_length_le A f g l H). lia.
    - specialize (IH Hin Fx Gx). destruct (f a) eqn:F.
      + rewrite (H a F). simpl. lia.
      + destruct (g a); simpl; lia.
  Qed.

  Lemma unmarked_incl : forall al al', incl al al' -> unmarked fs al' <= unmarked fs al.
  Proof.
    intros al al' H. unfold unmarked. apply filter_length_le. intros q Hq.
    apply negb_true_iff in Hq. apply negb_true_iff. apply mem_path_false in Hq. apply mem_path_false.
    intro Hin. apply Hq. apply H. exact Hin.
  Qed.

  Lemma unmarked_snoc : forall al loc, is_file fs loc = true -> ~ In loc al ->
    unmarked fs (al ++ [loc])%list < unmarked fs al.
  Proof.
    intros al loc F N. unfold unmarked. apply filter_length_lt with (x := loc).
    - intros q Hq. apply negb_true_iff in Hq. apply negb_true_iff. apply mem_path_false in Hq. apply mem_path_false.
      intro Hin. apply Hq. apply in_or_app. left. exact Hin.
    - apply is_file_In. exact F.
    - apply negb_false_iff. apply mem_path_In. apply in_or_app. right. left. reflexivity.
    - apply negb_true_iff. apply mem_path_false. exact N.
  Qed.

  Lemma unmarked_le_files : forall al, unmarked fs al <= length (fs_files fs).
  Proof.
    intro al. unfold unmarked. rewrite <- (map_length fst (fs_files fs)).
    generalize (map fst (fs_files fs)). intro l. induction l as [|a l IH]; simpl; [lia|].
    destruct (negb (mem_path a al)); simpl; lia.
  Qed.

  (* a path that is not a file ends the call at once (sys.exit / open error) *)
  Lemma rd_not_file : forall k h5 loc al, is_file fs loc = false -> exists e, rd fs cwd (S k) h5 loc al = Err e.
  Proof.
    intros k h5 loc al F. simpl. destruct h5.
    - unfold load_h5. unfold is_file in F. destruct (lookup loc (fs_files fs)); [discriminate|]. eexists. reflexivity.
    - unfold read_file. rewrite F. simpl. eexists. reflexivity.
  Qed.

  Lemma loop_no_oof : forall k,
    (forall h5 loc al, unmarked fs al + 2 <= k -> rd fs cwd k h5 loc al <> OutOfFuel) ->
    forall base incs d al, 1 <= k -> unmarked fs al + 1 <= k ->
      incl_loop fs cwd (rd fs cwd k) base incs d al <> OutOfFuel.
  Proof.
    intros k IHk base incs. induction incs as [|h rest IH]; intros d al K U; simpl; [discriminate|].
    set (loc := resolve fs cwd base h).
    destruct (mem_path loc al) eqn:M; [apply IH; assumption|].
    destruct (kind_bad (incl_kind loc)); [discriminate|].
    destruct (is_file fs loc) eqn:F.
    - assert (U' : unmarked fs (al ++ [loc])%list + 2 <= k).
      { pose proof (unmarked_snoc al loc F (proj1 (mem_path_false _ _) M)). lia. }
      pose proof (IHk (kind_h5 (incl_kind loc)) loc _ U') as N.
      destruct (rd fs cwd k (kind_h5 (incl_kind loc)) loc (al ++ [loc])%list) as [[sub al1]| |] eqn:C;
        [| discriminate | congruence].
      apply IH; [exact K|].
      assert (Hin : In loc (al ++ [loc])%list) by (apply in_or_app; right; left; reflexivity).
      destruct (rd_ok k _ _ _ _ _ Hin C) as [new [E _]].
      assert (incl al al1). { intros q Hq. rewrite E. apply in_or_app. left. apply in_or_app. left. exact Hq. }
      pose proof (unmarked_incl _ _ H). lia.
    - destruct k as [|k']; [lia|].
      destruct (rd_not_file k' (kind_h5 (incl_kind loc)) loc (al ++ [loc])%list F) as [e He].
      rewrite He. discriminate.
  Qed.

  Lemma read_x_no_oof : forall k,
    (forall h5 loc al, unmarked fs al + 2 <= k -> rd fs cwd k h5 loc al <> OutOfFuel) ->
    forall base x al, 1 <= k -> unmarked fs al + 1 <= k -> read_x fs cwd (rd fs cwd k) base x al <> OutOfFuel.
  Proof.
    intros k IHk base x al K U. unfold read_x.
    pose proof (loop_no_oof k IHk base (x_incs x) (x_comps x) al K U).
    destruct (incl_loop fs cwd (rd fs cwd k) base (x_incs x) (x_comps x) al) as [[d1 al1]| |]; congruence.
  Qed.

  Theorem rd_no_oof : forall k h5 loc al, unmarked fs al + 2 <= k -> rd fs cwd k h5 loc al <> OutOfFuel.
  Proof.
    induction k as [|k IH]; intros h5 loc al U; [lia|].
    assert (K : 1 <= k) by lia. simpl. destruct h5.
    - unfold load_h5. destruct (lookup loc (fs_files fs)) as [[x|nets [x|]]|]; try discriminate.
      pose proof (read_x_no_oof k IH (dirname loc) x al K ltac:(lia)).
      destruct (read_x fs cwd (rd fs cwd k) (dirname loc) x al) as [[d1 al1]| |]; congruence.
    - unfold read_file. destruct (negb (is_file fs loc)); [discriminate|].
      assert (U1 : unmarked fs (mark loc al) + 1 <= k).
      { pose proof (unmarked_incl al (mark loc al) (mark_incl loc al)). lia. }
      destruct (entry_is_h5 loc).
      + unfold load_h5. destruct (lookup loc (fs_files fs)) as [[x|nets [x|]]|]; try discriminate.
        pose proof (read_x_no_oof k IH (dirname loc) x _ K U1).
        destruct (read_x fs cwd (rd fs cwd k) (dirname loc) x (mark loc al)) as [[d1 al1]| |]; congruence.
      + destruct (lookup loc (fs_files fs)) as [[x|nets emb]|]; try discriminate.
        apply (read_x_no_oof k IH); assumption.
  Qed.

  (* -------------------------------------------------------- fuel monotonicity *)
  Definition extends (r1 r2 : rec_t) : Prop :=
    forall h5 loc al r, r1 h5 loc al = r -> r <> OutOfFuel -> r2 h5 loc al = r.

  Lemma loop_extends : forall r1 r2, extends r1 r2 -> forall base incs d al r,
    incl_loop fs cwd r1 base incs d al = r -> r <> OutOfFuel -> incl_loop fs cwd r2 base incs d al = r.
  Proof.
    intros r1 r2 Hx base incs. induction incs as [|h rest IH]; intros d al r H N; simpl in *; [exact H|].
    set (loc := resolve fs cwd base h) in *.
    destruct (mem_path loc al); [apply IH; assumption|].
    destruct (kind_bad (incl_kind loc)); [exact H|].
    destruct (r1 (kind_h5 (incl_kind loc)) loc (al ++ [loc])%list) as [[sub al1]| |] eqn:C.
    - rewrite (Hx _ _ _ _ C) by discriminate. apply IH; assumption.
    - rewrite (Hx _ _ _ _ C) by discriminate. exact H.
    - subst r. congruence.
  Qed.

  Lemma read_x_extends : forall r1 r2, extends r1 r2 -> forall base x al r,
    read_x fs cwd r1 base x al = r -> r <> OutOfFuel -> read_x fs cwd r2 base x al = r.
  Proof.
    intros r1 r2 Hx base x al r H N. unfold read_x in *.
    destruct (incl_loop fs cwd r1 base (x_incs x) (x_comps x) al) as [[d1 al1]| |] eqn:L.
    - rewrite (loop_extends r1 r2 Hx _ _ _ _ _ L) by discriminate. exact H.
    - rewrite (loop_extends r1 r2 Hx _ _ _ _ _ L) by discriminate. exact H.
    - subst r. congruence.
  Qed.

  Lemma load_h5_extends : forall r1 r2, extends r1 r2 -> forall loc al r,
    load_h5 fs cwd r1 loc al = r -> r <> OutOfFuel -> load_h5 fs cwd r2 loc al = r.
  Proof.
    intros r1 r2 Hx loc al r H N. unfold load_h5 in *.
    destruct (lookup loc (fs_files fs)) as [[x|nets [x|]]|]; try exact H.
    destruct (read_x fs cwd r1 (dirname loc) x al) as [[d1 al1]| |] eqn:L.
    - rewrite (read_x_extends r1 r2 Hx _ _ _ _ L) by discriminate. exact H.
    - rewrite (read_x_extends r1 r2 Hx _ _ _ _ L) by discriminate. exact H.
    - subst r. congruence.
  Qed.

  Lemma read_file_extends : forall r1 r2, extends r1 r2 -> forall loc al r,
    read_file fs cwd r1 loc al = r -> r <> OutOfFuel -> read_file fs cwd r2 loc al = r.
  Proof.
    intros r1 r2 Hx loc al r H N. unfold read_file in *.
    destruct (negb (is_file fs loc)); [exact H|].
    destruct (entry_is_h5 loc); [apply (load_h5_extends r1 r2 Hx); assumption|].
    destruct (lookup loc (fs_files fs)) as [[x|nets emb]|]; try exact H.
    apply (read_x_extends r1 r2 Hx); assumption.
  Qed.

  Lemma rd_S : forall k, extends (rd fs cwd k) (rd fs cwd (S k)).
  Proof.
    induction k as [|k IH]; intros h5 loc al r H N; [simpl in H; congruence|].
    change (rd fs cwd (S (S k)) h5 loc al) with
        (if h5 then load_h5 fs cwd (rd fs cwd (S k)) loc al else read_file fs cwd (rd fs cwd (S k)) loc al).
    simpl in H. destruct h5.
    - apply (load_h5_extends _ _ IH); assumption.
    - apply (read_file_extends _ _ IH); assumption.
  Qed.

  Theorem rd_mono : forall k k', k <= k' -> extends (rd fs cwd k) (rd fs cwd k').
  Proof.
    intros k k' Hle. induction Hle as [|m Hle IH]; intros h5 loc al r H N; [exact H|].
    apply rd_S; [apply IH; assumption | exact N].
  Qed.

  (* `enough` fuel is enough for every call, and more fuel never changes anything *)
  Theorem rd_terminates : forall h5 loc al, rd fs cwd (enough fs) h5 loc al <> OutOfFuel.
  Proof.
    intros h5 loc al. apply rd_no_oof. unfold enough. pose proof (unmarked_le_files al). lia.
  Qed.

  Theorem rd_stable : forall k h5 loc al, enough fs <= k ->
    rd fs cwd k h5 loc al = rd fs cwd (enough fs) h5 loc al.
  Proof.
    intros k h5 loc al Hle. apply (rd_mono _ _ Hle); [reflexivity | apply rd_terminates].
  Qed.

  Theorem read_entry_file_terminates : forall p al,
    read_entry_file fs cwd (enough fs) p al <> OutOfFuel /\
    forall k, enough fs <= k -> read_entry_file fs cwd k p al = read_entry_file fs cwd (enough fs) p al.
  Proof.
    intros p al. unfold read_entry_file.
    change (read_file fs cwd (rd fs cwd (enough fs)) p al) with (rd fs cwd (S (enough fs)) false p al).
    split.
    - apply rd_no_oof. unfold enough. pose proof (unmarked_le_files al). lia.
    - intros k Hle. change (read_file fs cwd (rd fs cwd k) p al) with (rd fs cwd (S k) false p al).
      rewrite (rd_stable (S k)) by lia. rewrite (rd_stable (S (enough fs))) by lia. reflexivity.
  Qed.

  Theorem read_entry_string_terminates : forall x base al,
    read_entry_string fs cwd (enough fs) x base al <> OutOfFuel /\
    forall k, enough fs <= k -> read_entry_string fs cwd k x base al = read_entry_string fs cwd (enough fs) x base al.
  Proof.
    intros x base al. unfold read_entry_string. split.
    - apply read_x_no_oof.
      + intros h5 loc al0 U. apply rd_no_oof. exact U.
      + unfold enough. lia.
      + unfold enough. pose proof (unmarked_le_files al). lia.
    - intros k Hle.
      apply (read_x_extends (rd fs cwd (enough fs)) (rd fs cwd k) (rd_mono _ _ Hle)); [reflexivity|].
      apply read_x_no_oof.
      + intros h5 loc al0 U. apply rd_no_oof. exact U.
      + unfold enough. lia.
      + unfold enough. pose proof (unmarked_le_files al). lia.
  Qed.
End R.
