(* C15, part A: what add_segment does, factored (add_segment_shape), and the invariants that only
   concern the segment list: ids unique (fresh automatic ids, explicit ids in use refused), every
   parent exists, one group id - one role. *)
From Coq Require Import String List ZArith Bool Arith Lia.
From LNML Require Import Model.Groups Model.Builder Proofs.GroupsP.
Import ListNotations.
Open Scope string_scope.

(* ---------- automatic ids are fresh ---------- *)
Lemma filter_length_le : forall (A : Type) (f g : A -> bool) l,
  (forall x, f x = true -> g x = true) -> length (filter f l) <= length (filter g l).
Proof.
  intros A f g l H. induction l as [|x l IH]; simpl; [lia|].
  destruct (f x) eqn:Ef.
  - rewrite (H x Ef). simpl. lia.
  - destruct (g x); simpl; lia.
Qed.

Lemma filter_length_lt : forall (A : Type) (f g : A -> bool) l x,
  (forall y, f y = true -> g y = true) -> In x l -> g x = true -> f x = false ->
  length (filter f l) < length (filter g l).
Proof.
  intros A f g l x H. induction l as [|y l IH]; intros Hin Hg Hf; simpl; [contradiction|].
  destruct Hin as [Hin|Hin].
  - subst y. rewrite Hg, Hf. simpl. pose proof (filter_length_le A f g l H). lia.
  - specialize (IH Hin Hg Hf). destruct (f y) eqn:Ef.
    + rewrite (H y Ef). simpl. lia.
    + destruct (g y); simpl; lia.
Qed.

Lemma fresh_from_spec : forall fuel n used,
  length (filter (fun i => Z.leb n i) used) <= fuel -> ~ In (fresh_from fuel n used) used.
Proof.
  induction fuel as [|f IH]; intros n used Hlen; simpl.
  - intro Hin. assert (Hf : In n (filter (fun i => Z.leb n i) used)).
    { apply filter_In. split; [exact Hin | apply Z.leb_refl]. }
    destruct (filter (fun i => Z.leb n i) used); [contradiction | simpl in Hlen; lia].
  - destruct (memZ n used) eqn:Hm.
    + apply IH. apply memZ_iff in Hm.
      assert (Hlt : length (filter (fun i => Z.leb (n + 1) i) used) < length (filter (fun i => Z.leb n i) used)).
      { apply (filter_length_lt Z _ _ used n).
        - intros y Hy. apply Z.leb_le in Hy. apply Z.leb_le. lia.
        - exact Hm.
        - apply Z.leb_refl.
        - apply Z.leb_gt. lia. }
      lia.
    + apply memZ_false_iff. exact Hm.
Qed.

Lemma auto_id_fresh : forall used, ~ In (auto_id true used) used.
Proof.
  intros used. unfold auto_id. apply fresh_from_spec.
  pose proof (filter_length_le Z (fun i => Z.leb (Z.of_nat (length used)) i) (fun _ => true) used (fun _ _ => eq_refl)) as H.
  rewrite (filter_all Z (fun _ => true) used (fun _ _ => eq_refl)) in H. exact H.
Qed.

(* an explicit id in use is refused; whatever id is chosen is new *)
Lemma choose_id_fresh : forall c seg_id i, choose_id true c seg_id = BRet i -> ~ In i (ids c).
Proof.
  intros c seg_id i H. unfold choose_id in H. destruct seg_id as [z|].
  - destruct (memZ z (ids c)) eqn:Hm; [discriminate|].
    inversion H; subst. apply memZ_false_iff. exact Hm.
  - inversion H. apply auto_id_fresh.
Qed.

Theorem explicit_id_in_use_refused : forall c z, In z (ids c) -> choose_id true c (Some z) = BErr BDupId.
Proof. intros c z Hin. unfold choose_id. apply memZ_iff in Hin. rewrite Hin. reflexivity. Qed.

(* ... and one that is free is honoured, 0 included *)
Theorem explicit_id_free_honoured : forall c z, ~ In z (ids c) -> choose_id true c (Some z) = BRet z.
Proof. intros c z Hin. unfold choose_id. apply memZ_false_iff in Hin. rewrite Hin. reflexivity. Qed.

Lemma parent_of_in : forall c parent frac p f, parent_of c parent frac = BRet (Some (p, f)) -> In p (ids c).
Proof.
  intros c parent frac p f H. unfold parent_of in H. destruct parent as [k|]; [|discriminate].
  destruct (nth_error (segs c) k) as [s|] eqn:Hn; [|discriminate].
  destruct (Z.ltb frac 0 || Z.ltb 4 frac); [discriminate|]. inversion H; subst.
  unfold ids. apply in_map. eapply nth_error_In. exact Hn.
Qed.

Lemma parse_conv_tag : forall conv ty tag, parse_conv conv ty = BRet tag -> tag = tag_of conv ty.
Proof.
  intros conv ty tag H. unfold parse_conv, tag_of in *. destruct conv; [|inversion H; reflexivity].
  destruct ty as [s|]; [|discriminate]. destruct (String.eqb s ""); [discriminate|].
  destruct (parse_type s); [inversion H; reflexivity | discriminate].
Qed.

(* ---------- optimise only touches the groups ---------- *)
Lemma optimise_shape : forall c c', optimise c = BRet c' ->
  segs c' = segs c /\ props c' = props c /\
  optimise_all_c (ids c) (default_fuel (groups c)) (groups c) = Ret (groups c').
Proof.
  intros c c' H. unfold optimise in H.
  destruct (optimise_all_c (ids c) (default_fuel (groups c)) (groups c)) as [G|e]; simpl in H.
  - inversion H; subst; simpl. auto.
  - destruct e; discriminate.
Qed.

(* ---------- add_segment, factored ---------- *)
Lemma add_segment_shape : forall c prox seg_id name parent frac group conv ty reord opt c',
  add_segment true c prox seg_id name parent frac group conv ty reord opt = BRet c' ->
  exists i sp nm tag,
    ~ In i (ids c) /\ (forall p f, sp = Some (p, f) -> In p (ids c)) /\ tag = tag_of conv ty /\
    choose_id true c seg_id = BRet i /\
    let s := mkSeg i sp prox nm tag (opt_group group) in
    let c1 := mkCell (segs c ++ [s]) (seg_groups true (groups c) (opt_group group) i tag reord) (props c) in
    if opt then optimise c1 = BRet c' else c' = c1.
Proof.
  intros c prox seg_id name parent frac group conv ty reord opt c' H. unfold add_segment in H.
  destruct (Nat.ltb 0 (length (segs c)) && match parent with None => true | Some _ => false end); [discriminate|].
  destruct (parent_of c parent frac) as [sp|e] eqn:Hp; [|discriminate].
  destruct (choose_id true c seg_id) as [i|e] eqn:Hi; [|discriminate].
  destruct (parse_conv conv ty) as [tag|e] eqn:Ht; [|discriminate].
  exists i, sp, (seg_name name (opt_group group) (seg_groups true (groups c) (opt_group group) i tag reord) i), tag.
  split; [eapply choose_id_fresh; exact Hi|].
  split; [intros p f E; subst sp; eapply parent_of_in; exact Hp|].
  split; [apply parse_conv_tag; exact Ht|].
  split; [reflexivity|].
  simpl. destruct opt; [exact H | inversion H; reflexivity].
Qed.

(* the optimising call is the non-optimising call followed by optimise *)
Lemma add_segment_split : forall c prox seg_id name parent frac group conv ty reord c',
  add_segment true c prox seg_id name parent frac group conv ty reord true = BRet c' ->
  exists c1, add_segment true c prox seg_id name parent frac group conv ty reord false = BRet c1 /\
             optimise c1 = BRet c'.
Proof.
  intros c prox seg_id name parent frac group conv ty reord c' H. unfold add_segment in *.
  destruct (Nat.ltb 0 (length (segs c)) && match parent with None => true | Some _ => false end); [discriminate|].
  destruct (parent_of c parent frac) as [sp|e]; [|discriminate].
  destruct (choose_id true c seg_id) as [i|e]; [|discriminate].
  destruct (parse_conv conv ty) as [tag|e]; [|discriminate].
  eexists. split; [reflexivity | exact H].
Qed.

(* ---------- invariants of the segment list ---------- *)
Definition roles_ok (S : list seg) : Prop :=
  forall s1 s2 g, In s1 S -> In s2 S -> is_default g = false ->
                  sgrp s1 = Some g -> sgrp s2 = Some g -> stag s1 = stag s2.

Definition SInv (c : cell) : Prop :=
  NoDup (ids c) /\
  (forall s p f, In s (segs c) -> spar s = Some (p, f) -> In p (ids c)) /\
  roles_ok (segs c).

Lemma role_free_spec : forall c g tag, role_free c g tag = true ->
  forall s, In s (segs c) -> sgrp s = Some g -> stag s = tag.
Proof.
  intros c g tag H s Hs Hg. unfold role_free in H. rewrite forallb_forall in H. specialize (H s Hs).
  rewrite Hg in H. rewrite String.eqb_refl in H.
  destruct (stag s) as [a|], tag as [b|]; try discriminate; [|reflexivity].
  destruct a, b; simpl in H; try discriminate; reflexivity.
Qed.

Lemma SInv_app : forall c s G P,
  SInv c -> ~ In (sid s) (ids c) -> (forall p f, spar s = Some (p, f) -> In p (ids c)) ->
  (forall g, sgrp s = Some g -> is_default g = false -> role_free c g (stag s) = true) ->
  SInv (mkCell (segs c ++ [s]) G P).
Proof.
  intros c s G P [Hn [Hp Hr]] Hfresh Hpar Hrole. unfold SInv, ids in *; simpl.
  split; [|split].
  - rewrite map_app. simpl. apply NoDup_rev in Hn. rewrite <- (rev_involutive (map sid (segs c) ++ [sid s])).
    apply NoDup_rev. rewrite rev_app_distr. simpl. constructor; [rewrite <- in_rev; exact Hfresh | exact Hn].
  - intros x p f Hx Hsp. rewrite map_app. apply in_or_app. apply in_app_or in Hx. destruct Hx as [Hx|[Hx|[]]].
    + left. eapply Hp; eassumption.
    + subst x. left. eapply Hpar; eassumption.
  - intros s1 s2 g H1 H2 Hd G1 G2. apply in_app_or in H1. apply in_app_or in H2.
    destruct H1 as [H1|[H1|[]]]; destruct H2 as [H2|[H2|[]]].
    + eapply Hr; eassumption.
    + subst s2. apply (role_free_spec c g (stag s) (Hrole g G2 Hd) s1 H1 G1).
    + subst s1. symmetry. apply (role_free_spec c g (stag s) (Hrole g G1 Hd) s2 H2 G2).
    + subst. reflexivity.
Qed.

Lemma SInv_same_segs : forall c c', segs c' = segs c -> SInv c -> SInv c'.
Proof. intros c c' E H. unfold SInv, ids in *. rewrite E. exact H. Qed.
