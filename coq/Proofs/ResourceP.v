(* C08 proofs about the resource-protocol language: a [safe] skeleton is balanced under EVERY plan
   (any fault sites, any positional faults - several, with any exception names -, any loop counts, any branch
   choices), hence a failed call leaves no handle open and no document mutation pending, and a retry starts
   from the state a first call starts from. *)
From Coq Require Import String List Bool Arith Lia.
From LNML Require Import Model.Resource.
Import ListNotations.
Open Scope string_scope.

Lemma st_eta : forall s, mkSt (handles s) (pending s) = s.
Proof. destruct s; reflexivity. Qed.

Lemma remove1_head : forall h l, remove1 h (h :: l) = l.
Proof. intros h l; simpl; rewrite String.eqb_refl; reflexivity. Qed.

Lemma release_acquire : forall h s, release h (acquire h s) = s.
Proof. intros h s; unfold release, acquire; simpl; rewrite String.eqb_refl; apply st_eta. Qed.

Lemma restore_mutate : forall m s, restore m (mutate m s) = s.
Proof. intros m s; unfold restore, mutate; simpl; rewrite String.eqb_refl; apply st_eta. Qed.

Section WithSites.
  Variable sites : label -> option string.
  Notation ex := (exec sites).

  (* the loop of [exec], as a stand-alone function *)
  Fixpoint iter (body : cmd) (n : nat) (p : plan) (s : st) : outcome * st * plan :=
    match n with
    | O => (Normal, s, p)
    | S n' => let '(o, s1, p1) := ex body p s in
              match o with Normal => iter body n' p1 s1 | _ => (o, s1, p1) end
    end.

  Lemma exec_loop : forall body p s,
      ex (Loop body) p s = let '(n, p0) := ctl_dec p in iter body n p0 s.
  Proof.
    intros body p s; simpl. destruct (ctl_dec p) as [n p0].
    revert p0 s. induction n as [|n IH]; intros p0 s; simpl; [reflexivity|].
    destruct (ex body p0 s) as [[o s1] p1]. destruct o; auto.
  Qed.

  Lemma iter_inv : forall body (I : st -> Prop),
      (forall p s o s' p', I s -> ex body p s = (o, s', p') -> I s') ->
      forall n p s o s' p', I s -> iter body n p s = (o, s', p') -> I s'.
  Proof.
    intros body I Hb n; induction n as [|n IH]; intros p s o s' p' Hs He; simpl in He.
    - inversion He; subst; assumption.
    - destruct (ex body p s) as [[o1 s1] p1] eqn:E1.
      assert (Hs1 : I s1) by (eapply Hb; eauto).
      destruct o1; try (inversion He; subst; assumption).
      eapply IH; eauto.
  Qed.

  (* ---------------------------------------------------------------- inert commands *)
  Lemma inert_bal : forall c, inert c = true ->
      forall p s o s' p', ex c p s = (o, s', p') -> s' = s /\ o <> Returned.
  Proof.
    induction c as [| l n | l e | e | | l h | l h | m | m | a IHa b IHb | body IHb | g a IHa b IHb
                    | body IHb exns handler IHh | body IHb fin IHf | l h body IHb];
      intros Hi p s o s' p' He; simpl in Hi; try discriminate.
    - simpl in He; inversion He; subst; split; [reflexivity | discriminate].
    - simpl in He. destruct (fault_dec sites l p) as [d p1]. destruct d; inversion He; subst; split; (reflexivity || discriminate).
    - simpl in He. destruct (fault_dec sites l p) as [d p1]. destruct d; inversion He; subst; split; (reflexivity || discriminate).
    - simpl in He; inversion He; subst; split; [reflexivity | discriminate].
    - apply andb_true_iff in Hi as [Ha Hb]. simpl in He.
      destruct (ex a p s) as [[o1 s1] p1] eqn:E1.
      destruct (IHa Ha _ _ _ _ _ E1) as [-> Hn1].
      destruct o1.
      + eapply IHb; eauto.
      + inversion He; subst; split; [reflexivity | discriminate].
      + congruence.
    - rewrite exec_loop in He. destruct (ctl_dec p) as [n p0].
      revert p0 s He. induction n as [|n IHn]; intros p0 s He; simpl in He.
      + inversion He; subst; split; [reflexivity | discriminate].
      + destruct (ex body p0 s) as [[o1 s1] p1] eqn:E1.
        destruct (IHb Hi _ _ _ _ _ E1) as [-> Hn1].
        destruct o1.
        * eapply IHn; eauto.
        * inversion He; subst; split; [reflexivity | discriminate].
        * congruence.
    - apply andb_true_iff in Hi as [Ha Hb]. simpl in He.
      destruct (ctl_dec p) as [n p0]. destruct n; [eapply IHb | eapply IHa]; eauto.
    - apply andb_true_iff in Hi as [Hb Hh]. simpl in He.
      destruct (ex body p s) as [[o1 s1] p1] eqn:E1.
      destruct (IHb Hb _ _ _ _ _ E1) as [-> Hn1].
      destruct o1.
      + inversion He; subst; split; [reflexivity | discriminate].
      + destruct (catches exns e).
        * eapply IHh; eauto.
        * inversion He; subst; split; [reflexivity | discriminate].
      + congruence.
    - apply andb_true_iff in Hi as [Hb Hf]. simpl in He.
      destruct (ex body p s) as [[o1 s1] p1] eqn:E1.
      destruct (IHb Hb _ _ _ _ _ E1) as [-> Hn1].
      destruct (ex fin p1 s) as [[o2 s2] p2] eqn:E2.
      destruct (IHf Hf _ _ _ _ _ E2) as [-> Hn2].
      destruct o2; inversion He; subst; split; auto.
  Qed.

  Lemma closer_spec : forall h fin, closer h fin = true ->
      forall p s o s' p', ex fin p s = (o, s', p') -> s' = release h s.
  Proof.
    intros h fin Hc p s o s' p' He. destruct fin; simpl in Hc; try discriminate.
    - apply String.eqb_eq in Hc; subst h0. simpl in He.
      destruct (fault_dec sites l p) as [d p1]. destruct d; inversion He; subst; reflexivity.
    - destruct fin1; try discriminate. apply andb_true_iff in Hc as [Hh Hr].
      apply String.eqb_eq in Hh; subst h0. simpl in He.
      destruct (fault_dec sites l p) as [d p1]. destruct d.
      + inversion He; subst; reflexivity.
      + destruct (inert_bal _ Hr _ _ _ _ _ He) as [-> _]. reflexivity.
  Qed.

  Lemma restorer_spec : forall m fin, restorer m fin = true ->
      forall p s o s' p', ex fin p s = (o, s', p') -> s' = restore m s.
  Proof.
    intros m fin Hc p s o s' p' He. destruct fin; simpl in Hc; try discriminate.
    - apply String.eqb_eq in Hc; subst m0. simpl in He. inversion He; subst; reflexivity.
    - destruct fin1; try discriminate. apply andb_true_iff in Hc as [Hh Hr].
      apply String.eqb_eq in Hh; subst m0. simpl in He.
      destruct (inert_bal _ Hr _ _ _ _ _ He) as [-> _]. reflexivity.
  Qed.

  (* ---------------------------------------------------------------- the main theorem *)
  Definition balanced (c : cmd) : Prop :=
    forall p s o s' p', ex c p s = (o, s', p') -> s' = s.

  (* acquisition followed by a try/finally that releases *)
  Lemma open_try_bal : forall l h body fin,
      balanced body -> closer h fin = true -> balanced (Seq (Open l h) (TryFinally body fin)).
  Proof.
    intros l h body fin Hb Hc p s o s' p' He. simpl in He.
    destruct (fault_dec sites l p) as [d p1]. destruct d.
    - inversion He; subst; reflexivity.
    - destruct (ex body p1 (acquire h s)) as [[o1 s1] p2] eqn:E1.
      rewrite (Hb _ _ _ _ _ E1) in He.
      destruct (ex fin p2 (acquire h s)) as [[o2 s2] p3] eqn:E2.
      rewrite (closer_spec _ _ Hc _ _ _ _ _ E2), release_acquire in He.
      destruct o2; inversion He; subst; reflexivity.
  Qed.

  Lemma mut_try_bal : forall m body fin,
      balanced body -> restorer m fin = true -> balanced (Seq (Mut m) (TryFinally body fin)).
  Proof.
    intros m body fin Hb Hc p s o s' p' He. simpl in He.
    destruct (ex body p (mutate m s)) as [[o1 s1] p2] eqn:E1.
    rewrite (Hb _ _ _ _ _ E1) in He.
    destruct (ex fin p2 (mutate m s)) as [[o2 s2] p3] eqn:E2.
    rewrite (restorer_spec _ _ Hc _ _ _ _ _ E2), restore_mutate in He.
    destruct o2; inversion He; subst; reflexivity.
  Qed.

  Lemma seq_bal : forall a b, balanced a -> balanced b -> balanced (Seq a b).
  Proof.
    intros a b Ha Hb p s o s' p' He. simpl in He.
    destruct (ex a p s) as [[o1 s1] p1] eqn:E1. rewrite (Ha _ _ _ _ _ E1) in He.
    destruct o1; try (inversion He; subst; reflexivity). eapply Hb; eauto.
  Qed.

  (* Seq (x) (Seq t rest) behaves as Seq (Seq x t) rest *)
  Lemma seq_assoc_bal : forall a b c, balanced (Seq a b) -> balanced c -> balanced (Seq a (Seq b c)).
  Proof.
    intros a b c Hab Hc p s o s' p' He. simpl in He.
    destruct (ex a p s) as [[o1 s1] p1] eqn:E1.
    destruct o1.
    - destruct (ex b p1 s1) as [[o2 s2] p2] eqn:E2.
      assert (Hs2 : s2 = s).
      { eapply (Hab p s o2 s2 p2). simpl. rewrite E1. exact E2. }
      subst s2. destruct o2; try (inversion He; subst; reflexivity). eapply Hc; eauto.
    - inversion He; subst. eapply (Hab p s (Raised e) s' p'). simpl. rewrite E1. reflexivity.
    - inversion He; subst. eapply (Hab p s Returned s' p'). simpl. rewrite E1. reflexivity.
  Qed.

  Fixpoint size (c : cmd) : nat :=
    match c with
    | Seq a b => S (size a + size b)
    | Loop b => S (size b)
    | Guard _ a b => S (size a + size b)
    | TryExcept b _ h => S (size b + size h)
    | TryFinally b f => S (size b + size f)
    | With _ _ b => S (size b)
    | _ => 1
    end.

  Lemma loop_bal : forall body, balanced body -> balanced (Loop body).
  Proof.
    intros body Hb p s o s' p' He. rewrite exec_loop in He. destruct (ctl_dec p) as [n p0].
    eapply (iter_inv body (fun x => x = s)); [| reflexivity | exact He].
    intros q x o1 x' q' Hx E. subst x. eapply Hb; eauto.
  Qed.

  Lemma safe_balanced_sz : forall n c, size c <= n -> safe c = true -> balanced c.
  Proof.
    induction n as [|n IH]; intros c Hsz Hs.
    { destruct c; simpl in Hsz; lia. }
    destruct c as [| l nm | l e | e | | l h | l h | m | m | a b | body | g a b
                   | body exns handler | body fin | l h body]; simpl in Hs; try discriminate.
    - intros p s o s' p' He; simpl in He; inversion He; reflexivity.
    - intros p s o s' p' He; simpl in He. destruct (fault_dec sites l p) as [d p1]; destruct d; inversion He; reflexivity.
    - intros p s o s' p' He; simpl in He. destruct (fault_dec sites l p) as [d p1]; destruct d; inversion He; reflexivity.
    - intros p s o s' p' He; simpl in He; inversion He; reflexivity.
    - intros p s o s' p' He; simpl in He; inversion He; reflexivity.
    - (* Seq *)
      simpl in Hsz.
      destruct a;
        try (apply andb_true_iff in Hs as [Ha Hb]; apply seq_bal; apply IH; (assumption || simpl in *; lia)).
      + (* Open *)
        destruct b; try discriminate.
        * destruct b1; try discriminate.
          apply andb_true_iff in Hs as [Hs Hrest]. apply andb_true_iff in Hs as [Hbody Hcl].
          simpl in Hsz.
          apply seq_assoc_bal; [apply open_try_bal; [apply IH; (assumption || lia) | assumption] | apply IH; (assumption || lia)].
        * apply andb_true_iff in Hs as [Hbody Hcl]. simpl in Hsz.
          apply open_try_bal; [apply IH; (assumption || lia) | assumption].
      + (* Mut *)
        destruct b; try discriminate.
        * destruct b1; try discriminate.
          apply andb_true_iff in Hs as [Hs Hrest]. apply andb_true_iff in Hs as [Hbody Hcl].
          simpl in Hsz.
          apply seq_assoc_bal; [apply mut_try_bal; [apply IH; (assumption || lia) | assumption] | apply IH; (assumption || lia)].
        * apply andb_true_iff in Hs as [Hbody Hcl]. simpl in Hsz.
          apply mut_try_bal; [apply IH; (assumption || lia) | assumption].
    - (* Loop *)
      simpl in Hsz. apply loop_bal. apply IH; (assumption || lia).
    - (* Guard *)
      simpl in Hsz. apply andb_true_iff in Hs as [Ha Hb].
      intros p s o s' p' He. simpl in He. destruct (ctl_dec p) as [k p0].
      destruct k; [eapply (IH b) | eapply (IH a)]; eauto; lia.
    - (* TryExcept *)
      simpl in Hsz. apply andb_true_iff in Hs as [Hb Hh].
      intros p s o s' p' He. simpl in He.
      destruct (ex body p s) as [[o1 s1] p1] eqn:E1.
      assert (s1 = s) by (eapply (IH body); eauto; lia). subst s1.
      destruct o1; try (inversion He; subst; reflexivity).
      destruct (catches exns e); [| inversion He; subst; reflexivity].
      eapply (IH handler); eauto; lia.
    - (* TryFinally *)
      simpl in Hsz. apply andb_true_iff in Hs as [Hs Hnr]. apply andb_true_iff in Hs as [Hb Hf].
      intros p s o s' p' He. simpl in He.
      destruct (ex body p s) as [[o1 s1] p1] eqn:E1.
      assert (s1 = s) by (eapply (IH body); eauto; lia). subst s1.
      destruct (ex fin p1 s) as [[o2 s2] p2] eqn:E2.
      assert (s2 = s) by (eapply (IH fin); eauto; lia). subst s2.
      destruct o2; inversion He; subst; reflexivity.
    - (* With *)
      simpl in Hsz. intros p s o s' p' He. simpl in He.
      destruct (fault_dec sites l p) as [d p1]. destruct d; [inversion He; subst; reflexivity|].
      destruct (ex body p1 (acquire h s)) as [[o1 s1] p2] eqn:E1.
      assert (s1 = acquire h s) by (eapply (IH body); eauto; lia). subst s1.
      inversion He; subst. apply release_acquire.
  Qed.

  Theorem safe_balanced : forall c, safe c = true -> balanced c.
  Proof. intros c; apply (safe_balanced_sz (size c)); lia. Qed.
End WithSites.

(* ---------------------------------------------------------------- C08_safe / C08_retry at the level of a call *)
Theorem run_clean : forall sites c, safe c = true ->
    forall p s o s' p', run sites c p s = (o, s', p') ->
    handles s' = handles s /\ pending s' = pending s.
Proof.
  intros sites c Hs p s o s' p' Hr. unfold run in Hr.
  destruct (exec sites c p s) as [[o1 s1] p1] eqn:E. inversion Hr; subst.
  rewrite (safe_balanced sites c Hs _ _ _ _ _ E). split; reflexivity.
Qed.

(* started with nothing open and nothing pending, a call - failed or not - ends with nothing open, nothing pending *)
Corollary run_clean0 : forall sites c, safe c = true ->
    forall p o s' p', run sites c p st0 = (o, s', p') -> handles s' = [] /\ pending s' = [].
Proof. intros sites c Hs p o s' p' Hr. exact (run_clean sites c Hs _ _ _ _ _ Hr). Qed.

(* the retried call behaves exactly as a first call, whatever the plan of the retry *)
Theorem retry_as_first : forall sites c, safe c = true ->
    forall p s o s' p', run sites c p s = (o, s', p') ->
    forall sites2 q, run sites2 c q s' = run sites2 c q s.
Proof.
  intros sites c Hs p s o s' p' Hr sites2 q. unfold run in Hr.
  destruct (exec sites c p s) as [[o1 s1] p1] eqn:E. inversion Hr; subst.
  rewrite (safe_balanced sites c Hs _ _ _ _ _ E). reflexivity.
Qed.

(* ---------------------------------------------------------------- failures are reported *)
Section Reports.
  Variable sites : label -> option string.
  Notation ex := (exec sites).

  Lemma fault_dec_none : forall l p p1, fault_dec sites l p = (None, p1) -> fired p1 = fired p.
  Proof.
    intros l p p1 H. unfold fault_dec in H. destruct (sites l); [discriminate|].
    destruct (fdecs p) as [|[e|] r]; inversion H; subst; reflexivity.
  Qed.

  Lemma fault_dec_some : forall l p e p1, fault_dec sites l p = (Some e, p1) -> fired p1 = true.
  Proof.
    intros l p e p1 H. unfold fault_dec in H. destruct (sites l).
    - inversion H; subst; reflexivity.
    - destruct (fdecs p) as [|[e'|] r]; inversion H; subst; reflexivity.
  Qed.

  Lemma ctl_dec_fired : forall p n p0, ctl_dec p = (n, p0) -> fired p0 = fired p.
  Proof. intros p n p0 H. unfold ctl_dec in H. destruct (cdecs p); inversion H; subst; reflexivity. Qed.

  Lemma noret_spec : forall c, noret c = true ->
      forall p s o s' p', ex c p s = (o, s', p') -> o <> Returned.
  Proof.
    induction c as [| l n | l e | e | | l h | l h | m | m | a IHa b IHb | body IHb | g a IHa b IHb
                    | body IHb exns handler IHh | body IHb fin IHf | l h body IHb];
      intros Hn p s o s' p' He; simpl in Hn; try discriminate.
    - simpl in He. inversion He; discriminate.
    - simpl in He. destruct (fault_dec sites l p) as [d p1]; destruct d; inversion He; discriminate.
    - simpl in He. destruct (fault_dec sites l p) as [d p1]; destruct d; inversion He; discriminate.
    - simpl in He. inversion He; discriminate.
    - simpl in He. destruct (fault_dec sites l p) as [d p1]; destruct d; inversion He; discriminate.
    - simpl in He. destruct (fault_dec sites l p) as [d p1]; destruct d; inversion He; discriminate.
    - simpl in He. inversion He; discriminate.
    - simpl in He. inversion He; discriminate.
    - simpl in He. apply andb_true_iff in Hn as [Ha Hb].
      destruct (ex a p s) as [[o1 s1] p1] eqn:E1. pose proof (IHa Ha _ _ _ _ _ E1) as N1.
      destruct o1; [eapply IHb; eauto | inversion He; discriminate | congruence].
    - rewrite (exec_loop sites) in He. destruct (ctl_dec p) as [n p0].
      revert p0 s He. induction n as [|n IHn]; intros p0 s He; simpl in He.
      + inversion He; discriminate.
      + destruct (ex body p0 s) as [[o1 s1] p1] eqn:E1. pose proof (IHb Hn _ _ _ _ _ E1) as N1.
        destruct o1; [eapply IHn; eauto | inversion He; discriminate | congruence].
    - simpl in He. apply andb_true_iff in Hn as [Ha Hb]. destruct (ctl_dec p) as [n p0].
      destruct n; [eapply IHb | eapply IHa]; eauto.
    - simpl in He. apply andb_true_iff in Hn as [Hb Hh].
      destruct (ex body p s) as [[o1 s1] p1] eqn:E1. pose proof (IHb Hb _ _ _ _ _ E1) as N1.
      destruct o1; [inversion He; discriminate | | congruence].
      destruct (catches exns e); [eapply IHh; eauto | inversion He; discriminate].
    - simpl in He. apply andb_true_iff in Hn as [Hb Hf].
      destruct (ex body p s) as [[o1 s1] p1] eqn:E1. pose proof (IHb Hb _ _ _ _ _ E1) as N1.
      destruct (ex fin p1 s1) as [[o2 s2] p2] eqn:E2. pose proof (IHf Hf _ _ _ _ _ E2) as N2.
      destruct o2; inversion He; subst; auto; discriminate.
    - simpl in He. destruct (fault_dec sites l p) as [d p1]; destruct d; [inversion He; discriminate|].
      destruct (ex body p1 (acquire h s)) as [[o1 s1] p2] eqn:E1. pose proof (IHb Hn _ _ _ _ _ E1) as N1.
      inversion He; subst; assumption.
  Qed.

  Lemma ends_raise_spec : forall c, ends_raise c = true -> noret c = true ->
      forall p s o s' p', ex c p s = (o, s', p') -> exists e, o = Raised e.
  Proof.
    induction c; intros He Hn p s o s' p' Hx; simpl in He; try discriminate.
    - simpl in Hx; inversion Hx; eauto.
    - simpl in Hn. apply andb_true_iff in Hn as [Hn1 Hn2]. simpl in Hx.
      destruct (ex c1 p s) as [[o1 s1] p1] eqn:E1.
      pose proof (noret_spec _ Hn1 _ _ _ _ _ E1) as N1.
      destruct o1; [eapply IHc2; eauto | inversion Hx; eauto | congruence].
  Qed.

  Lemma nofile_fired : forall c, no_file_ops c = true ->
      forall p s o s' p', ex c p s = (o, s', p') -> fired p' = fired p.
  Proof.
    induction c as [| l n | l e | e | | l h | l h | m | m | a IHa b IHb | body IHb | g a IHa b IHb
                    | body IHb exns handler IHh | body IHb fin IHf | l h body IHb];
      intros Hn p s o s' p' He; simpl in Hn; try discriminate.
    - simpl in He. inversion He; reflexivity.
    - simpl in He. destruct (fault_dec sites l p) as [d p1]; destruct d; inversion He; reflexivity.
    - simpl in He. inversion He; reflexivity.
    - simpl in He. inversion He; reflexivity.
    - simpl in He. inversion He; reflexivity.
    - simpl in He. inversion He; reflexivity.
    - simpl in He. apply andb_true_iff in Hn as [Ha Hb].
      destruct (ex a p s) as [[o1 s1] p1] eqn:E1. pose proof (IHa Ha _ _ _ _ _ E1) as F1.
      destruct o1; [rewrite <- F1; eapply IHb; eauto | inversion He; subst; assumption | inversion He; subst; assumption].
    - rewrite (exec_loop sites) in He. destruct (ctl_dec p) as [n p0] eqn:C.
      rewrite <- (ctl_dec_fired _ _ _ C).
      clear C. revert p0 s He. induction n as [|n IHn]; intros p0 s He; simpl in He.
      + inversion He; reflexivity.
      + destruct (ex body p0 s) as [[o1 s1] p1] eqn:E1. pose proof (IHb Hn _ _ _ _ _ E1) as F1.
        destruct o1; [rewrite <- F1; eapply IHn; eauto | inversion He; subst; assumption | inversion He; subst; assumption].
    - simpl in He. apply andb_true_iff in Hn as [Ha Hb]. destruct (ctl_dec p) as [n p0] eqn:C.
      rewrite <- (ctl_dec_fired _ _ _ C). destruct n; [eapply IHb | eapply IHa]; eauto.
    - simpl in He. apply andb_true_iff in Hn as [Hb Hh].
      destruct (ex body p s) as [[o1 s1] p1] eqn:E1. pose proof (IHb Hb _ _ _ _ _ E1) as F1.
      destruct o1; [inversion He; subst; assumption | | inversion He; subst; assumption].
      destruct (catches exns e); [rewrite <- F1; eapply IHh; eauto | inversion He; subst; assumption].
    - simpl in He. apply andb_true_iff in Hn as [Hb Hf].
      destruct (ex body p s) as [[o1 s1] p1] eqn:E1. pose proof (IHb Hb _ _ _ _ _ E1) as F1.
      destruct (ex fin p1 s1) as [[o2 s2] p2] eqn:E2. pose proof (IHf Hf _ _ _ _ _ E2) as F2.
      destruct o2; inversion He; subst; congruence.
  Qed.

  Definition reported (c : cmd) : Prop :=
    forall p s o s' p', ex c p s = (o, s', p') -> fired p = false -> fired p' = true -> exists e, o = Raised e.

  Theorem reports_reported : forall c, reports c = true -> reported c.
  Proof.
    induction c as [| l n | l e | e | | l h | l h | m | m | a IHa b IHb | body IHb | g a IHa b IHb
                    | body IHb exns handler IHh | body IHb fin IHf | l h body IHb];
      intros Hr p s o s' p' He F0 F1; simpl in Hr.
    - simpl in He. inversion He; subst; congruence.
    - simpl in He. destruct (fault_dec sites l p) as [d p1] eqn:D; destruct d; inversion He; subst; eauto.
      rewrite (fault_dec_none _ _ _ D) in F1; congruence.
    - simpl in He. destruct (fault_dec sites l p) as [d p1] eqn:D; destruct d; inversion He; subst; simpl in F1; congruence.
    - simpl in He. inversion He; subst; eauto.
    - simpl in He. inversion He; subst; congruence.
    - simpl in He. destruct (fault_dec sites l p) as [d p1] eqn:D; destruct d; inversion He; subst; eauto.
      rewrite (fault_dec_none _ _ _ D) in F1; congruence.
    - simpl in He. destruct (fault_dec sites l p) as [d p1] eqn:D; destruct d; inversion He; subst; eauto.
      rewrite (fault_dec_none _ _ _ D) in F1; congruence.
    - simpl in He. inversion He; subst; congruence.
    - simpl in He. inversion He; subst; congruence.
    - (* Seq *)
      simpl in He.
      apply andb_true_iff in Hr as [Ha Hb].
      destruct (ex a p s) as [[o1 s1] p1] eqn:E1.
      destruct (fired p1) eqn:Fp1.
      + destruct (IHa Ha _ _ _ _ _ E1 F0 Fp1) as [e ->]. inversion He; subst; eauto.
      + destruct o1; [eapply IHb; eauto | inversion He; subst; congruence | inversion He; subst; congruence].
    - (* Loop *)
      rewrite (exec_loop sites) in He. destruct (ctl_dec p) as [n p0] eqn:C.
      rewrite <- (ctl_dec_fired _ _ _ C) in F0. clear C.
      revert p0 s He F0. induction n as [|n IHn]; intros p0 s He F0; simpl in He.
      + inversion He; subst; congruence.
      + destruct (ex body p0 s) as [[o1 s1] p1] eqn:E1.
        destruct (fired p1) eqn:Fp1.
        * destruct (IHb Hr _ _ _ _ _ E1 F0 Fp1) as [e ->]. inversion He; subst; eauto.
        * destruct o1; [eapply IHn; eauto | inversion He; subst; congruence | inversion He; subst; congruence].
    - (* Guard *)
      simpl in He.
      apply andb_true_iff in Hr as [Ha Hb]. destruct (ctl_dec p) as [n p0] eqn:C.
      rewrite <- (ctl_dec_fired _ _ _ C) in F0. destruct n; [eapply IHb | eapply IHa]; eauto.
    - (* TryExcept *)
      simpl in He.
      apply andb_true_iff in Hr as [Hr Hdisc]. apply andb_true_iff in Hr as [Hb Hh].
      destruct (ex body p s) as [[o1 s1] p1] eqn:E1.
      destruct (fired p1) eqn:Fp1.
      + destruct (IHb Hb _ _ _ _ _ E1 F0 Fp1) as [e ->].
        destruct (catches exns e); [| inversion He; subst; eauto].
        apply orb_true_iff in Hdisc as [Hd | Hd].
        * apply andb_true_iff in Hd as [Her Hnr]. eapply ends_raise_spec; eauto.
        * rewrite (nofile_fired _ Hd _ _ _ _ _ E1) in Fp1. congruence.
      + destruct o1; [inversion He; subst; congruence | | inversion He; subst; congruence].
        destruct (catches exns e); [eapply IHh; eauto | inversion He; subst; congruence].
    - (* TryFinally *)
      simpl in He.
      apply andb_true_iff in Hr as [Hr Hnr]. apply andb_true_iff in Hr as [Hb Hf].
      destruct (ex body p s) as [[o1 s1] p1] eqn:E1.
      destruct (ex fin p1 s1) as [[o2 s2] p2] eqn:E2.
      pose proof (noret_spec _ Hnr _ _ _ _ _ E2) as N2.
      destruct (fired p1) eqn:Fp1.
      + destruct (IHb Hb _ _ _ _ _ E1 F0 Fp1) as [e ->].
        destruct o2; inversion He; subst; eauto. congruence.
      + destruct (fired p2) eqn:Fp2.
        * destruct (IHf Hf _ _ _ _ _ E2 Fp1 Fp2) as [e ->]. inversion He; subst; eauto.
        * destruct o2; inversion He; subst; congruence.
    - (* With *)
      simpl in He.
      destruct (fault_dec sites l p) as [d p1] eqn:D; destruct d; [inversion He; subst; eauto|].
      destruct (ex body p1 (acquire h s)) as [[o1 s1] p2] eqn:E1.
      inversion He; subst. eapply IHb; eauto. rewrite (fault_dec_none _ _ _ D); assumption.
  Qed.
End Reports.

Theorem run_reported : forall sites c, reports c = true ->
    forall p s o s' p', run sites c p s = (o, s', p') -> fired p = false -> fired p' = true ->
    exists e, o = Raised e.
Proof.
  intros sites c Hr p s o s' p' H F0 F1. unfold run in H.
  destruct (exec sites c p s) as [[o1 s1] p1] eqn:E. inversion H; subst.
  destruct (reports_reported sites c Hr _ _ _ _ _ E F0 F1) as [e ->]. eauto.
Qed.

(* ---------------------------------------------------------------- the generated table of entry points *)
Definition clean_call (c : cmd) : Prop :=
  forall sites p s o s' p', run sites c p s = (o, s', p') ->
    (handles s' = handles s /\ pending s' = pending s)
    /\ (fired p = false -> fired p' = true -> exists e, o = Raised e)
    /\ (forall sites2 q, run sites2 c q s' = run sites2 c q s).

Theorem entries_clean : forall es : list entry, forallb entry_ok es = true ->
    forall name mode skel, In (name, mode, skel) es -> clean_call (in_mode mode skel).
Proof.
  intros es Hall name mode skel Hin. rewrite forallb_forall in Hall.
  specialize (Hall _ Hin). simpl in Hall. apply andb_true_iff in Hall as [Hs Hr].
  unfold safe_in in Hs. unfold reports_in in Hr.
  intros sites p s o s' p' H. split; [| split].
  - eapply run_clean; eauto.
  - eapply run_reported; eauto.
  - eapply retry_as_first; eauto.
Qed.

(* ---------------------------------------------------------------- iteration state *)
(* whatever an aborted iteration did to the fields it may modify, the next iteration starts from the same state *)
Theorem aborted_iteration_invisible : forall c m z, iter_row_ok (c, m, z) = true ->
    forall s1 s2 : cstate, (forall f, mem_str f m = false -> s1 f = s2 f) ->
    forall f, rewind z s1 f = rewind z s2 f.
Proof.
  intros c m z Hok s1 s2 Hagree f. unfold rewind. destruct (mem_str f z) eqn:Hz; [reflexivity|].
  apply Hagree. destruct (mem_str f m) eqn:Hm; [|reflexivity].
  simpl in Hok. rewrite forallb_forall in Hok. unfold mem_str in Hm. apply existsb_exists in Hm as [g [Hin Hg]].
  apply String.eqb_eq in Hg; subst g. rewrite (Hok _ Hin) in Hz. discriminate.
Qed.

Theorem iter_table_ok : forall t, iter_ok t = true -> forall c m z, In (c, m, z) t ->
    forall s1 s2 : cstate, (forall f, mem_str f m = false -> s1 f = s2 f) -> forall f, rewind z s1 f = rewind z s2 f.
Proof.
  intros t Ht c m z Hin. unfold iter_ok in Ht. rewrite forallb_forall in Ht.
  exact (aborted_iteration_invisible c m z (Ht _ Hin)).
Qed.

Example iter_example : iter_ok [("OptimizedList", ["cursor"], ["cursor"])] = true
                       /\ iter_ok [("OptimizedList", ["cursor"], [])] = false.
Proof. split; reflexivity. Qed.

(* ---------------------------------------------------------------- satisfiable, and the discipline is not vacuous *)
(* the shape of the repaired HDF5 writer *)
Definition ex_writer : cmd :=
  Seq (Open "84" "h5file")
      (TryFinally
         (Seq (Op "88" "create_group")
              (Seq (Loop (Op "95" "exportHdf5"))
                   (Guard "embed_xml"
                      (Seq (Mut "nml_doc.networks")
                           (Seq (TryFinally (Op "113" "NeuroMLWriter.write") (Restore "nml_doc.networks"))
                                (Op "115" "_f_setattr")))
                      Skip)))
         (Close "121" "h5file")).

Example ex_writer_safe : safe ex_writer = true /\ reports ex_writer = true.
Proof. split; reflexivity. Qed.

(* ... and the shape of the unrepaired one: not safe, and a single fault leaves the handle and the mutation behind *)
Definition ex_writer_bad : cmd :=
  Seq (Open "84" "h5file")
      (Seq (Op "88" "create_group")
           (Seq (Loop (Op "95" "exportHdf5"))
                (Seq (Guard "embed_xml"
                        (Seq (Mut "nml_doc.networks")
                             (Seq (Op "113" "NeuroMLWriter.write")
                                  (Seq (Op "115" "_f_setattr") (Restore "nml_doc.networks"))))
                        Skip)
                     (Close "121" "h5file")))).

Example ex_writer_bad_unsafe : safe ex_writer_bad = false.
Proof. reflexivity. Qed.

Example ex_writer_bad_leaks :
  exists l e cd, predict ex_writer_bad l e cd = (true, KRaised, ["h5file"], ["nml_doc.networks"]).
Proof. exists "113", "OSError", [0; 1]. vm_compute. reflexivity. Qed.

(* ---------------------------------------------------------------- truncation *)
Lemma fold_error : forall l, fold_left rstep l RError = RError.
Proof. induction l; simpl; auto. Qed.

Lemma fold_after : forall l, l <> [] -> fold_left rstep l RAfter = RError.
Proof. destruct l; [congruence|]. intros _. simpl. apply fold_error. Qed.

Theorem truncated_rejected : forall d, wellformed1 d = true ->
    forall k, k < length d -> wellformed1 (firstn k d) = false.
Proof.
  intros d Hw k Hk. unfold wellformed1, reader in *.
  rewrite <- (firstn_skipn k d) in Hw. rewrite fold_left_app in Hw.
  destruct (fold_left rstep (firstn k d) RBefore); try reflexivity.
  rewrite fold_after in Hw; [discriminate|].
  intro E. assert (L : length (skipn k d) = 0) by (rewrite E; reflexivity).
  rewrite skipn_length in L. lia.
Qed.

(* nothing follows the root either: the accepted documents are exactly the un-extendable ones *)
Theorem nothing_after_root : forall d tk, wellformed1 d = true -> wellformed1 (d ++ [tk]) = false.
Proof.
  intros d tk Hw. unfold wellformed1, reader in *. rewrite fold_left_app.
  destruct (fold_left rstep d RBefore); try discriminate. reflexivity.
Qed.

Example ex_doc_wellformed :
  wellformed1 [TOpen "neuroml"; TOpen "network"; TText "x"; TClose "network"; TOpen "cell"; TClose "cell"; TClose "neuroml"] = true.
Proof. reflexivity. Qed.

(* ---------------------------------------------------------------- strict vs recovering parser *)
Theorem strict_rejects_truncated : forall d, accepts false d = true ->
    forall k, k < length d -> accepts false (firstn k d) = false.
Proof.
  intros d Ha k Hk.
  assert (Hw : wellformed1 d = true) by (unfold accepts in Ha; unfold wellformed1; destruct (reader d); auto; discriminate).
  pose proof (truncated_rejected d Hw k Hk) as Ht. unfold wellformed1 in Ht. unfold accepts.
  destruct (reader (firstn k d)); try reflexivity; discriminate.
Qed.

(* a recovering parser loads a cut file as a smaller document: why `recover` must stay off *)
Theorem recover_accepts_truncated : exists d k,
    accepts false d = true /\ k < length d /\ accepts true (firstn k d) = true /\ accepts false (firstn k d) = false.
Proof.
  exists [TOpen "neuroml"; TOpen "cell"; TClose "cell"; TOpen "network"; TClose "network"; TClose "neuroml"], 3.
  split; [reflexivity|]. split; [simpl; lia|]. split; reflexivity.
Qed.

(* ---------------------------------------------------------------- refusal table *)
Lemma strs_eqb_eq : forall a b, strs_eqb a b = true -> a = b.
Proof.
  induction a as [|x a IH]; destruct b as [|y b]; simpl; intros H; try discriminate; [reflexivity|].
  apply andb_true_iff in H as [H1 H2]. apply String.eqb_eq in H1. rewrite H1, (IH _ H2). reflexivity.
Qed.

Theorem refusals_eqb_eq : forall a b, refusals_eqb a b = true -> a = b.
Proof.
  induction a as [|[c g] a IH]; destruct b as [|[c' g'] b]; simpl; intros H; try discriminate; [reflexivity|].
  apply andb_true_iff in H as [H H3]. apply andb_true_iff in H as [H1 H2].
  apply String.eqb_eq in H1. apply strs_eqb_eq in H2. rewrite H1, H2, (IH _ H3). reflexivity.
Qed.

(* ---------------------------------------------------------------- embedded XML: stored where it is read *)
Theorem embed_ok_spec : forall stores reads, embed_ok stores reads = true ->
    stores <> [] /\ forall w, In w stores -> In w reads.
Proof.
  intros stores reads H. destruct stores as [|x r]; [discriminate|]. split; [discriminate|].
  intros w Hin. unfold embed_ok in H. rewrite forallb_forall in H. specialize (H _ Hin).
  apply existsb_exists in H as [y [Hy He]]. unfold place_eqb in He. apply andb_true_iff in He as [H1 H2].
  apply String.eqb_eq in H1. apply String.eqb_eq in H2. destruct w, y; simpl in *; subst; assumption.
Qed.
