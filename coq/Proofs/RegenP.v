From Coq Require Import String List Bool.
From LNML Require Import Model.Regen.
Import ListNotations.
Open Scope string_scope.

Lemma strs_eqb_eq a : forall b, strs_eqb a b = true -> a = b.
Proof.
  induction a as [|x a IH]; intros [|y b] H; simpl in H; try discriminate; auto.
  apply andb_true_iff in H as [H1 H2]. apply String.eqb_eq in H1. subst. f_equal. auto.
Qed.

Lemma item_eqb_eq (a b : item) : item_eqb a b = true -> a = b.
Proof.
  destruct a as [n s], b as [n' s']. unfold item_eqb. simpl. intro H.
  apply andb_true_iff in H as [H1 H2]. apply String.eqb_eq in H1. apply strs_eqb_eq in H2. congruence.
Qed.

Lemma items_eqb_eq a : forall b, items_eqb a b = true -> a = b.
Proof.
  induction a as [|x a IH]; intros [|y b] H; simpl in H; try discriminate; auto.
  apply andb_true_iff in H as [H1 H2]. apply item_eqb_eq in H1. subst. f_equal. auto.
Qed.

Lemma tab_eqb_eq a : forall b, tab_eqb a b = true -> a = b.
Proof.
  induction a as [|[c x] a IH]; intros [|[d y] b] H; simpl in H; try discriminate; auto.
  apply andb_true_iff in H as [H12 H3]. apply andb_true_iff in H12 as [H1 H2].
  apply String.eqb_eq in H1. apply items_eqb_eq in H2. subst. f_equal. auto.
Qed.

Lemma pairs_eqb_eq a : forall b, pairs_eqb a b = true -> a = b.
Proof.
  induction a as [|[x y] a IH]; intros [|[x' y'] b] H; simpl in H; try discriminate; auto.
  apply andb_true_iff in H as [H12 H3]. apply andb_true_iff in H12 as [H1 H2].
  apply String.eqb_eq in H1. apply String.eqb_eq in H2. subst. f_equal. auto.
Qed.

Lemma pairs_eqb_refl a : pairs_eqb a a = true.
Proof. induction a as [|[x y] a IH]; simpl; auto. rewrite !String.eqb_refl, IH. auto. Qed.

Lemma strs_eqb_refl a : strs_eqb a a = true.
Proof. induction a; simpl; auto. rewrite String.eqb_refl. auto. Qed.

(* the full meaning of the boolean obligation *)
Definition regen_spec (f : regen_facts) : Prop :=
  (* statement for statement, for every (class, method) pair, including which definition wins *)
  (forall c m, defs_of (rf_src f) c m = defs_of (rf_nml f) c m) /\
  (forall c m, effective_method (rf_src f) c m = effective_method (rf_nml f) c m) /\
  (* inserted in exactly the classes the source names *)
  (forall m, classes_with (rf_src f) m = classes_with (rf_nml f) m) /\
  rf_dangling f = [] /\
  (* the member-name table regeneration would apply is the shipped one, and the shipped members follow it *)
  rf_name_table_regen f = rf_name_table_shipped f /\ rf_member_name_violations f = [] /\
  (* hence any behaviour computed from the helper statements is the same on both sides *)
  (forall (B : Type) (sem : list cls_items -> B), sem (rf_src f) = sem (rf_nml f)) /\
  (* classes <-> complex types of the bundled schema for the current version *)
  rf_binding_classes f = rf_complex_types f /\
  rf_exported_classes f = rf_complex_types f /\
  rf_header_schema f = schema_of (rf_current f) /\
  rf_writer_schema f = schema_of (rf_current f) /\
  rf_regen_schema f = schema_of (rf_current f) /\
  rf_regen_uses_helpers f = true /\ rf_schema_exists f = true.

Theorem regen_sound f : regen_ok f = true -> regen_spec f.
Proof.
  unfold regen_ok, regen_spec. intro H.
  repeat (apply andb_true_iff in H as [H ?]).
  apply tab_eqb_eq in H.
  repeat match goal with
  | h : String.eqb _ _ = true |- _ => apply String.eqb_eq in h
  | h : strs_eqb _ _ = true |- _ => apply strs_eqb_eq in h
  end.
  destruct (rf_dangling f) eqn:D; try discriminate.
  destruct (rf_member_name_violations f) eqn:V; try discriminate.
  repeat match goal with h : pairs_eqb _ _ = true |- _ => apply pairs_eqb_eq in h end.
  rewrite H. repeat split; auto.
Qed.

(* a one-sided edit is always seen: the obligation is also complete *)
Theorem regen_complete f : regen_spec f -> regen_ok f = true.
Proof.
  unfold regen_ok, regen_spec. intros (_ & _ & _ & D & N & V & S & C & X & H1 & H2 & H3 & U & E).
  specialize (S _ (fun x => x)). simpl in S. rewrite S, D, N, V, C, X, H1, H2, H3, U, E.
  rewrite pairs_eqb_refl.
  rewrite !String.eqb_refl, strs_eqb_refl.
  assert (T : forall t, tab_eqb t t = true).
  { induction t as [|[c x] t IH]; simpl; auto. rewrite String.eqb_refl, IH.
    assert (I : items_eqb x x = true).
    { induction x as [|[n s] x IHx]; simpl; auto. unfold item_eqb. simpl.
      rewrite String.eqb_refl, strs_eqb_refl, IHx. auto. }
    rewrite I. auto. }
  rewrite T. reflexivity.
Qed.

(* non-vacuity: a small table pair that meets the obligation, and one that does not *)
Example regen_example_ok :
  regen_ok {| rf_src := [("Segment", [("length", ["def length(self)"; "return 1"])])];
              rf_nml := [("Segment", [("length", ["def length(self)"; "return 1"])])];
              rf_dangling := []; rf_name_table_regen := [("a","b")]; rf_name_table_shipped := [("a","b")]; rf_member_name_violations := []; rf_binding_classes := ["Segment"]; rf_exported_classes := ["Segment"]; rf_complex_types := ["Segment"];
              rf_current := "v9"; rf_header_schema := "NeuroML_v9.xsd"; rf_writer_schema := "NeuroML_v9.xsd";
              rf_regen_schema := "NeuroML_v9.xsd"; rf_regen_uses_helpers := true; rf_schema_exists := true |} = true.
Proof. vm_compute. reflexivity. Qed.

Example regen_example_bad :
  regen_ok {| rf_src := [("Segment", [("length", ["def length(self)"; "return 1"])])];
              rf_nml := [("Segment", [("length", ["def length(self)"; "return 2"])])];
              rf_dangling := []; rf_name_table_regen := [("a","b")]; rf_name_table_shipped := [("a","b")]; rf_member_name_violations := []; rf_binding_classes := ["Segment"]; rf_exported_classes := ["Segment"]; rf_complex_types := ["Segment"];
              rf_current := "v9"; rf_header_schema := "NeuroML_v9.xsd"; rf_writer_schema := "NeuroML_v9.xsd";
              rf_regen_schema := "NeuroML_v9.xsd"; rf_regen_uses_helpers := true; rf_schema_exists := true |} = false.
Proof. vm_compute. reflexivity. Qed.
