(* C15, part B: the group primitives of the builder (ensure_group, add_member, add_include, reorder)
   and the three group invariants they maintain:
     GStruct  unique non-empty ids; user groups include nothing; default groups include only
              existing user groups
     Sound    every member / include of every group is justified by a segment that was added with
              the matching group id / type
     Complete every segment added under the convention is reachable from "all" and from the default
              group of its type
   plus the exact shape of reorder (user groups in order, then the default groups). *)
From Coq Require Import String List ZArith Bool Arith Lia Permutation.
From LNML Require Import Model.Groups Model.Builder Proofs.GroupsP Proofs.BuilderSegP.
Import ListNotations.
Open Scope string_scope.

(* ------------------------------------------------------------------ lookup facts *)
Lemma lookup_app : forall G H a,
  lookup (G ++ H) a = match lookup G a with Some g => Some g | None => lookup H a end.
Proof.
  induction G as [|g G IH]; intros H a; simpl; [reflexivity|].
  destruct (String.eqb (gid g) a); [reflexivity | apply IH].
Qed.

Lemma get_group_lookup : forall G a, a <> "" -> get_group G a = lookup G a.
Proof. intros G a H. unfold get_group. apply String.eqb_neq in H. rewrite H. reflexivity. Qed.

Lemma lookup_perm : forall G G' a, Permutation G G' -> NoDup (map gid G) -> lookup G' a = lookup G a.
Proof.
  intros G G' a HP Hn.
  assert (Hn' : NoDup (map gid G')) by (eapply Permutation_NoDup; [apply Permutation_map; exact HP | exact Hn]).
  destruct (lookup G a) as [g|] eqn:E.
  - destruct (lookup_some _ _ _ E) as [Hg Ha]. subst a. apply lookup_unique; [exact Hn'|].
    eapply Permutation_in; eassumption.
  - apply lookup_none. apply lookup_none in E. intro Hin. apply E.
    eapply Permutation_in; [apply Permutation_sym; apply Permutation_map; exact HP | exact Hin].
Qed.

Lemma in_replace_first_w : forall G a g' h, In h (replace_first G a g') -> h = g' \/ In h G.
Proof.
  induction G as [|k G IH]; intros a g' h Hi; simpl in *; [contradiction|].
  destruct (String.eqb (gid k) a).
  - destruct Hi as [Hi|Hi]; [left; congruence | right; right; exact Hi].
  - destruct Hi as [Hi|Hi]; [right; left; exact Hi|]. destruct (IH _ _ _ Hi); [left | right; right]; assumption.
Qed.

(* ------------------------------------------------------------------ growth and pure reachability *)
Definition preach (G : list group) (a : string) (m : Z) : Prop := reach [] G a m.

Definition grow (G G' : list group) : Prop :=
  forall a g, lookup G a = Some g ->
    exists g', lookup G' a = Some g' /\ incl (members g) (members g') /\ incl (includes g) (includes g').

Lemma grow_refl : forall G, grow G G.
Proof. intros G a g H. exists g. split; [exact H | split; apply incl_refl]. Qed.

Lemma grow_trans : forall G1 G2 G3, grow G1 G2 -> grow G2 G3 -> grow G1 G3.
Proof.
  intros G1 G2 G3 H12 H23 a g H. destruct (H12 a g H) as [g2 [H2 [Hm2 Hi2]]].
  destruct (H23 a g2 H2) as [g3 [H3 [Hm3 Hi3]]]. exists g3.
  split; [exact H3 | split; eapply incl_tran; eassumption].
Qed.

Lemma preach_grow : forall G G' a m, grow G G' -> preach G a m -> preach G' a m.
Proof.
  intros G G' a m Hg H. unfold preach in *. induction H as [a g s Hl Hm | a g i s Hl Hi Hr IH | s Hl Hs].
  - destruct (Hg a g Hl) as [g' [Hl' [Hm' _]]]. eapply reach_mem; [exact Hl' | apply Hm'; exact Hm].
  - destruct (Hg a g Hl) as [g' [Hl' [_ Hi']]]. eapply reach_inc; [exact Hl' | apply Hi'; exact Hi | exact IH].
  - contradiction.
Qed.

Lemma preach_lookup : forall G a m, preach G a m -> lookup G a <> None.
Proof.
  intros G a m H. unfold preach in H. inversion H as [a' g s Hl Hm | a' g i s Hl Hi Hr | s Hl Hs]; subst;
    try congruence. contradiction.
Qed.

Lemma preach_reach : forall segs G a m, preach G a m -> reach segs G a m.
Proof.
  intros segs G a m H. unfold preach in H. induction H as [a g s Hl Hm | a g i s Hl Hi Hr IH | s Hl Hs].
  - eapply reach_mem; eassumption.
  - eapply reach_inc; eassumption.
  - contradiction.
Qed.

Lemma reach_preach : forall segs G a m, lookup G "all" <> None -> reach segs G a m -> preach G a m.
Proof.
  intros segs G a m Hall H. unfold preach. induction H as [a g s Hl Hm | a g i s Hl Hi Hr IH | s Hl Hs].
  - eapply reach_mem; eassumption.
  - eapply reach_inc; eassumption.
  - contradiction.
Qed.

(* ------------------------------------------------------------------ ensure_group *)
Lemma ensure_group_cases : forall G a nl,
  (ensure_group G a nl = G /\ get_group G a <> None) \/
  (ensure_group G a nl = (G ++ [new_group a nl])%list /\ get_group G a = None).
Proof.
  intros G a nl. unfold ensure_group. destruct (get_group G a) eqn:E; [left | right]; split; congruence.
Qed.

Lemma grow_ensure : forall G a nl, grow G (ensure_group G a nl).
Proof.
  intros G a nl. destruct (ensure_group_cases G a nl) as [[E _]|[E _]]; rewrite E; [apply grow_refl|].
  intros b g H. exists g. rewrite lookup_app, H. split; [reflexivity | split; apply incl_refl].
Qed.

Lemma lookup_ensure : forall G a nl, a <> "" -> lookup (ensure_group G a nl) a <> None.
Proof.
  intros G a nl Ha. destruct (ensure_group_cases G a nl) as [[E H]|[E H]]; rewrite E.
  - rewrite get_group_lookup in H by exact Ha. exact H.
  - rewrite get_group_lookup in H by exact Ha. rewrite lookup_app, H. simpl. rewrite String.eqb_refl. discriminate.
Qed.

Lemma in_ensure : forall G a nl g, In g (ensure_group G a nl) -> In g G \/ (g = new_group a nl /\ get_group G a = None).
Proof.
  intros G a nl g H. destruct (ensure_group_cases G a nl) as [[E _]|[E Hn]]; rewrite E in H; [left; exact H|].
  apply in_app_or in H. destruct H as [H|[H|[]]]; [left; exact H | right; split; [symmetry; exact H | exact Hn]].
Qed.

Lemma gids_ensure : forall G a nl, incl (map gid G) (map gid (ensure_group G a nl)).
Proof.
  intros G a nl. destruct (ensure_group_cases G a nl) as [[E _]|[E _]]; rewrite E; [apply incl_refl|].
  rewrite map_app. apply incl_appl. apply incl_refl.
Qed.

(* ------------------------------------------------------------------ add_member / add_include *)
Lemma grow_replace : forall G a g g', lookup G a = Some g -> gid g' = a ->
  incl (members g) (members g') -> incl (includes g) (includes g') -> grow G (replace_first G a g').
Proof.
  intros G a g g' Hl Hid Hm Hi b h Hb. destruct (string_dec a b) as [E|E].
  - subst b. rewrite Hl in Hb. inversion Hb; subst h. exists g'.
    split; [eapply lookup_replace_first_eq; eassumption | split; assumption].
  - exists h. rewrite lookup_replace_first_neq by assumption. split; [exact Hb | split; apply incl_refl].
Qed.

Lemma grow_add_member : forall G a m, grow G (add_member G a m).
Proof.
  intros G a m. unfold add_member. destruct (lookup G a) as [g|] eqn:E; [|apply grow_refl].
  destruct (lookup_some _ _ _ E) as [_ Hg]. eapply grow_replace; [exact E | exact Hg | |]; simpl.
  - apply incl_appl, incl_refl.
  - apply incl_refl.
Qed.

Lemma grow_add_include : forall G a i, grow G (add_include G a i).
Proof.
  intros G a i. unfold add_include. destruct (lookup G a) as [g|] eqn:E; [|apply grow_refl].
  destruct (lookup_some _ _ _ E) as [_ Hg]. eapply grow_replace; [exact E | exact Hg | |]; simpl.
  - apply incl_refl.
  - apply incl_appl, incl_refl.
Qed.

Lemma lookup_add_member : forall G a m, lookup G a <> None ->
  exists g', lookup (add_member G a m) a = Some g' /\ In m (members g').
Proof.
  intros G a m H. unfold add_member. destruct (lookup G a) as [g|] eqn:E; [|congruence].
  destruct (lookup_some _ _ _ E) as [_ Hg]. eexists. split.
  - eapply lookup_replace_first_eq; [exact E | exact Hg].
  - simpl. apply in_or_app. right. left. reflexivity.
Qed.

Lemma lookup_add_include : forall G a i, lookup G a <> None ->
  exists g', lookup (add_include G a i) a = Some g' /\ In i (includes g').
Proof.
  intros G a i H. unfold add_include. destruct (lookup G a) as [g|] eqn:E; [|congruence].
  destruct (lookup_some _ _ _ E) as [_ Hg]. eexists. split.
  - eapply lookup_replace_first_eq; [exact E | exact Hg].
  - simpl. apply in_or_app. right. left. reflexivity.
Qed.

Lemma gids_add_member : forall G a m, map gid (add_member G a m) = map gid G.
Proof.
  intros G a m. unfold add_member. destruct (lookup G a) as [g|] eqn:E; [|reflexivity].
  destruct (lookup_some _ _ _ E) as [_ Hg]. apply replace_first_gids. exact Hg.
Qed.

Lemma gids_add_include : forall G a i, map gid (add_include G a i) = map gid G.
Proof.
  intros G a i. unfold add_include. destruct (lookup G a) as [g|] eqn:E; [|reflexivity].
  destruct (lookup_some _ _ _ E) as [_ Hg]. apply replace_first_gids. exact Hg.
Qed.

Lemma in_add_member : forall G a m h, In h (add_member G a m) ->
  In h G \/ exists g, In g G /\ gid g = a /\ h = mkGroup (gid g) (members g ++ [m]) (includes g) (nlex g).
Proof.
  intros G a m h H. unfold add_member in H. destruct (lookup G a) as [g|] eqn:E; [|left; exact H].
  destruct (lookup_some _ _ _ E) as [Hg Hga]. apply in_replace_first_w in H.
  destruct H as [H|H]; [right; exists g; auto | left; exact H].
Qed.

Lemma in_add_include : forall G a i h, In h (add_include G a i) ->
  In h G \/ exists g, In g G /\ gid g = a /\ h = mkGroup (gid g) (members g) (includes g ++ [i]) (nlex g).
Proof.
  intros G a i h H. unfold add_include in H. destruct (lookup G a) as [g|] eqn:E; [|left; exact H].
  destruct (lookup_some _ _ _ E) as [Hg Hga]. apply in_replace_first_w in H.
  destruct H as [H|H]; [right; exists g; auto | left; exact H].
Qed.

(* ------------------------------------------------------------------ reorder *)
Lemma remove_first_perm : forall G a g, lookup G a = Some g -> Permutation (g :: remove_first G a) G.
Proof.
  induction G as [|h G IH]; intros a g H; simpl in *; [discriminate|].
  destruct (String.eqb (gid h) a).
  - inversion H; subst. apply Permutation_refl.
  - eapply Permutation_trans; [apply perm_swap|]. apply perm_skip. apply IH. exact H.
Qed.

Lemma move_last_perm : forall G a, Permutation (move_last G a) G.
Proof.
  intros G a. unfold move_last. destruct (get_group G a) as [g|] eqn:E; [|apply Permutation_refl].
  unfold get_group in E. destruct (String.eqb a ""); [discriminate|].
  eapply Permutation_trans; [|apply remove_first_perm; exact E].
  apply Permutation_sym. apply Permutation_cons_append.
Qed.

Lemma reorder_perm : forall G, Permutation (reorder G) G.
Proof.
  intros G. unfold reorder. simpl.
  repeat (eapply Permutation_trans; [apply move_last_perm|]). apply Permutation_refl.
Qed.

Lemma grow_perm : forall G G', Permutation G G' -> NoDup (map gid G) -> grow G G'.
Proof.
  intros G G' HP Hn a g H. exists g. rewrite (lookup_perm G G' a HP Hn).
  split; [exact H | split; apply incl_refl].
Qed.

(* ------------------------------------------------------------------ GStruct *)
Definition GStruct (G : list group) : Prop :=
  NoDup (map gid G) /\ ~ In "" (map gid G) /\
  (forall g, In g G -> is_default (gid g) = false -> includes g = []) /\
  (forall g i, In g G -> In i (includes g) -> is_default i = false /\ In i (map gid G)).

Lemma GStruct_perm : forall G G', Permutation G G' -> GStruct G -> GStruct G'.
Proof.
  intros G G' HP [H1 [H2 [H3 H4]]].
  assert (HPm : Permutation (map gid G) (map gid G')) by (apply Permutation_map; exact HP).
  split; [eapply Permutation_NoDup; eassumption|].
  split; [intro Hin; apply H2; eapply Permutation_in; [apply Permutation_sym; exact HPm | exact Hin]|].
  split.
  - intros g Hg. apply H3. eapply Permutation_in; [apply Permutation_sym; exact HP | exact Hg].
  - intros g i Hg Hi. destruct (H4 g i) as [Ha Hb]; [eapply Permutation_in; [apply Permutation_sym; exact HP | exact Hg] | exact Hi|].
    split; [exact Ha | eapply Permutation_in; eassumption].
Qed.

Lemma GStruct_reorder : forall G, GStruct G -> GStruct (reorder G).
Proof. intros G H. eapply GStruct_perm; [apply Permutation_sym; apply reorder_perm | exact H]. Qed.

Lemma GStruct_ensure : forall G a nl, GStruct G -> a <> "" -> GStruct (ensure_group G a nl).
Proof.
  intros G a nl [H1 [H2 [H3 H4]]] Ha. destruct (ensure_group_cases G a nl) as [[E _]|[E Hn]]; rewrite E; [exact (conj H1 (conj H2 (conj H3 H4)))|].
  rewrite get_group_lookup in Hn by exact Ha. apply lookup_none in Hn.
  split; [|split; [|split]].
  - rewrite map_app. simpl. apply NoDup_rev in H1. rewrite <- (rev_involutive (map gid G ++ [a])).
    apply NoDup_rev. rewrite rev_app_distr. simpl. constructor; [rewrite <- in_rev; exact Hn | exact H1].
  - rewrite map_app. intro Hin. apply in_app_or in Hin. destruct Hin as [Hin|[Hin|[]]]; [contradiction | simpl in Hin; congruence].
  - intros g Hg Hd. apply in_app_or in Hg. destruct Hg as [Hg|[Hg|[]]]; [apply H3; assumption | subst g; reflexivity].
  - intros g i Hg Hi. apply in_app_or in Hg. destruct Hg as [Hg|[Hg|[]]].
    + destruct (H4 g i Hg Hi) as [Ha' Hb]. split; [exact Ha'|]. rewrite map_app. apply in_or_app. left. exact Hb.
    + subst g. simpl in Hi. contradiction.
Qed.

Lemma GStruct_add_member : forall G a m, GStruct G -> GStruct (add_member G a m).
Proof.
  intros G a m [H1 [H2 [H3 H4]]]. unfold GStruct. rewrite gids_add_member.
  split; [exact H1|]. split; [exact H2|]. split.
  - intros h Hh Hd. apply in_add_member in Hh. destruct Hh as [Hh|[g [Hg [Hga Hh]]]]; [apply H3; assumption|].
    subst h. simpl in *. apply H3; assumption.
  - intros h i Hh Hi. apply in_add_member in Hh. destruct Hh as [Hh|[g [Hg [Hga Hh]]]]; [eapply H4; eassumption|].
    subst h. simpl in *. eapply H4; eassumption.
Qed.

Lemma GStruct_add_include : forall G a i, GStruct G ->
  is_default a = true -> is_default i = false -> In i (map gid G) -> GStruct (add_include G a i).
Proof.
  intros G a i [H1 [H2 [H3 H4]]] Ha Hi Hin. unfold GStruct. rewrite gids_add_include.
  split; [exact H1|]. split; [exact H2|]. split.
  - intros h Hh Hd. apply in_add_include in Hh. destruct Hh as [Hh|[g [Hg [Hga Hh]]]]; [apply H3; assumption|].
    subst h. simpl in *. congruence.
  - intros h j Hh Hj. apply in_add_include in Hh. destruct Hh as [Hh|[g [Hg [Hga Hh]]]]; [eapply H4; eassumption|].
    subst h. simpl in *. apply in_app_or in Hj. destruct Hj as [Hj|[Hj|[]]]; [eapply H4; eassumption|].
    subst j. split; assumption.
Qed.

Lemma GStruct_same_shape : forall G G', same_shape G G' -> GStruct G -> GStruct G'.
Proof.
  intros G G' Hs [H1 [H2 [H3 H4]]]. unfold GStruct. rewrite (same_shape_gids _ _ Hs).
  split; [exact H1|]. split; [exact H2|]. split.
  - intros g' Hg' Hd. destruct (same_shape_in _ _ _ Hs Hg') as [g [Hg [He [Hinc _]]]].
    rewrite He in Hd. specialize (H3 g Hg Hd).
    destruct (includes g') as [|i r] eqn:Ei; [reflexivity|].
    exfalso. assert (Hi : In i (includes g)) by (apply Hinc; left; reflexivity). rewrite H3 in Hi. contradiction.
  - intros g' i Hg' Hi. destruct (same_shape_in _ _ _ Hs Hg') as [g [Hg [He [Hinc _]]]].
    apply (H4 g i Hg). apply Hinc. exact Hi.
Qed.

(* ------------------------------------------------------------------ Sound *)
Definition mjust (S : list seg) (a : string) (m : Z) : Prop :=
  exists s, In s S /\ sid s = m /\
    ((is_default a = false /\ sgrp s = Some a) \/ (a = "all" /\ stag s <> None) \/
     (exists t, a = dname t /\ stag s = Some t)).

Definition ijust (S : list seg) (a i : string) : Prop :=
  exists s, In s S /\ sgrp s = Some i /\
    ((a = "all" /\ stag s <> None) \/ (exists t, a = dname t /\ stag s = Some t)).

Definition Sound (S : list seg) (G : list group) : Prop :=
  forall g, In g G ->
    (forall m, In m (members g) -> mjust S (gid g) m) /\ (forall i, In i (includes g) -> ijust S (gid g) i).

Lemma Sound_mono : forall S S' G, incl S S' -> Sound S G -> Sound S' G.
Proof.
  intros S S' G Hi H g Hg. destruct (H g Hg) as [Hm Hinc]. split.
  - intros m Hmm. destruct (Hm m Hmm) as [s [Hs R]]. exists s. split; [apply Hi; exact Hs | exact R].
  - intros i Hii. destruct (Hinc i Hii) as [s [Hs R]]. exists s. split; [apply Hi; exact Hs | exact R].
Qed.

Lemma Sound_perm : forall S G G', Permutation G G' -> Sound S G -> Sound S G'.
Proof. intros S G G' HP H g Hg. apply H. eapply Permutation_in; [apply Permutation_sym; exact HP | exact Hg]. Qed.

Lemma Sound_ensure : forall S G a nl, Sound S G -> Sound S (ensure_group G a nl).
Proof.
  intros S G a nl H g Hg. apply in_ensure in Hg. destruct Hg as [Hg|[Hg _]]; [apply H; exact Hg|].
  subst g. simpl. split; intros x [].
Qed.

Lemma Sound_add_member : forall S G a m, Sound S G -> mjust S a m -> Sound S (add_member G a m).
Proof.
  intros S G a m H Hj h Hh. apply in_add_member in Hh. destruct Hh as [Hh|[g [Hg [Hga Hh]]]]; [apply H; exact Hh|].
  subst h. simpl. destruct (H g Hg) as [Hm Hi]. split; [|exact Hi].
  intros x Hx. apply in_app_or in Hx. destruct Hx as [Hx|[Hx|[]]]; [apply Hm; exact Hx|]. subst x. rewrite Hga. exact Hj.
Qed.

Lemma Sound_add_include : forall S G a i, Sound S G -> ijust S a i -> Sound S (add_include G a i).
Proof.
  intros S G a i H Hj h Hh. apply in_add_include in Hh. destruct Hh as [Hh|[g [Hg [Hga Hh]]]]; [apply H; exact Hh|].
  subst h. simpl. destruct (H g Hg) as [Hm Hi]. split; [exact Hm|].
  intros x Hx. apply in_app_or in Hx. destruct Hx as [Hx|[Hx|[]]]; [apply Hi; exact Hx|]. subst x. rewrite Hga. exact Hj.
Qed.

Lemma Sound_same_shape : forall S G G', same_shape G G' -> Sound S G -> Sound S G'.
Proof.
  intros S G G' Hs H g' Hg'. destruct (same_shape_in _ _ _ Hs Hg') as [g [Hg [He [Hinc Hmem]]]].
  destruct (H g Hg) as [Hm Hi]. rewrite He. split.
  - intros m Hmm. apply Hm. apply Hmem. exact Hmm.
  - intros i Hii. apply Hi. apply Hinc. exact Hii.
Qed.

(* ------------------------------------------------------------------ Complete *)
Definition Complete (S : list seg) (G : list group) : Prop :=
  forall s t, In s S -> stag s = Some t -> preach G (dname t) (sid s) /\ preach G "all" (sid s).

Lemma Complete_grow : forall S G G', grow G G' -> Complete S G -> Complete S G'.
Proof.
  intros S G G' Hg H s t Hs Ht. destruct (H s t Hs Ht) as [H1 H2]. split; eapply preach_grow; eassumption.
Qed.

Lemma Complete_equiv : forall S ids G G', equiv ids G G' -> Complete S G -> Complete S G'.
Proof.
  intros S ids G G' [Hs Hr] H s t Hin Ht. destruct (H s t Hin Ht) as [H1 H2].
  assert (Hall : lookup G' "all" <> None).
  { pose proof (preach_lookup _ _ _ H2) as Hl. intro E. apply lookup_none in E. rewrite (same_shape_gids _ _ Hs) in E.
    apply lookup_none in E. contradiction. }
  split; (eapply reach_preach; [exact Hall|]; apply Hr; apply preach_reach); assumption.
Qed.

(* ------------------------------------------------------------------ names *)
Lemma dname_default : forall t, is_default (dname t) = true.
Proof. destruct t; reflexivity. Qed.
Lemma dname_nonempty : forall t, dname t <> "".
Proof. destruct t; discriminate. Qed.
Lemma dname_not_all : forall t, dname t <> "all".
Proof. destruct t; discriminate. Qed.
Lemma dname_inj : forall t t', dname t = dname t' -> t = t'.
Proof. destruct t, t'; simpl; intros H; try reflexivity; discriminate. Qed.
Lemma not_default_neq : forall g t, is_default g = false -> g <> dname t /\ g <> "all".
Proof.
  intros g t H. split; intro E; subst g; [rewrite dname_default in H | simpl in H]; discriminate.
Qed.

(* ------------------------------------------------------------------ setup_default and seg_groups *)
Lemma setup_default_inv : forall S G t,
  GStruct G -> Sound S G ->
  let G' := setup_default G t in
  GStruct G' /\ Sound S G' /\ grow G G' /\ lookup G' "all" <> None /\ lookup G' (dname t) <> None.
Proof.
  intros S G t HG HS. unfold setup_default.
  set (Ga := ensure_group G "all" None). set (Gb := ensure_group Ga (dname t) (Some (dnlex t))).
  assert (HGa : GStruct Ga) by (apply GStruct_ensure; [exact HG | discriminate]).
  assert (HGb : GStruct Gb) by (apply GStruct_ensure; [exact HGa | apply dname_nonempty]).
  assert (Hgrow : grow G Gb) by (eapply grow_trans; apply grow_ensure).
  assert (HP : Permutation Gb (reorder Gb)) by (apply Permutation_sym, reorder_perm).
  assert (Hnd : NoDup (map gid Gb)) by apply HGb.
  split; [apply GStruct_reorder; exact HGb|].
  split; [eapply Sound_perm; [exact HP|]; apply Sound_ensure, Sound_ensure; exact HS|].
  split; [eapply grow_trans; [exact Hgrow | apply grow_perm; assumption]|].
  rewrite !(lookup_perm Gb (reorder Gb) _ HP Hnd). split.
  - assert (Ha : lookup Ga "all" <> None) by (apply lookup_ensure; discriminate).
    destruct (lookup Ga "all") as [g|] eqn:E; [|congruence].
    destruct (grow_ensure Ga (dname t) (Some (dnlex t)) "all" g E) as [g' [Hl _]]. unfold Gb. congruence.
  - apply lookup_ensure. apply dname_nonempty.
Qed.

(* the convention part of add_segment when the segment has its own (user) group g *)
Lemma conv_groups_own : forall S G1 s g t reord,
  GStruct G1 -> Sound S G1 -> In s S -> sgrp s = Some g -> stag s = Some t ->
  g <> "" -> is_default g = false -> preach G1 g (sid s) ->
  let G' := conv_groups true G1 (Some g) (sid s) t reord in
  GStruct G' /\ Sound S G' /\ grow G1 G' /\ preach G' (dname t) (sid s) /\ preach G' "all" (sid s).
Proof.
  intros S G1 s g t reord HG1 HS1 Hs Eg Et Hne Hnd Hgi. unfold conv_groups.
  set (i := sid s) in *.
  destruct (setup_default_inv S G1 t HG1 HS1) as [HG2 [HS2 [Hgr2 [Hall2 HX2]]]].
  set (G2 := setup_default G1 t) in *.
  destruct (not_default_neq g t Hnd) as [Hn1 Hn2].
  assert (Hown' : own_group true (Some g) t = true).
  { unfold own_group. apply String.eqb_neq in Hn1. apply String.eqb_neq in Hn2. rewrite Hn1, Hn2. reflexivity. }
  rewrite Hown'.
  assert (Hgin2 : In g (map gid G2)).
  { pose proof (preach_lookup _ _ _ (preach_grow _ _ _ _ Hgr2 Hgi)) as Hl.
    destruct (lookup G2 g) as [gg|] eqn:E2; [|congruence].
    destruct (lookup_some _ _ _ E2) as [Hin Hid]. apply in_map_iff. exists gg. split; assumption. }
  set (Gx := add_include G2 (dname t) g).
  set (G3 := add_include Gx "all" g).
  assert (HGx : GStruct Gx) by (apply GStruct_add_include; [exact HG2 | apply dname_default | exact Hnd | exact Hgin2]).
  assert (Hgrx : grow G2 Gx) by apply grow_add_include.
  assert (HG3 : GStruct G3).
  { apply GStruct_add_include; [exact HGx | reflexivity | exact Hnd | unfold Gx; rewrite gids_add_include; exact Hgin2]. }
  assert (HS3 : Sound S G3).
  { apply Sound_add_include; [apply Sound_add_include; [exact HS2|]|].
    - exists s. split; [exact Hs|]. split; [exact Eg|]. right. exists t. split; [reflexivity | exact Et].
    - exists s. split; [exact Hs|]. split; [exact Eg|]. left. split; [reflexivity | congruence]. }
  assert (Hgr3 : grow G1 G3).
  { eapply grow_trans; [exact Hgr2|]. eapply grow_trans; [exact Hgrx | apply grow_add_include]. }
  assert (Hgi3 : preach G3 g i) by (eapply preach_grow; eassumption).
  assert (HpX : preach G3 (dname t) i).
  { destruct (lookup_add_include G2 (dname t) g HX2) as [gx [Hlx Hix]].
    destruct (grow_add_include Gx "all" g (dname t) gx Hlx) as [gx' [Hlx' [_ Hix']]].
    eapply reach_inc; [exact Hlx' | apply Hix'; exact Hix | exact Hgi3]. }
  assert (Hpa : preach G3 "all" i).
  { assert (Hallx : lookup Gx "all" <> None).
    { destruct (lookup G2 "all") as [ga|] eqn:E2; [|congruence].
      destruct (Hgrx "all" ga E2) as [ga' [Hl' _]]. congruence. }
    destruct (lookup_add_include Gx "all" g Hallx) as [ga [Hla Hia]].
    eapply reach_inc; [exact Hla | exact Hia | exact Hgi3]. }
  destruct reord.
  - assert (HP : Permutation G3 (reorder G3)) by (apply Permutation_sym, reorder_perm).
    assert (Hgp : grow G3 (reorder G3)) by (apply grow_perm; [exact HP | apply HG3]).
    split; [apply GStruct_reorder; exact HG3|].
    split; [eapply Sound_perm; eassumption|].
    split; [eapply grow_trans; eassumption|].
    split; eapply preach_grow; eassumption.
  - repeat (split; [assumption|]). assumption.
Qed.

(* ... and when the segment is made a member of the default groups itself: no group, or its group is
   the default group of its type, or "all" *)
Lemma conv_groups_member : forall S G1 s grp t reord,
  GStruct G1 -> Sound S G1 -> In s S -> stag s = Some t -> own_group true grp t = false ->
  let G' := conv_groups true G1 grp (sid s) t reord in
  GStruct G' /\ Sound S G' /\ grow G1 G' /\ preach G' (dname t) (sid s) /\ preach G' "all" (sid s).
Proof.
  intros S G1 s grp t reord HG1 HS1 Hs Et Hown.
  assert (Econv : conv_groups true G1 grp (sid s) t reord =
                  let G3 := add_member (add_member (setup_default G1 t) (dname t) (sid s)) "all" (sid s) in
                  if reord then reorder G3 else G3).
  { unfold conv_groups. destruct grp as [g|]; [rewrite Hown|]; reflexivity. }
  rewrite Econv. clear Econv. cbv zeta.
  set (i := sid s) in *.
  destruct (setup_default_inv S G1 t HG1 HS1) as [HG2 [HS2 [Hgr2 [Hall2 HX2]]]].
  set (G2 := setup_default G1 t) in *.
  set (Gx := add_member G2 (dname t) i).
  set (G3 := add_member Gx "all" i).
  assert (Hgrx : grow G2 Gx) by apply grow_add_member.
  assert (HG3 : GStruct G3) by (apply GStruct_add_member, GStruct_add_member; exact HG2).
  assert (HS3 : Sound S G3).
  { apply Sound_add_member; [apply Sound_add_member; [exact HS2|]|].
    - exists s. split; [exact Hs|]. split; [reflexivity|]. right. right. exists t. split; [reflexivity | exact Et].
    - exists s. split; [exact Hs|]. split; [reflexivity|]. right. left. split; [reflexivity | congruence]. }
  assert (Hgr3 : grow G1 G3).
  { eapply grow_trans; [exact Hgr2|]. eapply grow_trans; [exact Hgrx | apply grow_add_member]. }
  assert (HpX : preach G3 (dname t) i).
  { destruct (lookup_add_member G2 (dname t) i HX2) as [gx [Hlx Hmx]].
    eapply preach_grow; [apply grow_add_member|]. eapply reach_mem; eassumption. }
  assert (Hpa : preach G3 "all" i).
  { assert (Hallx : lookup Gx "all" <> None).
    { destruct (lookup G2 "all") as [ga|] eqn:E2; [|congruence].
      destruct (Hgrx "all" ga E2) as [ga' [Hl' _]]. congruence. }
    destruct (lookup_add_member Gx "all" i Hallx) as [ga [Hla Hma]]. eapply reach_mem; eassumption. }
  destruct reord.
  - assert (HP : Permutation G3 (reorder G3)) by (apply Permutation_sym, reorder_perm).
    assert (Hgp : grow G3 (reorder G3)) by (apply grow_perm; [exact HP | apply HG3]).
    split; [apply GStruct_reorder; exact HG3|].
    split; [eapply Sound_perm; eassumption|].
    split; [eapply grow_trans; eassumption|].
    split; eapply preach_grow; eassumption.
  - repeat (split; [assumption|]). assumption.
Qed.

(* the role a segment's own group may have *)
Definition grp_role_ok (s : seg) (g : string) : Prop :=
  g <> "" /\
  (is_default g = false \/ (g = "all" /\ stag s <> None) \/ (exists t, g = dname t /\ stag s = Some t)).

(* everything add_segment does to the groups, for a segment s (already in S) *)
Lemma seg_groups_inv : forall S G s reord,
  GStruct G -> Sound S G -> In s S ->
  (forall g, sgrp s = Some g -> grp_role_ok s g) ->
  let G' := seg_groups true G (sgrp s) (sid s) (stag s) reord in
  GStruct G' /\ Sound S G' /\ grow G G' /\
  (forall t, stag s = Some t -> preach G' (dname t) (sid s) /\ preach G' "all" (sid s)).
Proof.
  intros S G s reord HG HS Hs Hgrp. unfold seg_groups.
  destruct (sgrp s) as [g|] eqn:Eg.
  - destruct (Hgrp g eq_refl) as [Hne Hrole].
    set (G1 := add_member (ensure_group G g None) g (sid s)).
    assert (HG1 : GStruct G1) by (apply GStruct_add_member, GStruct_ensure; assumption).
    assert (HS1 : Sound S G1).
    { apply Sound_add_member; [apply Sound_ensure; exact HS|]. exists s. split; [exact Hs|].
      split; [reflexivity|]. destruct Hrole as [Hd|[Ha|Ht]]; [left; split; assumption | right; left; exact Ha | right; right; exact Ht]. }
    assert (Hgr1 : grow G G1) by (eapply grow_trans; [apply grow_ensure | apply grow_add_member]).
    assert (Hgi : preach G1 g (sid s)).
    { destruct (lookup_add_member _ g (sid s) (lookup_ensure G g None Hne)) as [g' [Hl' Hm]].
      eapply reach_mem; eassumption. }
    destruct (stag s) as [t|] eqn:Et.
    + destruct Hrole as [Hnd|Hdef].
      * destruct (conv_groups_own S G1 s g t reord HG1 HS1 Hs Eg Et Hne Hnd Hgi) as [H1 [H2 [H3 [H4 H5]]]].
        split; [exact H1|]. split; [exact H2|]. split; [eapply grow_trans; eassumption|].
        intros t' E. inversion E; subst t'. split; assumption.
      * assert (Hown : own_group true (Some g) t = false).
        { unfold own_group. destruct Hdef as [[Ha _]|[t' [Hd Ht']]].
          - subst g. destruct t; reflexivity.
          - inversion Ht'; subst t' g. rewrite String.eqb_refl. reflexivity. }
        destruct (conv_groups_member S G1 s (Some g) t reord HG1 HS1 Hs Et Hown) as [H1 [H2 [H3 [H4 H5]]]].
        split; [exact H1|]. split; [exact H2|]. split; [eapply grow_trans; eassumption|].
        intros t' E. inversion E; subst t'. split; assumption.
    + split; [exact HG1|]. split; [exact HS1|]. split; [exact Hgr1|]. intros t E. discriminate.
  - destruct (stag s) as [t|] eqn:Et.
    + destruct (conv_groups_member S G s None t reord HG HS Hs Et eq_refl) as [H1 [H2 [H3 [H4 H5]]]].
      split; [exact H1|]. split; [exact H2|]. split; [exact H3|].
      intros t' E. inversion E; subst t'. split; assumption.
    + split; [exact HG|]. split; [exact HS|]. split; [apply grow_refl|]. intros t E. discriminate.
Qed.
