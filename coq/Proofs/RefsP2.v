(* C17 proofs, part 4: the concrete instance used by the correspondence (cobj, cdcopy, cload of
   Model/Refs.v) satisfies every hypothesis made about copy.deepcopy and the include loader, so the
   theorems of RefsP.v are not vacuous; and the code before fixes/C17-cell2capools.patch leaves a
   Cell2CaPools cell unresolved. *)
From Coq Require Import String List Bool ZArith Arith Lia.
From LNML Require Import Model.Refs Proofs.RefsP.
Import ListNotations.
Open Scope string_scope.

Lemma map_snd_combine : forall (A B : Type) (a : list A) (b : list B), length a = length b -> map snd (combine a b) = b.
Proof.
  intros A B. induction a as [|x a IH]; destruct b as [|y b]; simpl; intro H; try discriminate; [reflexivity|].
  f_equal. apply IH. lia.
Qed.

Lemma map_fst_combine : forall (A B : Type) (a : list A) (b : list B), length a = length b -> map fst (combine a b) = a.
Proof.
  intros A B. induction a as [|x a IH]; destruct b as [|y b]; simpl; intro H; try discriminate; [reflexivity|].
  f_equal. apply IH. lia.
Qed.

Lemma cdcopy_val : forall n o, cval (fst (cdcopy n o)) = cval o.
Proof.
  intros n [l i v k]. simpl. rewrite map_snd_combine; [reflexivity|]. rewrite seq_length, map_length. reflexivity.
Qed.

Lemma cdcopy_id : forall n o, coid (fst (cdcopy n o)) = coid o.
Proof. intros n [l i v k]. reflexivity. Qed.

Lemma cdcopy_locs : forall n o, clocs (fst (cdcopy n o)) = seq n (S (length (clocs o) - 1)).
Proof.
  intros n [l i v k]. simpl. rewrite map_fst_combine by (rewrite seq_length, map_length; reflexivity).
  rewrite map_length, Nat.sub_0_r. reflexivity.
Qed.

Lemma cdcopy_snd : forall n o, snd (cdcopy n o) = n + S (length (clocs o) - 1).
Proof. intros n [l i v k]. simpl. rewrite map_length. lia. Qed.

Lemma cdcopy_fresh : forall n o l, In l (clocs (fst (cdcopy n o))) -> n <= l < snd (cdcopy n o).
Proof. intros n o l H. rewrite cdcopy_locs in H. rewrite cdcopy_snd. apply in_seq in H. lia. Qed.

Lemma cdcopy_nodup : forall n o, NoDup (clocs (fst (cdcopy n o))).
Proof. intros n o. rewrite cdcopy_locs. apply seq_NoDup. Qed.

Lemma cdcopy_mono : forall n o, n <= snd (cdcopy n o).
Proof. intros n o. rewrite cdcopy_snd. lia. Qed.

(* copy_objs with the concrete deepcopy *)
Lemma ccopy_objs_spec : forall os n os' n', copy_objs cobj cdcopy n os = (os', n') ->
  n <= n' /\ map (ov cobj coid _ cval) os' = map (ov cobj coid _ cval) os /\
  forall o, In o os' -> forall x, In x (clocs o) -> n <= x < n'.
Proof.
  induction os as [|o r IH]; simpl; intros n os' n' H.
  - inversion H; subst. split; [lia|]. split; [reflexivity | intros o []].
  - destruct (cdcopy n o) as [o' n1] eqn:D. destruct (copy_objs cobj cdcopy n1 r) as [r' n2] eqn:C.
    inversion H; subst; clear H. apply IH in C. destruct C as [Le [E Fr]].
    pose proof (cdcopy_mono n o) as Hm. pose proof (cdcopy_val n o) as Hv. pose proof (cdcopy_id n o) as Hi.
    pose proof (cdcopy_fresh n o) as Hf. rewrite D in *. simpl in *.
    split; [lia|]. split.
    + rewrite E. unfold ov at 1 3. rewrite Hv, Hi. reflexivity.
    + intros x [Ex|Hx] y Hy; [subst x; apply Hf in Hy; lia | pose proof (Fr x Hx y Hy); lia].
Qed.

Section Table.
  Variable t : ctable.

  Lemma cload_mono : forall n i ms bs n', cload t n i = Some (ms, bs, n') -> n <= n'.
  Proof.
    intros n i ms bs n' H. unfold cload in H. destruct (cfind t i) as [[m b]|]; [|discriminate].
    destruct (copy_objs cobj cdcopy n m) as [m' n1] eqn:C1. destruct (copy_objs cobj cdcopy n1 b) as [b' n2] eqn:C2.
    inversion H; subst. apply ccopy_objs_spec in C1. apply ccopy_objs_spec in C2. lia.
  Qed.

  Lemma cload_fresh : forall n i ms bs n', cload t n i = Some (ms, bs, n') ->
    forall o, In o (ms ++ bs) -> forall x, In x (clocs o) -> n <= x < n'.
  Proof.
    intros n i ms bs n' H o Ho x Hx. unfold cload in H. destruct (cfind t i) as [[m b]|]; [|discriminate].
    destruct (copy_objs cobj cdcopy n m) as [m' n1] eqn:C1. destruct (copy_objs cobj cdcopy n1 b) as [b' n2] eqn:C2.
    inversion H; subst. apply ccopy_objs_spec in C1. apply ccopy_objs_spec in C2.
    destruct C1 as [L1 [_ F1]]. destruct C2 as [L2 [_ F2]]. apply in_app_or in Ho. destruct Ho as [Ho|Ho].
    - pose proof (F1 o Ho x Hx). lia.
    - pose proof (F2 o Ho x Hx). lia.
  Qed.

  Lemma cload_val : forall n m i,
    match cload t n i, cload t m i with
    | Some (ms, bs, _), Some (ms', bs', _) =>
      map (ov cobj coid _ cval) ms = map (ov cobj coid _ cval) ms' /\
      map (ov cobj coid _ cval) bs = map (ov cobj coid _ cval) bs'
    | None, None => True
    | _, _ => False
    end.
  Proof.
    intros n m i. unfold cload. destruct (cfind t i) as [[ms bs]|]; [|exact I].
    destruct (copy_objs cobj cdcopy n ms) as [m1 n1] eqn:C1. destruct (copy_objs cobj cdcopy n1 bs) as [b1 n2] eqn:C2.
    destruct (copy_objs cobj cdcopy m ms) as [m1' k1] eqn:C3. destruct (copy_objs cobj cdcopy k1 bs) as [b1' k2] eqn:C4.
    apply ccopy_objs_spec in C1. apply ccopy_objs_spec in C2. apply ccopy_objs_spec in C3. apply ccopy_objs_spec in C4.
    destruct C1 as [_ [E1 _]]. destruct C2 as [_ [E2 _]]. destruct C3 as [_ [E3 _]]. destruct C4 as [_ [E4 _]].
    split; congruence.
  Qed.

  (* the general theorems, instantiated: what the kernel computes in Cases_C17_*.v is covered by them *)
  Definition cfix := fix_doc cobj coid cdcopy (cload t).

  Theorem concrete_overwrite_spec : forall h d n h' d' n',
    NoDup (RefsP.all_cells cobj d) -> cfix true h d n true = ROk h' d' n' ->
    d' = d /\
    exists ms bs n1,
      load_all cobj (cload t) (d_incs d) n = Some (ms, bs, n1) /\ n <= n1 /\ n1 <= n' /\
      (forall l, ~ In l (RefsP.all_cells cobj d) -> h' l = h l) /\
      (forall l, In l (RefsP.all_cells cobj d) ->
                 cell_embeds cobj coid _ cval clocs (ms ++ d_morphs d) (bs ++ d_bios d) n1 n' (h l) (h' l)).
  Proof.
    exact (fix_overwrite_spec cobj coid _ cval clocs cdcopy (cload t)
             cdcopy_val cdcopy_id cdcopy_fresh cdcopy_nodup cdcopy_mono cload_mono).
  Qed.

  Theorem concrete_false_same_value : forall h d n,
    NoDup (RefsP.all_cells cobj d) -> (forall x, In x (RefsP.all_cells cobj d) -> x < n) ->
    resv cobj coid _ cval (cfix true h d n false) = resv cobj coid _ cval (cfix true h d n true).
  Proof.
    exact (fix_false_same_value cobj coid _ cval cdcopy (cload t) cdcopy_val cdcopy_id cdcopy_mono cload_val).
  Qed.
End Table.

(* ---- before the patch: the stored witness of checks/c17.py (fixed case 0) *)
Definition w_cells : list (nat * cellrec cobj) :=
  [ (0, {| k_id := "c0"; k_rest := 1; k_m := (Some "m0", None); k_b := (None, None) |});
    (1, {| k_id := "k0"; k_rest := 2; k_m := (Some "m0", None); k_b := (Some "b0", None) |}) ].
Definition w_doc : docr cobj :=
  {| d_cells := [0]; d_cells2 := [1];
     d_morphs := [CObj 2 "m0" 3 [(3, 0%Z); (4, 1%Z)]]; d_bios := [CObj 5 "b0" 4 [(6, 5%Z)]]; d_incs := [] |}.

(* the Cell2CaPools cell (location 1) refers to a morphology that IS defined in the document, the call
   returns normally, and the cell is exactly as before *)
Theorem cell2capools_unresolved_before_patch :
  exists h' n',
    fix_doc cobj coid cdcopy (cload []) false (heap_of w_cells) w_doc 7 true = ROk h' w_doc n' /\
    In 1 (d_cells2 w_doc) /\
    last_def cobj coid (d_morphs w_doc) "m0" <> None /\
    k_m (h' 1) = (Some "m0", None) /\ k_b (h' 1) = (Some "b0", None) /\
    (* while the plain cell next to it is resolved *)
    fst (k_m (h' 0)) = None.
Proof.
  eexists. eexists. split; [vm_compute; reflexivity|]. vm_compute.
  repeat split; try reflexivity; [left; reflexivity | discriminate].
Qed.

(* after the patch both are resolved, by distinct copies *)
Example cell2capools_resolved_after_patch :
  exists h' n',
    fix_doc cobj coid cdcopy (cload []) true (heap_of w_cells) w_doc 7 true = ROk h' w_doc n' /\
    k_m (h' 0) = (None, Some (CObj 7 "m0" 3 [(8, 0%Z); (9, 1%Z)])) /\
    k_m (h' 1) = (None, Some (CObj 10 "m0" 3 [(11, 0%Z); (12, 1%Z)])) /\
    k_b (h' 1) = (None, Some (CObj 13 "b0" 4 [(14, 5%Z)])).
Proof. eexists. eexists. split; [vm_compute; reflexivity|]. vm_compute. repeat split. Qed.
