(* C13 proofs, part 2: tree-shaped segment lists (any size, any ids, any document order); the effective
   proximal point, the segment length, and the walk up to the root. *)
From Coq Require Import List ZArith QArith Qabs Bool Lia Permutation Setoid.
From LNML Require Import Model.Morph Proofs.MorphP.
Import ListNotations.
Open Scope Z_scope.

(* ------------------------------------------------------------------ well-formed cells *)
(* built: from a parentless root by adding segments with a fresh id under an existing parent, in any document order *)
Definition built (c : cell) : Prop := exists c0, topo c0 /\ Permutation c0 c.

(* wf: the same trees, described without a construction order (and decidable: Model/Morph.v wfb, Proofs/MorphP6.v):
   distinct ids, exactly one parentless segment, every segment reaches it through its parent chain *)
Definition wf (c : cell) : Prop :=
  NoDup (ids c) /\
  (exists r, In r c /\ sparent r = None /\ forall s, In s c -> sparent s = None -> s = r) /\
  (forall s, In s c -> exists n, Rooted c (sid s) n /\ (n < length c)%nat).

(* a parentless segment carries its own proximal point (NeuroML: a segment has a parent or a proximal) *)
Definition root_has_prox (c : cell) : Prop :=
  forall s, In s c -> sparent s = None -> sprox s <> None.

Lemma find_seg_some : forall c id s, find_seg c id = Some s -> In s c /\ sid s = id.
Proof.
  unfold find_seg. intros c id s H. apply find_some in H. destruct H as [H1 H2].
  split; auto. now apply Z.eqb_eq.
Qed.

Lemma find_seg_none : forall c id, find_seg c id = None -> ~ In id (ids c).
Proof.
  unfold find_seg, ids. intros c id H Hin. apply in_map_iff in Hin. destruct Hin as [s [Hs Hin]].
  pose proof (find_none _ _ H s Hin) as Hn. simpl in Hn. rewrite Hs, Z.eqb_refl in Hn. discriminate.
Qed.

Lemma in_ids : forall c s, In s c -> In (sid s) (ids c).
Proof. intros. unfold ids. now apply in_map. Qed.

Lemma ids_in : forall c id, In id (ids c) -> exists s, In s c /\ sid s = id.
Proof. unfold ids. intros c id H. apply in_map_iff in H. destruct H as [s [H1 H2]]. eauto. Qed.

Lemma nodup_same_id : forall c s s', NoDup (ids c) -> In s c -> In s' c -> sid s = sid s' -> s = s'.
Proof.
  induction c as [|x r IH]; intros s s' Hnd Hs Hs' Heq; [inversion Hs|].
  simpl in Hnd. inversion Hnd as [|? ? Hnot Hnd']; subst.
  destruct Hs as [->|Hs], Hs' as [->|Hs']; auto.
  - exfalso. apply Hnot. rewrite Heq. now apply in_ids.
  - exfalso. apply Hnot. rewrite <- Heq. now apply in_ids.
Qed.

Lemma find_seg_nodup : forall c s, NoDup (ids c) -> In s c -> find_seg c (sid s) = Some s.
Proof.
  intros c s Hnd Hin. destruct (find_seg c (sid s)) as [s'|] eqn:E.
  - apply find_seg_some in E. destruct E as [E1 E2]. f_equal. now apply (nodup_same_id c).
  - apply find_seg_none in E. exfalso. apply E. now apply in_ids.
Qed.

Lemma get_segment_nodup : forall c s, NoDup (ids c) -> In s c -> get_segment c (sid s) = Ok s.
Proof. intros. unfold get_segment. now rewrite find_seg_nodup. Qed.

Lemma topo_nodup : forall c, topo c -> NoDup (ids c).
Proof. induction 1; simpl; constructor; auto. constructor. Qed.

Lemma topo_parent_in : forall c, topo c -> forall s p f, In s c -> sparent s = Some (p, f) -> In p (ids c).
Proof.
  induction 1 as [s0 H0|s0 c p0 f0 Ht IH Hp Hin Hfresh]; intros s p f Hs Hpar.
  - destruct Hs as [->|[]]. congruence.
  - destruct Hs as [->|Hs].
    + rewrite Hp in Hpar. inversion Hpar; subst. simpl. now right.
    + simpl. right. eapply IH; eauto.
Qed.

Lemma topo_one_root : forall c, topo c ->
  exists r, In r c /\ sparent r = None /\ forall s, In s c -> sparent s = None -> s = r.
Proof.
  induction 1 as [s0 H0|s0 c p0 f0 Ht IH Hp Hin Hfresh].
  - exists s0. repeat split; simpl; auto. intros s [->|[]] _. reflexivity.
  - destruct IH as [r [Hr [Hrp Hru]]]. exists r. repeat split; simpl; auto.
    intros s [->|Hs] Hn; [congruence|]. now apply Hru.
Qed.

Lemma Rooted_incl : forall c c' id n, (forall x, In x c -> In x c') -> Rooted c id n -> Rooted c' id n.
Proof. intros c c' id n Hinc H. induction H; econstructor; eauto. Qed.

Lemma Rooted_in : forall c id n, Rooted c id n -> exists s, In s c /\ sid s = id.
Proof. intros c id n H. destruct H; eauto. Qed.

Lemma topo_rooted : forall c, topo c -> forall s, In s c -> exists n, Rooted c (sid s) n /\ (n < length c)%nat.
Proof.
  induction 1 as [s0 H0|s0 c p0 f0 Ht IH Hp Hin Hfresh]; intros s Hs.
  - destruct Hs as [->|[]]. exists O. split; [constructor; simpl; auto|simpl; lia].
  - assert (Hinc : forall x, In x c -> In x (s0 :: c)) by (intros; now right).
    destruct Hs as [->|Hs].
    + apply ids_in in Hin. destruct Hin as [par [Hpar Hid]].
      destruct (IH par Hpar) as [n [Hn Hlt]]. exists (S n). split; [|simpl; lia].
      eapply R_kid; eauto; [now left|]. rewrite <- Hid. eapply Rooted_incl; eauto.
    + destruct (IH s Hs) as [n [Hn Hlt]]. exists n. split; [|simpl; lia]. eapply Rooted_incl; eauto.
Qed.

Lemma built_nodup : forall c, built c -> NoDup (ids c).
Proof.
  intros c [c0 [Ht Hp]]. apply (Permutation_NoDup (l := ids c0)).
  - unfold ids. now apply Permutation_map.
  - now apply topo_nodup.
Qed.

Lemma built_parent_in : forall c s p f, built c -> In s c -> sparent s = Some (p, f) -> exists par, In par c /\ sid par = p.
Proof.
  intros c s p f [c0 [Ht Hp]] Hs Hpar.
  assert (Hs0 : In s c0) by (eapply Permutation_in; [apply Permutation_sym; eauto|auto]).
  pose proof (topo_parent_in _ Ht _ _ _ Hs0 Hpar) as Hin. apply ids_in in Hin.
  destruct Hin as [par [H1 H2]]. exists par. split; auto. eapply Permutation_in; eauto.
Qed.

Lemma built_rooted : forall c s, built c -> In s c -> exists n, Rooted c (sid s) n /\ (n < length c)%nat.
Proof.
  intros c s [c0 [Ht Hp]] Hs.
  assert (Hs0 : In s c0) by (eapply Permutation_in; [apply Permutation_sym; eauto|auto]).
  destruct (topo_rooted _ Ht _ Hs0) as [n [Hn Hlt]]. exists n. split.
  - eapply Rooted_incl; [|eauto]. intros. eapply Permutation_in; eauto.
  - now rewrite <- (Permutation_length Hp).
Qed.

Lemma built_one_root : forall c, built c ->
  exists r, In r c /\ sparent r = None /\ forall s, In s c -> sparent s = None -> s = r.
Proof.
  intros c [c0 [Ht Hp]]. destruct (topo_one_root _ Ht) as [r [H1 [H2 H3]]].
  exists r. repeat split; auto.
  - eapply Permutation_in; eauto.
  - intros s Hs. apply H3. eapply Permutation_in; [apply Permutation_sym; eauto|auto].
Qed.

Theorem built_wf : forall c, built c -> wf c.
Proof.
  intros c H. split; [now apply built_nodup|]. split; [now apply built_one_root|]. intros s Hs. now apply built_rooted.
Qed.

Lemma wf_nodup : forall c, wf c -> NoDup (ids c).
Proof. intros c [H _]. exact H. Qed.

Lemma wf_rooted : forall c s, wf c -> In s c -> exists n, Rooted c (sid s) n /\ (n < length c)%nat.
Proof. intros c s [_ [_ H]] Hs. now apply H. Qed.

Lemma wf_one_root : forall c, wf c ->
  exists r, In r c /\ sparent r = None /\ forall s, In s c -> sparent s = None -> s = r.
Proof. intros c [_ [H _]]. exact H. Qed.

Lemma wf_parent_in : forall c s p f, wf c -> In s c -> sparent s = Some (p, f) -> exists par, In par c /\ sid par = p.
Proof.
  intros c s p f Hwf Hs Hp. destruct (wf_rooted c s Hwf Hs) as [n [Hn _]].
  remember (sid s) as id eqn:E. destruct Hn as [s' Hs' Hp'|s' p' f' n Hs' Hp' Hr].
  - assert (s' = s) by (eapply nodup_same_id; eauto using wf_nodup). subst. congruence.
  - assert (s' = s) by (eapply nodup_same_id; eauto using wf_nodup). subst s'.
    rewrite Hp in Hp'. inversion Hp'; subst. eapply Rooted_in; eauto.
Qed.

(* every tree-shaped cell has the form wf; the smallest: a single parentless segment *)
Example wf_single : forall s, sparent s = None -> wf [s].
Proof. intros s H. apply built_wf. exists [s]. split; [now constructor|apply Permutation_refl]. Qed.

(* ------------------------------------------------------------------ points *)
Lemma pt_eq_refl : forall p, pt_eq p p.
Proof. intro p. unfold pt_eq. repeat split; reflexivity. Qed.

Lemma pt_eq_sym : forall p q, pt_eq p q -> pt_eq q p.
Proof. unfold pt_eq. intros p q [H1 [H2 [H3 H4]]]. repeat split; now symmetry. Qed.

Lemma pt_eq_trans : forall p q r, pt_eq p q -> pt_eq q r -> pt_eq p r.
Proof.
  unfold pt_eq. intros p q r [H1 [H2 [H3 H4]]] [G1 [G2 [G3 G4]]].
  repeat split; etransitivity; eauto.
Qed.

Lemma lerp_compat : forall f a a' b, pt_eq a a' -> pt_eq (lerp f a b) (lerp f a' b).
Proof.
  unfold pt_eq, lerp. intros f a a' b [H1 [H2 [H3 H4]]]. simpl.
  repeat split; [rewrite H1|rewrite H2|rewrite H3|rewrite H4]; reflexivity.
Qed.

Lemma lerp_one : forall f a b, (f == 1)%Q -> pt_eq (lerp f a b) b.
Proof. unfold pt_eq, lerp. intros f a b H. simpl. repeat split; rewrite H; ring. Qed.

Lemma lerp_zero : forall f a b, (f == 0)%Q -> pt_eq (lerp f a b) a.
Proof. unfold pt_eq, lerp. intros f a b H. simpl. repeat split; rewrite H; ring. Qed.

(* ------------------------------------------------------------------ effective proximal point *)
Lemma actual_prox_rooted : forall c, NoDup (ids c) -> root_has_prox c ->
  forall id n, Rooted c id n -> forall fuel, (n < fuel)%nat ->
  exists p, actual_prox fuel c id = Ok p /\ ActProx c id p.
Proof.
  intros c Hnd Hroot id n H. induction H as [s Hs Hp|s p f n Hs Hp Hr IH]; intros fuel Hf.
  - destruct fuel as [|k]; [lia|]. simpl. rewrite (get_segment_nodup c s Hnd Hs). simpl.
    destruct (sprox s) as [q|] eqn:Eq.
    + exists q. split; auto. now apply AP_own.
    + exfalso. eapply Hroot; eauto.
  - destruct fuel as [|k]; [lia|]. simpl. rewrite (get_segment_nodup c s Hnd Hs). simpl.
    destruct (sprox s) as [q|] eqn:Eq.
    + exists q. split; auto. now apply AP_own.
    + rewrite Hp. destruct (Rooted_in _ _ _ Hr) as [par [Hpar Hid]].
      rewrite <- Hid. rewrite (get_segment_nodup c par Hnd Hpar). simpl.
      destruct (IH k ltac:(lia)) as [pp [Hpp Hap]].
      assert (Hlerp : ActProx c (sid s) (lerp f pp (sdist par))).
      { eapply AP_par; eauto. }
      destruct (Qeq_bool f 1) eqn:E1.
      * apply Qeq_bool_iff in E1. exists (sdist par). split; auto.
        eapply AP_eq; [exact Hlerp|]. now apply lerp_one.
      * destruct (Qeq_bool f 0) eqn:E0.
        -- apply Qeq_bool_iff in E0. rewrite Hid. exists pp. split; auto.
           eapply AP_eq; [exact Hlerp|]. now apply lerp_zero.
        -- rewrite Hid, Hpp. simpl. exists (lerp f pp (sdist par)). split; auto.
Qed.

(* the effective proximal point of every segment of a tree-shaped cell is computed (no exception, enough
   fuel) and is the point given by the definition *)
Theorem actual_prox_spec : forall c s, wf c -> root_has_prox c -> In s c ->
  exists p, actual_prox (fuel_of c) c (sid s) = Ok p /\ ActProx c (sid s) p.
Proof.
  intros c s Hwf Hroot Hs. destruct (wf_rooted c s Hwf Hs) as [n [Hn Hlt]].
  eapply actual_prox_rooted; eauto using wf_nodup. unfold fuel_of. lia.
Qed.

(* the definition determines the point (up to equality of rationals) *)
Lemma ActProx_unique : forall c, NoDup (ids c) ->
  forall id p, ActProx c id p -> forall q, ActProx c id q -> pt_eq p q.
Proof.
  intros c Hnd id p H. induction H as [s p Hs Hp|s pid f par pp Hs Hp Hpar Hparin Hparid Hpp IH|id p p' H IH Heq]; intros q Hq.
  - remember (sid s) as id eqn:Eid. induction Hq as [s' q Hs' Hq'|s' pid' f' par' pp' Hs' Hq' Hpar' _ _ _ _|id q q' Hq IHq Heq'].
    + assert (s' = s) by (eapply nodup_same_id; eauto). subst s'. rewrite Hp in Hq'. inversion Hq'. apply pt_eq_refl.
    + assert (s' = s) by (eapply nodup_same_id; eauto). subst s'. congruence.
    + eapply pt_eq_trans; [apply IHq; auto|auto].
  - subst pid. remember (sid s) as id eqn:Eid.
    induction Hq as [s' q Hs' Hq'|s' pid' f' par' pp' Hs' Hq' Hpar' Hparin' Hparid' Hpp' _|id q q' Hq IHq Heq'].
    + assert (s' = s) by (eapply nodup_same_id; eauto). subst s'. congruence.
    + assert (s' = s) by (eapply nodup_same_id; eauto). subst s'.
      rewrite Hpar in Hpar'. inversion Hpar' as [[Hpid Hf]]. subst f'.
      assert (par' = par) by (eapply nodup_same_id; eauto; congruence). subst par'.
      apply lerp_compat. apply IH. now rewrite Hpid.
    + eapply pt_eq_trans; [apply IHq; auto|auto].
  - eapply pt_eq_trans; [apply pt_eq_sym; eauto|]. now apply IH.
Qed.

(* ------------------------------------------------------------------ exact square roots, segment length *)
Lemma qsqrt_spec : forall q r, qsqrt q = Some r -> (r * r == q)%Q /\ (0 <= r)%Q.
Proof.
  unfold qsqrt. intros q r H. pose proof (Qred_correct q) as Hred.
  destruct (Qred q) as [n d]. cbn [Qnum Qden] in H.
  destruct ((0 <=? n) && (Z.sqrt n * Z.sqrt n =? n) && (Z.sqrt (Z.pos d) * Z.sqrt (Z.pos d) =? Z.pos d)) eqn:E;
    [|discriminate].
  inversion H; subst r; clear H.
  apply andb_prop in E. destruct E as [E E3]. apply andb_prop in E. destruct E as [E1 E2].
  apply Z.leb_le in E1. apply Z.eqb_eq in E2. apply Z.eqb_eq in E3.
  set (a := Z.sqrt n) in *. set (b := Z.sqrt (Z.pos d)) in *.
  assert (Hb : 0 < b).
  { assert (0 <= b) by apply Z.sqrt_nonneg. destruct (Z.eq_dec b 0) as [Hz|]; [|lia].
    rewrite Hz in E3. simpl in E3. lia. }
  assert (Ha : 0 <= a) by apply Z.sqrt_nonneg.
  split.
  - rewrite <- Hred. unfold Qeq, Qmult. cbn [Qnum Qden].
    rewrite Pos2Z.inj_mul. change (Z.pos (Pos.sqrt d)) with (Z.sqrt (Z.pos d)). fold b.
    rewrite E2, E3. reflexivity.
  - unfold Qle. cbn [Qnum Qden]. lia.
Qed.

Example qsqrt_example : qsqrt (25 # 4) = Some (5 # 2)%Q.
Proof. reflexivity. Qed.

(* the length of a segment is the Euclidean distance between its effective proximal point and its distal *)
Theorem seg_length_spec : forall c s l, wf c -> root_has_prox c -> In s c ->
  seg_length (fuel_of c) c (sid s) = Ok l ->
  exists p, ActProx c (sid s) p /\ (l * l == sqdist p (sdist s))%Q /\ (0 <= l)%Q.
Proof.
  intros c s l Hwf Hroot Hs H. unfold seg_length in H.
  rewrite (get_segment_nodup c s (wf_nodup c Hwf) Hs) in H. cbn [bind] in H.
  destruct (actual_prox_spec c s Hwf Hroot Hs) as [p [Hp Hap]].
  destruct (sprox s) as [p0|] eqn:Ep.
  - cbn [bind] in H. destruct (qsqrt (sqdist p0 (sdist s))) as [r|] eqn:E; [|discriminate].
    inversion H; subst r. exists p0. split; [now apply AP_own|]. now apply qsqrt_spec.
  - rewrite Hp in H. cbn [bind] in H. destruct (qsqrt (sqdist p (sdist s))) as [r|] eqn:E; [|discriminate].
    inversion H; subst r. exists p. split; auto. now apply qsqrt_spec.
Qed.

(* ------------------------------------------------------------------ distance from the root *)
Lemma DistRoot_unique : forall len c, NoDup (ids c) ->
  forall id d, DistRoot len c id d -> forall e, DistRoot len c id e -> (d == e)%Q.
Proof.
  intros len c Hnd id d H. induction H as [s Hs Hp|s p f d Hs Hp Hd IH|id d d' H IH Heq]; intros e He.
  - remember (sid s) as id eqn:Eid. induction He as [s' Hs' Hp'|s' p' f' d' Hs' Hp' _ _|id e e' He IHe Heq'].
    + reflexivity.
    + assert (s' = s) by (eapply nodup_same_id; eauto). subst s'. congruence.
    + rewrite <- Heq'. now apply IHe.
  - remember (sid s) as id eqn:Eid. induction He as [s' Hs' Hp'|s' p' f' d' Hs' Hp' Hd' _|id e e' He IHe Heq'].
    + assert (s' = s) by (eapply nodup_same_id; eauto). subst s'. congruence.
    + assert (s' = s) by (eapply nodup_same_id; eauto). subst s'.
      rewrite Hp in Hp'. inversion Hp'; subst p' f'. rewrite (IH d' Hd'). reflexivity.
    + rewrite <- Heq'. now apply IHe.
  - rewrite <- Heq. now apply IH.
Qed.

Lemma DistRoot_exists : forall len c id n, Rooted c id n -> exists d, DistRoot len c id d.
Proof.
  intros len c id n H. induction H as [s Hs Hp|s p f n Hs Hp Hr [d IH]].
  - exists 0%Q. now apply DR_root.
  - exists (d + len p * f)%Q. eapply DR_kid; eauto.
Qed.

(* the while loop of get_ordered_segments_in_groups that walks up to the root *)
Lemma walk_up_rooted : forall len c, NoDup (ids c) ->
  forall id n, Rooted c id n -> forall fuel last acc, (n <= fuel)%nat -> In last c -> sid last = id ->
  exists r d, walk_up fuel len c last acc = Ok r /\ DistRoot len c id d /\ (r == acc + d)%Q.
Proof.
  intros len c Hnd id n H. induction H as [s Hs Hp|s p f n Hs Hp Hr IH]; intros fuel last acc Hf Hl Hid.
  - assert (last = s) by (eapply nodup_same_id; eauto). subst last.
    exists acc, 0%Q. repeat split.
    + destruct fuel; simpl; now rewrite Hp.
    + now apply DR_root.
    + ring.
  - assert (last = s) by (eapply nodup_same_id; eauto). subst last.
    destruct fuel as [|k]; [lia|]. simpl. rewrite Hp.
    destruct (Rooted_in _ _ _ Hr) as [par [Hpar Hpid]].
    rewrite <- Hpid. rewrite (find_seg_nodup c par Hnd Hpar).
    destruct (IH k par (acc + len (sid par) * f)%Q ltac:(lia) Hpar Hpid) as [r [d [Hw [Hd Hr']]]].
    exists r, (d + len p * f)%Q. repeat split; auto.
    + eapply DR_kid; eauto.
    + rewrite Hr'. rewrite Hpid. ring.
Qed.

Theorem walk_up_spec : forall len c s, wf c -> In s c ->
  exists r, walk_up (fuel_of c) len c s 0 = Ok r /\ DistRoot len c (sid s) r.
Proof.
  intros len c s Hwf Hs. destruct (wf_rooted c s Hwf Hs) as [n [Hn Hlt]].
  destruct (walk_up_rooted len c (wf_nodup c Hwf) _ _ Hn (fuel_of c) s 0%Q ltac:(unfold fuel_of; lia) Hs eq_refl)
    as [r [d [Hw [Hd Hr]]]].
  exists r. split; auto. eapply DR_eq; eauto. rewrite Hr. ring.
Qed.

Lemma DistRoot_total : forall len c s, wf c -> In s c -> exists d, DistRoot len c (sid s) d.
Proof.
  intros len c s Hwf Hs. destruct (wf_rooted c s Hwf Hs) as [n [Hn _]]. eapply DistRoot_exists; eauto.
Qed.
