(* Round trip of the bindings model, part 1: association lists, boolean reflection, unfolding lemmas. *)
From Coq Require Import String List ZArith Bool Lia Permutation.
From LNML Require Import Lib.Dec Model.Gds Model.GdsWf.
Import ListNotations.
Open Scope string_scope.

(* ------------------------------------------------------------------ mem / nodupb *)
Lemma mem_In k l : mem k l = true <-> In k l.
Proof.
  induction l as [|x l IH]; simpl.
  - split; [discriminate | tauto].
  - rewrite orb_true_iff, IH, String.eqb_eq. tauto.
Qed.

Lemma mem_false_In k l : mem k l = false <-> ~ In k l.
Proof. rewrite <- mem_In. destruct (mem k l); split; congruence. Qed.

Lemma nodupb_NoDup l : nodupb l = true -> NoDup l.
Proof.
  induction l as [|x l IH]; simpl; intro H; [constructor|].
  apply andb_true_iff in H as [H1 H2]. apply negb_true_iff, mem_false_In in H1.
  constructor; auto.
Qed.

(* ------------------------------------------------------------------ lookup *)
Lemma lookup_In {A} k (l : list (string * A)) v : lookup k l = Some v -> In (k, v) l.
Proof.
  induction l as [|[k' v'] l IH]; simpl; [discriminate|].
  destruct (String.eqb k' k) eqn:E.
  - apply String.eqb_eq in E. intro H. inversion H. subst. auto.
  - auto.
Qed.

Lemma lookup_None {A} k (l : list (string * A)) : lookup k l = None <-> ~ In k (map fst l).
Proof.
  induction l as [|[k' v'] l IH]; simpl; [tauto|].
  destruct (String.eqb k' k) eqn:E.
  - apply String.eqb_eq in E. split; [discriminate | intro H; exfalso; auto].
  - apply String.eqb_neq in E. rewrite IH. tauto.
Qed.

Lemma lookup_in_keys {A} k (l : list (string * A)) : In k (map fst l) -> exists v, lookup k l = Some v.
Proof.
  intro H. destruct (lookup k l) eqn:E; eauto. apply lookup_None in E. contradiction.
Qed.

Lemma lookup_some_keys {A} k (l : list (string * A)) v : lookup k l = Some v -> In k (map fst l).
Proof. intro H. apply lookup_In in H. apply (in_map fst) in H. exact H. Qed.

Lemma In_lookup {A} k v (l : list (string * A)) : NoDup (map fst l) -> In (k, v) l -> lookup k l = Some v.
Proof.
  induction l as [|[k' v'] l IH]; simpl; intros ND H; [contradiction|].
  inversion ND as [|? ? Hn ND']; subst.
  destruct H as [H|H].
  - inversion H; subst. rewrite String.eqb_refl. reflexivity.
  - destruct (String.eqb k' k) eqn:E.
    + apply String.eqb_eq in E. subst. exfalso. apply Hn. apply (in_map fst) in H. exact H.
    + auto.
Qed.

Lemma lookup_map_snd {A B} (g : A -> B) k (l : list (string * A)) :
  lookup k (map (fun nv => (fst nv, g (snd nv))) l) = option_map g (lookup k l).
Proof.
  induction l as [|[k' v'] l IH]; simpl; [reflexivity|]. destruct (String.eqb k' k); auto.
Qed.

Lemma keys_map_snd {A B} (g : A -> B) (l : list (string * A)) :
  map fst (map (fun nv => (fst nv, g (snd nv))) l) = map fst l.
Proof. rewrite map_map. reflexivity. Qed.

(* two association lists with the same duplicate-free keys and equal lookups are equal *)
Lemma assoc_ext {A} (l1 : list (string * A)) : forall l2,
  map fst l1 = map fst l2 -> NoDup (map fst l1) ->
  (forall k, In k (map fst l1) -> lookup k l1 = lookup k l2) -> l1 = l2.
Proof.
  induction l1 as [|[k v] l1 IH]; intros [|[k2 v2] l2] HK ND HL; simpl in HK; try discriminate; auto.
  inversion HK; subst. simpl in ND. inversion ND as [|? ? Hn ND']; subst.
  assert (v = v2).
  { specialize (HL k2 (or_introl eq_refl)). simpl in HL. rewrite String.eqb_refl in HL. congruence. }
  subst. f_equal. apply IH; auto.
  intros k Hk. specialize (HL k (or_intror Hk)). simpl in HL.
  destruct (String.eqb k2 k) eqn:E; auto.
  apply String.eqb_eq in E. subst. contradiction.
Qed.

Lemma lookup_perm {A} (a a' : list (string * A)) :
  Permutation a a' -> NoDup (map fst a) -> forall k, lookup k a = lookup k a'.
Proof.
  induction 1 as [| [k0 v0] l l' HP IH | [k1 v1] [k2 v2] l | l l' l'' HP1 IH1 HP2 IH2]; intros ND k.
  - reflexivity.
  - simpl. simpl in ND. inversion ND; subst. rewrite IH; auto.
  - simpl in *. inversion ND as [|? ? Hn ND']; subst.
    destruct (String.eqb k1 k) eqn:E1, (String.eqb k2 k) eqn:E2; auto.
    apply String.eqb_eq in E1, E2. subst. exfalso. apply Hn. left. reflexivity.
  - rewrite IH1 by assumption. apply IH2.
    eapply Permutation_NoDup; [|exact ND]. apply Permutation_map. assumption.
Qed.

(* ------------------------------------------------------------------ find *)
Lemma find_unique {A} (g : A -> string) (l : list A) a :
  NoDup (map g l) -> In a l -> find (fun x => String.eqb (g x) (g a)) l = Some a.
Proof.
  induction l as [|x l IH]; simpl; intros ND H; [contradiction|].
  inversion ND as [|? ? Hn ND']; subst.
  destruct H as [H|H].
  - subst. rewrite String.eqb_refl. reflexivity.
  - destruct (String.eqb (g x) (g a)) eqn:E; auto.
    apply String.eqb_eq in E. exfalso. apply Hn. rewrite E. apply in_map. assumption.
Qed.

Lemma find_key_some {A} (g : A -> string) (l : list A) k a :
  find (fun x => String.eqb (g x) k) l = Some a -> In a l /\ g a = k.
Proof. intro H. apply find_some in H as [H1 H2]. apply String.eqb_eq in H2. auto. Qed.

Lemma find_key_none {A} (g : A -> string) (l : list A) k :
  find (fun x => String.eqb (g x) k) l = None -> ~ In k (map g l).
Proof.
  intros H Hin. apply in_map_iff in Hin as (x & Hx & Hin).
  pose proof (find_none _ _ H x Hin) as Hf. simpl in Hf. subst. rewrite String.eqb_refl in Hf. discriminate.
Qed.

Lemma inj_on_NoDup {A} (g : A -> string) (l : list A) a b :
  NoDup (map g l) -> In a l -> In b l -> g a = g b -> a = b.
Proof.
  intros ND Ha Hb E. pose proof (find_unique g l a ND Ha) as Fa.
  pose proof (find_unique g l b ND Hb) as Fb. rewrite E in Fa. congruence.
Qed.

Lemma find_branch_find tag bks : find_branch tag bks = find (fun b => String.eqb (bk_tag b) tag) bks.
Proof. induction bks as [|b r IH]; simpl; [reflexivity|]. destruct (String.eqb (bk_tag b) tag); auto. Qed.

(* ------------------------------------------------------------------ flat_opt / all_opt / fold *)
Lemma fold_left_none {A B} (step : option A -> B -> option A) (l : list B) :
  (forall b, step None b = None) -> fold_left step l None = None.
Proof. intro H. induction l; simpl; auto. rewrite H. assumption. Qed.

(* ------------------------------------------------------------------ set_field *)
Section Fields.
Variable F : Type.
Notation value := (value F).

Lemma lookup_set_same k (v : value) l : lookup k (set_field F k v l) = Some v.
Proof.
  induction l as [|[k' v'] l IH]; simpl.
  - rewrite String.eqb_refl. reflexivity.
  - destruct (String.eqb k' k) eqn:E; simpl.
    + rewrite String.eqb_refl. reflexivity.
    + rewrite E. assumption.
Qed.

Lemma lookup_set_other k k' (v : value) l : k' <> k -> lookup k' (set_field F k v l) = lookup k' l.
Proof.
  intro N. induction l as [|[k0 v0] l IH]; simpl.
  - destruct (String.eqb k k') eqn:E; auto. apply String.eqb_eq in E. congruence.
  - destruct (String.eqb k0 k) eqn:E; simpl.
    + apply String.eqb_eq in E. subst.
      destruct (String.eqb k k') eqn:E'; auto. apply String.eqb_eq in E'. congruence.
    + rewrite IH. reflexivity.
Qed.

Lemma keys_set_field k (v : value) l : In k (map fst l) -> map fst (set_field F k v l) = map fst l.
Proof.
  induction l as [|[k0 v0] l IH]; simpl; intro H; [contradiction|].
  destruct (String.eqb k0 k) eqn:E; simpl.
  - apply String.eqb_eq in E. subst. reflexivity.
  - apply String.eqb_neq in E. destruct H as [H|H]; [congruence|]. rewrite IH; auto.
Qed.

Lemma set_field_same k (v : value) l : NoDup (map fst l) -> lookup k l = Some v -> set_field F k v l = l.
Proof.
  intros ND H. apply assoc_ext.
  - apply keys_set_field. eapply lookup_some_keys; eauto.
  - rewrite keys_set_field; [assumption|]. eapply lookup_some_keys; eauto.
  - intros k' _. destruct (string_dec k' k) as [->|N].
    + rewrite lookup_set_same. auto.
    + apply lookup_set_other; assumption.
Qed.

(* same_keys of typedb as a top-level function *)
Fixpoint same_keys (l1 : list (string * value)) (l2 : list (string * lit)) : bool :=
  match l1, l2 with
  | [], [] => true
  | (a, _) :: r1, (b, _) :: r2 => String.eqb a b && same_keys r1 r2
  | _, _ => false
  end.

Lemma same_keys_eq l1 : forall l2, same_keys l1 l2 = true -> map fst l1 = map fst l2.
Proof.
  induction l1 as [|[a v] l1 IH]; intros [|[b d] l2] H; simpl in H; try discriminate; auto.
  apply andb_true_iff in H as [H1 H2]. apply String.eqb_eq in H1. subst. simpl. f_equal. auto.
Qed.

End Fields.

Lemma find_key_not_in {A} (g : A -> string) (l : list A) k :
  ~ In k (map g l) -> find (fun x => String.eqb (g x) k) l = None.
Proof.
  induction l as [|x l IH]; simpl; intro H; [reflexivity|].
  destruct (String.eqb (g x) k) eqn:E.
  - apply String.eqb_eq in E. exfalso. auto.
  - apply IH. tauto.
Qed.

Lemma existsb_false {A} (p : A -> bool) l : existsb p l = false -> forall x, In x l -> p x = false.
Proof.
  induction l as [|y l IH]; simpl; intros H x Hx; [contradiction|].
  apply orb_false_iff in H as [H1 H2]. destruct Hx as [<-|Hx]; auto.
Qed.
