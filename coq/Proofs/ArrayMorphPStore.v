(* C18 proofs, part 3: the array file format.  Writer and loader over the reference store (any iteration order that
   is a permutation), then over ANY store that refines it (PyTables = Section hypotheses). *)
From Coq Require Import String List ZArith Bool Lia Permutation.
From LNML Require Import Model.ArrayMorph.
Import ListNotations.

(* ------------------------------------------------------------------ paths *)
Lemma path_eqb_eq : forall a b, path_eqb a b = true <-> a = b.
Proof.
  induction a as [|x a IH]; intros [|y b]; simpl; split; intros H; try discriminate; auto.
  - apply andb_true_iff in H. destruct H as [H1 H2]. apply String.eqb_eq in H1. apply IH in H2. congruence.
  - inversion H; subst. apply andb_true_iff. split; [apply String.eqb_refl|now apply IH].
Qed.

Lemma path_eqb_refl : forall p, path_eqb p p = true.
Proof. intros p. now apply path_eqb_eq. Qed.

Lemma path_eqb_neq : forall a b, a <> b -> path_eqb a b = false.
Proof. intros a b H. destruct (path_eqb a b) eqn:E; auto. apply path_eqb_eq in E. contradiction. Qed.

Lemma app_one_neq : forall (p : path) x, p <> (p ++ [x])%list.
Proof. intros p x H. apply (f_equal (@length string)) in H. rewrite app_length in H. simpl in H. lia. Qed.

Lemma NoDup_app_l : forall (A : Type) (l l' : list A), NoDup (l ++ l') -> NoDup l.
Proof.
  intros A l l'. induction l' as [|a l' IH]; intros H.
  - now rewrite app_nil_r in H.
  - apply IH. eapply NoDup_remove_1; eauto.
Qed.

Lemma existsb_eqb_in : forall n l, existsb (String.eqb n) l = true <-> In n l.
Proof.
  intros n l. rewrite existsb_exists. split.
  - intros [x [Hx He]]. apply String.eqb_eq in He. now subst.
  - intros H. exists n. split; auto. apply String.eqb_refl.
Qed.

Lemma existsb_eqb_notin : forall n l, ~ In n l -> existsb (String.eqb n) l = false.
Proof. intros n l H. destruct (existsb (String.eqb n) l) eqn:E; auto. apply existsb_eqb_in in E. contradiction. Qed.

(* ------------------------------------------------------------------ sequencing *)
Lemma sequence_map_some : forall (A B : Type) (g : A -> option B) (h : A -> B) l,
    (forall x, In x l -> g x = Some (h x)) -> sequence (map g l) = Some (map h l).
Proof.
  induction l as [|a l IH]; intros H; simpl; auto.
  rewrite (H a (or_introl eq_refl)). simpl. rewrite IH; auto. intros x Hx. apply H. now right.
Qed.

Lemma concat_singletons : forall (A B : Type) (k : A -> B) l, concat (map (fun t => [k t]) l) = map k l.
Proof. induction l as [|a l IH]; simpl; auto. now rewrite IH. Qed.

Section StoreP.
  Variable V : Type.
  Notation amorph := (amorph V).
  Notation fstore := (fstore V).
  Notation item := (item V).
  Notation adoc := (adoc V).
  Notation IGroup := (IGroup V).
  Notation IArr := (IArr V).
  Notation f_upd := (f_upd V).
  Notation f_create := (f_create V).
  Notation f_read := (f_read V).
  Notation f_item := (f_item V).
  Notation f_names := (f_names V).
  Notation group_name := (group_name V).
  Notation with_default_id := (with_default_id V).
  Notation strip := (strip V).

  (* ---------------------------------------------------------------- one create *)
  Lemma f_create_ok : forall (f : fstore) p n it,
      f_is_group V f p = true -> ~ In n (f_names f p) -> f_create f p n it = Some (f_upd f p n it).
  Proof.
    intros f p n it Hg Hn. unfold f_create. rewrite Hg, existsb_eqb_notin by auto. reflexivity.
  Qed.

  Lemma f_create_dup : forall (f : fstore) p n it, In n (f_names f p) -> f_create f p n it = None.
  Proof.
    intros f p n it Hn. unfold f_create. apply existsb_eqb_in in Hn. rewrite Hn.
    now rewrite andb_false_r.
  Qed.

  Lemma f_create_some : forall (f f' : fstore) p n it, f_create f p n it = Some f' -> f' = f_upd f p n it.
  Proof. intros f f' p n it H. unfold f_create in H. destruct (_ && _); congruence. Qed.

  Lemma upd_names_other : forall (f : fstore) p n it q, q <> p -> f_names (f_upd f p n it) q = f_names f q.
  Proof. intros. simpl. now rewrite path_eqb_neq. Qed.

  Lemma upd_names_same : forall (f : fstore) p n it, f_names (f_upd f p n it) p = (f_names f p ++ [n])%list.
  Proof. intros. simpl. now rewrite path_eqb_refl. Qed.

  Lemma upd_item_other : forall (f : fstore) p n it q, q <> (p ++ [n])%list -> f_item (f_upd f p n it) q = f_item f q.
  Proof. intros. simpl. now rewrite path_eqb_neq. Qed.

  Lemma upd_item_same : forall (f : fstore) p n it, f_item (f_upd f p n it) (p ++ [n])%list = Some it.
  Proof. intros. simpl. now rewrite path_eqb_refl. Qed.

  (* ---------------------------------------------------------------- the three arrays *)
  Definition arrays_upd (f : fstore) (p : path) (m : amorph) : fstore :=
    f_upd (f_upd (f_upd f p "vertices"%string (IArr (AVerts V (am_vertices m))))
                 p "connectivity"%string (IArr (AConn V (am_conn m))))
          p "physical_mask"%string (IArr (AMask V (am_mask m))).

  Notation wa := (write_arrays V fstore (f_mkarray V)).
  Notation ws := (write_single V fstore (f_mkgroup V) (f_mkarray V)).

  Lemma is_group_item : forall (f : fstore) p, p <> [] -> f_item f p = Some IGroup -> f_is_group V f p = true.
  Proof. intros f [|x p] Hp H; [congruence|]. unfold f_is_group. now rewrite H. Qed.

  Lemma write_arrays_ok : forall (f : fstore) p m,
      p <> [] -> f_item f p = Some IGroup -> f_names f p = [] -> wa f p m = Some (arrays_upd f p m).
  Proof.
    intros f p m Hp Hg Hn. unfold write_arrays, f_mkarray, arrays_upd.
    rewrite f_create_ok; [|now apply is_group_item|rewrite Hn; intros []].
    simpl bind.
    rewrite f_create_ok.
    - simpl bind. rewrite f_create_ok; auto.
      + apply is_group_item; auto. rewrite !upd_item_other by apply app_one_neq. auto.
      + rewrite !upd_names_same, Hn. simpl. intros [H|[H|[]]]; discriminate.
    - apply is_group_item; auto. rewrite upd_item_other by apply app_one_neq. auto.
    - rewrite upd_names_same, Hn. simpl. intros [H|[]]; discriminate.
  Qed.

  (* what can be read back under p after the three arrays were written *)
  Definition reads_ok (f : fstore) (p : path) (m : amorph) : Prop :=
    f_read f (p ++ ["physical_mask"%string]) = Some (AMask V (am_mask m)) /\
    f_read f (p ++ ["vertices"%string]) = Some (AVerts V (am_vertices m)) /\
    f_read f (p ++ ["connectivity"%string]) = Some (AConn V (am_conn m)).

  Lemma app_inj_last : forall (p : path) a b, (p ++ [a])%list = (p ++ [b])%list -> a = b.
  Proof. intros p a b H. apply app_inj_tail in H. tauto. Qed.

  Lemma arrays_upd_reads : forall (f : fstore) p m, reads_ok (arrays_upd f p m) p m.
  Proof.
    intros f p m. unfold reads_ok, arrays_upd, ArrayMorph.f_read. repeat split.
    - now rewrite upd_item_same.
    - rewrite !upd_item_other by (intros H; apply app_inj_last in H; discriminate).
      now rewrite upd_item_same.
    - rewrite upd_item_other by (intros H; apply app_inj_last in H; discriminate).
      now rewrite upd_item_same.
  Qed.

  Lemma arrays_upd_names : forall (f : fstore) p m q,
      f_names (arrays_upd f p m) q =
      if path_eqb q p then (f_names f p ++ ["vertices"; "connectivity"; "physical_mask"]%string)%list else f_names f q.
  Proof.
    intros f p m q. unfold arrays_upd. simpl. destruct (path_eqb q p) eqn:E; auto.
    rewrite !path_eqb_refl. rewrite <- !app_assoc. reflexivity.
  Qed.

  Lemma arrays_upd_item_other : forall (f : fstore) p m q,
      (forall x, q <> (p ++ [x])%list) -> f_item (arrays_upd f p m) q = f_item f q.
  Proof. intros f p m q H. unfold arrays_upd. now rewrite !upd_item_other by apply H. Qed.

  (* ---------------------------------------------------------------- entries: what the writer creates per morphology *)
  Inductive entry : Type :=
  | ECell (top name : string) (m : amorph)     (* /top/name/{vertices,connectivity,physical_mask} *)
  | EMorph (top : string) (m : amorph).        (* /top/{vertices,connectivity,physical_mask}      *)

  Definition e_top (e : entry) : string := match e with ECell t _ _ => t | EMorph t _ => t end.
  Definition e_morph (e : entry) : amorph := match e with ECell _ _ m => m | EMorph _ m => m end.

  Definition entry_ok (f : fstore) (e : entry) : Prop :=
    match e with
    | ECell t n m => f_names f [t] = [n] /\ reads_ok f [t; n] m
    | EMorph t m => f_names f [t] = ["vertices"; "connectivity"; "physical_mask"]%string /\ reads_ok f [t] m
    end.

  (* the loader tells a morphology group from a cell group by a child called "vertices" *)
  Definition entry_wf (e : entry) : Prop :=
    match e with ECell _ n _ => n <> "vertices"%string | EMorph _ _ => True end.

  Definition tops (es : list entry) : list string := map e_top es.

  (* the store after the entries es have been written, in this order *)
  Definition holds (f : fstore) (es : list entry) : Prop :=
    f_names f [] = tops es /\
    (forall q t, hd_error q = Some t -> ~ In t (tops es) -> f_names f q = []) /\
    (forall e, In e es -> entry_ok f e).

  Lemma holds_empty : holds (f_empty V) [].
  Proof. repeat split; auto. intros e []. Qed.

  Definition entry_upd (f : fstore) (e : entry) : fstore :=
    match e with
    | ECell t n m => arrays_upd (f_upd (f_upd f [] t IGroup) [t] n IGroup) [t; n] m
    | EMorph t m => arrays_upd (f_upd f [] t IGroup) [t] m
    end.

  Definition write_entry (f : fstore) (e : entry) : option fstore :=
    match e with
    | ECell t n m => bind (f_mkgroup V f [] t) (fun f1 => bind (f_mkgroup V f1 [t] n) (fun f2 => wa f2 [t; n] m))
    | EMorph t m => bind (f_mkgroup V f [] t) (fun f1 => wa f1 [t] m)
    end.

  Lemma write_entry_ok : forall (f : fstore) es e,
      holds f es -> ~ In (e_top e) (tops es) -> write_entry f e = Some (entry_upd f e).
  Proof.
    intros f es e [HA [HB HC]] Hfresh. destruct e as [t n m|t m]; simpl in *.
    - unfold f_mkgroup. rewrite f_create_ok; [|reflexivity|now rewrite HA]. simpl bind.
      rewrite f_create_ok.
      + simpl bind. apply write_arrays_ok; [discriminate| |].
        * change [t; n] with ([t] ++ [n])%list. now rewrite upd_item_same.
        * rewrite !upd_names_other by discriminate. apply (HB [t; n] t); auto.
      + apply is_group_item; [discriminate|]. change [t] with ([] ++ [t])%list. now rewrite upd_item_same.
      + rewrite upd_names_other by discriminate. rewrite (HB [t] t); auto.
    - unfold f_mkgroup. rewrite f_create_ok; [|reflexivity|now rewrite HA]. simpl bind.
      apply write_arrays_ok; [discriminate| |].
      + change [t] with ([] ++ [t])%list. now rewrite upd_item_same.
      + rewrite upd_names_other by discriminate. apply (HB [t] t); auto.
  Qed.

  (* names and items outside the new entry's subtree are untouched *)
  Lemma entry_upd_names_other : forall (f : fstore) e q t,
      hd_error q = Some t -> t <> e_top e -> f_names (entry_upd f e) q = f_names f q.
  Proof.
    intros f e q t Hq Hne. destruct q as [|x q]; [discriminate|]. simpl in Hq. inversion Hq; subst x.
    destruct e as [t' n m|t' m]; unfold entry_upd; simpl e_top in *.
    - rewrite arrays_upd_names. rewrite path_eqb_neq by congruence.
      rewrite !upd_names_other by congruence. reflexivity.
    - rewrite arrays_upd_names. rewrite path_eqb_neq by congruence.
      rewrite !upd_names_other by congruence. reflexivity.
  Qed.

  Lemma entry_upd_names_root : forall (f : fstore) e, f_names (entry_upd f e) [] = (f_names f [] ++ [e_top e])%list.
  Proof.
    intros f e. destruct e as [t n m|t m]; unfold entry_upd; simpl e_top.
    - rewrite arrays_upd_names. rewrite path_eqb_neq by discriminate.
      rewrite upd_names_other by discriminate. now rewrite upd_names_same.
    - rewrite arrays_upd_names. rewrite path_eqb_neq by discriminate. now rewrite upd_names_same.
  Qed.

  Lemma entry_upd_item_other : forall (f : fstore) e q t,
      hd_error q = Some t -> t <> e_top e -> f_item (entry_upd f e) q = f_item f q.
  Proof.
    intros f e q t Hq Hne. destruct q as [|x q]; [discriminate|]. simpl in Hq. inversion Hq; subst x.
    destruct e as [t' n m|t' m]; unfold entry_upd; simpl e_top in *.
    - rewrite arrays_upd_item_other by (intros y; simpl; congruence).
      rewrite !upd_item_other by (simpl; congruence). reflexivity.
    - rewrite arrays_upd_item_other by (intros y; simpl; congruence).
      rewrite !upd_item_other by (simpl; congruence). reflexivity.
  Qed.

  Lemma reads_ok_frame : forall (f f' : fstore) p m,
      (forall x, f_item f' (p ++ [x])%list = f_item f (p ++ [x])%list) -> reads_ok f p m -> reads_ok f' p m.
  Proof. intros f f' p m H [H1 [H2 H3]]. unfold reads_ok, ArrayMorph.f_read in *. now rewrite !H. Qed.

  Lemma entry_ok_frame : forall (f : fstore) e e', e_top e <> e_top e' -> entry_ok f e -> entry_ok (entry_upd f e') e.
  Proof.
    intros f e e' Hne Hok. destruct e as [t n m|t m]; simpl in *; destruct Hok as [H1 H2]; split.
    - rewrite (entry_upd_names_other f e' [t] t); auto.
    - eapply reads_ok_frame; [|exact H2]. intros x. apply (entry_upd_item_other f e' _ t); auto.
    - rewrite (entry_upd_names_other f e' [t] t); auto.
    - eapply reads_ok_frame; [|exact H2]. intros x. apply (entry_upd_item_other f e' _ t); auto.
  Qed.

  Lemma entry_ok_new : forall (f : fstore) es e, holds f es -> ~ In (e_top e) (tops es) -> entry_ok (entry_upd f e) e.
  Proof.
    intros f es e [HA [HB HC]] Hfresh. destruct e as [t n m|t m]; unfold entry_upd, entry_ok; simpl e_top in *; split.
    - rewrite arrays_upd_names. rewrite path_eqb_neq by discriminate.
      rewrite upd_names_same. rewrite upd_names_other by discriminate. now rewrite (HB [t] t).
    - apply arrays_upd_reads.
    - rewrite arrays_upd_names. rewrite path_eqb_refl.
      rewrite upd_names_other by discriminate. now rewrite (HB [t] t).
    - apply arrays_upd_reads.
  Qed.

  Lemma holds_step : forall (f : fstore) es e,
      holds f es -> ~ In (e_top e) (tops es) -> holds (entry_upd f e) (es ++ [e]).
  Proof.
    intros f es e Hh Hfresh. pose proof Hh as [HA [HB HC]]. split; [|split].
    - rewrite entry_upd_names_root, HA. unfold tops. now rewrite map_app.
    - intros q t Hq Hnt. unfold tops in Hnt. rewrite map_app in Hnt. simpl in Hnt.
      rewrite (entry_upd_names_other f e q t); auto.
      + apply (HB q t); auto. intros Hin. apply Hnt. apply in_or_app. now left.
      + intros ->. apply Hnt. apply in_or_app. right. simpl. auto.
    - intros e0 Hin. apply in_app_or in Hin. destruct Hin as [Hin|[<-|[]]].
      + apply entry_ok_frame; auto. intros Heq. apply Hfresh. rewrite <- Heq. unfold tops. now apply in_map.
      + eapply entry_ok_new; eauto.
  Qed.

  (* ---------------------------------------------------------------- the writer's two loops as entries *)
  Fixpoint cell_entries (k : nat) (cells : list (option string * amorph)) : list entry :=
    match cells with
    | [] => []
    | (cid, m) :: t => ECell (cell_name cid k) (group_name (with_default_id m k)) (with_default_id m k)
                             :: cell_entries (S k) t
    end.

  Fixpoint morph_entries (k : nat) (ms : list amorph) : list entry :=
    match ms with
    | [] => []
    | m :: t => EMorph (group_name (with_default_id m k)) (with_default_id m k) :: morph_entries (S k) t
    end.

  Definition doc_entries (d : adoc) : list entry :=
    (cell_entries 0 (d_cells d) ++ morph_entries 0 (d_morphs d))%list.

  Lemma ws_cell : forall (f : fstore) m cid, ws f m (Some cid) = write_entry f (ECell cid (group_name m) m).
  Proof. reflexivity. Qed.

  Lemma ws_morph : forall (f : fstore) m, ws f m None = write_entry f (EMorph (group_name m) m).
  Proof. reflexivity. Qed.

  Lemma NoDup_app_head : forall (es : list entry) e rest,
      NoDup (tops (es ++ e :: rest)) -> ~ In (e_top e) (tops es) /\ NoDup (tops ((es ++ [e]) ++ rest)).
  Proof.
    intros es e rest H. split.
    - unfold tops in *. rewrite map_app in H. simpl in H. apply NoDup_remove_2 in H.
      intros Hin. apply H. apply in_or_app. now left.
    - now rewrite <- app_assoc.
  Qed.

  Notation wcells := (write_cells V fstore (f_mkgroup V) (f_mkarray V)).
  Notation wmorphs := (write_morphs V fstore (f_mkgroup V) (f_mkarray V)).

  Lemma write_cells_cons : forall (f : fstore) k last cid m t,
      wcells f k last ((cid, m) :: t) =
      bind (ws f (with_default_id m k) (Some (cell_name cid k)))
           (fun s1 => wcells s1 (S k) (Some (cell_name cid k)) t).
  Proof. reflexivity. Qed.

  Lemma write_morphs_cons : forall (f : fstore) k m t,
      wmorphs f k (m :: t) = bind (ws f (with_default_id m k) None) (fun s1 => wmorphs s1 (S k) t).
  Proof. reflexivity. Qed.

  Lemma write_cells_ok : forall cells k (f : fstore) last es,
      holds f es -> NoDup (tops (es ++ cell_entries k cells)) ->
      exists f' last', write_cells V fstore (f_mkgroup V) (f_mkarray V) f k last cells = Some (f', last') /\
                       holds f' (es ++ cell_entries k cells).
  Proof.
    induction cells as [|[cid m] cells IH]; intros k f last es Hh Hnd.
    - simpl. rewrite app_nil_r. eauto.
    - simpl cell_entries in *. rewrite write_cells_cons.
      destruct (NoDup_app_head _ _ _ Hnd) as [Hfresh Hnd'].
      rewrite ws_cell. rewrite (write_entry_ok f es) by auto. simpl bind.
      destruct (IH (S k) _ (Some (cell_name cid k)) _ (holds_step _ _ _ Hh Hfresh) Hnd') as [f' [last' [H1 H2]]].
      exists f', last'. split; auto. now rewrite <- app_assoc in H2.
  Qed.

  Lemma write_morphs_ok : forall ms k (f : fstore) es,
      holds f es -> NoDup (tops (es ++ morph_entries k ms)) ->
      exists f', write_morphs V fstore (f_mkgroup V) (f_mkarray V) f k ms = Some f' /\
                 holds f' (es ++ morph_entries k ms).
  Proof.
    induction ms as [|m ms IH]; intros k f es Hh Hnd.
    - simpl. rewrite app_nil_r. eauto.
    - simpl morph_entries in *. rewrite write_morphs_cons.
      destruct (NoDup_app_head _ _ _ Hnd) as [Hfresh Hnd'].
      rewrite ws_morph. rewrite (write_entry_ok f es) by auto. simpl bind.
      destruct (IH (S k) _ _ (holds_step _ _ _ Hh Hfresh) Hnd') as [f' [H1 H2]].
      exists f'. split; auto. now rewrite <- app_assoc in H2.
  Qed.

  Lemma write_document_ok : forall d : adoc, NoDup (tops (doc_entries d)) ->
      exists f, l_write_document V d = Some f /\ holds f (doc_entries d).
  Proof.
    intros d Hnd. unfold l_write_document, write_document, doc_entries in *.
    assert (Hc : NoDup (tops ([] ++ cell_entries 0 (d_cells d)))).
    { simpl. unfold tops in *. rewrite map_app in Hnd. eapply NoDup_app_l; eauto. }
    destruct (write_cells_ok (d_cells d) 0 (f_empty V) None [] holds_empty Hc) as [f1 [last [H1 H2]]].
    rewrite H1. simpl bind. simpl app in H2.
    destruct (write_morphs_ok (d_morphs d) 0 f1 _ H2 Hnd) as [f2 [H3 H4]].
    exists f2. auto.
  Qed.

  (* ---------------------------------------------------------------- the loader *)
  Section Load.
    Variable order : list string -> list string.
    Hypothesis order_perm : forall l, Permutation (order l) l.

    Notation ld := (load V fstore (f_children V order) f_read).
    Notation ex := (extract V fstore f_read).

    Lemma extract_ok : forall (f : fstore) p m, reads_ok f p m -> ex f p = Some (strip m).
    Proof. intros f p m [H1 [H2 H3]]. unfold extract. now rewrite H1, H2, H3. Qed.

    Definition per_top (f : fstore) (name : string) : option (list amorph) :=
      if existsb (String.eqb "vertices"%string) (f_children V order f [name])
      then bind (ex f [name]) (fun m => Some [m])
      else sequence (map (fun mn => ex f [name; mn]) (f_children V order f [name])).

    Lemma per_top_ok : forall (f : fstore) e, entry_ok f e -> entry_wf e ->
        per_top f (e_top e) = Some [strip (e_morph e)].
    Proof.
      intros f e Hok Hwf. unfold per_top, f_children. destruct e as [t n m|t m]; unfold entry_ok, entry_wf, e_top, e_morph in *; destruct Hok as [H1 H2].
      - rewrite H1.
        assert (Ho : order [n] = [n]) by (apply Permutation_length_1_inv; apply Permutation_sym; apply order_perm).
        rewrite Ho. rewrite existsb_eqb_notin by (intros [Heq|[]]; apply Hwf; auto).
        cbn [map sequence]. rewrite (extract_ok f [t; n] m H2). reflexivity.
      - rewrite H1.
        replace (existsb (String.eqb "vertices"%string) (order ["vertices"; "connectivity"; "physical_mask"]%string)) with true.
        + rewrite (extract_ok f [t] m H2). reflexivity.
        + symmetry. apply existsb_eqb_in. eapply Permutation_in; [apply Permutation_sym; apply order_perm|]. simpl; auto.
    Qed.

    Definition dummy : amorph := {| am_id := None; am_vertices := []; am_conn := []; am_mask := [] |}.

    Definition entry_for (es : list entry) (t : string) : entry :=
      match find (fun e => String.eqb (e_top e) t) es with Some e => e | None => EMorph t dummy end.

    Lemma entry_for_in : forall es t, In t (tops es) -> In (entry_for es t) es /\ e_top (entry_for es t) = t.
    Proof.
      intros es t Hin. unfold entry_for.
      destruct (find (fun e => String.eqb (e_top e) t) es) as [e|] eqn:E.
      - apply find_some in E. destruct E as [H1 H2]. apply String.eqb_eq in H2. auto.
      - exfalso. unfold tops in Hin. apply in_map_iff in Hin. destruct Hin as [e [He Hin]].
        pose proof (find_none _ _ E e Hin) as Hf. simpl in Hf. rewrite He, String.eqb_refl in Hf. discriminate.
    Qed.

    Lemma entry_for_self : forall es, NoDup (tops es) -> map (entry_for es) (tops es) = es.
    Proof.
      induction es as [|e es IH]; intros Hnd; auto.
      simpl in Hnd. inversion Hnd as [|? ? Hn Hnd']; subst. simpl. f_equal.
      - unfold entry_for. simpl. now rewrite String.eqb_refl.
      - etransitivity; [|apply (IH Hnd')]. apply map_ext_in. intros t Ht.
        unfold entry_for. simpl.
        destruct (String.eqb (e_top e) t) eqn:E; auto.
        apply String.eqb_eq in E. subst t. contradiction.
    Qed.

    (* loading a store that holds the entries es yields them all, in the iteration order of their top names *)
    Lemma load_ok : forall (f : fstore) es,
        holds f es -> NoDup (tops es) -> (forall e, In e es -> entry_wf e) ->
        ld f = Some (map (fun t => strip (e_morph (entry_for es t))) (order (tops es))).
    Proof.
      intros f es [HA [HB HC]] Hnd Hwf. unfold load.
      change (f_children V order f []) with (order (f_names f [])). rewrite HA.
      rewrite (sequence_map_some _ _ _ (fun t => [strip (e_morph (entry_for es t))])).
      - simpl bind. now rewrite concat_singletons.
      - intros t Ht.
        assert (Hin : In t (tops es)) by (eapply Permutation_in; [apply order_perm|exact Ht]).
        destruct (entry_for_in es t Hin) as [H1 H2].
        pose proof (per_top_ok f _ (HC _ H1) (Hwf _ H1)) as Hp. rewrite H2 in Hp. exact Hp.
    Qed.

    Lemma loaded_perm : forall es, NoDup (tops es) ->
        Permutation (map (fun t => strip (e_morph (entry_for es t))) (order (tops es))) (map (fun e => strip (e_morph e)) es).
    Proof.
      intros es Hnd.
      rewrite <- (entry_for_self es Hnd) at 2. rewrite map_map.
      apply Permutation_map. apply order_perm.
    Qed.
  End Load.
End StoreP.

(* ------------------------------------------------------------------ the sorted iteration order is a permutation *)
Lemma insert_name_perm : forall x l, Permutation (insert_name x l) (x :: l).
Proof.
  induction l as [|y l IH]; simpl; auto.
  destruct (String.leb x y); auto.
  eapply perm_trans; [apply perm_skip; exact IH|apply perm_swap].
Qed.

Lemma sort_names_perm : forall l, Permutation (sort_names l) l.
Proof.
  induction l as [|x l IH]; simpl; auto.
  eapply perm_trans; [apply insert_name_perm|]. now apply perm_skip.
Qed.

(* ------------------------------------------------------------------ documents: the conditions in the model's vocabulary *)
Section Docs.
  Variable V : Type.
  Notation amorph := (amorph V).
  Notation adoc := (adoc V).

  Lemma strip_default : forall (m : amorph) k, strip V (with_default_id V m k) = strip V m.
  Proof. intros m k. unfold with_default_id. destruct (am_id m); reflexivity. Qed.

  Lemma tops_cells : forall cells k, tops V (cell_entries V k cells) = cell_top_names V k cells.
  Proof. induction cells as [|[cid m] t IH]; intros k; simpl; auto. now rewrite IH. Qed.

  Lemma tops_morphs : forall ms k, tops V (morph_entries V k ms) = morph_top_names V k ms.
  Proof. induction ms as [|m t IH]; intros k; simpl; auto. now rewrite IH. Qed.

  Lemma tops_doc : forall d : adoc, tops V (doc_entries V d) = top_names V d.
  Proof. intros d. unfold doc_entries, top_names, tops. rewrite map_app. f_equal; [apply tops_cells|apply tops_morphs]. Qed.

  Lemma wf_cells : forall cells k, ~ In "vertices"%string (cell_morph_names V k cells) ->
      forall e, In e (cell_entries V k cells) -> entry_wf V e.
  Proof.
    induction cells as [|[cid m] t IH]; intros k Hn e He; simpl in *; [contradiction|].
    destruct He as [<-|He].
    - simpl. intros Heq. apply Hn. now left.
    - apply (IH (S k)); auto.
  Qed.

  Lemma wf_morphs : forall ms k e, In e (morph_entries V k ms) -> entry_wf V e.
  Proof.
    induction ms as [|m t IH]; intros k e He; simpl in *; [contradiction|].
    destruct He as [<-|He]; [exact I|eauto].
  Qed.

  Lemma morphs_cells : forall cells k, map (fun e => strip V (e_morph V e)) (cell_entries V k cells) = map (strip V) (map snd cells).
  Proof. induction cells as [|[cid m] t IH]; intros k; simpl; auto. now rewrite IH, strip_default. Qed.

  Lemma morphs_morphs : forall ms k, map (fun e => strip V (e_morph V e)) (morph_entries V k ms) = map (strip V) ms.
  Proof. induction ms as [|m t IH]; intros k; simpl; auto. now rewrite IH, strip_default. Qed.

  Lemma morphs_doc : forall d : adoc,
      map (fun e => strip V (e_morph V e)) (doc_entries V d) = map (strip V) (doc_morphologies V d).
  Proof.
    intros d. unfold doc_entries, doc_morphologies. rewrite !map_app. now rewrite morphs_cells, morphs_morphs.
  Qed.

  (* the domain of the round-trip theorem *)
  Definition doc_ok (d : adoc) : Prop :=
    NoDup (top_names V d) /\ ~ In "vertices"%string (cell_morph_names V 0 (d_cells d)).

  (* reference store, any iteration order *)
  Theorem reference_roundtrip : forall order, (forall l, Permutation (order l) l) ->
      forall d : adoc, doc_ok d ->
      exists f ms, l_write_document V d = Some f /\
                   load V (fstore V) (f_children V order) (f_read V) f = Some ms /\
                   Permutation ms (map (strip V) (doc_morphologies V d)).
  Proof.
    intros order Hperm d [Hnd Hv].
    rewrite <- tops_doc in Hnd.
    destruct (write_document_ok V d Hnd) as [f [Hw Hh]].
    exists f. eexists. split; [exact Hw|]. split.
    - apply (load_ok V order Hperm f (doc_entries V d)); auto.
      intros e He. unfold doc_entries in He. apply in_app_or in He. destruct He as [He|He].
      + eapply wf_cells; eauto.
      + eapply wf_morphs; eauto.
    - rewrite <- morphs_doc. apply loaded_perm; auto.
  Qed.

  (* the evaluated model (sorted iteration): what the cases files run *)
  Theorem model_roundtrip : forall d : adoc, doc_ok d ->
      exists ms, roundtrip_document V d = RtOk V ms /\ Permutation ms (map (strip V) (doc_morphologies V d)).
  Proof.
    intros d Hok. destruct (reference_roundtrip sort_names sort_names_perm d Hok) as [f [ms [H1 [H2 H3]]]].
    exists ms. split; auto. unfold roundtrip_document, l_load. now rewrite H1, H2.
  Qed.

  (* a single ArrayMorphology written on its own *)
  Theorem model_roundtrip_morphology : forall m : amorph, roundtrip_morphology V m = RtOk V [strip V m].
  Proof.
    intros m. unfold roundtrip_morphology, l_write_morphology, write_morphology.
    rewrite ws_morph.
    rewrite (write_entry_ok V (f_empty V) [] _ (holds_empty V)) by (intros []).
    pose proof (holds_step V _ _ (EMorph V (group_name V m) m) (holds_empty V) (fun x => x)) as Hh.
    simpl app in Hh. unfold l_load.
    rewrite (load_ok V sort_names sort_names_perm _ _ Hh).
    - simpl tops. assert (Ho : sort_names [group_name V m] = [group_name V m]) by reflexivity.
      rewrite Ho. simpl map. unfold entry_for. simpl. now rewrite String.eqb_refl.
    - simpl. constructor; [intros []|constructor].
    - intros e [<-|[]]. exact I.
  Qed.
End Docs.

Lemma write_cells_unfold : forall (V St : Type) mg ma (s : St) k last cid (m : amorph V) t,
    write_cells V St mg ma s k last ((cid, m) :: t) =
    bind (write_single V St mg ma s (with_default_id V m k) (Some (cell_name cid k)))
         (fun s1 => write_cells V St mg ma s1 (S k) (Some (cell_name cid k)) t).
Proof. reflexivity. Qed.

Lemma write_morphs_unfold : forall (V St : Type) mg ma (s : St) k (m : amorph V) t,
    write_morphs V St mg ma s k (m :: t) =
    bind (write_single V St mg ma s (with_default_id V m k) None) (fun s1 => write_morphs V St mg ma s1 (S k) t).
Proof. reflexivity. Qed.

(* ------------------------------------------------------------------ PyTables: any store that refines the reference store *)
Section PyTables.
  Variable V : Type.
  Variable store : Type.
  Variable st_empty : store.
  Variable st_mkgroup : store -> path -> string -> option store.
  Variable st_mkarray : store -> path -> string -> arr V -> option store.
  Variable st_children : store -> path -> list string.
  Variable st_read : store -> path -> option (arr V).
  (* ghost: which nodes a file holds, and the order in which a group is iterated *)
  Variable view : store -> fstore V.
  Variable order : list string -> list string.

  Definition sim (x : option store) (y : option (fstore V)) : Prop :=
    match y with Some f' => exists s', x = Some s' /\ view s' = f' | None => x = None end.

  (* a new file is empty *)
  Hypothesis pt_open : view st_empty = f_empty V.
  (* create_group / create_array succeed exactly when the parent is a group without a child of that name,
     and then the node is there (and nothing else changes) *)
  Hypothesis pt_create_group : forall s p n, sim (st_mkgroup s p n) (f_mkgroup V (view s) p n).
  Hypothesis pt_create_array : forall s p n a, sim (st_mkarray s p n a) (f_mkarray V (view s) p n a).
  (* iterating over a group yields each child's name exactly once, in an order that depends on the names only *)
  Hypothesis pt_iter : forall s p, st_children s p = order (f_names V (view s) p).
  Hypothesis pt_order : forall l, Permutation (order l) l.
  (* what was written under a path is what is read *)
  Hypothesis pt_read : forall s p, st_read s p = f_read V (view s) p.

  Lemma sim_bind : forall x y (k : store -> option store) (k' : fstore V -> option (fstore V)),
      sim x y -> (forall s, sim (k s) (k' (view s))) -> sim (bind x k) (bind y k').
  Proof.
    intros x y k k' Hxy Hk. unfold sim in Hxy. destruct y as [f'|].
    - destruct Hxy as [s' [-> <-]]. simpl. apply Hk.
    - subst x. simpl. reflexivity.
  Qed.

  Notation wa_s := (write_arrays V store st_mkarray).
  Notation wa_f := (write_arrays V (fstore V) (f_mkarray V)).
  Notation ws_s := (write_single V store st_mkgroup st_mkarray).
  Notation ws_f := (write_single V (fstore V) (f_mkgroup V) (f_mkarray V)).

  Lemma sim_write_arrays : forall s p m, sim (wa_s s p m) (wa_f (view s) p m).
  Proof.
    intros s p m. unfold write_arrays.
    apply sim_bind; [apply pt_create_array|]. intros s1.
    apply sim_bind; [apply pt_create_array|]. intros s2. apply pt_create_array.
  Qed.

  Lemma sim_write_single : forall s m cid, sim (ws_s s m cid) (ws_f (view s) m cid).
  Proof.
    intros s m [cid|]; unfold write_single.
    - apply sim_bind; [apply pt_create_group|]. intros s1.
      apply sim_bind; [apply pt_create_group|]. intros s2. apply sim_write_arrays.
    - apply sim_bind; [apply pt_create_group|]. intros s1. apply sim_write_arrays.
  Qed.

  Lemma sim_write_cells : forall cells s k last,
      match write_cells V (fstore V) (f_mkgroup V) (f_mkarray V) (view s) k last cells with
      | Some (f', l) => exists s', write_cells V store st_mkgroup st_mkarray s k last cells = Some (s', l) /\ view s' = f'
      | None => write_cells V store st_mkgroup st_mkarray s k last cells = None
      end.
  Proof.
    induction cells as [|[cid m] t IH]; intros s k last.
    - simpl. eauto.
    - rewrite !write_cells_unfold.
      pose proof (sim_write_single s (with_default_id V m k) (Some (cell_name cid k))) as Hs.
      unfold sim in Hs.
      destruct (ws_f (view s) (with_default_id V m k) (Some (cell_name cid k))) as [f1|].
      + destruct Hs as [s1 [-> <-]]. simpl bind. apply IH.
      + rewrite Hs. reflexivity.
  Qed.

  Lemma sim_write_morphs : forall ms s k,
      sim (write_morphs V store st_mkgroup st_mkarray s k ms)
          (write_morphs V (fstore V) (f_mkgroup V) (f_mkarray V) (view s) k ms).
  Proof.
    induction ms as [|m t IH]; intros s k.
    - simpl. exists s. auto.
    - rewrite !write_morphs_unfold. apply sim_bind; [apply sim_write_single|]. intros s1. apply IH.
  Qed.

  Lemma sim_write_document : forall d,
      sim (write_document V store st_empty st_mkgroup st_mkarray d) (l_write_document V d).
  Proof.
    intros d. unfold l_write_document, write_document.
    pose proof (sim_write_cells (d_cells d) st_empty 0 None) as Hc. rewrite pt_open in Hc.
    destruct (write_cells V (fstore V) (f_mkgroup V) (f_mkarray V) (f_empty V) 0 None (d_cells d)) as [[f1 l]|].
    - destruct Hc as [s1 [-> <-]]. simpl bind. apply sim_write_morphs.
    - rewrite Hc. reflexivity.
  Qed.

  Lemma extract_sim : forall s p, extract V store st_read s p = extract V (fstore V) (f_read V) (view s) p.
  Proof. intros s p. unfold extract. now rewrite !pt_read. Qed.

  Lemma load_sim : forall s,
      load V store st_children st_read s = load V (fstore V) (f_children V order) (f_read V) (view s).
  Proof.
    intros s. unfold load, f_children. rewrite pt_iter. f_equal. f_equal.
    apply map_ext. intros name. rewrite pt_iter, extract_sim.
    destruct (existsb _ _); auto. f_equal. apply map_ext. intros mn. apply extract_sim.
  Qed.

  (* the file round trip, for ANY document of cells and stand-alone morphologies in the domain *)
  Theorem document_roundtrip : forall d : adoc V, doc_ok V d ->
      exists s ms, write_document V store st_empty st_mkgroup st_mkarray d = Some s /\
                   load V store st_children st_read s = Some ms /\
                   Permutation ms (map (strip V) (doc_morphologies V d)).
  Proof.
    intros d Hok.
    destruct (reference_roundtrip V order pt_order d Hok) as [f [ms [H1 [H2 H3]]]].
    pose proof (sim_write_document d) as Hs. unfold sim in Hs. rewrite H1 in Hs.
    destruct Hs as [s [Hw Hv]].
    exists s, ms. split; auto. split; auto. rewrite load_sim, Hv. exact H2.
  Qed.

  Theorem morphology_roundtrip : forall m : amorph V,
      exists s, write_morphology V store st_empty st_mkgroup st_mkarray m = Some s /\
                load V store st_children st_read s = Some [strip V m].
  Proof.
    intros m. unfold write_morphology.
    pose proof (sim_write_single st_empty m None) as Hs. rewrite pt_open in Hs.
    rewrite ws_morph in Hs.
    rewrite (write_entry_ok V (f_empty V) [] _ (holds_empty V)) in Hs by (intros []).
    destruct Hs as [s [Hw Hv]]. exists s. split; auto.
    rewrite load_sim, Hv.
    pose proof (holds_step V _ _ (EMorph V (group_name V m) m) (holds_empty V) (fun x => x)) as Hh.
    simpl app in Hh.
    rewrite (load_ok V order pt_order _ _ Hh).
    - simpl tops.
      assert (Ho : order [group_name V m] = [group_name V m])
        by (apply Permutation_length_1_inv; apply Permutation_sym; apply pt_order).
      rewrite Ho. simpl map. unfold entry_for. simpl. now rewrite String.eqb_refl.
    - simpl. constructor; [intros []|constructor].
    - intros e [<-|[]]. exact I.
  Qed.
End PyTables.

(* the hypotheses are satisfiable: the reference store itself, with sorted iteration *)
Theorem reference_store_is_an_instance : forall V : Type,
    (fun f : fstore V => f) (f_empty V) = f_empty V /\
    (forall s p n, sim V (fstore V) (fun f => f) (f_mkgroup V s p n) (f_mkgroup V s p n)) /\
    (forall s p n a, sim V (fstore V) (fun f => f) (f_mkarray V s p n a) (f_mkarray V s p n a)) /\
    (forall s p, f_children V sort_names s p = sort_names (f_names V s p)) /\
    (forall l, Permutation (sort_names l) l) /\
    (forall s p, f_read V s p = f_read V s p).
Proof.
  intros V. repeat split; auto using sort_names_perm.
  - intros s p n. unfold sim. destruct (f_mkgroup V s p n); eauto.
  - intros s p n a. unfold sim. destruct (f_mkarray V s p n a); eauto.
Qed.

(* ------------------------------------------------------------------ the pinned writer (cell_id=cell.id in the second loop)
   cannot write ANY document that has a stand-alone morphology *)
Section Orig.
  Variable V : Type.
  Notation fstore := (fstore V).

  Lemma create_mono : forall (f f' : fstore) p n it, f_create V f p n it = Some f' ->
      (forall x, In x (f_names V f []) -> In x (f_names V f' [])) /\ (p = [] -> In n (f_names V f' [])).
  Proof.
    intros f f' p n it H. apply f_create_some in H. subst f'. simpl. split.
    - intros x Hx. destruct p; simpl; auto. apply in_or_app. now left.
    - intros ->. simpl. apply in_or_app. right. simpl. auto.
  Qed.

  Lemma write_arrays_mono : forall (f f' : fstore) p m,
      write_arrays V fstore (f_mkarray V) f p m = Some f' ->
      forall x, In x (f_names V f []) -> In x (f_names V f' []).
  Proof.
    intros f f' p m H x Hx. unfold write_arrays, f_mkarray in H.
    destruct (f_create V f p "vertices"%string _) as [f1|] eqn:E1; [|discriminate]. simpl in H.
    destruct (f_create V f1 p "connectivity"%string _) as [f2|] eqn:E2; [|discriminate]. simpl in H.
    apply create_mono in E1, E2, H. destruct E1 as [E1 _], E2 as [E2 _], H as [H _]. auto.
  Qed.

  Lemma write_single_cell_mono : forall (f f' : fstore) m cid,
      write_single V fstore (f_mkgroup V) (f_mkarray V) f m (Some cid) = Some f' ->
      (forall x, In x (f_names V f []) -> In x (f_names V f' [])) /\ In cid (f_names V f' []).
  Proof.
    intros f f' m cid H. unfold write_single, f_mkgroup in H.
    destruct (f_create V f [] cid _) as [f1|] eqn:E1; [|discriminate]. simpl in H.
    destruct (f_create V f1 [cid] _ _) as [f2|] eqn:E2; [|discriminate]. simpl in H.
    apply create_mono in E1, E2. destruct E1 as [E1 E1'], E2 as [E2 _].
    pose proof (write_arrays_mono _ _ _ _ H) as H3. split; auto.
  Qed.

  Lemma write_cells_last : forall cells (f f' : fstore) k last last',
      write_cells V fstore (f_mkgroup V) (f_mkarray V) f k last cells = Some (f', last') ->
      (forall c, last = Some c -> In c (f_names V f [])) ->
      forall c, last' = Some c -> In c (f_names V f' []).
  Proof.
    induction cells as [|[cid m] t IH]; intros f f' k last last' H Hl c Hc.
    - simpl in H. inversion H; subst. auto.
    - rewrite write_cells_unfold in H.
      destruct (write_single V fstore (f_mkgroup V) (f_mkarray V) f (with_default_id V m k) (Some (cell_name cid k)))
        as [f1|] eqn:E; [|discriminate]. simpl in H.
      apply write_single_cell_mono in E. destruct E as [_ E].
      eapply IH; eauto. intros c0 Hc0. inversion Hc0; subst. exact E.
  Qed.

  Theorem orig_never_writes_standalone : forall d : adoc V, d_morphs d <> [] ->
      forall f, l_write_document_orig V d <> WOk f.
  Proof.
    intros d Hm f. unfold l_write_document_orig, write_document_orig.
    destruct (write_cells V fstore (f_mkgroup V) (f_mkarray V) (f_empty V) 0 None (d_cells d)) as [[f1 last]|] eqn:E;
      [|discriminate].
    destruct (d_morphs d) as [|m t]; [congruence|]. simpl.
    destruct last as [cid|]; [|discriminate].
    assert (Hin : In cid (f_names V f1 [])) by (eapply write_cells_last; eauto; discriminate).
    unfold write_single, f_mkgroup. rewrite (f_create_dup V f1 [] cid) by auto. simpl. discriminate.
  Qed.
End Orig.

(* witnesses (replayed on the implementation by the check) *)
Definition w_m3 : amorph vtx := mk_amorph vtx (Some "m1"%string) [(0,0,0,1); (1,0,0,2); (2,0,0,3)]%Z [-1; 0; 0]%Z None.
Definition w_m2 : amorph vtx := mk_amorph vtx None [(5,0,0,1); (6,0,0,2)]%Z [-1; 0]%Z None.
Definition w_doc0 : adoc vtx := {| d_cells := []; d_morphs := [w_m3] |}.
Definition w_doc1 : adoc vtx := {| d_cells := [(Some "c1"%string, w_m2)]; d_morphs := [w_m3] |}.

Lemma doc_orig_refuted :
  doc_ok vtx w_doc0 /\ doc_ok vtx w_doc1 /\
  roundtrip_document_orig vtx w_doc0 = RtUnbound vtx /\ roundtrip_document_orig vtx w_doc1 = RtNodeError vtx.
Proof.
  split; [|split; [|split; vm_compute; reflexivity]].
  - split; simpl; [constructor; [intros []|constructor]|intros []].
  - split; simpl.
    + constructor; [intros [H|[]]; discriminate|constructor; [intros []|constructor]].
    + intros [H|[]]; discriminate.
Qed.

(* the repaired writer on the same documents, and a document with unnamed cells and morphologies *)
Example doc_example :
  roundtrip_document vtx w_doc1 = RtOk vtx [strip vtx w_m2; strip vtx w_m3] /\
  roundtrip_document vtx {| d_cells := [(None, w_m2); (None, w_m3)]; d_morphs := [w_m2; w_m2] |}
  = RtOk vtx [strip vtx w_m2; strip vtx w_m3; strip vtx w_m2; strip vtx w_m2].
Proof. split; vm_compute; reflexivity. Qed.

(* ------------------------------------------------------------------ the executable domain checks imply the hypotheses *)
Lemma nodup_strb_sound : forall l, nodup_strb l = true -> NoDup l.
Proof.
  induction l as [|x l IH]; intros H; [constructor|].
  simpl in H. apply andb_true_iff in H. destruct H as [H1 H2]. constructor; auto.
  intros Hin. apply existsb_eqb_in in Hin. rewrite Hin in H1. discriminate.
Qed.

Lemma doc_domb_sound : forall (V : Type) (d : adoc V), doc_domb d = true -> doc_ok V d.
Proof.
  intros V d H. unfold doc_domb in H. apply andb_true_iff in H. destruct H as [H1 H2]. split.
  - now apply nodup_strb_sound.
  - intros Hin. apply existsb_eqb_in in Hin. rewrite Hin in H2. discriminate.
Qed.

(* ------------------------------------------------------------------ what a path held before does not matter:
   every write(data, path) + load of a history gives what it gives on a fresh path *)
Theorem history_independent : forall (V : Type) (xs : list (hitem V)) (file : fstore V),
    roundtrip_history V file xs = map (roundtrip_item V) xs.
Proof.
  intros V xs. induction xs as [|x t IH]; intros file; [reflexivity|].
  simpl. f_equal; [|apply IH].
  unfold write_then_load, roundtrip_item, open_file_w.
  destruct x as [d|m].
  - unfold roundtrip_document, l_write_document.
    destruct (write_document V (fstore V) (f_empty V) (f_mkgroup V) (f_mkarray V) d); reflexivity.
  - unfold roundtrip_morphology, l_write_morphology.
    destruct (write_morphology V (fstore V) (f_empty V) (f_mkgroup V) (f_mkarray V) m); reflexivity.
Qed.
