(* C15, validity clause (partial): if every input meets the schema facets (ids non-negative, group ids
   NmlIds, property values matching their unit pattern) the builder never produces anything that
   violates them, so a cell with at least one segment and its basic biophysical properties satisfies
   the model's valid_cell - the predicate whose verdict is compared with validate(recursive=True) and
   with libxml2 on the written file in every run.  The link valid_cell <-> XSD is not proved here. *)
From Coq Require Import String List ZArith Bool Arith Lia Permutation.
From LNML Require Import Model.Groups Model.Builder Proofs.GroupsP Proofs.GroupsSortP
     Proofs.BuilderSegP Proofs.BuilderGroupP Proofs.BuilderOrderP Proofs.BuilderP.
Import ListNotations.
Open Scope string_scope.

Definition gfacet (g : group) : Prop :=
  nmlid (gid g) = true /\ (forall i, In i (includes g) -> nmlid i = true) /\ (forall m, In m (members g) -> (0 <= m)%Z).

Definition GAll (G : list group) : Prop := forall g, In g G -> gfacet g.

Definition VInv (c : cell) : Prop :=
  (forall s, In s (segs c) -> (0 <= sid s)%Z) /\ GAll (groups c) /\
  (forall p, In p (props c) -> pvalid p = true /\ nmlid (pgrp p) = true).

Definition op_facets (o : op) : Prop :=
  match o with
  | AddSegment _ seg_id _ _ _ group _ _ _ _ =>
    (forall z, seg_id = Some z -> (0 <= z)%Z) /\ (forall g, opt_group group = Some g -> nmlid g = true)
  | AddUnbranched _ _ _ group _ _ _ _ => exists g, group = Some g /\ nmlid g = true
  | AddSegmentGroup a _ | AddUnbranchedGroup a => nmlid a = true
  | SetProp _ _ valid g => valid = true /\ nmlid g = true
  | _ => True
  end.

(* ---------- group primitives keep the facets ---------- *)
Lemma GAll_perm : forall G G', Permutation G G' -> GAll G -> GAll G'.
Proof. intros G G' HP H g Hg. apply H. eapply Permutation_in; [apply Permutation_sym; exact HP | exact Hg]. Qed.

Lemma GAll_ensure : forall G a nl, GAll G -> nmlid a = true -> GAll (ensure_group G a nl).
Proof.
  intros G a nl H Ha g Hg. apply in_ensure in Hg. destruct Hg as [Hg|[Hg _]]; [apply H; exact Hg|].
  subst g. split; [exact Ha|]. split; intros x [].
Qed.

Lemma GAll_add_member : forall G a m, GAll G -> (0 <= m)%Z -> GAll (add_member G a m).
Proof.
  intros G a m H Hm h Hh. apply in_add_member in Hh. destruct Hh as [Hh|[g [Hg [_ Hh]]]]; [apply H; exact Hh|].
  subst h. destruct (H g Hg) as [A [B C]]. split; [exact A|]. split; [exact B|]. simpl.
  intros x Hx. apply in_app_or in Hx. destruct Hx as [Hx|[Hx|[]]]; [apply C; exact Hx | subst x; exact Hm].
Qed.

Lemma GAll_add_include : forall G a i, GAll G -> nmlid i = true -> GAll (add_include G a i).
Proof.
  intros G a i H Hi h Hh. apply in_add_include in Hh. destruct Hh as [Hh|[g [Hg [_ Hh]]]]; [apply H; exact Hh|].
  subst h. destruct (H g Hg) as [A [B C]]. split; [exact A|]. split; [|exact C]. simpl.
  intros x Hx. apply in_app_or in Hx. destruct Hx as [Hx|[Hx|[]]]; [apply B; exact Hx | subst x; exact Hi].
Qed.

Lemma GAll_same_shape : forall G G', same_shape G G' -> GAll G -> GAll G'.
Proof.
  intros G G' Hs H g' Hg'. destruct (same_shape_in _ _ _ Hs Hg') as [g [Hg [He [Hinc Hmem]]]].
  destruct (H g Hg) as [A [B C]]. split; [rewrite He; exact A|]. split.
  - intros i Hi. apply B. apply Hinc. exact Hi.
  - intros m Hm. apply C. apply Hmem. exact Hm.
Qed.

Lemma GAll_reorder : forall G, GAll G -> GAll (reorder G).
Proof. intros G H. eapply GAll_perm; [apply Permutation_sym, reorder_perm | exact H]. Qed.

Lemma dname_nmlid : forall t, nmlid (dname t) = true.
Proof. destruct t; reflexivity. Qed.

Lemma GAll_conv_groups : forall G1 grp i t reord,
  GAll G1 -> (0 <= i)%Z -> (forall g, grp = Some g -> nmlid g = true) ->
  GAll (conv_groups true G1 grp i t reord).
Proof.
  intros G1 grp i t reord H1 Hi Hg. unfold conv_groups.
  assert (H2 : GAll (setup_default G1 t)).
  { unfold setup_default. apply GAll_reorder. apply GAll_ensure; [|apply dname_nmlid]. apply GAll_ensure; [exact H1 | reflexivity]. }
  destruct grp as [g|].
  - destruct (own_group true (Some g) t).
    + assert (H3 : GAll (add_include (add_include (setup_default G1 t) (dname t) g) "all" g)).
      { apply GAll_add_include; [apply GAll_add_include|]; [exact H2 | |]; apply Hg; reflexivity. }
      destruct reord; [apply GAll_reorder; exact H3 | exact H3].
    + assert (H3 : GAll (add_member (add_member (setup_default G1 t) (dname t) i) "all" i)).
      { apply GAll_add_member; [apply GAll_add_member|]; assumption. }
      destruct reord; [apply GAll_reorder; exact H3 | exact H3].
  - simpl.
    assert (H3 : GAll (add_member (add_member (setup_default G1 t) (dname t) i) "all" i)).
    { apply GAll_add_member; [apply GAll_add_member|]; assumption. }
    destruct reord; [apply GAll_reorder; exact H3 | exact H3].
Qed.

Lemma GAll_seg_groups : forall G grp i tag reord,
  GAll G -> (0 <= i)%Z -> (forall g, grp = Some g -> nmlid g = true) ->
  GAll (seg_groups true G grp i tag reord).
Proof.
  intros G grp i tag reord H Hi Hg. unfold seg_groups.
  assert (H1 : GAll (match grp with Some g => add_member (ensure_group G g None) g i | None => G end)).
  { destruct grp as [g|]; [|exact H]. apply GAll_add_member; [|exact Hi]. apply GAll_ensure; [exact H | apply Hg; reflexivity]. }
  destruct tag as [t|]; [|exact H1]. apply GAll_conv_groups; assumption.
Qed.

(* ---------- ids ---------- *)
Lemma fresh_from_ge : forall fuel n used, (n <= fresh_from fuel n used)%Z.
Proof.
  induction fuel as [|f IH]; intros n used; simpl; [lia|].
  destruct (memZ n used); [specialize (IH (n + 1)%Z used); lia | lia].
Qed.

Lemma choose_id_nonneg : forall c seg_id i,
  (forall z, seg_id = Some z -> (0 <= z)%Z) -> choose_id true c seg_id = BRet i -> (0 <= i)%Z.
Proof.
  intros c seg_id i Hz H. unfold choose_id in H.
  assert (Ha : (0 <= auto_id true (ids c))%Z).
  { unfold auto_id. pose proof (fresh_from_ge (length (ids c)) (Z.of_nat (length (ids c))) (ids c)). lia. }
  destruct seg_id as [z|]; [|inversion H; subst; exact Ha].
  destruct (memZ z (ids c)); [discriminate|]. inversion H; subst. apply Hz. reflexivity.
Qed.

(* ---------- operations ---------- *)
Lemma VInv_optimise : forall c c', GStruct (groups c) -> VInv c -> optimise c = BRet c' -> VInv c'.
Proof.
  intros c c' HG [Hs [Hg Hp]] H. destruct (optimise_shape c c' H) as [Es [Ep Ho]].
  pose proof (optimise_all_equiv natsortS isortZ natsortS_perm isortZ_perm (ids c) _ _ _ (GStruct_acyclic _ HG) Ho) as Heq.
  unfold VInv. rewrite Es, Ep. split; [exact Hs|]. split; [|exact Hp].
  eapply GAll_same_shape; [|exact Hg]. apply Heq.
Qed.

Lemma VInv_reorder : forall c, VInv c -> VInv (mkCell (segs c) (reorder (groups c)) (props c)).
Proof. intros c [Hs [Hg Hp]]. split; [exact Hs|]. split; [apply GAll_reorder; exact Hg | exact Hp]. Qed.

Lemma VInv_add_group : forall c a nl, VInv c -> nmlid a = true -> VInv (add_segment_group c a nl).
Proof. intros c a nl [Hs [Hg Hp]] Ha. split; [exact Hs|]. split; [apply GAll_ensure; assumption | exact Hp]. Qed.

Lemma VInv_add_segment_noopt : forall c prox seg_id name parent frac group conv ty reord c',
  VInv c ->
  (forall z, seg_id = Some z -> (0 <= z)%Z) -> (forall g, opt_group group = Some g -> nmlid g = true) ->
  add_segment true c prox seg_id name parent frac group conv ty reord false = BRet c' -> VInv c'.
Proof.
  intros c prox seg_id name parent frac group conv ty reord c' [Hs [Hg Hp]] Hz Hgn H.
  destruct (add_segment_shape _ _ _ _ _ _ _ _ _ _ _ _ H) as [i [sp [nm [tag [_ [_ [_ [Hi Hrest]]]]]]]].
  simpl in Hrest. subst c'. pose proof (choose_id_nonneg c seg_id i Hz Hi) as Hi0.
  split; [|split; [|exact Hp]]; simpl.
  - intros s Hin. apply in_app_or in Hin. destruct Hin as [Hin|[Hin|[]]]; [apply Hs; exact Hin | subst s; exact Hi0].
  - apply GAll_seg_groups; assumption.
Qed.

Lemma VInv_add_segment : forall c prox seg_id name parent frac group conv ty reord opt c',
  Inv c -> VInv c -> seg_ok c group conv ty = true ->
  (forall z, seg_id = Some z -> (0 <= z)%Z) -> (forall g, opt_group group = Some g -> nmlid g = true) ->
  add_segment true c prox seg_id name parent frac group conv ty reord opt = BRet c' -> VInv c'.
Proof.
  intros c prox seg_id name parent frac group conv ty reord opt c' HI HV Hok Hz Hgn H. destruct opt.
  - destruct (add_segment_split _ _ _ _ _ _ _ _ _ _ _ H) as [c1 [H1 H2]].
    destruct (Inv_add_segment _ _ _ _ _ _ _ _ _ _ _ _ HI Hok H1) as [[_ [HG1 _]] _].
    eapply VInv_optimise; [exact HG1 | | exact H2]. eapply VInv_add_segment_noopt; eassumption.
  - eapply VInv_add_segment_noopt; eassumption.
Qed.

Lemma VInv_add_rest : forall k c group conv ty c',
  Inv c -> VInv c -> seg_ok c group conv ty = true -> (forall g, opt_group group = Some g -> nmlid g = true) ->
  add_rest true k c group conv ty = BRet c' -> VInv c'.
Proof.
  induction k as [|k IH]; intros c group conv ty c' HI HV Hok Hgn H; simpl in H.
  - inversion H; subst. exact HV.
  - destruct (add_segment true c true None None (Some (length (segs c) - 1)) 4 group conv ty false true) as [c1|e] eqn:E; [|discriminate].
    destruct (Inv_add_segment _ _ _ _ _ _ _ _ _ _ _ _ HI Hok E) as [HI1 Hok1].
    eapply (IH c1); [exact HI1 | | exact Hok1 | exact Hgn | exact H].
    eapply VInv_add_segment; [exact HI | exact HV | exact Hok | | exact Hgn | exact E]. intros z Ez. discriminate.
Qed.

Lemma opt_group_some : forall g, nmlid g = true -> opt_group (Some g) = Some g.
Proof. intros g H. unfold opt_group. destruct g; [discriminate | reflexivity]. Qed.

Lemma VInv_add_unbranched : forall c np parent frac g conv ty reord opt c',
  Inv c -> VInv c -> seg_ok c (Some g) conv ty = true -> nmlid g = true ->
  add_unbranched true c np parent frac (Some g) conv ty reord opt = BRet c' -> VInv c'.
Proof.
  intros c np parent frac g conv ty reord opt c' HI HV Hok Hg H. unfold add_unbranched in H.
  destruct (Nat.ltb np 2); [discriminate|].
  assert (Hgn : forall x, opt_group (Some g) = Some x -> nmlid x = true).
  { intros x E. rewrite (opt_group_some g Hg) in E. inversion E; subst. exact Hg. }
  assert (Hne : g <> "") by (intro E; subst g; discriminate).
  set (c0 := add_segment_group c g (Some section_nlex)) in *.
  assert (HI0 : Inv c0) by (apply Inv_add_group; assumption).
  assert (HV0 : VInv c0) by (apply VInv_add_group; assumption).
  assert (Hok0 : seg_ok c0 (Some g) conv ty = true) by (rewrite <- (seg_ok_same_segs c c0); [exact Hok | reflexivity]).
  destruct (add_segment true c0 true None None parent frac (Some g) conv ty false true) as [c1|e] eqn:E1; [|discriminate].
  destruct (Inv_add_segment _ _ _ _ _ _ _ _ _ _ _ _ HI0 Hok0 E1) as [HI1 Hok1].
  assert (HV1 : VInv c1).
  { eapply VInv_add_segment; [exact HI0 | exact HV0 | exact Hok0 | | exact Hgn | exact E1]. intros z Ez. discriminate. }
  destruct (add_rest true (np - 2) c1 (Some g) conv ty) as [c2|e] eqn:E2; [|discriminate].
  destruct (Inv_add_rest _ _ _ _ _ _ HI1 Hok1 E2) as [HI2 _].
  pose proof (VInv_add_rest _ _ _ _ _ _ HI1 HV1 Hok1 Hgn E2) as HV2.
  set (c3 := if reord then mkCell (segs c2) (reorder (groups c2)) (props c2) else c2) in *.
  assert (HI3 : Inv c3) by (unfold c3; destruct reord; [apply Inv_reorder; exact HI2 | exact HI2]).
  assert (HV3 : VInv c3) by (unfold c3; destruct reord; [apply VInv_reorder; exact HV2 | exact HV2]).
  destruct opt.
  - destruct (optimise c3) as [c4|e] eqn:E4; [|discriminate].
    destruct (get_group (groups c4) g); [|discriminate]. inversion H; subst.
    eapply VInv_optimise; [apply HI3 | exact HV3 | exact E4].
  - destruct (get_group (groups c3) g); [|discriminate]. inversion H; subst. exact HV3.
Qed.

Lemma VInv_set_prop : forall c k v valid g c', VInv c -> valid = true -> nmlid g = true ->
  set_prop c k v valid g = BRet c' -> VInv c'.
Proof.
  intros c k v valid g c' [Hs [Hg Hp]] Hv Hgn H. unfold set_prop in H.
  assert (Hk : (if existsb (prop_eqb (mkProp k v valid g false)) (props c) then c
                else mkCell (segs c) (groups c) (props c ++ [mkProp k v valid g false])) = c' -> VInv c').
  { intros E. destruct (existsb _ (props c)); subst c'; [split; [exact Hs | split; assumption]|].
    split; [exact Hs|]. split; [exact Hg|]. simpl. intros p Hin. apply in_app_or in Hin.
    destruct Hin as [Hin|[Hin|[]]]; [apply Hp; exact Hin | subst p; simpl; split; assumption]. }
  destruct k.
  - injection H as E. exact (Hk E).
  - injection H as E. exact (Hk E).
  - injection H as E. exact (Hk E).
  - injection H as E. exact (Hk E).
  - destruct (negb valid); [discriminate|]. injection H as E. exact (Hk E).
Qed.

Theorem VInv_step : forall c o c', Inv c -> VInv c -> op_ok c o = true -> op_facets o ->
  step true c o = BRet c' -> VInv c'.
Proof.
  intros c o c' HI HV Hok Hf H. destruct o; simpl in H, Hf.
  - destruct Hf as [Hz Hg]. eapply VInv_add_segment; [exact HI | exact HV | exact Hok | exact Hz | exact Hg | exact H].
  - destruct Hf as [g [Eg Hg]]. subst group. eapply VInv_add_unbranched; [exact HI | exact HV | exact Hok | exact Hg | exact H].
  - inversion H; subst. apply VInv_add_group; assumption.
  - inversion H; subst. apply VInv_add_group; assumption.
  - inversion H; subst. apply VInv_reorder; exact HV.
  - eapply VInv_optimise; [apply HI | exact HV | exact H].
  - destruct Hf as [Hv Hg]. exact (VInv_set_prop c k v valid g c' HV Hv Hg H).
  - inversion H; subst. destruct HV as [Hs [Hg Hp]]. split; [exact Hs|]. split; [exact Hg|]. simpl.
    intros p Hin. apply in_map_iff in Hin. destruct Hin as [q [Eq Hq]]. subst p. simpl. apply Hp. exact Hq.
Qed.

Theorem VInv_run : forall ops c c', Inv c -> VInv c -> run_ok true ops c = true -> Forall op_facets ops ->
  run true ops c = BRet c' -> Inv c' /\ VInv c'.
Proof.
  induction ops as [|o ops IH]; intros c c' HI HV Hok Hf H; simpl in *.
  - inversion H; subst. split; assumption.
  - apply andb_true_iff in Hok. destruct Hok as [Ho Hr]. inversion Hf as [|x l Hfo Hfl]; subst.
    destruct (step true c o) as [c1|e] eqn:E; [|discriminate].
    eapply IH; [eapply Inv_step; eassumption | eapply VInv_step; eassumption | exact Hr | exact Hfl | exact H].
Qed.

Lemma VInv_init : forall factory, VInv (init_of factory).
Proof.
  intros [|]; unfold VInv, init_of, init_factory, init_bare; simpl.
  - split; [intros s []|]. split; [|intros p []].
    intros g [H|[H|[]]]; subst; (split; [reflexivity | split; intros x []]).
  - split; [intros s []|]. split; [intros g [] | intros p []].
Qed.

(* the model's validity predicate from the facets, a segment and the three basic properties *)
Lemma VInv_valid : forall c, VInv c -> segs c <> [] ->
  has_kind SpikeThresh c = true -> has_kind InitMembPotential c = true -> has_kind SpecificCapacitance c = true ->
  valid_cell c = true.
Proof.
  intros c [Hs [Hg Hp]] Hne H1 H2 H3. unfold valid_cell. rewrite H1, H2, H3.
  repeat (apply andb_true_iff; split); try reflexivity.
  - destruct (segs c); [congruence | reflexivity].
  - apply forallb_forall. intros s Hin. apply Z.leb_le. apply Hs. exact Hin.
  - apply forallb_forall. intros g Hin. destruct (Hg g Hin) as [A [B C]].
    repeat (apply andb_true_iff; split); [exact A | |].
    + apply forallb_forall. exact B.
    + apply forallb_forall. intros m Hm. apply Z.leb_le. apply C. exact Hm.
  - apply forallb_forall. intros p Hin. destruct (Hp p Hin) as [A B]. rewrite A, B. reflexivity.
Qed.

Theorem builder_valid_partial : forall factory ops c c',
  run true ops (init_of factory) = BRet c -> run_ok true ops (init_of factory) = true -> Forall op_facets ops ->
  finish c = BRet c' ->
  segs c <> [] ->
  has_kind SpikeThresh c = true -> has_kind InitMembPotential c = true -> has_kind SpecificCapacitance c = true ->
  valid_cell c' = true.
Proof.
  intros factory ops c c' Hrun Hok Hf Hfin Hne H1 H2 H3.
  assert (HI0 : Inv (init_of factory)) by (destruct factory; [apply Inv_init_factory | apply Inv_init_bare]).
  destruct (VInv_run ops _ _ HI0 (VInv_init factory) Hok Hf Hrun) as [HI HV].
  unfold finish in Hfin.
  pose proof (Inv_reorder c HI) as HI1. pose proof (VInv_reorder c HV) as HV1.
  pose proof (VInv_optimise _ _ (proj1 (proj2 HI1)) HV1 Hfin) as HV2.
  destruct (optimise_shape _ _ Hfin) as [Es [Ep _]]. simpl in Es, Ep.
  apply VInv_valid; [exact HV2 | rewrite Es; exact Hne | | |]; unfold has_kind in *; rewrite Ep; assumption.
Qed.
