(* Proofs about Model/Escape.v: what quote_attrib / quote_xml write is read back verbatim by an XML parser,
   for ALL strings (induction on the string; no length bound). *)
From Coq Require Import String Ascii List Bool NArith ZArith Lia.
From LNML Require Import Lib.Dec Proofs.DecP Model.Escape.
Import ListNotations.
Open Scope string_scope.

(* ------------------------------------------------------------------ strings *)
Lemma app_assoc_s (a b c : string) : (a ++ b) ++ c = a ++ (b ++ c).
Proof. induction a as [|x a IH]; simpl; [reflexivity | now rewrite IH]. Qed.

Lemma app_nil_r_s (a : string) : a ++ "" = a.
Proof. induction a as [|x a IH]; simpl; [reflexivity | now rewrite IH]. Qed.

(* concat-map over the characters *)
Fixpoint cm (e : ascii -> string) (s : string) : string :=
  match s with EmptyString => EmptyString | String c t => e c ++ cm e t end.

Lemma replace_char_app c r a b : replace_char c r (a ++ b) = replace_char c r a ++ replace_char c r b.
Proof.
  induction a as [|x a IH]; simpl; [reflexivity|].
  destruct (Ascii.eqb x c); simpl; rewrite IH; [now rewrite app_assoc_s | reflexivity].
Qed.

Lemma apply_repl_app l : forall a b, apply_repl l (a ++ b) = apply_repl l a ++ apply_repl l b.
Proof.
  induction l as [|[c r] l IH]; intros a b; simpl; [reflexivity|].
  now rewrite replace_char_app, IH.
Qed.

Lemma apply_repl_nil l : apply_repl l "" = "".
Proof. induction l as [|[c r] l IH]; simpl; [reflexivity | exact IH]. Qed.

(* a chain of replacements acts character by character *)
Definition esc_of (l : repl) (c : ascii) : string := apply_repl l (str1 c).

Lemma apply_repl_cm l s : apply_repl l s = cm (esc_of l) s.
Proof.
  induction s as [|c t IH]; simpl; [apply apply_repl_nil|].
  change (String c t) with (str1 c ++ t). now rewrite apply_repl_app, IH.
Qed.

Lemma apply_repl_chain l1 l2 s : apply_repl (l1 ++ l2)%list s = apply_repl l2 (apply_repl l1 s).
Proof. revert s; induction l1 as [|[c r] l1 IH]; intros s; simpl; [reflexivity | apply IH]. Qed.

Lemma contains_char_app q a b : contains_char q (a ++ b) = contains_char q a || contains_char q b.
Proof. induction a as [|x a IH]; simpl; [reflexivity | now rewrite IH, orb_assoc]. Qed.

Lemma contains_char_cm q e s :
  (forall c, contains_char q (e c) = Ascii.eqb c q) -> contains_char q (cm e s) = contains_char q s.
Proof.
  intros He; induction s as [|c t IH]; simpl; [reflexivity|].
  now rewrite contains_char_app, He, IH.
Qed.

Lemma forall_chars_impl (p q : ascii -> bool) s :
  (forall c, p c = true -> q c = true) -> forall_chars p s = true -> forall_chars q s = true.
Proof.
  intros Hpq; induction s as [|c t IH]; simpl; [reflexivity|].
  intros H; apply andb_true_iff in H as [Hc Ht]. now rewrite (Hpq _ Hc), (IH Ht).
Qed.

Lemma forall_chars_and (p : ascii -> bool) q s :
  forall_chars p s = true -> contains_char q s = false ->
  forall_chars (fun c => p c && negb (Ascii.eqb c q)) s = true.
Proof.
  induction s as [|c t IH]; simpl; [reflexivity|].
  intros H Hq; apply andb_true_iff in H as [Hc Ht]. apply orb_false_iff in Hq as [Hcq Htq].
  now rewrite Hc, Hcq, (IH Ht Htq).
Qed.

(* ------------------------------------------------------------------ the reference escapes, per character *)
Definition attrib_repl_q : repl := (ref_attrib_repl ++ [(DQ, "&quot;")])%list.

Ltac all_chars c := destruct c as [[] [] [] [] [] [] [] []].

Lemma esc_attr_quotes q c : q = DQ \/ q = SQ ->
  contains_char q (esc_of ref_attrib_repl c) = Ascii.eqb c q.
Proof. intros [-> | ->]; all_chars c; reflexivity. Qed.

(* one step of the attribute reader over the escape of one character *)
Definition astep (d : ascii) (e : ascii -> string) (c : ascii) : Prop :=
  forall rest, attr_body d (ANormal false) (e c ++ rest) = opt_cons c (attr_body d (ANormal false) rest).

Lemma astep_dq_q c : attr_safe_char c = true -> astep DQ (esc_of attrib_repl_q) c.
Proof. intros H rest; all_chars c; try discriminate H; reflexivity. Qed.

Lemma astep_dq c : attr_safe_char c && negb (Ascii.eqb c DQ) = true -> astep DQ (esc_of ref_attrib_repl) c.
Proof. intros H rest; all_chars c; try discriminate H; reflexivity. Qed.

Lemma astep_sq c : attr_safe_char c && negb (Ascii.eqb c SQ) = true -> astep SQ (esc_of ref_attrib_repl) c.
Proof. intros H rest; all_chars c; try discriminate H; reflexivity. Qed.

Lemma attr_body_cm d e (p : ascii -> bool) :
  (forall c, p c = true -> astep d e c) ->
  forall s, forall_chars p s = true -> attr_body d (ANormal false) (cm e s ++ str1 d) = Some s.
Proof.
  intros Hstep; induction s as [|c t IH]; simpl; intros H.
  - now rewrite Ascii.eqb_refl.
  - apply andb_true_iff in H as [Hc Ht].
    rewrite app_assoc_s, (Hstep c Hc), (IH Ht). reflexivity.
Qed.

(* ------------------------------------------------------------------ attributes *)
Theorem attr_roundtrip : forall s, attr_safe s = true -> attr_parse (quote_attrib s) = Some s.
Proof.
  intros s Hs. unfold quote_attrib, quote_attrib_of.
  rewrite (apply_repl_cm ref_attrib_repl s).
  rewrite !(contains_char_cm _ (esc_of ref_attrib_repl) s) by (intro c; apply esc_attr_quotes; auto).
  cbn [ad_test1 ad_test2 ad_both ad_first_only ad_none ref_attrib_decision].
  destruct (contains_char DQ s) eqn:Hdq; [destruct (contains_char SQ s) eqn:Hsq|].
  - (* both quote characters occur: "..." with &quot; *)
    unfold wrap; cbn [qr_delim qr_extra].
    rewrite <- (apply_repl_cm ref_attrib_repl s), <- apply_repl_chain.
    change (ref_attrib_repl ++ [(DQ, "&quot;")])%list with attrib_repl_q.
    rewrite (apply_repl_cm attrib_repl_q s).
    change (attr_body DQ (ANormal false) (cm (esc_of attrib_repl_q) s ++ str1 DQ) = Some s).
    exact (attr_body_cm DQ _ attr_safe_char astep_dq_q s Hs).
  - (* only the double quote occurs: '...' *)
    unfold wrap; cbn [qr_delim qr_extra apply_repl].
    change (attr_body SQ (ANormal false) (cm (esc_of ref_attrib_repl) s ++ str1 SQ) = Some s).
    exact (attr_body_cm SQ _ _ astep_sq s (forall_chars_and _ SQ s Hs Hsq)).
  - (* no double quote: "..." *)
    unfold wrap; cbn [qr_delim qr_extra apply_repl].
    change (attr_body DQ (ANormal false) (cm (esc_of ref_attrib_repl) s ++ str1 DQ) = Some s).
    exact (attr_body_cm DQ _ _ astep_dq s (forall_chars_and _ DQ s Hs Hdq)).
Qed.

Example attr_roundtrip_hyp_sat : attr_safe ("a<b & ""c"" > 'd'" ++ str1 LF ++ "e") = true.
Proof. reflexivity. Qed.

(* what the hypothesis excludes is really lost: TAB and CR come back as a space *)
Example attr_tab_not_verbatim : attr_parse (quote_attrib (str1 TAB)) = Some " ".
Proof. reflexivity. Qed.
Example attr_cr_not_verbatim : attr_parse (quote_attrib (str1 CR)) = Some " ".
Proof. reflexivity. Qed.
Example attr_c0_not_wellformed : attr_parse (quote_attrib (str1 (ascii_of_nat 1))) = None.
Proof. reflexivity. Qed.

(* the same statement for tables that are equal to the reference tables (instance obligation of the run) *)
Theorem attr_roundtrip_gen : forall rp d, rp = ref_attrib_repl -> d = ref_attrib_decision ->
  forall s, attr_safe s = true -> attr_parse (quote_attrib_of rp d s) = Some s.
Proof. intros rp d -> ->. exact attr_roundtrip. Qed.

(* ------------------------------------------------------------------ element text *)
Definition tstep (c : ascii) : Prop :=
  forall n rest, exists n',
    text_body (TNormal false n) (esc_of ref_xml_repl c ++ rest) = opt_cons c (text_body (TNormal false n') rest).

Lemma tstep_ok c : text_safe_char c = true -> tstep c.
Proof. intros H n rest; all_chars c; try discriminate H; eexists; reflexivity. Qed.

Lemma text_body_cm : forall s n, text_safe s = true ->
  text_body (TNormal false n) (cm (esc_of ref_xml_repl) s) = Some s.
Proof.
  induction s as [|c t IH]; intros n H; [reflexivity|].
  simpl in H. apply andb_true_iff in H as [Hc Ht].
  cbn [cm]. destruct (tstep_ok c Hc n (cm (esc_of ref_xml_repl) t)) as [n' Hn'].
  rewrite Hn', (IH n' Ht). reflexivity.
Qed.

Lemma quote_xml_loop_out aux acc c t :
  quote_xml_loop aux QOut acc (String c t) =
  if cdata_starts (String c t)
  then aux acc ++ String c (quote_xml_loop aux (QCopy 8) EmptyString t)
  else quote_xml_loop aux QOut (acc ++ str1 c) t.
Proof. reflexivity. Qed.

(* without a complete CDATA section the loop body never runs: quote_xml = quote_xml_aux *)
Lemma quote_xml_loop_plain aux : forall s acc, no_cdata_section s = true ->
  quote_xml_loop aux QOut acc s = aux (acc ++ s).
Proof.
  induction s as [|c t IH]; intros acc H.
  - simpl. now rewrite app_nil_r_s.
  - cbn [no_cdata_section] in H. apply andb_true_iff in H as [Hc Ht].
    apply negb_true_iff in Hc. rewrite quote_xml_loop_out, Hc, (IH _ Ht), app_assoc_s. reflexivity.
Qed.

Lemma no_cdata_open_section s : no_cdata_open s = true -> no_cdata_section s = true.
Proof.
  induction s as [|c t IH]; [reflexivity|]. cbn [no_cdata_open no_cdata_section].
  intros H; apply andb_true_iff in H as [Hc Ht]. apply negb_true_iff in Hc.
  unfold cdata_starts. rewrite Hc, (IH Ht). reflexivity.
Qed.

(* strong form: only a COMPLETE section is excluded (an opener without a closer is escaped like any text) *)
Theorem text_roundtrip_strong : forall s, text_safe s = true -> no_cdata_section s = true ->
  text_parse (quote_xml s) = Some s.
Proof.
  intros s Hs Hc. unfold quote_xml, quote_xml_of, text_parse.
  rewrite (quote_xml_loop_plain _ s "" Hc). cbn [append]. unfold quote_xml_aux_of.
  rewrite apply_repl_cm. exact (text_body_cm s 0 Hs).
Qed.

Theorem text_roundtrip : forall s, text_safe s = true -> no_cdata_open s = true ->
  text_parse (quote_xml s) = Some s.
Proof. intros s Hs Hc. exact (text_roundtrip_strong s Hs (no_cdata_open_section s Hc)). Qed.

Example text_roundtrip_hyp_sat :
  text_safe ("a<b & ""c"" > 'd' ]]> <![CDATA[ open only" ++ str1 LF ++ str1 TAB) = true /\
  no_cdata_section ("a<b & ""c"" > 'd' ]]> <![CDATA[ open only" ++ str1 LF ++ str1 TAB) = true /\
  no_cdata_open "a<b & ]]> <![CDAT" = true.
Proof. repeat split; reflexivity. Qed.

(* the same for a replacement table that equals the reference; the two further hypotheses are the instance
   obligations that justify [quote_xml_loop] itself as the model of quote_xml (statement list of its body, and the
   regular expression it iterates over): without them the theorem about the generated function is not claimed *)
Theorem text_roundtrip_gen : forall rp (body : list string) (rx : string) (fl : list string),
  rp = ref_xml_repl -> body = ref_quote_xml_body -> rx = ref_cdata_regex /\ fl = ref_cdata_flags ->
  forall s, text_safe s = true -> no_cdata_open s = true -> text_parse (quote_xml_of rp s) = Some s.
Proof. intros rp body rx fl -> _ _. exact text_roundtrip. Qed.

Theorem text_roundtrip_strong_gen : forall rp (body : list string) (rx : string) (fl : list string),
  rp = ref_xml_repl -> body = ref_quote_xml_body -> rx = ref_cdata_regex /\ fl = ref_cdata_flags ->
  forall s, text_safe s = true -> no_cdata_section s = true -> text_parse (quote_xml_of rp s) = Some s.
Proof. intros rp body rx fl -> _ _. exact text_roundtrip_strong. Qed.

(* generateDS deliberately leaves complete CDATA sections unescaped: the reader drops the markers *)
Definition cdata_witness : string := "x <![CDATA[ y<z ]]> w".

Theorem text_cdata_refuted : exists s, text_safe s = true /\ text_parse (quote_xml s) <> Some s.
Proof. exists cdata_witness. split; [reflexivity | vm_compute; discriminate]. Qed.

Theorem text_cdata_refuted_printable : exists s, printable s = true /\ text_parse (quote_xml s) <> Some s.
Proof. exists cdata_witness. split; [reflexivity | vm_compute; discriminate]. Qed.

Example text_cdata_witness_value : text_parse (quote_xml cdata_witness) = Some "x  y<z  w".
Proof. reflexivity. Qed.

Example text_cr_not_verbatim : text_parse (quote_xml (str1 CR)) = Some (str1 LF).
Proof. reflexivity. Qed.

(* ------------------------------------------------------------------ the property's "printable text" *)
Lemma printable_attr_safe s : printable s = true -> attr_safe s = true.
Proof.
  apply forall_chars_impl. intros c H. unfold printable_char in H. unfold attr_safe_char.
  apply orb_true_iff in H as [H | H]; [apply andb_true_iff in H as [H _]; now rewrite H | now rewrite H, orb_true_r].
Qed.

Lemma printable_text_safe s : printable s = true -> text_safe s = true.
Proof.
  apply forall_chars_impl. intros c H. unfold printable_char in H. unfold text_safe_char.
  apply orb_true_iff in H as [H | H]; [apply andb_true_iff in H as [H _]; now rewrite H | now rewrite H, orb_true_r].
Qed.

(* ------------------------------------------------------------------ "is not a substring", as a proposition *)
Lemma starts_with_spec p : forall s, starts_with p s = true <-> exists b, s = p ++ b.
Proof.
  induction p as [|a p IH]; intros s; simpl.
  - split; [intros _; now exists s | reflexivity].
  - destruct s as [|b s].
    + split; [discriminate | intros [x Hx]; discriminate Hx].
    + rewrite andb_true_iff, Ascii.eqb_eq, IH. split.
      * intros [-> [x ->]]. now exists x.
      * intros [x Hx]. injection Hx as -> ->. split; [reflexivity | now exists x].
Qed.

Lemma has_substr_spec p : forall s, has_substr p s = true <-> exists a b, s = a ++ p ++ b.
Proof.
  induction s as [|c t IH].
  - simpl. rewrite starts_with_spec. split.
    + intros [b Hb]. exists "", b. exact Hb.
    + intros [a [b Hab]]. destruct a; [now exists b | discriminate Hab].
  - cbn [has_substr]. rewrite orb_true_iff, starts_with_spec, IH. split.
    + intros [[b Hb] | [a [b Hab]]]; [exists "", b; exact Hb | exists (String c a), b; simpl; now rewrite Hab].
    + intros [a [b Hab]]. destruct a as [|x a]; [left; now exists b|].
      right. simpl in Hab. injection Hab as _ ->. now exists a, b.
Qed.

Lemma no_cdata_open_has_substr s : no_cdata_open s = negb (has_substr cdata_open s).
Proof.
  induction s as [|c t IH]; [reflexivity|].
  cbn [no_cdata_open has_substr]. now rewrite IH, negb_orb.
Qed.

Theorem no_cdata_open_spec s : no_cdata_open s = true <-> ~ exists a b, s = a ++ cdata_open ++ b.
Proof.
  rewrite no_cdata_open_has_substr, negb_true_iff, <- not_true_iff_false, has_substr_spec. reflexivity.
Qed.

(* ------------------------------------------------------------------ integers: "%d" / int() *)
Theorem int_roundtrip : forall z, parse_int (fmt_int z) = Some z.
Proof. exact parse_int_fmt_int. Qed.

(* ------------------------------------------------------------------ forms used by Props/C01_escape.v *)
Theorem text_cdata_refuted_gen : forall rp (body : list string) (rx : string) (fl : list string),
  rp = ref_xml_repl -> body = ref_quote_xml_body -> rx = ref_cdata_regex /\ fl = ref_cdata_flags ->
  exists s, printable s = true /\ text_parse (quote_xml_of rp s) <> Some s.
Proof. intros rp body rx fl -> _ _. exact text_cdata_refuted_printable. Qed.

Theorem attr_roundtrip_printable_gen : forall rp d, rp = ref_attrib_repl -> d = ref_attrib_decision ->
  forall s, printable s = true -> attr_parse (quote_attrib_of rp d s) = Some s.
Proof. intros rp d Hr Hd s Hs. exact (attr_roundtrip_gen rp d Hr Hd s (printable_attr_safe s Hs)). Qed.

Theorem text_roundtrip_printable_gen : forall rp (body : list string) (rx : string) (fl : list string),
  rp = ref_xml_repl -> body = ref_quote_xml_body -> rx = ref_cdata_regex /\ fl = ref_cdata_flags ->
  forall s, printable s = true -> no_cdata_section s = true -> text_parse (quote_xml_of rp s) = Some s.
Proof.
  intros rp body rx fl Hr Hb Hx s Hs Hc.
  exact (text_roundtrip_strong_gen rp body rx fl Hr Hb Hx s (printable_text_safe s Hs) Hc).
Qed.

(* integers: the model functions are those of "%d" and int(); the hypotheses are the instance obligation *)
Theorem int_roundtrip_gen : forall (fmt prs : string), fmt = ref_int_format /\ prs = ref_int_parse ->
  forall z, parse_int (fmt_int z) = Some z.
Proof. intros fmt prs _. exact int_roundtrip. Qed.

(* ------------------------------------------------------------------ observation for C04 (load/write fixed point) *)
(* a document may carry TAB / CR as character references; the reader delivers them, the writer emits them raw, and the
   next read normalises them: load . write . load <> load on such values (seen on the real code:
   <property tag="a&#9;b" .../> reloads as "a b" after one write) *)
Example reload_attr_charref_tab_not_fixed :
  attr_parse """a&#9;b""" = Some ("a" ++ str1 TAB ++ "b") /\
  attr_parse (quote_attrib ("a" ++ str1 TAB ++ "b")) = Some "a b".
Proof. split; reflexivity. Qed.

Example reload_text_charref_cr_not_fixed :
  text_parse "a&#13;b" = Some ("a" ++ str1 CR ++ "b") /\
  text_parse (quote_xml ("a" ++ str1 CR ++ "b")) = Some ("a" ++ str1 LF ++ "b").
Proof. split; reflexivity. Qed.

(* what the reader returns for an attribute is stable from the second cycle on whenever it is attr_safe *)
Corollary attr_write_read_idempotent : forall t v, attr_parse t = Some v -> attr_safe v = true ->
  attr_parse (quote_attrib v) = Some v.
Proof. intros t v _ Hv. exact (attr_roundtrip v Hv). Qed.

(* distinct safe strings are written differently *)
Corollary quote_attrib_injective : forall a b, attr_safe a = true -> attr_safe b = true ->
  quote_attrib a = quote_attrib b -> a = b.
Proof.
  intros a b Ha Hb H. apply attr_roundtrip in Ha. apply attr_roundtrip in Hb.
  rewrite H in Ha. rewrite Ha in Hb. now injection Hb.
Qed.

(* ------------------------------------------------------------------ the hypotheses are exact *)
Lemma opt_cons_inj c x r : opt_cons c x = Some (String c r) -> x = Some r.
Proof. destruct x as [y|]; simpl; [intros H; now injection H as -> | discriminate]. Qed.

Lemma opt_cons_head c c' x r : opt_cons c x = Some (String c' r) -> c = c'.
Proof. destruct x as [y|]; simpl; [intros H; now injection H | discriminate]. Qed.

Ltac unsafe_char c H Heq :=
  all_chars c; try discriminate H;
  first [ discriminate Heq | apply opt_cons_head in Heq; discriminate Heq ].

Lemma aunsafe_dq_q c rest r : attr_safe_char c = false ->
  attr_body DQ (ANormal false) (esc_of attrib_repl_q c ++ rest) <> Some (String c r).
Proof. intros H Heq. unsafe_char c H Heq. Qed.

Lemma aunsafe_dq c rest r : attr_safe_char c = false ->
  attr_body DQ (ANormal false) (esc_of ref_attrib_repl c ++ rest) <> Some (String c r).
Proof. intros H Heq. unsafe_char c H Heq. Qed.

Lemma aunsafe_sq c rest r : attr_safe_char c = false ->
  attr_body SQ (ANormal false) (esc_of ref_attrib_repl c ++ rest) <> Some (String c r).
Proof. intros H Heq. unsafe_char c H Heq. Qed.

Lemma attr_body_cm_inv d e (p : ascii -> bool) :
  (forall c, attr_safe_char c && p c = true -> astep d e c) ->
  (forall c rest r, attr_safe_char c = false -> attr_body d (ANormal false) (e c ++ rest) <> Some (String c r)) ->
  forall s, forall_chars p s = true ->
  attr_body d (ANormal false) (cm e s ++ str1 d) = Some s -> attr_safe s = true.
Proof.
  intros Hstep Hbad; induction s as [|c t IH]; [reflexivity|].
  cbn [forall_chars cm]. intros Hp Heq. apply andb_true_iff in Hp as [Hc Ht].
  rewrite app_assoc_s in Heq. unfold attr_safe; cbn [forall_chars].
  destruct (attr_safe_char c) eqn:Hs.
  - rewrite (Hstep c) in Heq by (now rewrite Hs, Hc). apply opt_cons_inj in Heq. exact (IH Ht Heq).
  - exfalso. exact (Hbad c _ t Hs Heq).
Qed.

Lemma forall_chars_not q s : contains_char q s = false -> forall_chars (fun c => negb (Ascii.eqb c q)) s = true.
Proof.
  induction s as [|c t IH]; simpl; [reflexivity|]. intros H; apply orb_false_iff in H as [Hc Ht].
  now rewrite Hc, (IH Ht).
Qed.

Lemma forall_chars_true s : forall_chars (fun _ => true) s = true.
Proof. induction s as [|c t IH]; simpl; [reflexivity | exact IH]. Qed.

(* exactly the attr_safe strings survive as attribute values *)
Theorem attr_roundtrip_only_if : forall s, attr_parse (quote_attrib s) = Some s -> attr_safe s = true.
Proof.
  intros s. unfold quote_attrib, quote_attrib_of.
  rewrite (apply_repl_cm ref_attrib_repl s).
  rewrite !(contains_char_cm _ (esc_of ref_attrib_repl) s) by (intro c; apply esc_attr_quotes; auto).
  cbn [ad_test1 ad_test2 ad_both ad_first_only ad_none ref_attrib_decision].
  destruct (contains_char DQ s) eqn:Hdq; [destruct (contains_char SQ s) eqn:Hsq|].
  - unfold wrap; cbn [qr_delim qr_extra].
    rewrite <- (apply_repl_cm ref_attrib_repl s), <- apply_repl_chain.
    change (ref_attrib_repl ++ [(DQ, "&quot;")])%list with attrib_repl_q.
    rewrite (apply_repl_cm attrib_repl_q s).
    change (attr_body DQ (ANormal false) (cm (esc_of attrib_repl_q) s ++ str1 DQ) = Some s -> attr_safe s = true).
    apply (attr_body_cm_inv DQ _ (fun _ => true)); [| exact aunsafe_dq_q | apply forall_chars_true].
    intros c H. apply andb_true_iff in H as [H _]. exact (astep_dq_q c H).
  - unfold wrap; cbn [qr_delim qr_extra apply_repl].
    change (attr_body SQ (ANormal false) (cm (esc_of ref_attrib_repl) s ++ str1 SQ) = Some s -> attr_safe s = true).
    exact (attr_body_cm_inv SQ _ _ astep_sq aunsafe_sq s (forall_chars_not SQ s Hsq)).
  - unfold wrap; cbn [qr_delim qr_extra apply_repl].
    change (attr_body DQ (ANormal false) (cm (esc_of ref_attrib_repl) s ++ str1 DQ) = Some s -> attr_safe s = true).
    exact (attr_body_cm_inv DQ _ _ astep_dq aunsafe_dq s (forall_chars_not DQ s Hdq)).
Qed.

Theorem attr_roundtrip_iff : forall s, attr_parse (quote_attrib s) = Some s <-> attr_safe s = true.
Proof. intros s; split; [apply attr_roundtrip_only_if | apply attr_roundtrip]. Qed.

Lemma tunsafe c n rest r : text_safe_char c = false ->
  text_body (TNormal false n) (esc_of ref_xml_repl c ++ rest) <> Some (String c r).
Proof. intros H Heq. unsafe_char c H Heq. Qed.

Lemma text_body_cm_inv : forall s n,
  text_body (TNormal false n) (cm (esc_of ref_xml_repl) s) = Some s -> text_safe s = true.
Proof.
  induction s as [|c t IH]; intros n Heq; [reflexivity|].
  cbn [cm] in Heq. unfold text_safe; cbn [forall_chars].
  destruct (text_safe_char c) eqn:Hs.
  - destruct (tstep_ok c Hs n (cm (esc_of ref_xml_repl) t)) as [n' Hn']. rewrite Hn' in Heq.
    apply opt_cons_inj in Heq. exact (IH n' Heq).
  - exfalso. exact (tunsafe c n _ t Hs Heq).
Qed.

(* for strings without a complete CDATA section, exactly the text_safe ones survive as element text *)
Theorem text_roundtrip_iff : forall s, no_cdata_section s = true ->
  (text_parse (quote_xml s) = Some s <-> text_safe s = true).
Proof.
  intros s Hc; split; [|intros Hs; exact (text_roundtrip_strong s Hs Hc)].
  unfold quote_xml, quote_xml_of, text_parse.
  rewrite (quote_xml_loop_plain _ s "" Hc). cbn [append]. unfold quote_xml_aux_of.
  rewrite apply_repl_cm. apply text_body_cm_inv.
Qed.

Theorem attr_roundtrip_iff_gen : forall rp d, rp = ref_attrib_repl -> d = ref_attrib_decision ->
  forall s, attr_parse (quote_attrib_of rp d s) = Some s <-> attr_safe s = true.
Proof. intros rp d -> ->. exact attr_roundtrip_iff. Qed.

Theorem text_roundtrip_iff_gen : forall rp (body : list string) (rx : string) (fl : list string),
  rp = ref_xml_repl -> body = ref_quote_xml_body -> rx = ref_cdata_regex /\ fl = ref_cdata_flags ->
  forall s, no_cdata_section s = true -> (text_parse (quote_xml_of rp s) = Some s <-> text_safe s = true).
Proof. intros rp body rx fl -> _ _. exact text_roundtrip_iff. Qed.
