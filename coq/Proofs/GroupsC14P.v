(* C14: the statements of the property, assembled from GroupsP.v / GroupsSortP.v, in terms of what
   the methods return (resolve = get_all_segments_in_group, optimise_all = optimise_segment_groups);
   the shipped optimiser (v0): refutation of cleanliness and agreement with the repaired one for
   groups with at most one distinct include; executable hypotheses checkers; Examples. *)
From Coq Require Import String List ZArith Bool Arith Lia Permutation.
From LNML Require Import Model.Groups Proofs.GroupsP Proofs.GroupsSortP.
Import ListNotations.
Open Scope string_scope.

(* ---- decidable forms of the hypotheses ---- *)
Definition rank_ok (rk : string -> nat) (G : list group) : bool :=
  forallb (fun g => forallb (fun i => Nat.ltb (rk i) (rk (gid g))) (includes g)) G.

Lemma rank_ok_acyclic : forall rk G, rank_ok rk G = true -> acyclic G.
Proof.
  intros rk G H. exists rk. intros g i Hg Hi. unfold rank_ok in H.
  rewrite forallb_forall in H. specialize (H g Hg). rewrite forallb_forall in H.
  apply Nat.ltb_lt. apply H. exact Hi.
Qed.

(* a list in which every include names an EARLIER group is acyclic (rank = position) *)
Definition closed_b (G : list group) : bool :=
  forallb (fun g => forallb (fun i => memS i (map gid G) || String.eqb i "all") (includes g)) G.

Lemma closed_b_closed : forall G, closed_b G = true -> closed G.
Proof.
  intros G H g i Hg Hi. unfold closed_b in H. rewrite forallb_forall in H. specialize (H g Hg).
  rewrite forallb_forall in H. specialize (H i Hi). apply orb_true_iff in H. destruct H as [H|H].
  - left. apply memS_iff. exact H.
  - right. apply String.eqb_eq. exact H.
Qed.

Lemma nodupSb_NoDup : forall l, nodupSb l = true -> NoDup l.
Proof.
  intros l H. unfold nodupSb in H. apply Nat.eqb_eq in H.
  assert (Hp : forall l acc, NoDup acc ->
            length (fold_left (fun acc x => if memS x acc then acc else (acc ++ [x])%list) l acc) = length acc + length l ->
            NoDup (acc ++ l)).
  { clear. induction l as [|x l IH]; intros acc Hn Hl; simpl in *.
    - rewrite app_nil_r. exact Hn.
    - destruct (memS x acc) eqn:E.
      + exfalso.
        assert (Hle : forall l acc, length (fold_left (fun acc x => if memS x acc then acc else (acc ++ [x])%list) l acc) <= length acc + length l).
        { clear. induction l as [|y l IH]; intros acc; simpl; [lia|].
          destruct (memS y acc); [specialize (IH acc); lia|].
          specialize (IH (acc ++ [y])%list). rewrite app_length in IH. simpl in IH. lia. }
        specialize (Hle l acc). lia.
      + replace (acc ++ x :: l)%list with ((acc ++ [x]) ++ l)%list by (rewrite <- app_assoc; reflexivity).
        apply IH.
        * apply NoDup_rev in Hn. rewrite <- (rev_involutive (acc ++ [x])). apply NoDup_rev.
          rewrite rev_app_distr. simpl. constructor; [|exact Hn]. rewrite <- in_rev.
          intro Hin. apply memS_iff in Hin. congruence.
        * rewrite app_length. simpl. lia. }
  apply (Hp l []); [constructor | exact H].
Qed.

(* ================================================================== the property *)
Section C14.
  Variable sortS : list string -> list string.
  Variable sortZ : list Z -> list Z.
  Hypothesis sortS_perm : forall l, Permutation (sortS l) l.
  Hypothesis sortZ_perm : forall l, Permutation (sortZ l) l.
  Hypothesis sortS_idem : forall l, sortS (sortS l) = sortS l.
  Hypothesis sortZ_idem : forall l, sortZ (sortZ l) = sortZ l.

  Notation oall := (optimise_all sortS sortZ).

  (* (1) membership is the transitive closure, each segment reported once *)
  Theorem closure : forall segs G fuel a,
    acyclic G -> closed G -> NoDup segs -> length G < fuel -> (In a (map gid G) \/ a = "all") ->
    exists l, resolve segs fuel G a = Ret l /\ NoDup l /\ forall s, In s l <-> reach segs G a s.
  Proof.
    intros segs G fuel a Hac Hcl Hnd Hf Ha.
    destruct (resolve_total segs G fuel a Hac Hcl Hf Ha) as [l Hl]. exists l. split; [exact Hl|].
    destruct (resolve_spec segs G fuel a l Hl) as [H1 H2]. split; [apply H2; exact Hnd | exact H1].
  Qed.

  (* the same, read one step at a time: members of g, then whatever its includes resolve to *)
  Theorem closure_unfold : forall segs G fuel a g,
    acyclic G -> closed G -> length G < fuel -> lookup G a = Some g ->
    exists l, resolve segs fuel G a = Ret l /\
      forall s, In s l <-> In s (members g) \/
                           exists i li, In i (includes g) /\ resolve segs fuel G i = Ret li /\ In s li.
  Proof.
    intros segs G fuel a g Hac Hcl Hf Hl.
    destruct (lookup_some _ _ _ Hl) as [HgG Hga].
    assert (Ha : In a (map gid G) \/ a = "all") by (left; rewrite <- Hga; apply in_map; exact HgG).
    destruct (resolve_total segs G fuel a Hac Hcl Hf Ha) as [l Hr]. exists l. split; [exact Hr|].
    intros s. rewrite (proj1 (resolve_spec segs G fuel a l Hr) s). split.
    - intros H. inversion H as [a' g' s' Hl' Hm Ea Es | a' g' i s' Hl' Hi Hri Ea Es | s' Hl' Hs Ea Es].
      + rewrite Hl in Hl'. injection Hl' as <-. left. exact Hm.
      + rewrite Hl in Hl'. injection Hl' as <-. right.
        destruct (resolve_total segs G fuel i Hac Hcl Hf (Hcl g i HgG Hi)) as [li Hli].
        exists i, li. split; [exact Hi|]. split; [exact Hli|].
        apply (proj1 (resolve_spec segs G fuel i li Hli)). exact Hri.
      + rewrite <- Ea in Hl. rewrite Hl in Hl'. discriminate.
    - intros [Hm|[i [li [Hi [Hli Hs]]]]].
      + eapply reach_mem; eassumption.
      + eapply reach_inc; [exact Hl | exact Hi |]. apply (proj1 (resolve_spec segs G fuel i li Hli)). exact Hs.
  Qed.

  (* get_ordered_segments_in_groups([a]) (Groups.ordered_ids): the same segments, each ONCE, whatever routes lead to them *)
  Theorem ordered_once : forall segs G fuel a,
    acyclic G -> closed G -> NoDup segs -> length G < fuel -> (In a (map gid G) \/ a = "all") ->
    exists l, ordered_ids segs fuel G a = Ret l /\ NoDup l /\ forall s, In s l <-> reach segs G a s.
  Proof.
    intros segs G fuel a Hac Hcl Hnd Hf Ha.
    destruct (closure segs G fuel a Hac Hcl Hnd Hf Ha) as [l [Hl [Hn Hs]]].
    exists (isortZ l). unfold ordered_ids. rewrite Hl. split; [reflexivity|]. split.
    - eapply Permutation_NoDup; [symmetry; apply isortZ_perm | exact Hn].
    - intros s. rewrite <- Hs. split; apply Permutation_in; [|symmetry]; apply isortZ_perm.
  Qed.

  (* (2) optimising returns, keeps the group list and every group's resolved set *)
  Theorem preserve : forall segs G fuel,
    acyclic G -> closed G -> NoDup segs -> length G < fuel -> ~ In "" (map gid G) ->
    exists G', oall segs fuel G = Ret G' /\ map gid G' = map gid G /\ map nlex G' = map nlex G /\
      forall a, (In a (map gid G) \/ a = "all") ->
        exists l l', resolve segs fuel G a = Ret l /\ resolve segs fuel G' a = Ret l' /\
                     NoDup l' /\ forall s, In s l <-> In s l'.
  Proof.
    intros segs G fuel Hac Hcl Hnd Hf Hne.
    destruct (optimise_all_total sortS sortZ sortS_perm sortZ_perm segs fuel G Hac Hcl Hf Hne) as [G' HG'].
    exists G'. split; [exact HG'|].
    destruct (optimise_all_equiv sortS sortZ sortS_perm sortZ_perm segs fuel G G' Hac HG') as [Hss Hr].
    split; [apply same_shape_gids; exact Hss|]. split.
    - clear -Hss. induction Hss as [|g g' l l' [_ [_ [Hn _]]] _ IH]; simpl; [reflexivity | congruence].
    - intros a Ha.
      destruct (closure segs G fuel a Hac Hcl Hnd Hf Ha) as [l [Hl [_ Hls]]].
      assert (Hac' : acyclic G') by (eapply same_shape_acyclic; eassumption).
      assert (Hcl' : closed G') by (eapply same_shape_closed; eassumption).
      assert (Hf' : length G' < fuel) by (rewrite (same_shape_length _ _ Hss); exact Hf).
      assert (Ha' : In a (map gid G') \/ a = "all") by (rewrite (same_shape_gids _ _ Hss); exact Ha).
      destruct (closure segs G' fuel a Hac' Hcl' Hnd Hf' Ha') as [l' [Hl' [Hnd' Hls']]].
      exists l, l'. split; [exact Hl|]. split; [exact Hl'|]. split; [exact Hnd'|].
      intros s. rewrite Hls, Hls'. apply Hr.
  Qed.

  (* (3) afterwards: no duplicate member, no duplicate include, no member an include supplies *)
  Theorem clean_after : forall segs G fuel G',
    acyclic G -> NoDup (map gid G) -> oall segs fuel G = Ret G' ->
    forall g, In g G' ->
      NoDup (members g) /\ NoDup (includes g) /\
      forall i l s, In i (includes g) -> resolve segs fuel G' i = Ret l -> In s (members g) -> ~ In s l.
  Proof.
    intros segs G fuel G' Hac Hnd H g Hg.
    destruct (optimise_all_clean sortS sortZ sortS_perm sortZ_perm segs fuel G G' Hac Hnd H g Hg) as [H1 [H2 H3]].
    split; [exact H1|]. split; [exact H2|]. intros i l s Hi Hl Hs Hin.
    apply (H3 s i Hs Hi). apply (proj1 (resolve_spec segs G' fuel i l Hl)). exact Hin.
  Qed.

  (* (4) twice = once *)
  Theorem idem : forall segs G fuel G',
    acyclic G -> closed G -> NoDup (map gid G) -> length G < fuel ->
    oall segs fuel G = Ret G' -> oall segs fuel G' = Ret G'.
  Proof.
    intros. eapply (optimise_all_idem sortS sortZ sortS_perm sortZ_perm); eassumption.
  Qed.

  (* a single optimise_segment_group(a) on the current groups: every closure kept, group a left clean *)
  Theorem single_group : forall segs G fuel a G',
    acyclic G -> optimise_group sortS sortZ segs fuel G a = Ret G' ->
    map gid G' = map gid G /\
    (forall b s, reach segs G b s <-> reach segs G' b s) /\
    exists g', lookup G' a = Some g' /\ NoDup (members g') /\ NoDup (includes g') /\
               forall s i, In s (members g') -> In i (includes g') -> ~ reach segs G' i s.
  Proof.
    intros segs G fuel a G' Hac H.
    destruct (optimise_group_spec sortS sortZ sortS_perm sortZ_perm segs fuel G a G' Hac H)
      as [g [g' [_ [_ [_ [Hl' [[Hss Hr] [Hcl _]]]]]]]].
    split; [apply same_shape_gids; exact Hss|]. split; [exact Hr|].
    exists g'. split; [exact Hl'|]. destruct Hcl as [A [B C]]. auto.
  Qed.

  (* ---- the shipped optimiser agrees with the repaired one when no group has two distinct includes *)
  Notation og := (optimise_group sortS sortZ).
  Notation og0 := (optimise_group_v0 sortS sortZ).

  Definition few_includes (G : list group) : Prop := forall g, In g G -> length (dedupS (includes g)) <= 1.

  Lemma og0_eq : forall segs fuel G a g,
    get_group G a = Some g -> length (dedupS (includes g)) <= 1 -> og0 segs fuel G a = og segs fuel G a.
  Proof.
    intros segs fuel G a g Hg Hlen. unfold optimise_group_v0, optimise_group. rewrite Hg.
    set (ms := dedupZ (members g)). set (incs := sortS (dedupS (includes g))).
    assert (Hl : length incs <= 1) by (unfold incs; rewrite (Permutation_length (sortS_perm _)); exact Hlen).
    destruct incs as [|i [|j r]]; [reflexivity| |simpl in Hl; lia].
    destruct (nonemptyS [i] && nonemptyZ ms); [|reflexivity].
    set (G1 := replace_first G (gid g) (mkGroup (gid g) ms [i] (nlex g))).
    unfold resolve_union. simpl. destruct (resolve segs fuel G1 i) as [l|e]; [|reflexivity].
    simpl flat_map. rewrite app_nil_r. f_equal. f_equal. f_equal. f_equal. apply filter_ext. intros m. f_equal.
    destruct (memZ m l) eqn:E1.
    - symmetry. apply memZ_iff. apply add_new_in. right. apply memZ_iff. exact E1.
    - symmetry. apply memZ_false_iff. intro Hin. apply add_new_in in Hin. destruct Hin as [[]|Hin].
      apply memZ_iff in Hin. congruence.
  Qed.

  Lemma in_replace_first_weak : forall G a g' h, In h (replace_first G a g') -> h = g' \/ In h G.
  Proof.
    induction G as [|k G IH]; intros a g' h Hi; simpl in *; [contradiction|].
    destruct (String.eqb (gid k) a).
    - destruct Hi as [Hi|Hi]; [left; congruence | right; right; exact Hi].
    - destruct Hi as [Hi|Hi]; [right; left; exact Hi|]. destruct (IH _ _ _ Hi); [left | right; right]; assumption.
  Qed.

  Lemma og_few : forall segs fuel G a G', few_includes G -> og segs fuel G a = Ret G' -> few_includes G'.
  Proof.
    intros segs fuel G a G' Hfew H. unfold optimise_group in H.
    destruct (get_group G a) as [g|] eqn:Hg; [|discriminate].
    destruct (get_group_some _ _ _ Hg) as [Hl _]. destruct (lookup_some _ _ _ Hl) as [HgG _].
    assert (Hk : forall ms, length (dedupS (includes (mkGroup (gid g) ms (sortS (dedupS (includes g))) (nlex g)))) <= 1).
    { intros ms. simpl. rewrite dedupS_id.
      - rewrite (Permutation_length (sortS_perm _)). apply Hfew. exact HgG.
      - eapply Permutation_NoDup; [symmetry; apply sortS_perm | apply dedupS_nodup]. }
    destruct (nonemptyS _ && nonemptyZ _).
    - destruct (resolve_union _ _ _ _) as [cov|e]; [|discriminate]. inversion H; subst G'; clear H.
      intros h Hh. apply in_replace_first_weak in Hh. destruct Hh as [Hh|Hh]; [subst h; apply Hk|].
      apply in_replace_first_weak in Hh. destruct Hh as [Hh|Hh]; [subst h; apply Hk | apply Hfew; exact Hh].
    - inversion H; subst G'; clear H.
      intros h Hh. apply in_replace_first_weak in Hh. destruct Hh as [Hh|Hh]; [subst h; apply Hk | apply Hfew; exact Hh].
  Qed.

  Theorem v0_agrees_when_few_includes : forall segs fuel G,
    few_includes G -> optimise_all_v0 sortS sortZ segs fuel G = oall segs fuel G.
  Proof.
    intros segs fuel G Hfew. unfold optimise_all_v0, optimise_all.
    generalize (map gid G) as ids. intros ids. revert G Hfew.
    induction ids as [|a ids IH]; intros G Hfew; [reflexivity|].
    unfold optimise_ids in *. simpl.
    assert (E : og0 segs fuel G a = og segs fuel G a).
    { unfold optimise_group_v0, optimise_group. destruct (get_group G a) as [g|] eqn:Hg; [|reflexivity].
      pose proof (og0_eq segs fuel G a g Hg) as E. unfold optimise_group_v0, optimise_group in E. rewrite Hg in E.
      apply E. apply Hfew. destruct (get_group_some _ _ _ Hg) as [Hl _]. apply (lookup_some _ _ _ Hl). }
    rewrite E. destruct (og segs fuel G a) as [G1|e] eqn:H1.
    - apply IH. eapply og_few; eassumption.
    - clear. induction ids as [|b ids IH]; simpl; [reflexivity | exact IH].
  Qed.
End C14.

(* ================================================================== instances, refutation, examples *)

(* the concrete sorts the correspondence run uses satisfy the four hypotheses *)
Definition c14_closure := closure.
Definition c14_preserve := preserve natsortS isortZ natsortS_perm isortZ_perm.
Definition c14_clean := clean_after natsortS isortZ natsortS_perm isortZ_perm.
Definition c14_idem := idem natsortS isortZ natsortS_perm isortZ_perm natsortS_idem isortZ_idem.

(* the stored witness: members [0,1,2], includes a={0}, b={1} *)
Definition wit_segs : list Z := [0; 1; 2]%Z.
Definition wit_G : list group :=
  [ mkGroup "a" [0%Z] [] None; mkGroup "b" [1%Z] [] None; mkGroup "g" [0; 1; 2]%Z ["a"; "b"] None ].
Definition wit_rank (a : string) : nat := if String.eqb a "g" then 1 else 0.

Lemma wit_hyps : acyclic wit_G /\ closed wit_G /\ NoDup (map gid wit_G) /\ NoDup wit_segs /\
                 length wit_G < default_fuel wit_G /\ ~ In "" (map gid wit_G).
Proof.
  split; [apply (rank_ok_acyclic wit_rank); reflexivity|].
  split; [apply closed_b_closed; reflexivity|].
  split; [apply nodupSb_NoDup; reflexivity|].
  split; [repeat constructor; simpl; intuition lia|].
  split; [unfold default_fuel; lia|].
  simpl. intuition discriminate.
Qed.

(* shipped code: the result is [0;1;2;2] - a duplicate, and 0, 1 are still there although a, b supply them *)
Theorem clean_v0_refuted : exists segs G G',
  acyclic G /\ closed G /\ NoDup (map gid G) /\
  optimise_all_v0_c segs (default_fuel G) G = Ret G' /\
  clean_b segs (default_fuel G) G' = false /\
  exists g, In g G' /\ members g = [0; 1; 2; 2]%Z.
Proof.
  exists wit_segs, wit_G.
  eexists. destruct wit_hyps as [H1 [H2 [H3 _]]].
  split; [exact H1|]. split; [exact H2|]. split; [exact H3|].
  split; [vm_compute; reflexivity|]. split; [vm_compute; reflexivity|].
  eexists. split; [right; right; left; reflexivity | reflexivity].
Qed.

(* repaired code on the same cell: [2] *)
Example clean_fixed_on_witness :
  optimise_all_c wit_segs (default_fuel wit_G) wit_G =
    Ret [ mkGroup "a" [0%Z] [] None; mkGroup "b" [1%Z] [] None; mkGroup "g" [2%Z] ["a"; "b"] None ].
Proof. vm_compute. reflexivity. Qed.

(* a deeper example meeting every hypothesis: chain top -> mid -> {leaf1, leaf10}, overlaps,
   duplicates, natural sort order of includes, include of the undefined "all" elsewhere *)
Definition ex_segs : list Z := [4; 0; 1; 2; 3; 7]%Z.
Definition ex_G : list group :=
  [ mkGroup "top" [3; 0; 3; 7]%Z ["mid"; "leaf10"; "mid"] (Some "GO:1");
    mkGroup "leaf10" [2; 2]%Z [] None;
    mkGroup "mid" [1; 0; 2]%Z ["leaf10"; "leaf2"] None;
    mkGroup "leaf2" [0%Z] [] None;
    mkGroup "everything" [] ["all"] None ].
Definition ex_rank (a : string) : nat :=
  if String.eqb a "top" then 2 else if String.eqb a "mid" then 1 else if String.eqb a "everything" then 1 else 0.

Lemma ex_hyps : acyclic ex_G /\ closed ex_G /\ NoDup (map gid ex_G) /\ NoDup ex_segs /\
                length ex_G < default_fuel ex_G /\ ~ In "" (map gid ex_G).
Proof.
  split; [apply (rank_ok_acyclic ex_rank); reflexivity|].
  split; [apply closed_b_closed; reflexivity|].
  split; [apply nodupSb_NoDup; reflexivity|].
  split; [repeat constructor; simpl; intuition lia|].
  split; [unfold default_fuel; lia|].
  simpl. intuition discriminate.
Qed.

Example ex_resolve_top : resolve ex_segs (default_fuel ex_G) ex_G "top" = Ret [3; 0; 7; 1; 2]%Z.
Proof. vm_compute. reflexivity. Qed.
Example ex_resolve_everything : resolve ex_segs (default_fuel ex_G) ex_G "everything" = Ret ex_segs.
Proof. vm_compute. reflexivity. Qed.
Example ex_optimise : optimise_all_c ex_segs (default_fuel ex_G) ex_G =
  Ret [ mkGroup "top" [3; 7]%Z ["leaf10"; "mid"] (Some "GO:1");
        mkGroup "leaf10" [2%Z] [] None;
        mkGroup "mid" [1%Z] ["leaf2"; "leaf10"] None;
        mkGroup "leaf2" [0%Z] [] None;
        mkGroup "everything" [] ["all"] None ].
Proof. vm_compute. reflexivity. Qed.
Example ex_natsort : natsortS ["g10"; "g2"; "all"; "g1"; "10a"; "G3"; "g"] = ["10a"; "G3"; "all"; "g"; "g1"; "g2"; "g10"].
Proof. vm_compute. reflexivity. Qed.

(* a cyclic graph is outside the hypotheses: the model runs out of fuel (Python: RecursionError) *)
Example ex_cycle : resolve [] 3 [mkGroup "p" [0%Z] ["q"] None; mkGroup "q" [] ["p"] None] "p" = Err EFuel.
Proof. vm_compute. reflexivity. Qed.
