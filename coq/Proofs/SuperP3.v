(* Proofs about Model/Super.v, part 3: build-time validation in component_factory and add (property C09).
   Generic over table sets, classes, keyword lists, validators, the order of _get_members, and histories of
   switch / factory / add operations. *)
From Coq Require Import String List ZArith Bool Lia.
From LNML Require Import Lib.Dec Model.Gds Model.Super Proofs.SuperP Proofs.SuperP2.
Import ListNotations.
Open Scope string_scope.

(* ------------------------------------------------------------------ the switch *)
Lemma sw_run_app s h1 h2 : sw_run s (h1 ++ h2) = sw_run (sw_run s h1) h2.
Proof. unfold sw_run. apply fold_left_app. Qed.

(* the last operation wins, whatever came before *)
Lemma sw_last s h o : sw_run s (h ++ [o]) = sw_apply true o.
Proof. rewrite sw_run_app. simpl. destruct o; reflexivity. Qed.

Lemma sw_reenable s h : sw_run s (h ++ [SwEnable]) = true.
Proof. apply sw_last. Qed.

Lemma sw_disable s h : sw_run s (h ++ [SwDisable]) = false.
Proof. apply sw_last. Qed.

Section C09P.
Variable F : Type.
Variable F_eqb : F -> F -> bool.
Variable F_of_dec : dec -> F.
Notation value := (value F).
Notation obj := (obj F).
Variable setup_nml_cell : obj -> obj.
Variable str_ok : obj -> bool.

Notation factory_with v := (component_factory_with F F_of_dec v setup_nml_cell).
Notation add_with v := (add_with F F_eqb F_of_dec v setup_nml_cell str_ok).

(* ------------------------------------------------------------------ _check_arg_list *)
Lemma check_arg_list_none names (kw : list (string * value)) :
  check_arg_list F names kw = None <-> (forall k, In k (map fst kw) -> In k names).
Proof.
  induction kw as [|[k v] r IH]; simpl.
  - split; [intros _ k []|reflexivity].
  - destruct (mem k names) eqn:E.
    + rewrite IH. split.
      * intros H k' [<-|Hk]; [apply mem_In; exact E|apply H; exact Hk].
      * intros H k' Hk. apply H. right. exact Hk.
    + split; [discriminate|]. intro H. apply mem_false in E. exfalso. apply E. apply H. left. reflexivity.
Qed.

Lemma check_arg_list_some names (kw : list (string * value)) k :
  check_arg_list F names kw = Some k -> In k (map fst kw) /\ ~ In k names.
Proof.
  induction kw as [|[k' v] r IH]; simpl; [discriminate|].
  destruct (mem k' names) eqn:E.
  - intro H. destruct (IH H). split; [right; assumption|assumption].
  - intro H; inversion H; subst. split; [left; reflexivity|apply mem_false; exact E].
Qed.

(* ------------------------------------------------------------------ component_factory *)
(* validation on: whatever is handed back passes validate() *)
Lemma factory_valid validate_ok ms T c kw o w :
  factory_with validate_ok ms T true true c kw = (Ret o, w) -> validate_ok o = true /\ w = [].
Proof.
  unfold component_factory_with. destruct (find_cls T c); [|discriminate].
  destruct (init_fields F F_of_dec (cfuel T) T c kw) as [fs|]; [|discriminate].
  destruct (check_arg_list F (member_names ms) kw); [discriminate|]. simpl.
  destruct (validate_ok _) eqn:E; [|discriminate].
  intro H; inversion H; subst. auto.
Qed.

(* a keyword that is not a member is refused: for both switch positions and both values of the flag *)
Lemma factory_typo validate_ok ms T enabled validate c kw k :
  In k (map fst kw) -> ~ In k (member_names ms) ->
  exists e, fst (factory_with validate_ok ms T enabled validate c kw) = Err e.
Proof.
  intros Hk Hn. unfold component_factory_with. destruct (find_cls T c); [|eexists; reflexivity].
  destruct (init_fields F F_of_dec (cfuel T) T c kw) as [fs|]; [|eexists; reflexivity].
  destruct (check_arg_list F (member_names ms) kw) as [k'|] eqn:E; [eexists; reflexivity|].
  exfalso. apply Hn. exact (proj1 (check_arg_list_none _ _) E k Hk).
Qed.

(* never silently ignored: when a component is handed back every keyword given is a member name *)
Lemma factory_ret_all_members validate_ok ms T enabled validate c kw o w :
  factory_with validate_ok ms T enabled validate c kw = (Ret o, w) ->
  forall k, In k (map fst kw) -> In k (member_names ms).
Proof.
  unfold component_factory_with. destruct (find_cls T c); [|discriminate].
  destruct (init_fields F F_of_dec (cfuel T) T c kw) as [fs|]; [|discriminate].
  destruct (check_arg_list F (member_names ms) kw) eqn:E; [discriminate|]. intros _.
  exact (proj1 (check_arg_list_none _ _) E).
Qed.

(* the global switch overrides the per-call flag; off (either way) = unvalidated: the validator is not consulted *)
Lemma factory_switch validate_ok ms T en v c kw :
  factory_with validate_ok ms T false v c kw = factory_with validate_ok ms T en false c kw.
Proof.
  unfold component_factory_with. rewrite andb_false_r. reflexivity.
Qed.

Lemma factory_unvalidated v1 v2 ms T enabled validate c kw :
  enabled && validate = false ->
  factory_with v1 ms T enabled validate c kw = factory_with v2 ms T enabled validate c kw.
Proof. intro H. unfold component_factory_with. rewrite H. reflexivity. Qed.

(* off: the same component as the constructor gives, argument check still applied *)
Lemma factory_off_returns validate_ok ms T enabled validate c kw k0 fs :
  enabled && validate = false -> find_cls T c = Some k0 ->
  init_fields F F_of_dec (cfuel T) T c kw = Some fs ->
  (forall k, In k (map fst kw) -> In k (member_names ms)) ->
  factory_with validate_ok ms T enabled validate c kw =
  (Ret (if String.eqb c "Cell" then setup_nml_cell (Obj c fs) else Obj c fs), [WDisabled]).
Proof.
  intros H Hc Hi Hk. unfold component_factory_with. rewrite Hc, Hi, H.
  rewrite (proj2 (check_arg_list_none _ _) Hk). reflexivity.
Qed.

(* on: handed back iff the constructed component validates *)
Lemma factory_on validate_ok ms T c kw k0 fs :
  find_cls T c = Some k0 -> init_fields F F_of_dec (cfuel T) T c kw = Some fs ->
  (forall k, In k (map fst kw) -> In k (member_names ms)) ->
  let o := if String.eqb c "Cell" then setup_nml_cell (Obj c fs) else Obj c fs in
  factory_with validate_ok ms T true true c kw = if validate_ok o then (Ret o, []) else (Err ExValidation, []).
Proof.
  intros Hc Hi Hk. unfold component_factory_with. rewrite Hc, Hi.
  rewrite (proj2 (check_arg_list_none _ _) Hk). reflexivity.
Qed.

(* ------------------------------------------------------------------ add *)
Section Add.
Variable fixed : bool.
Variable msf : string -> list mspec.
Variable T : tables.

(* validation on: a normal return means the parent passes validate(), and a child made from a class/name does too *)
Lemma add_valid validate_ok p child hint force x :
  let r := add_with validate_ok fixed msf T true p child hint force true in
  ao_res F r = Ret (Some x) ->
  validate_ok (ao_parent F r) = true /\
  (forall c kw, child = ChCls F c kw -> validate_ok x = true).
Proof.
  unfold Super.add_with. destruct child as [|o|c kw]; simpl.
  - discriminate.
  - destruct (place F F_eqb F_of_dec str_ok fixed _ p o hint force) as [[p'|e'] w1]; simpl; [|discriminate].
    destruct (validate_ok p') eqn:E; simpl; [|discriminate]. intro H. split; [exact E|]. intros c kw Hc. discriminate.
  - destruct (factory_with validate_ok (msf c) T true true c kw) as [[o|e0] w0] eqn:Ef; simpl; [|discriminate].
    destruct (place F F_eqb F_of_dec str_ok fixed _ p o hint force) as [[p'|e'] w1]; simpl; [|discriminate].
    destruct (validate_ok p') eqn:E; simpl; [|discriminate]. intro H. inversion H; subst x. split; [exact E|].
    intros c' kw' _. apply factory_valid in Ef. tauto.
Qed.

(* a keyword that is not a member of the child's class: refused, parent unchanged, for both switch positions *)
Lemma add_typo validate_ok enabled validate p c kw hint force k :
  In k (map fst kw) -> ~ In k (member_names (msf c)) ->
  let r := add_with validate_ok fixed msf T enabled p (ChCls F c kw) hint force validate in
  (exists e, ao_res F r = Err e) /\ ao_parent F r = p.
Proof.
  intros Hk Hn. destruct (factory_typo validate_ok (msf c) T enabled validate c kw k Hk Hn) as [e He].
  destruct (factory_with validate_ok (msf c) T enabled validate c kw) as [[o|e0] w0] eqn:Ef; simpl in He; [discriminate|].
  unfold Super.add_with. rewrite Ef. simpl. split; [eexists; reflexivity|reflexivity].
Qed.

(* off (either way) = the validator is not consulted *)
Lemma add_unvalidated v1 v2 enabled validate p child hint force :
  enabled && validate = false ->
  add_with v1 fixed msf T enabled p child hint force validate = add_with v2 fixed msf T enabled p child hint force validate.
Proof.
  intro H. unfold Super.add_with. destruct child as [|o|c kw]; [reflexivity| |].
  - destruct (place F F_eqb F_of_dec str_ok fixed _ p o hint force) as [[p'|e'] w1]; [|reflexivity]. rewrite H. reflexivity.
  - rewrite (factory_unvalidated v1 v2 (msf c) T enabled validate c kw H).
    destruct (factory_with v2 (msf c) T enabled validate c kw) as [[o|e0] w0]; [|reflexivity].
    destruct (place F F_eqb F_of_dec str_ok fixed _ p o hint force) as [[p'|e'] w1]; [|reflexivity]. rewrite H. reflexivity.
Qed.

(* switch off = flag off, whatever the other one says *)
Lemma add_switch_eq validate_ok en v p child hint force :
  add_with validate_ok fixed msf T false p child hint force v = add_with validate_ok fixed msf T false p child hint force false
  /\ add_with validate_ok fixed msf T en p child hint force false = add_with validate_ok fixed msf T false p child hint force false.
Proof.
  split.
  - destruct v; [|reflexivity].
    unfold Super.add_with. destruct child as [|o|c kw]; [reflexivity|reflexivity|].
    rewrite (factory_switch validate_ok (msf c) T false true c kw). reflexivity.
  - unfold Super.add_with. destruct child as [|o|c kw]; [reflexivity| |].
    + rewrite andb_false_r. reflexivity.
    + rewrite (factory_switch validate_ok (msf c) T en false c kw). rewrite andb_false_r. reflexivity.
Qed.

(* ------------------------------------------------------------------ sessions: switch operations interleaved with calls *)
Notation sess_run v := (sess_run F F_eqb F_of_dec v setup_nml_cell str_ok fixed msf T).

Fixpoint switches (h : list (sess_op F)) : list sw_op :=
  match h with
  | [] => []
  | OpSwitch _ s :: r => s :: switches r
  | _ :: r => switches r
  end.

(* factory and add calls never move the switch: its position is determined by the switch operations alone *)
Lemma sess_switch validate_ok h : forall st, fst (sess_run validate_ok st h) = sw_run (fst st) (switches h).
Proof.
  induction h as [|o r IH]; intro st; [reflexivity|].
  unfold Super.sess_run in *. simpl. rewrite IH. destruct o; reflexivity.
Qed.

(* after any history, an enable makes the next factory call validate again (and a disable switches it off) *)
Lemma sess_reenable validate_ok h st : fst (sess_run validate_ok st (h ++ [OpSwitch F SwEnable])) = true.
Proof.
  rewrite sess_switch. assert (E : switches (h ++ [OpSwitch F SwEnable]) = (switches h ++ [SwEnable])%list).
  { induction h as [|o r IH]; [reflexivity|]. destruct o; simpl; rewrite IH; reflexivity. }
  rewrite E. apply sw_reenable.
Qed.

Lemma sess_disable validate_ok h st : fst (sess_run validate_ok st (h ++ [OpSwitch F SwDisable])) = false.
Proof.
  rewrite sess_switch. assert (E : switches (h ++ [OpSwitch F SwDisable]) = (switches h ++ [SwDisable])%list).
  { induction h as [|o r IH]; [reflexivity|]. destruct o; simpl; rewrite IH; reflexivity. }
  rewrite E. apply sw_disable.
Qed.
End Add.
End C09P.

(* ---- the switch seen from several threads (Super.switch_trace_mismatches): the model has ONE cell, so when a recorded trace has
   no mismatch, every thread saw after every step the position determined by the switch operations so far, whoever issued them *)
Lemma trace_ops_app a b : trace_ops (a ++ b) = (trace_ops a ++ trace_ops b)%list.
Proof. induction a as [|s r IH]; [reflexivity|]. simpl. destruct (ts_op s); simpl; rewrite IH; reflexivity. Qed.

Lemma sw_next_run st s : sw_next st (ts_op s) = sw_run st (trace_ops [s]).
Proof. unfold sw_next, sw_run. simpl. destruct (ts_op s); reflexivity. Qed.

Lemma trace_sound : forall l st i, switch_trace_mismatches st i l = [] ->
  forall pre s post, l = (pre ++ s :: post)%list -> forall tv, In tv (ts_seen s) ->
  snd tv = sw_run st (trace_ops (pre ++ [s])).
Proof.
  induction l as [|x r IH]; intros st i H pre s post E tv Hin.
  - destruct pre; discriminate.
  - simpl in H. destruct (forallb (fun tv0 => Bool.eqb (snd tv0) (sw_next st (ts_op x))) (ts_seen x)) eqn:Hall; [|discriminate].
    destruct pre as [|p pre'].
    + simpl in E. injection E as E1 E2. subst x. simpl app. rewrite <- sw_next_run.
      rewrite forallb_forall in Hall. specialize (Hall tv Hin). apply eqb_prop in Hall. exact Hall.
    + simpl in E. injection E as E1 E2. subst x.
      rewrite (IH _ _ H pre' s post E2 tv Hin).
      change ((p :: pre') ++ [s])%list with ([p] ++ (pre' ++ [s]))%list. rewrite (trace_ops_app [p]).
      unfold sw_run. rewrite fold_left_app. fold (sw_run st (trace_ops [p])). rewrite <- sw_next_run. reflexivity.
Qed.

(* the thread that issues an operation plays no role: two traces with the same operations end in the same position *)
Lemma trace_thread_irrelevant st l1 l2 : map ts_op l1 = map ts_op l2 -> sw_run st (trace_ops l1) = sw_run st (trace_ops l2).
Proof.
  intro E. f_equal. revert l2 E. induction l1 as [|a r IH]; intros [|b q] E; try discriminate; [reflexivity|].
  simpl in E. injection E as E1 E2. simpl. rewrite E1. destruct (ts_op b); [f_equal|]; apply IH; exact E2.
Qed.

(* ---- a build-time call site that passes nothing, or the default itself, consults the plain validate() *)
Lemma validate_at_site_default {O : Type} (v : bool -> O -> bool) default arg :
  site_agrees default arg = true -> validate_at_site v default arg = v default.
Proof.
  unfold site_agrees, validate_at_site. destruct arg as [b|]; [|reflexivity].
  intro H. apply eqb_prop in H. subst b. reflexivity.
Qed.
