(* C19 — proofs: what each accepted accessor program computes (for ALL population ids, indices, component ids,
   whitespace runs, numerals), soundness of the per-run table check, and the summary's totals for ALL networks. *)
From Coq Require Import String Ascii List ZArith NArith QArith Bool Lia.
From LNML Require Import Lib.StrFun Lib.StrFunP Model.Accessors.
Import ListNotations.
Local Close Scope Q_scope.
Local Open Scope nat_scope.
Local Open Scope string_scope.

(* ------------------------------------------------------------------ syntactic equality is equality *)
Scheme sexpr_mut := Induction for sexpr Sort Prop
  with scond_mut := Induction for scond Sort Prop.
Combined Scheme sexpr_scond_ind from sexpr_mut, scond_mut.

Lemma Q_eq_fields : forall a b : Q, Z.eqb (Qnum a) (Qnum b) && Pos.eqb (Qden a) (Qden b) = true -> a = b.
Proof.
  intros [an ad] [bn bd] H. simpl in H. apply andb_true_iff in H. destruct H as [H1 H2].
  apply Z.eqb_eq in H1. apply Pos.eqb_eq in H2. subst. reflexivity.
Qed.

Lemma sexpr_scond_eqb_eq :
  (forall x y, sexpr_eqb x y = true -> x = y) /\ (forall x y, scond_eqb x y = true -> x = y).
Proof.
  apply sexpr_scond_ind; intros;
    match goal with
    | H : sexpr_eqb _ ?y = true |- _ => destruct y; simpl in H; try discriminate
    | H : scond_eqb _ ?y = true |- _ => destruct y; simpl in H; try discriminate
    end;
    repeat match goal with
           | H : _ && _ = true |- _ => apply andb_true_iff in H; destruct H
           end;
    repeat match goal with
           | H : String.eqb _ _ = true |- _ => apply String.eqb_eq in H; subst
           | H : Z.eqb _ _ = true |- _ => apply Z.eqb_eq in H; subst
           | H : Nat.eqb _ _ = true |- _ => apply Nat.eqb_eq in H; subst
           | H : ascii_eq _ _ = true |- _ => apply Ascii.eqb_eq in H; subst
           | IH : forall y, sexpr_eqb ?a y = true -> ?a = y, H : sexpr_eqb ?a _ = true |- _ => apply IH in H; subst
           | IH : forall y, scond_eqb ?a y = true -> ?a = y, H : scond_eqb ?a _ = true |- _ => apply IH in H; subst
           end;
    try reflexivity.
  - match goal with |- EFloat ?x = EFloat ?y => destruct x, y end. simpl in *.
    repeat match goal with H : Pos.eqb _ _ = true |- _ => apply Pos.eqb_eq in H end. subst. reflexivity.
Qed.

Lemma sprog_eqb_eq : forall x y, sprog_eqb x y = true -> x = y.
Proof.
  destruct sexpr_scond_eqb_eq as [HE HC].
  induction x as [e| | |c t IHt e IHe]; intros y H; destruct y; simpl in H; try discriminate; try reflexivity.
  - apply HE in H. subst. reflexivity.
  - apply andb_true_iff in H. destruct H as [H H3]. apply andb_true_iff in H. destruct H as [H1 H2].
    apply HC in H1. apply IHt in H2. apply IHe in H3. subst. reflexivity.
Qed.

(* ------------------------------------------------------------------ the property-level specification of each kind *)
Definition sl : string := "/".
Definition lb : string := "[".
Definition rb : string := "]".

Section Spec.
  Variable pf : string -> option Q.
  Variable f : (string -> pyval) -> res pyval.     (* the accessor, as a function of the object's attributes *)
  Variable a : string.                             (* the attribute it reads *)

  Definition float_res (s : string) : res pyval :=
    match pf s with Some q => Ok (VFloat q) | None => Err ValueError end.
  Definition float_res_k (s : string) : res pyval :=
    match pf s with Some q => Ok (VFloat (q * (1000 # 1))%Q) | None => Err ValueError end.

  Definition spec_cell_id_path : Prop :=
    (* pop[i], ../pop[i] -- any prefix without '[' *)
    (forall attrs pre i rest, no_char ch_lbr pre = true -> no_char ch_lbr rest = true ->
        attrs a = VStr (pre ++ lb ++ dec i ++ rb ++ rest) -> f attrs = Ok (VInt (Z.of_N i)))
    (* ../pop/i   ../pop/i/comp   ../pop/i/... *)
    /\ (forall attrs pop i tail, no_char ch_slash pop = true -> no_char ch_lbr pop = true -> no_char ch_lbr tail = true ->
        (tail = "" \/ exists t, tail = sl ++ t) ->
        attrs a = VStr ("../" ++ pop ++ sl ++ dec i ++ tail) -> f attrs = Ok (VInt (Z.of_N i))).

  Definition spec_cell_id_plain : Prop :=
    (forall attrs i, pf (dec i) = Some (inject_Z (Z.of_N i)) -> attrs a = VStr (dec i) -> f attrs = Ok (VInt (Z.of_N i)))
    /\ (forall attrs z, attrs a = VInt z -> f attrs = Ok (VInt z)).

  Definition spec_population : Prop :=
    (forall attrs pop rest, no_char ch_slash pop = true -> no_char ch_lbr pop = true ->
        attrs a = VStr (pop ++ lb ++ rest) -> f attrs = Ok (VStr pop))
    /\ (forall attrs pop rest, no_char ch_slash pop = true -> no_char ch_lbr pop = true ->
        attrs a = VStr ("../" ++ pop ++ lb ++ rest) -> f attrs = Ok (VStr pop))
    /\ (forall attrs pop tail, no_char ch_slash pop = true -> no_char ch_lbr pop = true -> no_char ch_lbr tail = true ->
        attrs a = VStr ("../" ++ pop ++ sl ++ tail) -> f attrs = Ok (VStr pop)).

  Definition spec_int_of : Prop :=
    (forall attrs z, attrs a = VInt z -> f attrs = Ok (VInt z))
    /\ (forall attrs n, attrs a = VStr (dec n) -> f attrs = Ok (VInt (Z.of_N n))).

  Definition spec_float_of : Prop :=
    (forall attrs q, attrs a = VFloat q -> f attrs = Ok (VFloat q))
    /\ (forall attrs z, attrs a = VInt z -> f attrs = Ok (VFloat (inject_Z z)))
    /\ (forall attrs s, attrs a = VStr s -> f attrs = float_res s).

  (* num: the numeral (no whitespace, no letter m or s in it -- digits . e E - + are all fine); ws: any run of whitespace *)
  Definition spec_delay : Prop :=
    (forall attrs num ws, no_ws num = true -> all_ws ws = true ->
        attrs a = VStr (num ++ ws ++ "ms") -> f attrs = float_res num)
    /\ (forall attrs num ws, no_ws num = true -> all_ws ws = true -> no_char "m" num = true ->
        attrs a = VStr (num ++ ws ++ "s") -> f attrs = float_res_k num).

  Definition spec_weight : Prop :=
    (forall attrs, attrs a = VNone -> f attrs = Ok (VFloat (1 # 1)))
    /\ (forall attrs q, attrs a = VFloat q -> f attrs = Ok (VFloat q))
    /\ (forall attrs z, attrs a = VInt z -> f attrs = Ok (VFloat (inject_Z z))).

  Definition spec_seg_default : Prop :=
    (forall attrs, attrs a = VNone -> f attrs = Ok (VInt 0))
    /\ (forall attrs z, attrs a = VInt z -> f attrs = Ok (VInt z)).

  Definition spec_fract_default : Prop :=
    (forall attrs, attrs a = VNone -> f attrs = Ok (VFloat (1 # 2)))
    /\ (forall attrs q, attrs a = VFloat q -> f attrs = Ok (VFloat q)).   (* q = 0 included *)

  Definition spec_get_size : Prop :=
    (forall attrs n, (0 < n)%N -> attrs "instances" = VList n -> f attrs = Ok (VInt (Z.of_N n)))
    /\ (forall attrs z, attrs "instances" = VList 0 -> attrs "size" = VInt z -> f attrs = Ok (VInt z))
    /\ (forall attrs, attrs "instances" = VList 0 -> attrs "size" = VNone -> f attrs = Ok (VInt 0)).
End Spec.

Definition spec (pf : string -> option Q) (k : kind) (a : string) (f : (string -> pyval) -> res pyval) : Prop :=
  match k with
  | KCellIdPath => spec_cell_id_path f a
  | KCellIdPlain => spec_cell_id_plain pf f a
  | KPopulation => spec_population f a
  | KIntOf => spec_int_of f a
  | KFloatOf => spec_float_of pf f a
  | KDelay | KParseDelay => spec_delay pf f a
  | KWeight => spec_weight f a
  | KSegDefault => spec_seg_default f a
  | KFractDefault => spec_fract_default f a
  | KGetSize => spec_get_size f
  end.

(* ------------------------------------------------------------------ string facts used below *)
Lemma lit3_no_lbr : no_char ch_lbr "../" = true.
Proof. reflexivity. Qed.

Lemma cell_path_no_lbr : forall pop i tail,
  no_char ch_lbr pop = true -> no_char ch_lbr tail = true ->
  no_char ch_lbr ("../" ++ pop ++ sl ++ dec i ++ tail) = true.
Proof.
  intros pop i tail Hp Ht. change ("../" ++ pop ++ sl ++ dec i ++ tail) with ("../" ++ (pop ++ (sl ++ (dec i ++ tail)))).
  rewrite !no_char_app. rewrite Hp, Ht. rewrite (dec_no_char ch_lbr i) by reflexivity. reflexivity.
Qed.

Lemma split_cell_path : forall pop i tail,
  no_char ch_slash pop = true -> (tail = "" \/ exists t, tail = sl ++ t) ->
  nth_error (split_on ch_slash ("../" ++ pop ++ sl ++ dec i ++ tail)) 2 = Some (dec i)
  /\ nth_error (split_on ch_slash ("../" ++ pop ++ sl ++ dec i ++ tail)) 1 = Some pop.
Proof.
  intros pop i tail Hp Ht.
  change ("../" ++ pop ++ sl ++ dec i ++ tail) with (".." ++ String ch_slash (pop ++ String ch_slash (dec i ++ tail))).
  rewrite split_on_app by reflexivity. rewrite split_on_app by assumption.
  destruct Ht as [-> | [t ->]].
  - rewrite append_nil_r. rewrite split_on_nochar by (apply dec_no_char; reflexivity). split; reflexivity.
  - change (dec i ++ sl ++ t) with (dec i ++ String ch_slash t).
    rewrite split_on_app by (apply dec_no_char; reflexivity). split; reflexivity.
Qed.

Lemma split_pop_path : forall pop tail,
  no_char ch_slash pop = true ->
  nth_error (split_on ch_slash ("../" ++ pop ++ sl ++ tail)) 1 = Some pop.
Proof.
  intros pop tail Hp.
  change ("../" ++ pop ++ sl ++ tail) with (".." ++ String ch_slash (pop ++ String ch_slash tail)).
  rewrite split_on_app by reflexivity. rewrite split_on_app by assumption. reflexivity.
Qed.

Lemma split_bracket : forall pre i rest,
  no_char ch_lbr pre = true -> no_char ch_lbr rest = true ->
  nth_error (split_on ch_lbr (pre ++ lb ++ dec i ++ rb ++ rest)) 1 = Some (dec i ++ rb ++ rest)
  /\ nth_error (split_on ch_rbr (dec i ++ rb ++ rest)) 0 = Some (dec i).
Proof.
  intros pre i rest Hp Hr. split.
  - change (pre ++ lb ++ dec i ++ rb ++ rest) with (pre ++ String ch_lbr (dec i ++ rb ++ rest)).
    rewrite split_on_app by assumption.
    rewrite split_on_nochar; [reflexivity|].
    change (dec i ++ rb ++ rest) with (dec i ++ (rb ++ rest)). rewrite !no_char_app.
    rewrite (dec_no_char ch_lbr i) by reflexivity. rewrite Hr. reflexivity.
  - change (dec i ++ rb ++ rest) with (dec i ++ String ch_rbr rest).
    rewrite split_on_app by (apply dec_no_char; reflexivity). reflexivity.
Qed.

Lemma contains_lbr_nochar : forall s, no_char ch_lbr s = true -> contains "[" s = false.
Proof. intros s H. exact (contains_nochar ch_lbr "" s H). Qed.

Lemma contains_lbr_app : forall x y, contains "[" (x ++ String ch_lbr y) = true.
Proof. intros. exact (contains_char_app ch_lbr x y). Qed.

Lemma contains_ms_nochar : forall s, no_char "m" s = true -> contains "ms" s = false.
Proof. intros s H. exact (contains_nochar "m" "s" s H). Qed.

Lemma drop_last_ms : forall x, drop_last 2 (x ++ "ms") = x.
Proof. intros. exact (drop_last_app x "ms"). Qed.

Lemma drop_last_s : forall x, drop_last 1 (x ++ "s") = x.
Proof. intros. exact (drop_last_app x "s"). Qed.

Lemma last_single : forall (x : string), last [x] "" = x.
Proof. reflexivity. Qed.

(* ------------------------------------------------------------------ every accepted program meets its specification *)
Ltac start_attr H := cbn [run eval_e eval_c rbind as_str_method]; rewrite ?H; cbn [run eval_e eval_c rbind as_str_method].

Lemma canon_cell_id_path : forall pf a p, In p (canon KCellIdPath a) -> spec_cell_id_path (fun attrs => run pf attrs p) a.
Proof.
  intros pf a p [<-|[]]. split.
  - intros attrs pre i rest Hp Hr H. start_attr H.
    change (pre ++ lb ++ dec i ++ rb ++ rest) with (pre ++ String ch_lbr (dec i ++ rb ++ rest)).
    rewrite (contains_lbr_app pre). cbn [run eval_e eval_c rbind as_str_method]. rewrite ?H.
    cbn [rbind as_str_method].
    destruct (split_bracket pre i rest Hp Hr) as [E1 E2].
    change (pre ++ String ch_lbr (dec i ++ rb ++ rest)) with (pre ++ lb ++ dec i ++ rb ++ rest).
    rewrite E1. cbn [rbind as_str_method]. rewrite E2. cbn [rbind py_int_of]. rewrite py_int_dec. reflexivity.
  - intros attrs pop i tail Hs Hl Ht Htail H. start_attr H.
    rewrite (contains_lbr_nochar _ (cell_path_no_lbr pop i tail Hl Ht)).
    cbn [run eval_e eval_c rbind as_str_method]. rewrite ?H. cbn [rbind as_str_method].
    destruct (split_cell_path pop i tail Hs Htail) as [E _]. rewrite E. cbn [rbind py_int_of].
    rewrite py_int_dec. reflexivity.
Qed.

Lemma canon_cell_id_plain : forall pf a p, In p (canon KCellIdPlain a) -> spec_cell_id_plain pf (fun attrs => run pf attrs p) a.
Proof.
  intros pf a p [<-|[]]. split.
  - intros attrs i Hpf H. start_attr H. cbn [py_float_of]. rewrite Hpf. cbn [rbind py_int_of].
    rewrite q_trunc_inject. reflexivity.
  - intros attrs z H. start_attr H. cbn [py_float_of rbind py_int_of]. rewrite q_trunc_inject. reflexivity.
Qed.

Lemma canon_population : forall pf a p, In p (canon KPopulation a) -> spec_population (fun attrs => run pf attrs p) a.
Proof.
  intros pf a p [<-|[]]. repeat split.
  - intros attrs pop rest Hs Hl H. start_attr H.
    change (pop ++ lb ++ rest) with (pop ++ String ch_lbr rest).
    rewrite (contains_lbr_app pop). cbn [run eval_e eval_c rbind as_str_method]. rewrite ?H.
    cbn [rbind as_str_method]. rewrite split_on_app by assumption. cbn [nth_error rbind as_str_method].
    rewrite split_on_nochar by assumption. reflexivity.
  - intros attrs pop rest Hs Hl H. start_attr H.
    change ("../" ++ pop ++ lb ++ rest) with (("../" ++ pop) ++ String ch_lbr rest).
    rewrite (contains_lbr_app ("../" ++ pop)). cbn [run eval_e eval_c rbind as_str_method]. rewrite ?H.
    cbn [rbind as_str_method].
    rewrite split_on_app by (rewrite no_char_app, Hl; reflexivity).
    cbn [nth_error rbind as_str_method].
    change ("../" ++ pop) with (".." ++ String ch_slash pop).
    rewrite split_on_app by reflexivity. rewrite split_on_nochar by assumption. reflexivity.
  - intros attrs pop tail Hs Hl Ht H. start_attr H.
    assert (N : no_char ch_lbr ("../" ++ pop ++ sl ++ tail) = true).
    { change ("../" ++ pop ++ sl ++ tail) with ("../" ++ (pop ++ (sl ++ tail))). rewrite !no_char_app, Hl, Ht. reflexivity. }
    rewrite (contains_lbr_nochar _ N). cbn [run eval_e eval_c rbind as_str_method]. rewrite ?H.
    cbn [rbind as_str_method]. rewrite (split_pop_path pop tail Hs). reflexivity.
Qed.

Lemma canon_int_of : forall pf a p, In p (canon KIntOf a) -> spec_int_of (fun attrs => run pf attrs p) a.
Proof.
  intros pf a p [<-|[]]. split.
  - intros attrs z H. start_attr H. reflexivity.
  - intros attrs n H. start_attr H. cbn [py_int_of]. rewrite py_int_dec. reflexivity.
Qed.

Lemma canon_float_of : forall pf a p, In p (canon KFloatOf a) -> spec_float_of pf (fun attrs => run pf attrs p) a.
Proof.
  intros pf a p [<-|[]]. repeat split.
  - intros attrs q H. start_attr H. reflexivity.
  - intros attrs z H. start_attr H. reflexivity.
  - intros attrs s H. start_attr H. reflexivity.
Qed.

Lemma m_not_ws : is_ws "m" = false.
Proof. reflexivity. Qed.

Ltac unf_attr := cbn [run eval_e eval_c rbind as_str_method].

Lemma canon_delay : forall pf a p, In p (canon KDelay a) -> spec_delay pf (fun attrs => run pf attrs p) a.
Proof.
  intros pf a p [<-|[<-|[]]];
  (split;
   [ intros attrs num ws Hn Hw H; rewrite <- (append_assoc num ws "ms") in H; start_attr H;
     rewrite contains_app_end; unf_attr; rewrite ?H; cbn [rbind as_str_method];
     rewrite drop_last_ms; rewrite strip_app_ws by assumption; reflexivity
   | intros attrs num ws Hn Hw Hm H; rewrite <- (append_assoc num ws "s") in H; start_attr H;
     assert (N : no_char "m" ((num ++ ws) ++ "s") = true)
       by (rewrite !no_char_app, Hm, (all_ws_no_char "m" ws m_not_ws Hw); reflexivity);
     rewrite (contains_ms_nochar _ N); unf_attr; rewrite ?H; cbn [rbind as_str_method];
     rewrite contains_app_end; unf_attr; rewrite ?H; cbn [rbind as_str_method];
     rewrite drop_last_s; rewrite strip_app_ws by assumption; unfold float_res_k; cbn [py_float_of];
     destruct (pf num); reflexivity ]).
Qed.

Lemma canon_parse_delay : forall pf a p, In p (canon KParseDelay a) -> spec_delay pf (fun attrs => run pf attrs p) a.
Proof.
  intros pf a p [<-|[<-|[]]];
  (split;
   [ intros attrs num ws Hn Hw H; rewrite <- (append_assoc num ws "ms") in H; start_attr H;
     rewrite endswith_app; unf_attr; rewrite ?H; cbn [rbind as_str_method];
     rewrite drop_last_ms; rewrite strip_app_ws by assumption; reflexivity
   | intros attrs num ws Hn Hw Hm H; rewrite <- (append_assoc num ws "s") in H; start_attr H;
     assert (N : no_char "m" (num ++ ws) = true)
       by (rewrite no_char_app, Hm, (all_ws_no_char "m" ws m_not_ws Hw); reflexivity);
     rewrite (endswith_ms_s _ N); unf_attr; rewrite ?H; cbn [rbind as_str_method];
     rewrite endswith_app; unf_attr; rewrite ?H; cbn [rbind as_str_method];
     rewrite drop_last_s; rewrite strip_app_ws by assumption; unfold float_res_k; cbn [py_float_of];
     destruct (pf num); reflexivity ]).
Qed.

Lemma canon_weight : forall pf a p, In p (canon KWeight a) -> spec_weight (fun attrs => run pf attrs p) a.
Proof.
  intros pf a p [<-|[]]. repeat split; intros; start_attr H; try rewrite H; reflexivity.
Qed.

Lemma canon_seg_default : forall pf a p, In p (canon KSegDefault a) -> spec_seg_default (fun attrs => run pf attrs p) a.
Proof.
  intros pf a p [<-|[<-|[]]]; split; intros; start_attr H; try rewrite H; try reflexivity.
  cbn [truthy]. destruct (Z.eqb_spec z 0); subst; cbn; try rewrite H; reflexivity.
Qed.

Lemma canon_fract_default : forall pf a p, In p (canon KFractDefault a) -> spec_fract_default (fun attrs => run pf attrs p) a.
Proof.
  intros pf a p [<-|[]]. split; intros; start_attr H; try rewrite H; reflexivity.
Qed.

Lemma canon_get_size : forall pf a p, In p (canon KGetSize a) -> spec_get_size (fun attrs => run pf attrs p).
Proof.
  intros pf a p [<-|[]]. repeat split.
  - intros attrs n Hn H. cbn [run eval_e eval_c rbind]. rewrite ?H. cbn [rbind py_gt].
    assert (E : (0 <? Z.of_N n)%Z = true) by (apply Z.ltb_lt; lia). rewrite E. reflexivity.
  - intros attrs z H1 H2. cbn [run eval_e eval_c rbind]. rewrite ?H1. cbn [rbind py_gt Z.of_N Z.ltb Z.compare].
    rewrite ?H2. cbn [rbind truthy]. destruct (Z.eqb_spec z 0); subst; cbn; try rewrite H2; reflexivity.
  - intros attrs H1 H2. cbn [run eval_e eval_c rbind]. rewrite ?H1. cbn [rbind py_gt Z.of_N Z.ltb Z.compare].
    rewrite ?H2. reflexivity.
Qed.

Theorem canon_sound : forall pf k a p, In p (canon k a) -> spec pf k a (fun attrs => run pf attrs p).
Proof.
  intros pf k a p H. destruct k; simpl.
  - apply canon_cell_id_path; assumption.
  - apply canon_cell_id_plain; assumption.
  - apply canon_population; assumption.
  - apply canon_int_of; assumption.
  - apply canon_float_of; assumption.
  - apply canon_delay; assumption.
  - apply canon_parse_delay; assumption.
  - apply canon_weight; assumption.
  - apply canon_seg_default; assumption.
  - apply canon_fract_default; assumption.
  - eapply canon_get_size; eassumption.
Qed.

(* the per-run obligation  table_ok t = true  gives the specification of every accessor of the table *)
Theorem table_sound : forall pf t, table_ok t = true ->
  forall c m k a, In (c, m, k, a) expected ->
  exists p, lookup t c m = Some p /\ spec pf k a (fun attrs => run pf attrs p).
Proof.
  intros pf t H c m k a HI. unfold table_ok in H. rewrite forallb_forall in H. specialize (H _ HI).
  unfold entry_ok in H. destruct (lookup t c m) as [p|]; [|discriminate].
  exists p. split; [reflexivity|]. apply existsb_exists in H. destruct H as [q [Hq E]].
  apply sprog_eqb_eq in E. subst. apply canon_sound. assumption.
Qed.

(* ------------------------------------------------------------------ the same, spelled out for NeuroML ids *)
Lemma lbr_not_id : is_id_char ch_lbr = false. Proof. reflexivity. Qed.
Lemma slash_not_id : is_id_char ch_slash = false. Proof. reflexivity. Qed.

Section Readable.
  Variable pf : string -> option Q.
  Variable t : acc_table.
  Hypothesis T : table_ok t = true.

  (* every cell-index accessor: both reference forms, any population id, any index, any component id *)
  Theorem cell_index_of_reference : forall c m a, In (c, m, KCellIdPath, a) expected ->
    exists p, lookup t c m = Some p
    /\ (forall attrs pop i comp, nmlid pop = true -> nmlid comp = true ->
          attrs a = VStr ("../" ++ pop ++ "/" ++ dec i ++ "/" ++ comp) -> run pf attrs p = Ok (VInt (Z.of_N i)))
    /\ (forall attrs pop i, nmlid pop = true ->
          attrs a = VStr (pop ++ "[" ++ dec i ++ "]") -> run pf attrs p = Ok (VInt (Z.of_N i)))
    /\ (forall attrs pop i, nmlid pop = true ->
          attrs a = VStr ("../" ++ pop ++ "[" ++ dec i ++ "]") -> run pf attrs p = Ok (VInt (Z.of_N i))).
  Proof.
    intros c m a HI. destruct (table_sound pf t T c m _ a HI) as [p [L [S1 S2]]]. exists p. split; [exact L|]. repeat split.
    - intros attrs pop i comp Hp Hc H.
      apply (S2 attrs pop i ("/" ++ comp)); try (apply nmlid_no_char; [reflexivity | assumption]).
      + change ("/" ++ comp) with (String ch_slash comp). rewrite no_char_cons.
        rewrite (nmlid_no_char ch_lbr comp lbr_not_id Hc). reflexivity.
      + right. exists comp. reflexivity.
      + exact H.
    - intros attrs pop i Hp H. apply (S1 attrs pop i ""); [apply nmlid_no_char; [reflexivity | assumption] | reflexivity | exact H].
    - intros attrs pop i Hp H. apply (S1 attrs ("../" ++ pop) i "").
      + rewrite no_char_app. rewrite (nmlid_no_char ch_lbr pop lbr_not_id Hp). reflexivity.
      + reflexivity.
      + rewrite append_assoc. exact H.
  Qed.

  Theorem population_of_reference : forall c m a, In (c, m, KPopulation, a) expected ->
    exists p, lookup t c m = Some p
    /\ (forall attrs pop i comp, nmlid pop = true -> nmlid comp = true ->
          attrs a = VStr ("../" ++ pop ++ "/" ++ dec i ++ "/" ++ comp) -> run pf attrs p = Ok (VStr pop))
    /\ (forall attrs pop i, nmlid pop = true ->
          attrs a = VStr (pop ++ "[" ++ dec i ++ "]") -> run pf attrs p = Ok (VStr pop))
    /\ (forall attrs pop i, nmlid pop = true ->
          attrs a = VStr ("../" ++ pop ++ "[" ++ dec i ++ "]") -> run pf attrs p = Ok (VStr pop)).
  Proof.
    intros c m a HI. destruct (table_sound pf t T c m _ a HI) as [p [L [S1 [S2 S3]]]]. exists p. split; [exact L|]. repeat split.
    - intros attrs pop i comp Hp Hc H.
      apply (S3 attrs pop (dec i ++ "/" ++ comp)); try (apply nmlid_no_char; [reflexivity | assumption]); [|exact H].
      rewrite no_char_app. rewrite (dec_no_char ch_lbr i) by reflexivity.
      change ("/" ++ comp) with (String ch_slash comp). rewrite no_char_cons.
      rewrite (nmlid_no_char ch_lbr comp lbr_not_id Hc). reflexivity.
    - intros attrs pop i Hp H. apply (S1 attrs pop (dec i ++ "]")); try (apply nmlid_no_char; [reflexivity | assumption]). exact H.
    - intros attrs pop i Hp H. apply (S2 attrs pop (dec i ++ "]")); try (apply nmlid_no_char; [reflexivity | assumption]). exact H.
  Qed.

  (* delays: "<num><ws>ms" is float(num); "<num><ws>s" is 1000 * float(num); whatever float() makes of num *)
  Theorem delay_in_ms : forall c m k a, (k = KDelay \/ k = KParseDelay) -> In (c, m, k, a) expected ->
    exists p, lookup t c m = Some p
    /\ (forall attrs num ws, no_ws num = true -> all_ws ws = true ->
          attrs a = VStr (num ++ ws ++ "ms") -> run pf attrs p = float_res pf num)
    /\ (forall attrs num ws, no_ws num = true -> all_ws ws = true -> no_char "m" num = true ->
          attrs a = VStr (num ++ ws ++ "s") -> run pf attrs p = float_res_k pf num).
  Proof.
    intros c m k a Hk HI. destruct (table_sound pf t T c m k a HI) as [p [L S]]. exists p. split; [exact L|].
    destruct Hk; subst; exact S.
  Qed.

  (* unset fields give the documented defaults; set fields are returned as they are (0 and 0.0 included) *)
  Theorem defaults_when_unset :
    (forall c m a, In (c, m, KSegDefault, a) expected -> exists p, lookup t c m = Some p
        /\ (forall attrs, attrs a = VNone -> run pf attrs p = Ok (VInt 0))
        /\ (forall attrs z, attrs a = VInt z -> run pf attrs p = Ok (VInt z)))
    /\ (forall c m a, In (c, m, KFractDefault, a) expected -> exists p, lookup t c m = Some p
        /\ (forall attrs, attrs a = VNone -> run pf attrs p = Ok (VFloat (1 # 2)))
        /\ (forall attrs q, attrs a = VFloat q -> run pf attrs p = Ok (VFloat q)))
    /\ (forall c m a, In (c, m, KWeight, a) expected -> exists p, lookup t c m = Some p
        /\ (forall attrs, attrs a = VNone -> run pf attrs p = Ok (VFloat (1 # 1)))
        /\ (forall attrs q, attrs a = VFloat q -> run pf attrs p = Ok (VFloat q))).
  Proof.
    repeat split; intros c m a HI.
    - destruct (table_sound pf t T c m _ a HI) as [p [L [S1 S2]]]. exists p. repeat split; assumption.
    - destruct (table_sound pf t T c m _ a HI) as [p [L [S1 S2]]]. exists p. repeat split; assumption.
    - destruct (table_sound pf t T c m _ a HI) as [p [L [S1 [S2 S3]]]]. exists p. repeat split; assumption.
  Qed.

  Theorem segment_and_fraction_of_connections :
    (forall c m a, In (c, m, KIntOf, a) expected -> exists p, lookup t c m = Some p
        /\ (forall attrs z, attrs a = VInt z -> run pf attrs p = Ok (VInt z))
        /\ (forall attrs n, attrs a = VStr (dec n) -> run pf attrs p = Ok (VInt (Z.of_N n))))
    /\ (forall c m a, In (c, m, KFloatOf, a) expected -> exists p, lookup t c m = Some p
        /\ (forall attrs q, attrs a = VFloat q -> run pf attrs p = Ok (VFloat q))
        /\ (forall attrs s, attrs a = VStr s -> run pf attrs p = float_res pf s)).
  Proof.
    split; intros c m a HI.
    - destruct (table_sound pf t T c m _ a HI) as [p [L [S1 S2]]]. exists p. repeat split; assumption.
    - destruct (table_sound pf t T c m _ a HI) as [p [L [S1 [S2 S3]]]]. exists p. repeat split; assumption.
  Qed.
End Readable.

(* with the concrete decimal reading of float(): whole-number delays and bare-numeral cell references *)
Theorem delay_whole_numbers : forall t, table_ok t = true -> forall c m k a, (k = KDelay \/ k = KParseDelay) -> In (c, m, k, a) expected ->
  exists p, lookup t c m = Some p
  /\ (forall attrs n ws, all_ws ws = true -> attrs a = VStr (dec n ++ ws ++ "ms") ->
        run py_float attrs p = Ok (VFloat (inject_Z (Z.of_N n))))
  /\ (forall attrs n ws, all_ws ws = true -> attrs a = VStr (dec n ++ ws ++ "s") ->
        run py_float attrs p = Ok (VFloat (inject_Z (Z.of_N n) * (1000 # 1))%Q)).
Proof.
  intros t T c m k a Hk HI. destruct (delay_in_ms py_float t T c m k a Hk HI) as [p [L [S1 S2]]].
  exists p. split; [exact L|]. split.
  - intros attrs n ws Hw H. rewrite (S1 attrs (dec n) ws (digits_no_ws _ (dec_digits n)) Hw H).
    unfold float_res. rewrite py_float_dec. reflexivity.
  - intros attrs n ws Hw H.
    rewrite (S2 attrs (dec n) ws (digits_no_ws _ (dec_digits n)) Hw (dec_no_char "m" n eq_refl) H).
    unfold float_res_k. rewrite py_float_dec. reflexivity.
Qed.

Theorem plain_cell_index : forall t, table_ok t = true -> forall c m a, In (c, m, KCellIdPlain, a) expected ->
  exists p, lookup t c m = Some p
  /\ (forall attrs i, attrs a = VStr (dec i) -> run py_float attrs p = Ok (VInt (Z.of_N i)))
  /\ (forall attrs z, attrs a = VInt z -> run py_float attrs p = Ok (VInt z)).
Proof.
  intros t T c m a HI. destruct (table_sound py_float t T c m _ a HI) as [p [L [S1 S2]]]. exists p. split; [exact L|]. split.
  - intros attrs i H. apply S1; [apply py_float_dec | exact H].
  - exact S2.
Qed.

Theorem population_size : forall pf t, table_ok t = true ->
  exists p, lookup t "Population" "get_size" = Some p
  /\ (forall attrs n, (0 < n)%N -> attrs "instances" = VList n -> run pf attrs p = Ok (VInt (Z.of_N n)))
  /\ (forall attrs z, attrs "instances" = VList 0 -> attrs "size" = VInt z -> run pf attrs p = Ok (VInt z))
  /\ (forall attrs, attrs "instances" = VList 0 -> attrs "size" = VNone -> run pf attrs p = Ok (VInt 0)).
Proof.
  intros pf t T.
  assert (HI : In ("Population", "get_size", KGetSize, "") expected) by (vm_compute; repeat (first [left; reflexivity | right])).
  destruct (table_sound pf t T _ _ _ _ HI) as [p [L S]]. exists p. split; [exact L | exact S].
Qed.

(* ------------------------------------------------------------------ the summary's totals, for every network *)
Local Open Scope N_scope.

Lemma sumN_app : forall a b, sumN (a ++ b)%list = sumN a + sumN b.
Proof. induction a as [|x a IH]; intros; simpl; [reflexivity | rewrite IH; lia]. Qed.

Lemma contrib_norm_val : forall c i, contrib_val (norm_contrib c) i = contrib_val c i.
Proof.
  intros [| m | m |] i; simpl; try reflexivity.
  destruct (N.ltb_spec 0 (it_len i m)); [reflexivity | lia].
Qed.

Lemma run_counter_norm : forall net c,
  run_counter net (map (fun cc => (fst cc, norm_contrib (snd cc))) c) = run_counter net c.
Proof.
  intros net c. unfold run_counter. rewrite map_map. f_equal. apply map_ext. intros [coll k]. simpl.
  f_equal. apply map_ext. intros i. apply contrib_norm_val.
Qed.

Lemma contrib_eqb_eq : forall a b, contrib_eqb a b = true -> a = b.
Proof.
  intros [| x | x |] [| y | y |] H; simpl in H; try discriminate; try reflexivity;
    apply String.eqb_eq in H; subst; reflexivity.
Qed.

Lemma cc_eqb_eq : forall a b, cc_eqb a b = true -> a = b.
Proof.
  intros [a1 a2] [b1 b2] H. unfold cc_eqb in H. simpl in H. apply andb_true_iff in H. destruct H as [H1 H2].
  apply String.eqb_eq in H1. apply contrib_eqb_eq in H2. subst. reflexivity.
Qed.

Lemma remove_one_sum : forall (g : string * contrib -> N) x l l',
  remove_one x l = Some l' -> sumN (map g l) = g x + sumN (map g l').
Proof.
  intros g x. induction l as [|y r IH]; intros l' H; simpl in H; [discriminate|].
  destruct (cc_eqb x y) eqn:E.
  - inversion H. subst. apply cc_eqb_eq in E. subst. reflexivity.
  - destruct (remove_one x r) as [r'|] eqn:R; [|discriminate]. inversion H. subst.
    simpl. rewrite (IH r' eq_refl). lia.
Qed.

Lemma perm_b_sum : forall (g : string * contrib -> N) l1 l2, perm_b l1 l2 = true -> sumN (map g l1) = sumN (map g l2).
Proof.
  intros g. induction l1 as [|x r IH]; intros l2 H; simpl in H.
  - destruct l2; [reflexivity | discriminate].
  - destruct (remove_one x l2) as [l2'|] eqn:R; [|discriminate].
    simpl. rewrite (IH _ H). symmetry. apply remove_one_sum. assumption.
Qed.

Lemma counter_is_value : forall t net name want,
  counter_is t name want = true -> counter_value t net name = run_counter net want.
Proof.
  intros t net name want H. unfold counter_is in H. unfold counter_value.
  destruct (find_counter (st_counters t) name) as [c|]; [|discriminate].
  rewrite <- (run_counter_norm net c). unfold run_counter.
  apply (perm_b_sum (fun cc => sumN (map (contrib_val (snd cc)) (net (fst cc))))). assumption.
Qed.

Lemma sum_ones : forall (l : list item), sumN (map (contrib_val COne) l) = N.of_nat (length l).
Proof.
  induction l as [|x l IH]; [reflexivity|]. cbn [map sumN fold_right length]. fold (sumN (map (contrib_val COne) l)).
  rewrite IH. rewrite Nnat.Nat2N.inj_succ. change (contrib_val COne x) with 1%N. lia.
Qed.

Lemma run_counter_ones : forall net colls, run_counter net (map (fun c => (c, COne)) colls) = count_items net colls.
Proof.
  intros. unfold run_counter, count_items. rewrite map_map. f_equal. apply map_ext. intros c. simpl. apply sum_ones.
Qed.

Lemma run_counter_lens : forall net cm, run_counter net (map (fun x => (fst x, CLen (snd x))) cm) = count_members net cm.
Proof. intros. unfold run_counter, count_members. rewrite map_map. reflexivity. Qed.

Theorem summary_sound : forall t, summary_ok t = true -> forall net : network,
  counter_value t net "tot_pop" = N.of_nat (length (net "populations"))
  /\ counter_value t net "tot_cells" = count_sizes net "populations"
  /\ counter_value t net "tot_proj" = count_items net (st_proj_colls t)
  /\ counter_value t net "tot_conns" = count_members net (st_conn_members t)
  /\ counter_value t net "tot_input_lists" = N.of_nat (length (net "input_lists"))
  /\ counter_value t net "tot_inputs" = count_members net (st_input_members t).
Proof.
  intros t H net. unfold summary_ok in H.
  repeat match goal with H : _ && _ = true |- _ => apply andb_true_iff in H; destruct H end.
  repeat match goal with H : counter_is _ _ _ = true |- _ => apply (counter_is_value t net) in H end.
  repeat split; match goal with H : counter_value t net ?n = _ |- counter_value t net ?n = _ => rewrite H end.
  - change [("populations", COne)] with (map (fun c => (c, COne)) ["populations"]). rewrite run_counter_ones.
    unfold count_items. simpl. lia.
  - unfold run_counter, count_sizes. simpl. apply N.add_0_r.
  - apply run_counter_ones.
  - apply run_counter_lens.
  - change [("input_lists", COne)] with (map (fun c => (c, COne)) ["input_lists"]). rewrite run_counter_ones.
    unfold count_items. simpl. lia.
  - apply run_counter_lens.
Qed.

(* the report lines print exactly these counters *)
Theorem summary_reports : forall t, summary_ok t = true ->
  report_is t "tot_cells" "cells" "tot_pop" "populations" = true
  /\ report_is t "tot_conns" "connections" "tot_proj" "projections" = true
  /\ report_is t "tot_inputs" "inputs" "tot_input_lists" "input lists" = true.
Proof.
  intros t H. unfold summary_ok in H.
  repeat match goal with H : _ && _ = true |- _ => apply andb_true_iff in H; destruct H end.
  repeat split; assumption.
Qed.

(* ------------------------------------------------------------------ the defects of the unrepaired source, on the faithful terms *)
Definition old_fraction_along (a : string) : sprog := SRet (EIf (CTruthy (EAttr a)) (EFloatOf (EAttr a)) (EFloat (1 # 2))).
Definition old_population (a : string) : sprog :=
  SIf (CIn "[" (EAttr a)) (SRet (ESplitNth (EAttr a) ch_lbr 0)) (SRet (ESplitNth (EAttr a) ch_slash 0)).

Theorem fraction0_refuted : exists attrs,
  attrs "fraction_along" = VFloat 0 /\ run py_float attrs (old_fraction_along "fraction_along") = Ok (VFloat (1 # 2)).
Proof. exists (fun _ => VFloat 0). split; reflexivity. Qed.

Theorem population_refuted : exists attrs,
  attrs "target" = VStr "../pop/3/cell" /\ run py_float attrs (old_population "target") = Ok (VStr "..").
Proof. exists (fun _ => VStr "../pop/3/cell"). split; vm_compute; reflexivity. Qed.

(* ------------------------------------------------------------------ examples: the hypotheses are satisfiable *)
Example ex_path :
  run py_float (fun _ => VStr "../pop_a/17/iaf") (hd SRetNone (canon KCellIdPath "pre_cell_id")) = Ok (VInt 17)
  /\ nmlid "pop_a" = true /\ nmlid "iaf" = true /\ dec 17 = "17".
Proof. repeat split; vm_compute; reflexivity. Qed.

Example ex_delay : run py_float (fun _ => VStr "1.5e-3 s") (hd SRetNone (canon KDelay "delay")) = Ok (VFloat (15000 # 10000)).
Proof. vm_compute. reflexivity. Qed.

Example ex_summary_net :
  let it := MkItem (fun m => if String.eqb m "connections" then 3 else 0) 5 in
  let net : network := fun c => if String.eqb c "projections" then [it; it] else if String.eqb c "populations" then [it] else [] in
  count_members net [("projections", "connections"); ("projections", "connection_wds")] = 6 /\ count_sizes net "populations" = 5.
Proof. split; reflexivity. Qed.
