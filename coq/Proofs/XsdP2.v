(* C02, second half: the element `export` writes for a conforming tree is valid for the schema -- attributes
   (names, required ones present, none undeclared, lexical validity of what the formatters write) and children
   (names, order, cardinalities, recursively valid) -- for all tables that agree with the schema on the classes met
   (Xsd.agree_exp_cls), for trees of any size and depth.
   CPython's float formatting is abstract: two hypotheses, named in the trusted base and exercised by the check. *)
From Coq Require Import String List ZArith Bool Arith Lia.
From LNML Require Import Lib.Dec Lib.Regex Model.Gds Model.Validate Model.Xsd
     Proofs.RegexP Proofs.DecP Proofs.ValidateP Proofs.ValidateP2 Proofs.ValidateP3 Proofs.XsdP.
Import ListNotations.
Open Scope string_scope.
Open Scope nat_scope.

Lemma nodup_strs_NoDup l : nodup_strs l = true -> NoDup l.
Proof.
  induction l as [|x l IH]; simpl; intro H; [constructor|]. apply andb_true_iff in H as [H1 H2].
  constructor; [|auto]. apply mem_false_notin. apply negb_true_iff. exact H1.
Qed.

Lemma find_xa_some l n a : find_xa l n = Some a -> In a l /\ xa_name a = n.
Proof.
  induction l as [|k l IH]; simpl; [discriminate|]. destruct (String.eqb (xa_name k) n) eqn:E.
  - intro H. inversion H; subst. apply String.eqb_eq in E. auto.
  - intro H. destruct (IH H). auto.
Qed.

Lemma find_xa_unique l a : NoDup (map xa_name l) -> In a l -> find_xa l (xa_name a) = Some a.
Proof.
  induction l as [|k l IH]; simpl; intros Hn Hin; [contradiction|]. inversion Hn; subst.
  destruct Hin as [->|Hin]; [rewrite String.eqb_refl; reflexivity|].
  destruct (String.eqb (xa_name k) (xa_name a)) eqn:E; [|auto].
  apply String.eqb_eq in E. exfalso. apply H1. rewrite E. apply in_map. exact Hin.
Qed.

Lemma find_ek_tag_unique l e : NoDup (map ek_tag l) -> In e l -> find_ek_tag (ek_tag e) l = Some e.
Proof.
  unfold find_ek_tag. induction l as [|k l IH]; simpl; intros Hn Hin; [contradiction|]. inversion Hn; subst.
  destruct Hin as [->|Hin]; [rewrite String.eqb_refl; reflexivity|].
  destruct (String.eqb (ek_tag k) (ek_tag e)) eqn:E; [|auto].
  apply String.eqb_eq in E. exfalso. apply H1. rewrite E. apply in_map. exact Hin.
Qed.

Lemma In_lookup_some {A} k (v : A) l : In (k, v) l -> exists w, lookup k l = Some w.
Proof.
  induction l as [|[k' v'] l IH]; simpl; [contradiction|]. intros [H|H].
  - inversion H; subst. rewrite String.eqb_refl. eauto.
  - destruct (String.eqb k' k); eauto.
Qed.

Lemma existsb_false_inv {A} (p : A -> bool) l : existsb p l = false -> forall x, In x l -> p x = false.
Proof.
  induction l as [|a l IH]; simpl; intros H x Hin; [contradiction|]. apply orb_false_iff in H as [H1 H2].
  destruct Hin as [->|Hin]; auto.
Qed.

Lemma order_safe_no_any : forall p, order_safe p = true -> has_any p = false.
Proof.
  induction p as [tag ty lo hi|l IH|lo hi l IH|l IH|lo hi] using particle_ind'; simpl; intro H; try discriminate; try reflexivity.
  - induction IH as [|p l Hp Hl IHl]; simpl in *; [reflexivity|].
    apply andb_true_iff in H as [H1 H2]. rewrite (Hp H1). simpl. auto.
  - apply andb_true_iff in H as [_ H].
    induction IH as [|p l Hp Hl IHl]; simpl in *; [reflexivity|].
    apply andb_true_iff in H as [H1 H2]. rewrite (Hp H1). simpl. auto.
Qed.

Lemma order_safe_content ps w : forallb order_safe ps = true ->
  content_ok ps w = match_tags (cats (map particle_re ps)) w.
Proof.
  destruct ps as [|p [|q r]]; try reflexivity; destruct p; try reflexivity; simpl; intro H; discriminate.
Qed.

Lemma shape_cases ps : parts_shape_ok ps = true -> forallb order_safe ps = false ->
  (exists l, ps = [PAll l] /\
             forallb (fun p => match p with PElem _ _ lo (Some 1) => Nat.leb lo 1 | _ => false end) l = true) \/
  ps = [PAny 0 None] \/ ps = [PSeq [PAny 0 None]].
Proof.
  intros Hs Ho. unfold parts_shape_ok in Hs.
  destruct ps as [|p [|q r]]; [simpl in Ho; discriminate | | destruct p; rewrite Ho in Hs;
     repeat (match type of Hs with context [match ?x with _ => _ end] => destruct x end); discriminate].
  destruct p as [tag ty lo hi|l|lo hi l|l|lo hi];
    repeat (match type of Hs with context [match ?x with _ => _ end] => destruct x end);
    try congruence; auto.
  left. eauto.
Qed.

Section P.
Variable F : Type.
Variable F_eqb : F -> F -> bool.
Variable F_ltb : F -> F -> bool.
Variable F_of_dec : dec -> F.
Variable parse_float : string -> option F.
Variable finite : F -> bool.
Variable fmt_float : F -> string.        (* gds_format_float : ("%.15f" % x).rstrip("0") (+ "0") *)
Variable fmt_double : F -> string.       (* gds_format_double: "%s" % x *)

(* repr() of a finite float reads back as the same float *)
Hypothesis fmt_double_exact : forall f, finite f = true -> parse_float (fmt_double f) = Some f.
(* rounding to 15 decimals and reading back is monotone and leaves decimals of at most 15 fractional digits in place:
   it never crosses such a bound *)
Hypothesis fmt_float_monotone : forall f, finite f = true ->
  exists g, parse_float (fmt_float f) = Some g /\ finite g = true /\
            forall d, snd d <= 15 ->
                      (F_ltb f (F_of_dec d) = false -> F_ltb g (F_of_dec d) = false) /\
                      (F_ltb (F_of_dec d) f = false -> F_ltb (F_of_dec d) g = false).

Variable good : string -> bool.
Variable T : tables.
Variable S : schema.
Hypothesis Hgood : forall c, good c = true -> agree_exp_cls T S c = true.

Notation value := (value F).
Notation obj := (obj F).
Notation conformsb := (conformsb F_eqb F_ltb F_of_dec parse_float finite good).
Notation attr_conf := (attr_conf F_eqb F_ltb F_of_dec finite).
Notation kid_conf := (kid_conf F_eqb F_ltb F_of_dec parse_float finite).
Notation value_ok := (value_ok F_eqb F_ltb F_of_dec finite).
Notation lex_ok_named := (lex_ok_named F_eqb F_ltb F_of_dec parse_float finite).
Notation attrs_valid := (attrs_valid F_eqb F_ltb F_of_dec parse_float finite).
Notation simple_elem_ok := (simple_elem_ok F_eqb F_ltb F_of_dec parse_float finite).
Notation xsd_valid := (xsd_valid F_eqb F_ltb F_of_dec parse_float finite).
Notation export := (export F F_eqb F_of_dec fmt_float fmt_double).
Notation export_attrs := (export_attrs F F_eqb F_of_dec fmt_float fmt_double).
Notation guard_pass := (guard_pass F F_eqb F_of_dec).
Notation fmt_attr := (fmt_attr F fmt_float fmt_double).

(* ---------------------------------------------------------------- attributes *)
Definition attr_out (fs : list (string * value)) (ea : exp_attr) : list (string * string) :=
  match lookup (ea_py ea) fs with
  | Some v => if guard_pass (ea_guard ea) (ea_kind ea) v
              then match fmt_attr (ea_kind ea) v with Some s => [(ea_xml ea, s)] | None => [] end
              else []
  | None => []
  end.

Lemma export_attrs_ok fs : forall EA seen,
  NoDup (map ea_py EA) -> (forall ea, In ea EA -> ~ In (ea_py ea) seen) ->
  (forall ea, In ea EA -> exists v, lookup (ea_py ea) fs = Some v /\
                                    (guard_pass (ea_guard ea) (ea_kind ea) v = true -> fmt_attr (ea_kind ea) v <> None)) ->
  export_attrs fs EA seen = Some (flat_map (attr_out fs) EA).
Proof.
  induction EA as [|a r IH]; intros seen Hn Hs Hv; [reflexivity|].
  simpl. inversion Hn; subst.
  destruct (Hv a (or_introl eq_refl)) as (v & El & Hf). unfold attr_out at 1. rewrite El.
  rewrite (notin_mem_false _ _ (Hs a (or_introl eq_refl))). rewrite andb_true_r.
  destruct (guard_pass (ea_guard a) (ea_kind a) v) eqn:Eg.
  - destruct (fmt_attr (ea_kind a) v) as [s|] eqn:Ef; [|exfalso; apply (Hf eq_refl); reflexivity].
    rewrite (IH (ea_py a :: seen)); [reflexivity | assumption | |].
    + intros ea Hin [E|Hin']; [|exact (Hs ea (or_intror Hin) Hin')].
      apply H1. rewrite E. apply in_map. exact Hin.
    + intros ea Hin. apply Hv. right. exact Hin.
  - rewrite (IH seen); [reflexivity | assumption | |].
    + intros ea Hin. apply Hs. right. exact Hin.
    + intros ea Hin. apply Hv. right. exact Hin.
Qed.

(* what the formatter writes for a value of the type is in the lexical space of the type *)
Lemma fmt_lex a st k (v : value) s :
  value_ok S a v = true -> find_st (s_stypes S) (xa_type a) = Some st -> kind_prim_ok k (st_prim st) = true ->
  match k with
  | KFloat => forallb (fun fd => match fst fd with FMinIncl | FMaxIncl => Nat.leb (snd (snd fd)) 15 | _ => false end)
                      (st_facets st) && match st_enums st with [] => true | _ => false end
  | _ => true end = true ->
  fmt_attr k v = Some s ->
  lex_ok_named S (xa_type a) s = true /\ match xa_fixed a with Some f => String.eqb f s | None => true end = true.
Proof.
  intros Hv Hst Hk Hfl Hf. unfold Xsd.value_ok in Hv. unfold Xsd.lex_ok_named. rewrite Hst in *. unfold lex_ok.
  destruct (st_prim st) eqn:Ep; destruct v as [|s0|z|x|o'|l|l]; try discriminate;
    destruct k; simpl in Hk; try discriminate; simpl in Hf; inversion Hf; subst s; clear Hf.
  - apply andb_true_iff in Hv as [Hv Hfx]. apply andb_true_iff in Hv as [_ Hok]. auto.
  - apply andb_true_iff in Hv as [Hv Hu]. apply andb_true_iff in Hv as [Hv Hfx]. apply andb_true_iff in Hv as [_ Hok].
    rewrite Hu, Hok. auto.
  - (* float: "%.15f" *)
    apply andb_true_iff in Hv as [Hok Hfx]. destruct (xa_fixed a); [discriminate|]. split; [|reflexivity].
    unfold float_ok in Hok. apply andb_true_iff in Hok as [Hok Hen]. apply andb_true_iff in Hok as [Hfin Hfa].
    apply andb_true_iff in Hfl as [Hinc Hnoen].
    destruct (fmt_float_monotone x Hfin) as (g & Hg & Hgf & Hmono). rewrite Hg.
    unfold float_ok. rewrite Hgf. simpl.
    destruct (st_enums st); [|discriminate]. rewrite andb_true_r.
    apply forallb_forall. intros [fk d] Hin.
    pose proof (forallb_In _ _ _ Hfa Hin) as Hx. pose proof (forallb_In _ _ _ Hinc Hin) as Hd.
    unfold facet_ok in *. simpl in *.
    destruct fk; try discriminate; apply Nat.leb_le in Hd; destruct (Hmono d Hd) as [M1 M2];
      apply negb_true_iff in Hx; apply negb_true_iff; auto.
  - (* double: "%s" *)
    apply andb_true_iff in Hv as [Hok Hfx]. destruct (xa_fixed a); [discriminate|]. split; [|reflexivity].
    pose proof Hok as Hok'. unfold float_ok in Hok'. apply andb_true_iff in Hok' as [Hok' _].
    apply andb_true_iff in Hok' as [Hfin _]. rewrite (fmt_double_exact x Hfin). exact Hok.
  - apply andb_true_iff in Hv as [Hok Hfx]. destruct (xa_fixed a); [discriminate|]. split; [|reflexivity].
    rewrite parse_int_fmt_int. exact Hok.
  - apply andb_true_iff in Hv as [Hok Hfx]. destruct (xa_fixed a); [discriminate|]. split; [|reflexivity].
    rewrite parse_int_fmt_int. exact Hok.
Qed.

Lemma value_fmt_some a st k (v : value) :
  value_ok S a v = true -> find_st (s_stypes S) (xa_type a) = Some st -> kind_prim_ok k (st_prim st) = true ->
  fmt_attr k v <> None.
Proof.
  intros Hv Hst Hk. unfold Xsd.value_ok in Hv. rewrite Hst in Hv.
  destruct (st_prim st); destruct v; try discriminate; destruct k; simpl in Hk; try discriminate; simpl; discriminate.
Qed.

(* the facts the attribute clauses of agree_exp_cls give about one exported attribute *)
Definition ea_facts (XA : list xattr) (ea : exp_attr) : Prop :=
  exists a st, find_xa XA (ea_xml ea) = Some a /\ find_st (s_stypes S) (xa_type a) = Some st /\
               kind_prim_ok (ea_kind ea) (st_prim st) = true /\
               match ea_kind ea with
               | KFloat => forallb (fun fd => match fst fd with FMinIncl | FMaxIncl => Nat.leb (snd (snd fd)) 15 | _ => false end)
                                   (st_facets st) && match st_enums st with [] => true | _ => false end
               | _ => true end = true /\
               match ea_guard ea with GNotNone => true | GNe _ => negb (xa_req a) end = true.

Lemma attrs_part (o : obj) XA EA :
  map ea_xml EA = map xa_name XA -> NoDup (map ea_py EA) -> NoDup (map ea_xml EA) ->
  (forall ea, In ea EA -> ea_facts XA ea) ->
  forallb (attr_conf S o XA) EA = true ->
  export_attrs (o_fields F o) EA [] = Some (flat_map (attr_out (o_fields F o)) EA) /\
  attrs_valid S XA (flat_map (attr_out (o_fields F o)) EA) = true.
Proof.
  intros Hnames Hnpy Hnxml Hfacts Hconf. set (fs := o_fields F o).
  assert (Hea : forall ea, In ea EA -> exists a st v,
             find_xa XA (ea_xml ea) = Some a /\ find_st (s_stypes S) (xa_type a) = Some st /\
             lookup (ea_py ea) fs = Some v /\
             (v = VNone /\ xa_req a = false /\ ea_guard ea = GNotNone \/ v <> VNone /\ value_ok S a v = true)).
  { intros ea Hin. destruct (Hfacts ea Hin) as (a & st & Hxa & Hst & _).
    pose proof (forallb_In _ _ _ Hconf Hin) as Hc. unfold Xsd.attr_conf in Hc. rewrite Hxa in Hc. fold fs in Hc.
    destruct (lookup (ea_py ea) fs) as [v|]; [|discriminate]. exists a, st, v. repeat split; auto.
    destruct v; try (right; split; [discriminate | exact Hc]).
    left. apply andb_true_iff in Hc as [H1 H2]. apply negb_true_iff in H1.
    destruct (ea_guard ea); [auto | discriminate]. }
  split.
  - apply export_attrs_ok; [exact Hnpy | intros; auto |].
    intros ea Hin. destruct (Hea ea Hin) as (a & st & v & Hxa & Hst & Hl & Hv). exists v. split; [exact Hl|].
    intro Hg. destruct Hv as [(-> & _ & Eg)|(Hnn & Hv)].
    + rewrite Eg in Hg. discriminate.
    + destruct (Hfacts ea Hin) as (a' & st' & Hxa' & Hst' & Hk & _). rewrite Hxa in Hxa'. inversion Hxa'; subst a'.
      rewrite Hst in Hst'. inversion Hst'; subst st'. exact (value_fmt_some a st _ v Hv Hst Hk).
  - unfold Xsd.attrs_valid. apply andb_true_iff. split.
    + (* required attributes are written *)
      apply forallb_forall. intros a Ha. destruct (xa_req a) eqn:Er; [|reflexivity]. simpl.
      assert (Hn : In (xa_name a) (map ea_xml EA)) by (rewrite Hnames; apply in_map; exact Ha).
      apply in_map_iff in Hn as (ea & Exml & Hin).
      destruct (Hea ea Hin) as (a' & st & v & Hxa & Hst & Hl & Hv).
      assert (a' = a).
      { rewrite Exml in Hxa. rewrite Hnames in Hnxml. rewrite (find_xa_unique XA a Hnxml Ha) in Hxa. congruence. }
      subst a'. destruct Hv as [(_ & Hreq & _)|(Hnn & Hv)]; [congruence|].
      destruct (Hfacts ea Hin) as (a2 & st2 & Hxa2 & Hst2 & Hk & _ & Hgd).
      rewrite Hxa in Hxa2. inversion Hxa2; subst a2. rewrite Hst in Hst2. inversion Hst2; subst st2.
      assert (Hg : guard_pass (ea_guard ea) (ea_kind ea) v = true).
      { destruct (ea_guard ea); [|rewrite Er in Hgd; discriminate]. destruct v; try reflexivity. congruence. }
      destruct (fmt_attr (ea_kind ea) v) as [s|] eqn:Ef; [|exfalso; exact (value_fmt_some a st _ v Hv Hst Hk Ef)].
      assert (Hout : In (xa_name a, s) (flat_map (attr_out fs) EA)).
      { apply in_flat_map. exists ea. split; [exact Hin|]. unfold attr_out. rewrite Hl, Hg, Ef, Exml. left. reflexivity. }
      destruct (In_lookup_some _ _ _ Hout) as (w & ->). reflexivity.
    + (* what is written is declared and lexically valid *)
      apply forallb_forall. intros [n s] Hns. apply in_flat_map in Hns as (ea & Hin & Hout).
      destruct (Hea ea Hin) as (a & st & v & Hxa & Hst & Hl & Hv).
      unfold attr_out in Hout. rewrite Hl in Hout.
      destruct (guard_pass (ea_guard ea) (ea_kind ea) v) eqn:Hg; [|contradiction].
      destruct (fmt_attr (ea_kind ea) v) as [s'|] eqn:Ef; [|contradiction].
      destruct Hout as [E|[]]. inversion E; subst n s'. simpl. rewrite Hxa.
      destruct Hv as [(-> & _ & Eg)|(Hnn & Hv)]; [rewrite Eg in Hg; discriminate|].
      destruct (Hfacts ea Hin) as (a2 & st2 & Hxa2 & Hst2 & Hk & Hfl & _).
      rewrite Hxa in Hxa2. inversion Hxa2; subst a2. rewrite Hst in Hst2. inversion Hst2; subst st2.
      destruct (fmt_lex a st (ea_kind ea) v s Hv Hst Hk Hfl Ef) as [L1 L2]. rewrite L1, L2. reflexivity.
Qed.

(* ---------------------------------------------------------------- children *)
Definition kid_out (f : nat) (fs : list (string * value)) (ek : exp_kid) : option (list xml) :=
  match ek_kind ek, lookup (ek_py ek) fs with
  | _, None => None
  | CObj, Some VNone => Some []
  | CObj, Some (VObj o') => option_map (fun x => [x]) (export f T (ek_tag ek) o')
  | CObjList, Some (VObjs l) => all_opt (map (export f T (ek_tag ek)) l)
  | CText, Some VNone => Some []
  | CText, Some (VStr s) => Some [Elem (ek_tag ek) [] s []]
  | CAny, Some (VRaw l) => Some l
  | _, _ => None
  end.

Lemma export_S f tag (o : obj) :
  export (Datatypes.S f) T tag o =
  match find_cls T (o_cls F o) with
  | None => None
  | Some _ =>
    match export_attrs (o_fields F o) (exp_attrs_of (cfuel T) T (o_cls F o)) [] with
    | None => None
    | Some attrs =>
      if has_content F (o_fields F o) (hc_of (cfuel T) T (o_cls F o))
      then match flat_opt (map (kid_out f (o_fields F o)) (exp_kids_of (cfuel T) T (o_cls F o))) with
           | Some kids => Some (Elem tag attrs "" kids)
           | None => None
           end
      else Some (Elem tag attrs "" [])
    end
  end.
Proof. reflexivity. Qed.

(* the check xsd_valid applies to each child *)
Definition kid_check (f : nat) (ps : list particle) (k : xml) : bool :=
  match decl_of ps (x_tag k) with
  | Some ty => match find_ct (s_ctypes S) ty with
               | Some _ => xsd_valid f S ty k
               | None => simple_elem_ok S ty k
               end
  | None => existsb has_any ps
  end.

Lemma xsd_valid_S f c x :
  xsd_valid (Datatypes.S f) S c x =
  match find_ct (s_ctypes S) c with
  | None => false
  | Some _ => attrs_valid S (eff_attrs S c) (x_attrs x) && text_ok (eff_parts S c) (x_text x) &&
              content_ok (eff_parts S c) (map x_tag (x_kids x)) && forallb (kid_check f (eff_parts S c)) (x_kids x)
  end.
Proof. reflexivity. Qed.

Definition ek_facts (PS : list particle) (ek : exp_kid) : Prop :=
  match ek_kind ek with
  | CAny => True
  | k => exists ty, decl_of PS (ek_tag ek) = Some ty /\
                    match k with
                    | CText => find_ct (s_ctypes S) ty = None /\
                               exists st, find_st (s_stypes S) ty = Some st /\ prim_is_string (st_prim st) = true
                    | _ => exists ct, find_ct (s_ctypes S) ty = Some ct
                    end
  end.

Section Kids.
Variable f : nat.
Hypothesis IH : forall (o' : obj) tag, conformsb f T S o' = true ->
  exists x, export f T tag o' = Some x /\ x_tag x = tag /\ xsd_valid f S (o_cls F o') x = true.

Lemma objs_out PS tag ty l :
  decl_of PS tag = Some ty -> (exists ct, find_ct (s_ctypes S) ty = Some ct) ->
  forallb (fun o' => String.eqb (o_cls F o') ty && conformsb f T S o') l = true ->
  exists ks, all_opt (map (export f T tag) l) = Some ks /\ map x_tag ks = repeat tag (length l) /\
             forallb (kid_check f PS) ks = true.
Proof.
  intros Hd (ct & Hct). induction l as [|o' l IHl]; simpl; intro H.
  - exists []. auto.
  - apply andb_true_iff in H as [H1 H2]. apply andb_true_iff in H1 as [Hc Ho]. apply String.eqb_eq in Hc.
    destruct (IH o' tag Ho) as (x & Hx & Ht & Hv). destruct (IHl H2) as (ks & Hks & Htags & Hchk).
    exists (x :: ks). rewrite Hx, Hks. simpl. rewrite Ht, Htags. repeat split; auto.
    unfold kid_check at 1. rewrite Ht, Hd, Hct. rewrite <- Hc. rewrite Hv. exact Hchk.
Qed.

Lemma kid_part (o : obj) PS ek :
  kid_conf S (conformsb f T S) o PS ek = true -> ek_facts PS ek ->
  exists ks, kid_out f (o_fields F o) ek = Some ks /\
             map x_tag ks = repeat (ek_tag ek) (vcount (field o (ek_py ek))) /\
             forallb (kid_check f PS) ks = true.
Proof.
  unfold Xsd.kid_conf, kid_out, ek_facts, field. intros Hc Hf.
  destruct (lookup (ek_py ek) (o_fields F o)) as [v|]; [|discriminate]. simpl opt_value.
  apply andb_true_iff in Hc as [_ Hc].
  destruct (ek_kind ek) eqn:Ek.
  - (* CObj *)
    destruct Hf as (ty & Hd & Hct). rewrite Hd in Hc.
    destruct v as [| | | |o'| |]; try discriminate.
    + exists []. auto.
    + apply andb_true_iff in Hc as [Hcl Ho]. apply String.eqb_eq in Hcl.
      destruct (IH o' (ek_tag ek) Ho) as (x & Hx & Ht & Hv). exists [x]. rewrite Hx. simpl. rewrite Ht.
      repeat split; auto. unfold kid_check. rewrite Ht, Hd. destruct Hct as (ct & ->). rewrite <- Hcl, Hv. reflexivity.
  - (* CObjList *)
    destruct Hf as (ty & Hd & Hct). rewrite Hd in Hc.
    destruct v as [| | | | |l|]; try discriminate. simpl vcount. exact (objs_out PS (ek_tag ek) ty l Hd Hct Hc).
  - (* CText *)
    destruct Hf as (ty & Hd & Hnct & st & Hst & Hps). rewrite Hd in Hc.
    destruct v as [|s| | | | |]; try discriminate.
    + exists []. auto.
    + exists [Elem (ek_tag ek) [] s []]. simpl. repeat split; auto.
      unfold kid_check. simpl. rewrite Hd, Hnct. unfold Xsd.simple_elem_ok. simpl.
      apply andb_true_iff in Hc as [_ Hl]. rewrite Hl. reflexivity.
  - (* CAny *)
    destruct v as [| | | | | |[|? ?]]; try discriminate. exists []. auto.
Qed.

Lemma kids_part (o : obj) PS : forall EK,
  forallb (kid_conf S (conformsb f T S) o PS) EK = true -> (forall ek, In ek EK -> ek_facts PS ek) ->
  exists kids, flat_opt (map (kid_out f (o_fields F o)) EK) = Some kids /\
               map x_tag kids = flat_map (fun ek => repeat (ek_tag ek) (vcount (field o (ek_py ek)))) EK /\
               forallb (kid_check f PS) kids = true.
Proof.
  induction EK as [|ek EK IHk]; simpl; intros Hc Hf.
  - exists []. auto.
  - apply andb_true_iff in Hc as [Hc1 Hc2].
    destruct (kid_part o PS ek Hc1 (Hf ek (or_introl eq_refl))) as (ks & Hks & Ht & Hv).
    destruct (IHk Hc2 (fun e H => Hf e (or_intror H))) as (kids & Hkids & Htags & Hchk).
    exists (ks ++ kids)%list. rewrite Hks, Hkids. rewrite map_app, Ht, Htags, forallb_app, Hv, Hchk. auto.
Qed.

End Kids.

(* ---------------------------------------------------------------- the facts agree_exp_cls provides *)
Lemma agree_facts c :
  agree_exp_cls T S c = true ->
  let EA := exp_attrs_of (cfuel T) T c in
  let EK := exp_kids_of (cfuel T) T c in
  let HC := hc_of (cfuel T) T c in
  let XA := eff_attrs S c in
  let PS := eff_parts S c in
  map ea_xml EA = map xa_name XA /\ NoDup (map ea_py EA) /\ NoDup (map ea_xml EA) /\
  (forall ea, In ea EA -> ea_facts XA ea) /\
  map ek_tag (filter (fun e => negb (is_any_kid e)) EK) = flat_map ptags PS /\
  NoDup (map ek_tag EK) /\
  existsb is_any_kid EK = existsb has_any PS /\
  (existsb is_any_kid EK = true -> exists e, EK = [e]) /\
  parts_shape_ok PS = true /\
  (forall ek, In ek EK -> mem (ek_py ek) HC = true) /\
  (forall ek, In ek EK -> ek_facts PS ek).
Proof.
  unfold agree_exp_cls. destruct (find_cls T c); [|discriminate]. destruct (find_ct (s_ctypes S) c); [|discriminate].
  intro H. cbv zeta.
  repeat (apply andb_true_iff in H as [H ?]).
  repeat split.
  - apply strs_eqb_eq. assumption.
  - apply nodup_strs_NoDup. assumption.
  - apply nodup_strs_NoDup. assumption.
  - intros ea Hin. match goal with Hx : forallb _ (exp_attrs_of _ _ _) = true |- _ => pose proof (forallb_In _ _ _ Hx Hin) as Hf end.
    cbv beta in Hf. unfold ea_facts. destruct (find_xa (eff_attrs S c) (ea_xml ea)) as [a|] eqn:Exa; [|discriminate].
    apply andb_true_iff in Hf as [Hf Hg].
    destruct (find_st (s_stypes S) (xa_type a)) as [st|] eqn:Est; [|discriminate].
    apply andb_true_iff in Hf as [Hk Hfl]. exists a, st. repeat split; auto.
  - apply strs_eqb_eq. assumption.
  - apply nodup_strs_NoDup. assumption.
  - apply Bool.eqb_prop. assumption.
  - intro Ha. match goal with Hx : (if existsb is_any_kid _ then _ else true) = true |- _ => rewrite Ha in Hx;
      destruct (exp_kids_of (cfuel T) T c) as [|e [|? ?]]; try discriminate; eauto end.
  - assumption.
  - intros ek Hin. match goal with Hx : forallb (fun ek => mem (ek_py ek) _) _ = true |- _ => exact (forallb_In _ _ _ Hx Hin) end.
  - intros ek Hin.
    match goal with Hx : forallb (fun ek => match ek_kind ek with CAny => true | _ => _ end) _ = true |- _ =>
      pose proof (forallb_In _ _ _ Hx Hin) as Hf end.
    cbv beta in Hf. unfold ek_facts. destruct (ek_kind ek) eqn:Ek; auto;
      (destruct (decl_of (eff_parts S c) (ek_tag ek)) as [ty|]; [|discriminate]); exists ty; (split; [reflexivity|]).
    + destruct (find_ct (s_ctypes S) ty) as [ct|]; [eauto | discriminate].
    + destruct (find_ct (s_ctypes S) ty) as [ct|]; [eauto | discriminate].
    + destruct (find_ct (s_ctypes S) ty) as [ct|]; [discriminate|]. split; [reflexivity|].
      destruct (find_st (s_stypes S) ty) as [st|]; [eauto | discriminate].
Qed.

(* ---------------------------------------------------------------- the order and number of the written children *)
Lemma kids_word (o : obj) EK :
  NoDup (map ek_tag EK) ->
  flat_map (fun ek => repeat (ek_tag ek) (vcount (field o (ek_py ek)))) EK = word (cnt_of o EK) (map ek_tag EK).
Proof.
  intro Hn. unfold word. rewrite flat_map_concat_map, (flat_map_concat_map _ (map ek_tag EK)), map_map. f_equal.
  apply map_ext_in. intros ek Hin. unfold cnt_of. rewrite (find_ek_tag_unique EK ek Hn Hin). reflexivity.
Qed.

Lemma filter_all {A} (p : A -> bool) l : existsb (fun x => negb (p x)) l = false -> filter p l = l.
Proof.
  induction l as [|x l IHl]; simpl; [reflexivity|]. intro H. apply orb_false_iff in H as [H1 H2].
  apply negb_false_iff in H1. rewrite H1. f_equal. auto.
Qed.

Lemma content_part (o : obj) c :
  agree_exp_cls T S c = true ->
  let EK := exp_kids_of (cfuel T) T c in
  let PS := eff_parts S c in
  (forall ek, In ek EK -> ek_kind ek = CAny -> vcount (field o (ek_py ek)) = 0) ->
  forallb (counts_ok (cnt_of o EK)) PS = true ->
  content_ok PS (word (cnt_of o EK) (map ek_tag EK)) = true.
Proof.
  intros Hag EK PS Hany Hc. destruct (agree_facts c Hag) as (_ & _ & _ & _ & Htags & Hnd & Han & Hone & Hshape & _ & _).
  cbv zeta in *. fold EK PS in Htags, Hnd, Han, Hone, Hshape.
  destruct (forallb order_safe PS) eqn:Eos.
  - (* sequences / single choices *)
    rewrite (order_safe_content PS _ Eos).
    assert (Hna : existsb has_any PS = false).
    { clear - Eos. induction PS as [|p ps IHp]; simpl in *; [reflexivity|]. apply andb_true_iff in Eos as [E1 E2].
      rewrite (order_safe_no_any p E1). simpl. auto. }
    rewrite Hna in Han.
    assert (Hfil : filter (fun e => negb (is_any_kid e)) EK = EK).
    { apply filter_all. rewrite <- Han. clear. induction EK as [|e l IHl]; simpl; [reflexivity|].
      rewrite negb_involutive, IHl. reflexivity. }
    rewrite Hfil in Htags. rewrite Htags. apply parts_word; auto. rewrite <- Htags. exact Hnd.
  - destruct (shape_cases PS Hshape Eos) as [(l & Eps & Hl)|[Eps|Eps]].
    + (* xs:all *)
      rewrite Eps in *. simpl in Han.
      assert (Hna : existsb has_any l = false).
      { clear - Hl. induction l as [|p l IHl]; simpl in *; [reflexivity|]. apply andb_true_iff in Hl as [H1 H2].
        destruct p; try discriminate. simpl. auto. }
      rewrite Hna in Han. simpl in Han.
      assert (Hfil : filter (fun e => negb (is_any_kid e)) EK = EK).
      { apply filter_all. rewrite <- Han. clear. induction EK as [|e l' IHl]; simpl; [reflexivity|].
        rewrite negb_involutive, IHl. reflexivity. }
      rewrite Hfil in Htags. simpl in Htags. rewrite app_nil_r, ptags_all in Htags.
      simpl. rewrite Htags. apply all_word; auto.
      * rewrite <- Htags. exact Hnd.
      * simpl in Hc. rewrite andb_true_r in Hc. exact Hc.
    + (* a lone wildcard: the raw content is empty in a conforming tree *)
      rewrite Eps in *. simpl in Han. destruct (Hone Han) as (e & Ee). rewrite Ee in *.
      simpl in Han. rewrite orb_false_r in Han.
      assert (Hk : ek_kind e = CAny) by (unfold is_any_kid in Han; destruct (ek_kind e); try discriminate; reflexivity).
      unfold word. simpl. unfold cnt_of. simpl. unfold find_ek_tag. simpl. rewrite String.eqb_refl.
      rewrite (Hany e (or_introl eq_refl) Hk). reflexivity.
    + rewrite Eps in *. simpl in Han. destruct (Hone Han) as (e & Ee). rewrite Ee in *.
      simpl in Han. rewrite orb_false_r in Han.
      assert (Hk : ek_kind e = CAny) by (unfold is_any_kid in Han; destruct (ek_kind e); try discriminate; reflexivity).
      unfold word. simpl. unfold cnt_of. simpl. unfold find_ek_tag. simpl. rewrite String.eqb_refl.
      rewrite (Hany e (or_introl eq_refl) Hk). reflexivity.
Qed.

Lemma text_ok_empty ps : text_ok ps "" = true.
Proof. destruct ps; reflexivity. Qed.

Lemma falsy_vcount (v : value) : truthy F v = false -> vcount v = 0.
Proof. destruct v as [| | | | |[|? ?]|[|? ?]]; simpl; intro H; try discriminate; reflexivity. Qed.

(* ---------------------------------------------------------------- the theorem *)
Theorem conforming_export_valid : forall n (o : obj) tag,
  conformsb n T S o = true ->
  exists x, export n T tag o = Some x /\ x_tag x = tag /\ xsd_valid n S (o_cls F o) x = true.
Proof.
  induction n as [|f IHf]; intros o tag Hc; [discriminate|].
  pose proof (conformsb_S F F_eqb F_ltb F_of_dec parse_float finite good f T S o Hc) as (Hg & Ha & Hk & Hcnt & _).
  cbv zeta in *. set (c := o_cls F o) in *.
  pose proof (Hgood c Hg) as Hag. destruct (agree_facts c Hag) as (Hnames & Hnpy & Hnxml & Heaf & Htags & Hnd & Han & Hone & Hshape & Hhc & Hekf).
  cbv zeta in *.
  destruct (attrs_part o _ _ Hnames Hnpy Hnxml Heaf Ha) as [Hexp Hav].
  destruct (kids_part f IHf o (eff_parts S c) _ Hk Hekf) as (kids & Hkids & Hktags & Hkchk).
  assert (Hfc : exists k, find_cls T c = Some k /\ exists ct, find_ct (s_ctypes S) c = Some ct).
  { simpl in Hc. fold c in Hc. destruct (find_cls T c); [|discriminate]. destruct (find_ct (s_ctypes S) c); [|discriminate]. eauto. }
  destruct Hfc as (kc & Hfc & ct & Hfct).
  assert (Hany0 : forall ek, In ek (exp_kids_of (cfuel T) T c) -> ek_kind ek = CAny -> vcount (field o (ek_py ek)) = 0).
  { intros ek Hin Hka. pose proof (forallb_In _ _ _ Hk Hin) as Hkc. unfold Xsd.kid_conf in Hkc. unfold field.
    destruct (lookup (ek_py ek) (o_fields F o)) as [v|]; [|discriminate]. simpl. rewrite Hka in Hkc.
    apply andb_true_iff in Hkc as [_ Hkc]. destruct v as [| | | | | |[|? ?]]; try discriminate. reflexivity. }
  pose proof (content_part o c Hag Hany0 Hcnt) as Hcont. cbv zeta in Hcont.
  rewrite export_S. fold c. rewrite Hfc, Hexp.
  destruct (has_content F (o_fields F o) (hc_of (cfuel T) T c)) eqn:Ehc.
  - rewrite Hkids. eexists. split; [reflexivity|]. split; [reflexivity|].
    rewrite xsd_valid_S. rewrite Hfct. simpl x_attrs. simpl x_text. simpl x_kids.
    rewrite Hav, text_ok_empty, Hkchk. rewrite Hktags, (kids_word o _ Hnd), Hcont. reflexivity.
  - (* nothing to write below the element: every child member is empty *)
    eexists. split; [reflexivity|]. split; [reflexivity|].
    rewrite xsd_valid_S. rewrite Hfct. simpl x_attrs. simpl x_text. simpl x_kids.
    rewrite Hav, text_ok_empty. simpl.
    assert (Hw : word (cnt_of o (exp_kids_of (cfuel T) T c)) (map ek_tag (exp_kids_of (cfuel T) T c)) = []).
    { rewrite <- (kids_word o _ Hnd). apply flat_map_nil. intros ek Hin.
      unfold has_content in Ehc. pose proof (existsb_false_inv _ _ Ehc (ek_py ek)) as Hf.
      rewrite (falsy_vcount (field o (ek_py ek))); [reflexivity|]. apply Hf. apply mem_true_In. apply Hhc. exact Hin. }
    rewrite Hw in Hcont. rewrite Hcont. reflexivity.
Qed.

(* a whole document: the root component written under the schema's global element *)
Corollary conforming_document_valid : forall n (o : obj),
  o_cls F o = s_root_type S -> conformsb n T S o = true ->
  exists x, export n T (s_root_tag S) o = Some x /\
            xsd_valid_doc F_eqb F_ltb F_of_dec parse_float finite n S x = true.
Proof.
  intros n o Hroot Hc. destruct (conforming_export_valid n o (s_root_tag S) Hc) as (x & Hx & Ht & Hv).
  exists x. split; [exact Hx|]. unfold xsd_valid_doc. rewrite Ht, String.eqb_refl. rewrite <- Hroot. exact Hv.
Qed.

End P.
