(* C13 proofs, part 3: the graph of a tree-shaped cell, Dijkstra on it, root / branch points / tips. *)
From Coq Require Import List ZArith QArith Qabs Bool Lia Permutation Setoid.
From LNML Require Import Model.Morph Proofs.MorphP Proofs.MorphP1.
Import ListNotations.
Open Scope Z_scope.

(* ------------------------------------------------------------------ small list facts *)
Lemma memZ_spec : forall x l, memZ x l = true <-> In x l.
Proof.
  induction l as [|y r IH]; simpl; [split; [discriminate|tauto]|].
  rewrite orb_true_iff, IH, Z.eqb_eq. tauto.
Qed.

Lemma memZ_false : forall x l, memZ x l = false <-> ~ In x l.
Proof. intros. rewrite <- memZ_spec. destruct (memZ x l); split; congruence. Qed.

Lemma dedup_acc_in : forall l seen x, In x (dedup_acc seen l) <-> In x l /\ ~ In x seen.
Proof.
  induction l as [|y r IH]; intros seen x; simpl; [tauto|].
  destruct (memZ y seen) eqn:E.
  - apply memZ_spec in E. rewrite IH. split; [tauto|]. intros [[->|H] Hn]; tauto.
  - apply memZ_false in E. simpl. rewrite IH. simpl. split.
    + intros [->|[H1 H2]]; [tauto|]. split; [tauto|]. intro; apply H2; now right.
    + intros [[->|H1] H2]; [tauto|]. destruct (Z.eq_dec y x); [tauto|]. right. split; auto.
      intros [?|?]; tauto.
Qed.

Lemma dedup_acc_nodup : forall l seen, NoDup (dedup_acc seen l).
Proof.
  induction l as [|y r IH]; intros seen; simpl; [constructor|].
  destruct (memZ y seen); auto. constructor; auto.
  rewrite dedup_acc_in. simpl. tauto.
Qed.

Lemma dedup_in : forall l x, In x (dedup l) <-> In x l.
Proof. intros. unfold dedup. rewrite dedup_acc_in. simpl. tauto. Qed.

Lemma dedup_nodup : forall l, NoDup (dedup l).
Proof. intros. apply dedup_acc_nodup. Qed.

Lemma length_filter_zero : forall {A} (f : A -> bool) l,
  length (filter f l) = O <-> forall x, In x l -> f x = false.
Proof.
  induction l as [|y r IH]; simpl; [tauto|]. destruct (f y) eqn:E; simpl.
  - split; [discriminate|]. intro H. specialize (H y (or_introl eq_refl)). congruence.
  - rewrite IH. split; [intros H x [->|Hx]; auto|intros H x Hx; apply H; auto].
Qed.

Lemma filter_unique : forall (f : Z -> bool) l r, NoDup l -> In r l -> f r = true ->
  (forall x, In x l -> f x = true -> x = r) -> filter f l = [r].
Proof.
  induction l as [|y t IH]; intros r Hnd Hin Hr Hu; [inversion Hin|].
  inversion Hnd as [|? ? Hnot Hnd']; subst. simpl. destruct Hin as [->|Hin].
  - rewrite Hr. f_equal. destruct (filter f t) as [|z zs] eqn:E; auto.
    assert (Hz : In z (filter f t)) by (rewrite E; now left).
    apply filter_In in Hz. destruct Hz as [Hz1 Hz2].
    assert (z = r) by (apply Hu; [now right|auto]). subst. tauto.
  - destruct (f y) eqn:E.
    + assert (y = r) by (apply Hu; [now left|auto]). subst. tauto.
    + apply IH; auto. intros x Hx. apply Hu. now right.
Qed.

(* ------------------------------------------------------------------ rows of the adjacency list *)
Definition akeys (a : adj) : list Z := map fst a.

Lemma adj_add_keys : forall a p ch k, In k (akeys (adj_add a p ch)) <-> k = p \/ In k (akeys a).
Proof.
  induction a as [|[q v] r IH]; intros p ch k; simpl; [intuition congruence|].
  destruct (q =? p) eqn:E; simpl.
  - apply Z.eqb_eq in E. subst. intuition congruence.
  - rewrite IH. tauto.
Qed.

Lemma adj_add_nodup : forall a p ch, NoDup (akeys a) -> NoDup (akeys (adj_add a p ch)).
Proof.
  induction a as [|[q v] r IH]; intros p ch H; simpl.
  - constructor; [simpl; tauto|constructor].
  - inversion H as [|? ? Hn Hr]; subst. destruct (q =? p) eqn:E; simpl.
    + constructor; auto.
    + constructor; [|now apply IH]. fold (akeys (adj_add r p ch)). rewrite adj_add_keys.
      apply Z.eqb_neq in E. intros [->|?]; tauto.
Qed.

Lemma adjacency_nodup : forall c, NoDup (akeys (adjacency c)).
Proof.
  intro c. unfold adjacency. assert (H : NoDup (akeys [])) by constructor. revert H. generalize (@nil (Z * list Z)).
  induction c as [|s r IH]; intros a H; simpl; auto. apply IH. unfold adj_step.
  destruct (sparent s) as [[p f]|]; auto. now apply adj_add_nodup.
Qed.

Lemma alookup_in : forall (a : adj) p l, NoDup (akeys a) -> (In (p, l) a <-> alookup a p = Some l).
Proof.
  induction a as [|[q v] r IH]; intros p l H; simpl; [split; [tauto|discriminate]|].
  inversion H as [|? ? Hn Hr]; subst. destruct (q =? p) eqn:E.
  - apply Z.eqb_eq in E. subst q. split.
    + intros [Heq|Hin]; [congruence|]. exfalso. apply Hn. change p with (fst (p, l)). now apply in_map.
    + intro Heq. left. congruence.
  - apply Z.eqb_neq in E. rewrite <- IH by auto. split; [intros [Heq|?]; [congruence|auto]|tauto].
Qed.

Lemma alookup_none_keys : forall (a : adj) p, alookup a p = None <-> ~ In p (akeys a).
Proof.
  induction a as [|[q v] r IH]; intros p; simpl; [tauto|].
  destruct (q =? p) eqn:E.
  - apply Z.eqb_eq in E. split; [discriminate|tauto].
  - apply Z.eqb_neq in E. rewrite IH. tauto.
Qed.

Lemma children_in : forall c p b, In b (children c p) <-> exists s f, In s c /\ sid s = b /\ sparent s = Some (p, f).
Proof.
  intros c p b. unfold children. rewrite in_map_iff. split.
  - intros [s [Hid Hin]]. apply filter_In in Hin. destruct Hin as [Hin Hp].
    destruct (sparent s) as [[q f]|] eqn:E; [|discriminate]. apply Z.eqb_eq in Hp. subst q. eauto.
  - intros [s [f [Hin [Hid Hp]]]]. exists s. split; auto. apply filter_In. split; auto.
    rewrite Hp. apply Z.eqb_refl.
Qed.

Lemma adjacency_rows : forall c p l, In (p, l) (adjacency c) <-> l = children c p /\ l <> [].
Proof.
  intros c p l. rewrite alookup_in by apply adjacency_nodup. rewrite adjacency_spec.
  destruct (children c p) as [|z zs] eqn:E; split.
  - discriminate.
  - intros [-> H]. congruence.
  - intro H. inversion H. split; [reflexivity|discriminate].
  - intros [-> _]. reflexivity.
Qed.

(* ------------------------------------------------------------------ edges *)
Definition fr (c : cell) (k : Z) : Q := match fract_of c k with Ok f => f | Err _ => 0%Q end.
Definition row_edges (len : Z -> Q) (c : cell) (row : Z * list Z) : list edge :=
  map (fun k => (fst row, k, len (fst row) * fr c k)%Q) (snd row).
Definition tree_edges (len : Z -> Q) (c : cell) : list edge := flat_map (row_edges len c) (adjacency c).

Lemma edges_of_kids_ok : forall len c p kids,
  (forall k, In k kids -> exists f, fract_of c k = Ok f) ->
  edges_of_kids len c p kids = Ok (row_edges len c (p, kids)).
Proof.
  induction kids as [|k r IH]; intros H; simpl; auto.
  destruct (H k (or_introl eq_refl)) as [f Hf]. rewrite Hf. simpl.
  rewrite IH by (intros; apply H; now right). simpl. unfold row_edges, fr. simpl. now rewrite Hf.
Qed.

Lemma edges_of_adj_ok : forall len c a,
  (forall p kids k, In (p, kids) a -> In k kids -> exists f, fract_of c k = Ok f) ->
  edges_of_adj len c a = Ok (flat_map (row_edges len c) a).
Proof.
  induction a as [|[p kids] r IH]; intros H; simpl; auto.
  rewrite edges_of_kids_ok by (intros k Hk; eapply (H p kids k); [now left|auto]). simpl.
  rewrite IH by (intros p' kids' k Hin Hk; eapply (H p' kids' k); [now right|auto]). reflexivity.
Qed.

Lemma fract_of_nodup : forall c s p f, NoDup (ids c) -> In s c -> sparent s = Some (p, f) -> fract_of c (sid s) = Ok f.
Proof. intros c s p f Hnd Hs Hp. unfold fract_of. rewrite get_segment_nodup by auto. simpl. now rewrite Hp. Qed.

Definition graph_of (len : Z -> Q) (c : cell) : graph :=
  mkgraph (dedup (ids c ++ flat_map (fun e => [esrc e; edst e]) (tree_edges len c))) (tree_edges len c).

(* on a cell with distinct ids get_graph never fails and yields graph_of *)
Lemma get_graph_ok : forall len c, NoDup (ids c) -> get_graph len c = Ok (graph_of len c).
Proof.
  intros len c Hnd. unfold get_graph. rewrite edges_of_adj_ok.
  - reflexivity.
  - intros p kids k Hrow Hk. apply adjacency_rows in Hrow. destruct Hrow as [-> _].
    apply children_in in Hk. destruct Hk as [s [f [Hs [Hid Hp]]]]. exists f. rewrite <- Hid.
    eapply fract_of_nodup; eauto.
Qed.

(* an edge parent -> child for every segment with a parent, weighted  len(parent) * fraction_along *)
Lemma tree_edges_spec : forall len c a b w, NoDup (ids c) ->
  (In (a, b, w) (tree_edges len c) <->
   exists s f, In s c /\ sid s = b /\ sparent s = Some (a, f) /\ w = (len a * f)%Q).
Proof.
  intros len c a b w Hnd. unfold tree_edges. rewrite in_flat_map. split.
  - intros [[p kids] [Hrow Hin]]. unfold row_edges in Hin. simpl in Hin. apply in_map_iff in Hin.
    destruct Hin as [k [Heq Hk]]. inversion Heq; subst p k w; clear Heq.
    apply adjacency_rows in Hrow. destruct Hrow as [-> _].
    apply children_in in Hk. destruct Hk as [s [f [Hs [Hid Hp]]]].
    exists s, f. repeat split; auto. unfold fr. rewrite <- Hid. now rewrite (fract_of_nodup c s a f).
  - intros [s [f [Hs [Hid [Hp Hw]]]]]. exists (a, children c a). split.
    + apply adjacency_rows. split; auto. intro Hnil.
      assert (Hin : In b (children c a)) by (apply children_in; eauto). rewrite Hnil in Hin. inversion Hin.
    + unfold row_edges. simpl. apply in_map_iff. exists b. split.
      * subst w. unfold fr. rewrite <- Hid. now rewrite (fract_of_nodup c s a f).
      * apply children_in; eauto.
Qed.

Lemma graph_nodes : forall len c n, wf c -> (In n (gnodes (graph_of len c)) <-> In n (ids c)).
Proof.
  intros len c n Hwf. unfold graph_of. simpl. rewrite dedup_in, in_app_iff. split; [|tauto].
  intros [H|H]; auto. apply in_flat_map in H. destruct H as [[[a b] w] [He Hn]].
  apply tree_edges_spec in He; [|now apply wf_nodup]. destruct He as [s [f [Hs [Hid [Hp _]]]]].
  simpl in Hn. destruct Hn as [<-|[<-|[]]].
  - unfold esrc. simpl. destruct (wf_parent_in c s a f Hwf Hs Hp) as [par [H1 H2]]. rewrite <- H2. now apply in_ids.
  - unfold edst. simpl. rewrite <- Hid. now apply in_ids.
Qed.

Lemma graph_nodes_nodup : forall len c, NoDup (gnodes (graph_of len c)).
Proof. intros. apply dedup_nodup. Qed.

(* ------------------------------------------------------------------ degrees *)
Lemma filter_row_same : forall len c p kids,
  filter (fun e => esrc e =? p) (row_edges len c (p, kids)) = row_edges len c (p, kids).
Proof.
  intros. unfold row_edges. simpl. induction kids as [|k r IH]; simpl; auto.
  unfold esrc at 1. simpl. rewrite Z.eqb_refl. now rewrite IH.
Qed.

Lemma filter_row_other : forall len c p kids n, p <> n ->
  filter (fun e => esrc e =? n) (row_edges len c (p, kids)) = [].
Proof.
  intros. unfold row_edges. simpl. induction kids as [|k r IH]; simpl; auto.
  unfold esrc at 1. simpl. assert (p =? n = false) as -> by now apply Z.eqb_neq. auto.
Qed.

Lemma out_deg_rows : forall len c (a : adj) n, NoDup (akeys a) ->
  length (filter (fun e => esrc e =? n) (flat_map (row_edges len c) a)) =
  match alookup a n with Some l => length l | None => O end.
Proof.
  induction a as [|[p kids] r IH]; intros n H; simpl; auto.
  inversion H as [|? ? Hn Hr]; subst. rewrite filter_app, app_length, IH by auto.
  destruct (p =? n) eqn:E.
  - apply Z.eqb_eq in E. subst p. rewrite filter_row_same.
    assert (alookup r n = None) as -> by now apply alookup_none_keys.
    unfold row_edges. simpl. rewrite map_length. lia.
  - apply Z.eqb_neq in E. rewrite filter_row_other by auto. reflexivity.
Qed.

Lemma out_deg_children : forall len c n, out_deg (graph_of len c) n = length (children c n).
Proof.
  intros. unfold out_deg, graph_of, tree_edges. simpl. rewrite out_deg_rows by apply adjacency_nodup.
  rewrite adjacency_spec. destruct (children c n); reflexivity.
Qed.

Lemma in_deg_zero : forall len c n, NoDup (ids c) ->
  (in_deg (graph_of len c) n = O <-> forall s, In s c -> sid s = n -> sparent s = None).
Proof.
  intros len c n Hnd. unfold in_deg. rewrite length_filter_zero. simpl. split.
  - intros H s Hs Hid. destruct (sparent s) as [[a f]|] eqn:E; auto.
    assert (He : In (a, n, (len a * f)%Q) (tree_edges len c)) by (apply tree_edges_spec; eauto 7).
    specialize (H _ He). unfold edst in H. simpl in H. rewrite Z.eqb_refl in H. discriminate.
  - intros H [[a b] w] He. unfold edst. simpl. apply Z.eqb_neq. intro Hb. subst b.
    apply tree_edges_spec in He; auto. destruct He as [s [f [Hs [Hid [Hp _]]]]].
    rewrite (H s Hs Hid) in Hp. discriminate.
Qed.

(* ------------------------------------------------------------------ root, branch points *)
Theorem morphology_root_spec : forall len c, wf c ->
  exists r, In r c /\ sparent r = None /\ morphology_root c (graph_of len c) = Ok (sid r).
Proof.
  intros len c Hwf. destruct (wf_one_root c Hwf) as [r [Hr [Hrp Hru]]]. exists r. repeat split; auto.
  pose proof (wf_nodup c Hwf) as Hnd.
  assert (Hvia : filter (fun n => (in_deg (graph_of len c) n =? 0)%nat) (gnodes (graph_of len c)) = [sid r]).
  { apply filter_unique.
    - apply graph_nodes_nodup.
    - apply graph_nodes; auto. now apply in_ids.
    - apply Nat.eqb_eq. apply in_deg_zero; auto. intros s Hs Hid.
      assert (s = r) by (eapply nodup_same_id; eauto). now subst.
    - intros x Hx Hdeg. apply Nat.eqb_eq in Hdeg. rewrite in_deg_zero in Hdeg by auto.
      apply graph_nodes in Hx; auto. apply ids_in in Hx. destruct Hx as [s [Hs Hid]].
      rewrite <- Hid. f_equal. apply Hru; auto. }
  unfold morphology_root. rewrite Hvia.
  destruct (find_seg c 0) as [s|] eqn:E; auto.
  destruct (sparent s) eqn:Ep; auto.
  apply find_seg_some in E. destruct E as [Hs Hid]. rewrite (Hru s Hs Ep) in Hid. now rewrite Hid.
Qed.

Theorem branching_points_spec : forall len c n, wf c ->
  (In n (branching_points (graph_of len c)) <-> In n (ids c) /\ (2 <= length (children c n))%nat).
Proof.
  intros len c n Hwf. unfold branching_points. rewrite filter_In, graph_nodes by auto.
  rewrite out_deg_children. rewrite Nat.ltb_lt. split; intros [H1 H2]; split; auto; lia.
Qed.
