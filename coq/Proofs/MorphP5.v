(* C13: the hypotheses of the theorems are satisfiable — a concrete tree-shaped cell (root id 3, document order
   not topological, proximal points missing, fractions 1/2 and 1/4) and the values the model computes on it. *)
From Coq Require Import List ZArith QArith Bool Lia Permutation Sorted.
From LNML Require Import Model.Morph Proofs.MorphP Proofs.MorphP1 Proofs.MorphP2 Proofs.MorphP3 Proofs.MorphP4.
Import ListNotations.
Open Scope Z_scope.

Definition ex_s3 := SG 3 None (Some (P4 0 0 0 2)) (P4 4 0 0 2).
Definition ex_s1 := SG 1 (Some (3, (1 # 2)%Q)) None (P4 2 4 0 1).
Definition ex_s7 := SG 7 (Some (1, (1 # 4)%Q)) None (P4 2 1 8 1).
Definition ex_s0 := SG 0 (Some (3, 1%Q)) None (P4 4 0 3 1).
(* document order: 7, 0, 3, 1 *)
Definition ex_cell : cell := [ex_s7; ex_s0; ex_s3; ex_s1].

Example ex_wf : wf ex_cell.
Proof.
  apply built_wf. exists [ex_s7; ex_s0; ex_s1; ex_s3]. split.
  - eapply topo_leaf with (p := 1) (f := (1 # 4)%Q); [|reflexivity|simpl; tauto|simpl; intuition discriminate].
    eapply topo_leaf with (p := 3) (f := 1%Q); [|reflexivity|simpl; tauto|simpl; intuition discriminate].
    eapply topo_leaf with (p := 3) (f := (1 # 2)%Q); [|reflexivity|simpl; tauto|simpl; intuition discriminate].
    now apply topo_root.
  - apply perm_skip, perm_skip, perm_swap.
Qed.

Example ex_root_has_prox : root_has_prox ex_cell.
Proof.
  intros s Hs Hp. simpl in Hs. destruct Hs as [<-|[<-|[<-|[<-|[]]]]]; try discriminate Hp. simpl. discriminate.
Qed.

Definition ex_len (id : Z) : Q :=
  match id with 3 => qq 4 1 | 1 => qq 4 1 | 7 => qq 8 1 | _ => qq 3 1 end.

Example ex_lengths :
  res_eqb (list_eqb zq_eqb) (len_table ex_cell) (Ok [(7, qq 8 1); (0, qq 3 1); (3, qq 4 1); (1, qq 4 1)]) = true.
Proof. vm_compute. reflexivity. Qed.

(* segment 7 hangs at 1/4 of segment 1, which hangs at 1/2 of segment 3: (2, 1, 0), diameter 7/4 *)
Example ex_actual_prox :
  res_eqb pt_eqb (actual_prox (fuel_of ex_cell) ex_cell 7) (Ok (P4 (qq 2 1) (qq 1 1) (qq 0 1) (qq 7 4))) = true.
Proof. vm_compute. reflexivity. Qed.

Example ex_root : morphology_root ex_cell (graph_of ex_len ex_cell) = Ok 3.
Proof. vm_compute. reflexivity. Qed.

Example ex_branch : branching_points (graph_of ex_len ex_cell) = [3].
Proof. vm_compute. reflexivity. Qed.

Example ex_tips :
  res_eqb (list_eqb zq_eqb) (extremities (fuel_of ex_cell) ex_cell (graph_of ex_len ex_cell))
          (Ok [(7, qq 3 1); (0, qq 4 1)]) = true.
Proof. vm_compute. reflexivity. Qed.

Example ex_ordered :
  match ordered_run (fuel_of ex_cell) ex_len ex_cell [7; 1] with
  | Ok (o, st) => list_eqb Z.eqb o [1; 7] && list_eqb zq_eqb (o_pp st) [(7, qq 3 1); (1, qq 2 1)]
                  && list_eqb Qeq_bool (o_cum st) [qq 4 1; qq 12 1]
  | Err _ => false
  end = true.
Proof. vm_compute. reflexivity. Qed.

Example ex_at :
  res_eqb (list_eqb zq_eqb) (segments_at_distance (fuel_of ex_cell) ex_len (graph_of ex_len ex_cell) (qq 3 1) 3)
          (Ok [(3, qq 3 4); (1, qq 1 4); (7, qq 0 1)]) = true.
Proof. vm_compute. reflexivity. Qed.

(* ------------------------------------------------------------------ the statements of Props/C13.v that combine several lemmas *)
Lemma actprox_unique_wf : forall c id p q, wf c -> ActProx c id p -> ActProx c id q -> pt_eq p q.
Proof. intros c id p q Hwf Hp Hq. exact (ActProx_unique c (wf_nodup c Hwf) id p Hp q Hq). Qed.

Lemma graph_spec : forall len c, wf c ->
  exists g, get_graph len c = Ok g /\
    (forall n, In n (gnodes g) <-> In n (ids c)) /\
    (forall a b w, In (a, b, w) (gedges g) <->
                   exists s f, In s c /\ sid s = b /\ sparent s = Some (a, f) /\ w = (len a * f)%Q).
Proof.
  intros len c Hwf. exists (graph_of len c). split; [apply get_graph_ok; now apply wf_nodup|]. split.
  - intro n. now apply graph_nodes.
  - intros a b w. apply tree_edges_spec. now apply wf_nodup.
Qed.

Lemma any_dijkstra_spec : forall (nx : graph -> Z -> Z -> res Q) len c, wf c ->
  (forall s t d, nx (graph_of len c) s t = Ok d -> exists d', gpath (graph_of len c) s t d' /\ (d == d')%Q) ->
  (forall s t d, In s (gnodes (graph_of len c)) -> gpath (graph_of len c) s t d -> exists d', nx (graph_of len c) s t = Ok d') ->
  forall r, In r c -> sparent r = None ->
  (forall t d, nx (graph_of len c) (sid r) t = Ok d -> DistRoot len c t d) /\
  (forall s, In s c -> exists d, nx (graph_of len c) (sid r) (sid s) = Ok d) /\
  (forall s t d ds, nx (graph_of len c) s t = Ok d -> DistRoot len c s ds -> DistRoot len c t (ds + d)%Q).
Proof.
  intros nx len c Hwf Hs Hc r Hr Hrp. repeat split.
  - intros t d. exact (nx_from_root nx len c Hwf Hs r t d Hr Hrp).
  - intros s Hin. exact (nx_from_root_total nx len c Hwf Hc r s Hr Hrp Hin).
  - intros s t d ds. exact (nx_between nx len c Hwf Hs s t d ds).
Qed.

Lemma model_dijkstra_meets_hypotheses : forall len c, wf c ->
  (forall s t d, nx_dist (fuel_of c) (graph_of len c) s t = Ok d -> exists d', gpath (graph_of len c) s t d' /\ (d == d')%Q) /\
  (forall s t d, In s (gnodes (graph_of len c)) -> gpath (graph_of len c) s t d ->
                 exists d', nx_dist (fuel_of c) (graph_of len c) s t = Ok d').
Proof.
  intros len c Hwf. split; intros s t d.
  - now apply nx_dist_sound.
  - now apply nx_dist_complete.
Qed.

Lemma distroot_unique_wf : forall len c id d e, wf c -> DistRoot len c id d -> DistRoot len c id e -> (d == e)%Q.
Proof. intros len c id d e Hwf Hd He. exact (DistRoot_unique len c (wf_nodup c Hwf) id d Hd e He). Qed.

Lemma methods_agree_wf : forall len c grp o st r id d v, wf c ->
  ordered_run (fuel_of c) len c grp = Ok (o, st) -> (forall x, In x grp -> In x (ids c)) ->
  In r c -> sparent r = None ->
  nx_dist (fuel_of c) (graph_of len c) (sid r) id = Ok d ->
  alookup (o_pp st) id = Some v -> In id grp -> (d == v)%Q.
Proof. intros len c grp o st r id d v Hwf. exact (graph_and_ordered_agree len c Hwf grp o st r id d v). Qed.

Lemma domain_inhabited : wf ex_cell /\ root_has_prox ex_cell.
Proof. exact (conj ex_wf ex_root_has_prox). Qed.
