(* C17 proofs, part 1: the update loop of fix_external_morphs_biophys_in_cell (Model/Refs.v).
   copy.deepcopy is a Section variable; what is assumed of it are the hypotheses dcopy_*. *)
From Coq Require Import String List Bool ZArith Arith Lia.
From LNML Require Import Model.Refs.
Import ListNotations.

Section RefsP.
  Variable obj : Type.
  Variable oid : obj -> string.
  Variable V : Type.
  Variable val : obj -> V.              (* everything of the subtree except identities *)
  Variable locs : obj -> list nat.      (* identities of all objects of the subtree *)
  Variable dcopy : nat -> obj -> obj * nat.
  Variable load : nat -> string -> option (list obj * list obj * nat).

  (* copy.deepcopy(o) with the allocation counter at n: same value, only new objects *)
  Hypothesis dcopy_val : forall n o, val (fst (dcopy n o)) = val o.
  Hypothesis dcopy_id : forall n o, oid (fst (dcopy n o)) = oid o.
  Hypothesis dcopy_fresh : forall n o l, In l (locs (fst (dcopy n o))) -> n <= l < snd (dcopy n o).
  Hypothesis dcopy_nodup : forall n o, NoDup (locs (fst (dcopy n o))).
  Hypothesis dcopy_mono : forall n o, n <= snd (dcopy n o).

  Notation slot := (slot obj).
  Notation cellrec := (cellrec obj).
  Notation heap := (heap obj).
  Notation dict := (dict obj).
  Notation fill := (fill obj dcopy).
  Notation cells_loop := (cells_loop obj dcopy).

  (* ------------------------------------------------------------------ heap *)
  Lemma upd_same : forall (h : heap) l c, upd obj h l c l = c.
  Proof. intros. unfold upd. rewrite Nat.eqb_refl. reflexivity. Qed.

  Lemma upd_other : forall (h : heap) l c x, x <> l -> upd obj h l c x = h x.
  Proof. intros h l c x H. unfold upd. apply Nat.eqb_neq in H. rewrite H. reflexivity. Qed.

  (* ------------------------------------------------------------ one slot *)
  Definition slot_locs (s : slot) : list nat := match snd s with Some o => locs o | None => [] end.

  (* what an assignment does to a slot, with the counter going from n to n' *)
  Definition slot_post (d : dict) (n n' : nat) (s s' : slot) : Prop :=
    match s with
    | (Some a, None) =>
      exists o o', dict_get obj d a = Some o /\ s' = (None, Some o') /\
                   val o' = val o /\ oid o' = oid o /\
                   (forall x, In x (locs o') -> n <= x < n') /\ NoDup (locs o')
    | _ => s' = s
    end.

  Lemma fill_spec : forall d n s s' n', fill d n s = Filled obj s' n' -> n <= n' /\ slot_post d n n' s s'.
  Proof.
    intros d n [[a|] [e|]] s' n' H; simpl in H; try (inversion H; subst; split; [lia | reflexivity]).
    destruct (dict_get obj d a) as [o|] eqn:G; [|discriminate].
    destruct (dcopy n o) as [o' m] eqn:D. inversion H; subst; clear H.
    pose proof (dcopy_val n o) as Hv. pose proof (dcopy_id n o) as Hi.
    pose proof (dcopy_fresh n o) as Hf. pose proof (dcopy_nodup n o) as Hn. pose proof (dcopy_mono n o) as Hm.
    rewrite D in *. simpl in *. split; [exact Hm|].
    exists o, o'. repeat split; auto; apply Hf; assumption.
  Qed.

  Lemma slot_post_widen : forall d n n' m m' s s', m <= n -> n' <= m' -> slot_post d n n' s s' -> slot_post d m m' s s'.
  Proof.
    intros d n n' m m' [[a|] [e|]] s' H1 H2 P; simpl in *; auto.
    destruct P as [o [o' [G [E [Hv [Hi [Hf Hn]]]]]]]. exists o, o'. repeat split; auto; apply Hf in H; lia.
  Qed.

  (* the identities of a slot after the assignment: the old ones, or new ones from [n, n') *)
  Lemma slot_post_locs : forall d n n' s s', slot_post d n n' s s' ->
    NoDup (slot_locs s) -> NoDup (slot_locs s') /\
    forall x, In x (slot_locs s') -> (In x (slot_locs s) /\ s' = s) \/ (n <= x < n' /\ slot_locs s = []).
  Proof.
    intros d n n' [[a|] [e|]] s' P N; simpl in P; try (subst s'; split; [exact N | intros x Hx; left; split; [exact Hx | reflexivity]]).
    destruct P as [o [o' [G [E [Hv [Hi [Hf Hn]]]]]]]. subst s'. unfold slot_locs. simpl. split; [exact Hn|].
    intros x Hx. right. split; [apply Hf; exact Hx | reflexivity].
  Qed.

  (* ------------------------------------------------------------- the loop *)
  Lemma loop_cons : forall dm db l r (h : heap) n,
    cells_loop dm db (l :: r) h n =
    match fill dm n (k_m (h l)) with
    | Missing _ => LKeyErr obj h
    | Filled _ sm n1 =>
      match fill db n1 (k_b (h l)) with
      | Missing _ => LKeyErr obj (upd obj h l (set_m obj (h l) sm))
      | Filled _ sb n2 =>
        cells_loop dm db r (upd obj (upd obj h l (set_m obj (h l) sm)) l (set_b obj (set_m obj (h l) sm) sb)) n2
      end
    end.
  Proof. reflexivity. Qed.

  Definition cell_post (dm db : dict) (n n' : nat) (c c' : cellrec) : Prop :=
    k_id c' = k_id c /\ k_rest c' = k_rest c /\
    slot_post dm n n' (k_m c) (k_m c') /\ slot_post db n n' (k_b c) (k_b c').

  Theorem loop_spec : forall dm db cells h n h' n',
    NoDup cells -> cells_loop dm db cells h n = LOk obj h' n' ->
    n <= n' /\ (forall l, ~ In l cells -> h' l = h l) /\
    (forall l, In l cells -> cell_post dm db n n' (h l) (h' l)).
  Proof.
    intros dm db cells. induction cells as [|l r IH]; intros h n h' n' N H; [simpl in H | rewrite loop_cons in H].
    - inversion H; subst. split; [lia|]. split; [reflexivity | intros x []].
    - inversion N as [|? ? Nl Nr]; subst.
      destruct (fill dm n (k_m (h l))) as [sm n1|] eqn:F1; [|discriminate].
      destruct (fill db n1 (k_b (h l))) as [sb n2|] eqn:F2; [|discriminate].
      apply fill_spec in F1. destruct F1 as [L1 P1]. apply fill_spec in F2. destruct F2 as [L2 P2].
      apply IH in H; [|exact Nr]. destruct H as [L3 [Fr Po]].
      split; [lia|]. split.
      + intros x Hx. rewrite Fr by (intro; apply Hx; right; assumption).
        rewrite !upd_other by (intro; subst; apply Hx; left; reflexivity). reflexivity.
      + intros x [E|Hx].
        * subst x. rewrite (Fr l Nl), upd_same. unfold cell_post. simpl. repeat split; auto.
          -- apply (slot_post_widen dm n n1); [lia | lia | exact P1].
          -- apply (slot_post_widen db n1 n2); [lia | lia | exact P2].
        * assert (x <> l) by (intro; subst; contradiction).
          specialize (Po x Hx). rewrite !upd_other in Po by assumption.
          destruct Po as [A [B [C D]]]. repeat split; auto.
          -- apply (slot_post_widen dm n2 n'); [lia | lia | exact C].
          -- apply (slot_post_widen db n2 n'); [lia | lia | exact D].
  Qed.

  (* a KeyError leaves everything outside the walked cells alone as well *)
  Theorem loop_frame : forall dm db cells h n,
    match cells_loop dm db cells h n with
    | LOk _ h' _ => forall l, ~ In l cells -> h' l = h l
    | LKeyErr _ h' => forall l, ~ In l cells -> h' l = h l
    end.
  Proof.
    intros dm db cells. induction cells as [|l r IH]; intros h n; [simpl; auto | rewrite loop_cons].
    destruct (fill dm n (k_m (h l))) as [sm n1|]; [|auto].
    destruct (fill db n1 (k_b (h l))) as [sb n2|].
    - specialize (IH (upd obj (upd obj h l (set_m obj (h l) sm)) l (set_b obj (set_m obj (h l) sm) sb)) n2).
      destruct (cells_loop dm db r _ n2); intros x Hx;
        (rewrite IH by (intro; apply Hx; right; assumption));
        rewrite !upd_other by (intro; subst; apply Hx; left; reflexivity); reflexivity.
    - intros x Hx. rewrite upd_other by (intro; subst; apply Hx; left; reflexivity). reflexivity.
  Qed.

  (* ----------------------------------------------- KeyError iff dangling *)
  Definition slot_res (d : dict) (s : slot) : Prop :=
    match s with (Some a, None) => dict_get obj d a <> None | _ => True end.
  Definition resolvable (dm db : dict) (c : cellrec) : Prop := slot_res dm (k_m c) /\ slot_res db (k_b c).

  Lemma fill_filled : forall d n s, slot_res d s -> exists s' n', fill d n s = Filled obj s' n'.
  Proof.
    intros d n [[a|] [e|]] R; simpl in *; try (eexists; eexists; reflexivity).
    destruct (dict_get obj d a) as [o|]; [|congruence]. destruct (dcopy n o). eexists; eexists; reflexivity.
  Qed.

  Lemma fill_missing : forall d n s, ~ slot_res d s -> fill d n s = Missing obj.
  Proof.
    intros d n [[a|] [e|]] R; simpl in *; try tauto.
    destruct (dict_get obj d a) as [o|]; [exfalso; apply R; discriminate | reflexivity].
  Qed.

  Lemma slot_res_dec : forall d s, slot_res d s \/ ~ slot_res d s.
  Proof.
    intros d [[a|] [e|]]; simpl; auto. destruct (dict_get obj d a); [left; discriminate | right; intro H; apply H; reflexivity].
  Qed.

  Theorem loop_ok_iff_resolvable : forall dm db cells h n, NoDup cells ->
    ((forall l, In l cells -> resolvable dm db (h l)) <-> exists h' n', cells_loop dm db cells h n = LOk obj h' n').
  Proof.
    intros dm db cells. induction cells as [|l r IH]; intros h n N; [simpl | rewrite loop_cons].
    - split; [intros _; eexists; eexists; reflexivity | intros _ x []].
    - inversion N as [|? ? Nl Nr]; subst.
      assert (Same : forall sm sb x, In x r ->
                 upd obj (upd obj h l (set_m obj (h l) sm)) l (set_b obj (set_m obj (h l) sm) sb) x = h x).
      { intros sm sb x Hx. rewrite !upd_other by (intro; subst; contradiction). reflexivity. }
      split.
      + intros R. destruct (R l (or_introl eq_refl)) as [Rm Rb].
        destruct (fill_filled dm n _ Rm) as [sm [n1 F1]]. rewrite F1.
        destruct (fill_filled db n1 (k_b (h l)) Rb) as [sb [n2 F2]]. rewrite F2.
        apply IH; [exact Nr|]. intros x Hx. rewrite Same by exact Hx. apply R. right. exact Hx.
      + intros [h' [n' H]].
        destruct (fill dm n (k_m (h l))) as [sm n1|] eqn:F1; [|discriminate].
        destruct (fill db n1 (k_b (h l))) as [sb n2|] eqn:F2; [|discriminate].
        intros x [E|Hx].
        * subst x. split.
          -- destruct (slot_res_dec dm (k_m (h l))) as [R|R]; [exact R|]. rewrite (fill_missing dm n _ R) in F1. discriminate.
          -- destruct (slot_res_dec db (k_b (h l))) as [R|R]; [exact R|].
             rewrite (fill_missing db n1 _ R) in F2. discriminate.
        * rewrite <- (Same sm sb x Hx). revert x Hx. apply (IH _ n2 Nr). eexists; eexists; exact H.
  Qed.

  (* ----------------------------------------- independence of the copies *)
  Definition cell_locs (c : cellrec) : list nat := (slot_locs (k_m c) ++ slot_locs (k_b c))%list.
  Definition emb_locs (h : heap) (cells : list nat) : list nat := flat_map (fun l => cell_locs (h l)) cells.

  Lemma emb_locs_ext : forall (h1 h2 : heap) cells, (forall l, In l cells -> h1 l = h2 l) -> emb_locs h1 cells = emb_locs h2 cells.
  Proof.
    intros h1 h2 cells H. unfold emb_locs. induction cells as [|l r IH]; simpl; [reflexivity|].
    rewrite (H l (or_introl eq_refl)), IH; [reflexivity|]. intros; apply H; right; assumption.
  Qed.

  Lemma NoDup_app_intro : forall (A : Type) (a b : list A),
    NoDup a -> NoDup b -> (forall x, In x a -> ~ In x b) -> NoDup (a ++ b).
  Proof.
    intros A a b Na Nb D. induction a as [|x a IH]; simpl; [exact Nb|].
    inversion Na; subst. constructor.
    - intro H. apply in_app_or in H. destruct H; [contradiction | apply (D x (or_introl eq_refl)); assumption].
    - apply IH; [assumption | intros y Hy; apply D; right; exact Hy].
  Qed.

  Lemma NoDup_app_l : forall (A : Type) (a b : list A), NoDup (a ++ b) -> NoDup a.
  Proof.
    intros A a b. induction a as [|x a IH]; simpl; intro N; [constructor|].
    inversion N; subst. constructor; [intro; apply H1; apply in_or_app; left; assumption | apply IH; assumption].
  Qed.

  Lemma NoDup_app_r : forall (A : Type) (a b : list A), NoDup (a ++ b) -> NoDup b.
  Proof. intros A a b. induction a as [|x a IH]; simpl; intro N; [exact N|]. inversion N; subst. apply IH. assumption. Qed.

  Lemma NoDup_app_disj : forall (A : Type) (a b : list A) x, NoDup (a ++ b) -> In x a -> ~ In x b.
  Proof.
    intros A a b x. induction a as [|y a IH]; simpl; intros N Hx; [destruct Hx|].
    inversion N; subst. destruct Hx as [E|Hx].
    - subst y. intro Hb. apply H1. apply in_or_app. right. exact Hb.
    - apply IH; assumption.
  Qed.

  (* all embedded subtrees stay pairwise disjoint, and whatever is new lies at or above the counter
     the loop started with: no copy shares an object with another copy or with anything that existed *)
  Theorem loop_locs : forall dm db cells h n h' n',
    NoDup cells -> cells_loop dm db cells h n = LOk obj h' n' ->
    NoDup (emb_locs h cells) -> (forall x, In x (emb_locs h cells) -> x < n) ->
    NoDup (emb_locs h' cells) /\
    (forall x, In x (emb_locs h' cells) -> In x (emb_locs h cells) \/ n <= x < n').
  Proof.
    intros dm db cells. induction cells as [|l r IH]; intros h n h' n' N H Nd Lt; [simpl in H | rewrite loop_cons in H].
    - inversion H; subst. split; [constructor | intros x []].
    - inversion N as [|? ? Nl Nr]; subst.
      destruct (fill dm n (k_m (h l))) as [sm n1|] eqn:F1; [|discriminate].
      destruct (fill db n1 (k_b (h l))) as [sb n2|] eqn:F2; [|discriminate].
      apply fill_spec in F1. destruct F1 as [L1 P1]. apply fill_spec in F2. destruct F2 as [L2 P2].
      set (h2 := upd obj (upd obj h l (set_m obj (h l) sm)) l (set_b obj (set_m obj (h l) sm) sb)) in *.
      assert (Same : forall x, In x r -> h2 x = h x).
      { intros x Hx. unfold h2. rewrite !upd_other by (intro; subst; contradiction). reflexivity. }
      pose proof (loop_spec dm db r h2 n2 h' n' Nr H) as [L3 [Fr _]].
      change (emb_locs h (l :: r)) with (cell_locs (h l) ++ emb_locs h r)%list in *.
      change (emb_locs h' (l :: r)) with (cell_locs (h' l) ++ emb_locs h' r)%list.
      assert (Er : emb_locs h2 r = emb_locs h r) by (apply emb_locs_ext; exact Same).
      destruct (IH h2 n2 h' n' Nr H) as [Nd' Src].
      { rewrite Er. apply (NoDup_app_r _ _ _ Nd). }
      { intros x Hx. rewrite Er in Hx. assert (x < n) by (apply Lt; apply in_or_app; right; exact Hx). lia. }
      rewrite Er in Src.
      assert (Hl : h' l = set_b obj (set_m obj (h l) sm) sb).
      { rewrite (Fr l Nl). unfold h2. apply upd_same. }
      rewrite Hl. unfold cell_locs at 1 3. simpl.
      assert (Ncl : NoDup (cell_locs (h l))) by (apply (NoDup_app_l _ _ _ Nd)).
      unfold cell_locs in Ncl.
      destruct (slot_post_locs dm n n1 _ _ P1 (NoDup_app_l _ _ _ Ncl)) as [Nm Sm].
      destruct (slot_post_locs db n1 n2 _ _ P2 (NoDup_app_r _ _ _ Ncl)) as [Nb Sb].
      (* classification of the identities of the updated cell *)
      assert (Cl : forall x, In x (slot_locs sm ++ slot_locs sb) -> In x (cell_locs (h l)) \/ n <= x < n2).
      { intros x Hx. apply in_app_or in Hx. destruct Hx as [Hx|Hx].
        - destruct (Sm x Hx) as [[Ho _]|[Hr _]]; [left; unfold cell_locs; apply in_or_app; left; exact Ho | right; lia].
        - destruct (Sb x Hx) as [[Ho _]|[Hr _]]; [left; unfold cell_locs; apply in_or_app; right; exact Ho | right; lia]. }
      split.
      + apply NoDup_app_intro; [| exact Nd' |].
        * apply NoDup_app_intro; [exact Nm | exact Nb |].
          intros x Hm Hb.
          destruct (Sm x Hm) as [[Ho Es]|[Hr _]]; destruct (Sb x Hb) as [[Ho' Es']|[Hr' _]].
          -- apply (NoDup_app_disj _ _ _ x Ncl Ho Ho').
          -- assert (x < n) by (apply Lt; apply in_or_app; left; unfold cell_locs; apply in_or_app; left; exact Ho). lia.
          -- assert (x < n) by (apply Lt; apply in_or_app; left; unfold cell_locs; apply in_or_app; right; exact Ho'). lia.
          -- lia.
        * intros x Hx Hr. destruct (Cl x Hx) as [Ho|Hn]; destruct (Src x Hr) as [Ho'|Hn'].
          -- apply (NoDup_app_disj _ _ _ x Nd Ho Ho').
          -- assert (x < n) by (apply Lt; apply in_or_app; left; exact Ho). lia.
          -- assert (x < n) by (apply Lt; apply in_or_app; right; exact Ho'). lia.
          -- lia.
      + intros x Hx. apply in_app_or in Hx. destruct Hx as [Hx|Hx].
        * destruct (Cl x Hx) as [Ho|Hn]; [left; apply in_or_app; left; exact Ho | right; lia].
        * destruct (Src x Hx) as [Ho|Hn]; [left; apply in_or_app; right; exact Ho | right; lia].
  Qed.
  (* =================================================================== *)
  (*  part 2: the dictionaries, the includes, the whole function          *)
  (* =================================================================== *)
  Hypothesis load_mono : forall n i ms bs n', load n i = Some (ms, bs, n') -> n <= n'.
  Hypothesis load_fresh : forall n i ms bs n', load n i = Some (ms, bs, n') ->
    forall o, In o (ms ++ bs) -> forall x, In x (locs o) -> n <= x < n'.

  Definition ov (o : obj) : string * V := (oid o, val o).

  (* reading a file again gives the same values (C07 is about that); identities differ *)
  Hypothesis load_val : forall n m i,
    match load n i, load m i with
    | Some (ms, bs, _), Some (ms', bs', _) => map ov ms = map ov ms' /\ map ov bs = map ov bs'
    | None, None => True
    | _, _ => False
    end.

  Notation add_defs := (add_defs obj oid).
  Notation load_incs := (load_incs obj oid load).
  Notation fix_doc := (fix_doc obj oid dcopy load).

  (* the definition in force for id a in a sequence of definitions: the last one *)
  Fixpoint last_def (os : list obj) (a : string) : option obj :=
    match os with
    | [] => None
    | o :: r => match last_def r a with
                | Some x => Some x
                | None => if String.eqb (oid o) a then Some o else None
                end
    end.

  Lemma last_def_oid : forall os a o, last_def os a = Some o -> oid o = a.
  Proof.
    induction os as [|x r IH]; simpl; intros a o H; [discriminate|].
    destruct (last_def r a) eqn:L.
    - inversion H; subst. apply IH. exact L.
    - destruct (String.eqb (oid x) a) eqn:E; [|discriminate]. inversion H; subst. apply String.eqb_eq. exact E.
  Qed.

  Lemma last_def_In : forall os a o, last_def os a = Some o -> In o os.
  Proof.
    induction os as [|x r IH]; simpl; intros a o H; [discriminate|].
    destruct (last_def r a) eqn:L.
    - inversion H; subst. right. apply (IH a). exact L.
    - destruct (String.eqb (oid x) a); [|discriminate]. inversion H; subst. left. reflexivity.
  Qed.

  Lemma last_def_app : forall os1 os2 a,
    last_def (os1 ++ os2) a = match last_def os2 a with Some o => Some o | None => last_def os1 a end.
  Proof.
    induction os1 as [|x r IH]; intros os2 a; simpl.
    - destruct (last_def os2 a); reflexivity.
    - rewrite IH. destruct (last_def os2 a); reflexivity.
  Qed.

  Lemma add_defs_cons : forall refs d o os,
    add_defs refs d (o :: os) = add_defs refs (if mem_str (oid o) refs then (oid o, o) :: d else d) os.
  Proof. reflexivity. Qed.

  Lemma add_defs_app : forall refs d os1 os2, add_defs refs d (os1 ++ os2) = add_defs refs (add_defs refs d os1) os2.
  Proof. intros. unfold Refs.add_defs. apply fold_left_app. Qed.

  (* the referenced_ids filter never hides a definition that is looked up *)
  Lemma add_defs_get : forall refs os d a, mem_str a refs = true ->
    dict_get obj (add_defs refs d os) a = match last_def os a with Some o => Some o | None => dict_get obj d a end.
  Proof.
    intros refs os. induction os as [|o r IH]; intros d a M; [reflexivity|].
    rewrite add_defs_cons, IH by exact M. simpl. destruct (last_def r a); [reflexivity|].
    destruct (String.eqb (oid o) a) eqn:E.
    - apply String.eqb_eq in E. rewrite E, M. simpl. rewrite String.eqb_refl. reflexivity.
    - destruct (mem_str (oid o) refs); [simpl; rewrite E|]; reflexivity.
  Qed.

  (* all includes, one after the other *)
  Fixpoint load_all (incs : list string) (n : nat) : option (list obj * list obj * nat) :=
    match incs with
    | [] => Some ([], [], n)
    | i :: r =>
      match load n i with
      | None => None
      | Some (ms, bs, n1) =>
        match load_all r n1 with
        | None => None
        | Some (ms', bs', n2) => Some ((ms ++ ms')%list, (bs ++ bs')%list, n2)
        end
      end
    end.

  Lemma load_incs_all : forall refs incs dm db n,
    load_incs refs incs dm db n =
    match load_all incs n with
    | None => None
    | Some (ms, bs, n') => Some (add_defs refs dm ms, add_defs refs db bs, n')
    end.
  Proof.
    intros refs incs. induction incs as [|i r IH]; intros dm db n; simpl; [reflexivity|].
    destruct (load n i) as [[[ms bs] n1]|]; [|reflexivity].
    rewrite IH. destruct (load_all r n1) as [[[ms' bs'] n2]|]; [|reflexivity].
    rewrite !add_defs_app. reflexivity.
  Qed.

  Lemma load_all_mono : forall incs n ms bs n', load_all incs n = Some (ms, bs, n') -> n <= n'.
  Proof.
    induction incs as [|i r IH]; simpl; intros n ms bs n' H; [inversion H; lia|].
    destruct (load n i) as [[[ms0 bs0] n1]|] eqn:L; [|discriminate].
    destruct (load_all r n1) as [[[ms1 bs1] n2]|] eqn:A; [|discriminate].
    inversion H; subst. apply load_mono in L. apply IH in A. lia.
  Qed.

  Lemma load_all_fresh : forall incs n ms bs n', load_all incs n = Some (ms, bs, n') ->
    forall o, In o (ms ++ bs) -> forall x, In x (locs o) -> n <= x < n'.
  Proof.
    induction incs as [|i r IH]; simpl; intros n ms bs n' H o Ho x Hx; [inversion H; subst; destruct Ho|].
    destruct (load n i) as [[[ms0 bs0] n1]|] eqn:L; [|discriminate].
    destruct (load_all r n1) as [[[ms1 bs1] n2]|] eqn:A; [|discriminate].
    inversion H; subst. pose proof (load_mono _ _ _ _ _ L). pose proof (load_all_mono _ _ _ _ _ A).
    assert (In o (ms0 ++ bs0) \/ In o (ms1 ++ bs1)) as [Ho'|Ho'].
    { apply in_app_or in Ho. destruct Ho as [Ho|Ho]; apply in_app_or in Ho; destruct Ho;
        [left|right|left|right]; apply in_or_app; auto. }
    - pose proof (load_fresh _ _ _ _ _ L o Ho' x Hx). lia.
    - pose proof (IH _ _ _ _ A o Ho' x Hx). lia.
  Qed.

  (* ------------------------------------------------ overwrite = True *)
  Lemma mem_str_In : forall a l, mem_str a l = true <-> In a l.
  Proof.
    intros a l. unfold mem_str. rewrite existsb_exists. split.
    - intros [x [Hx E]]. apply String.eqb_eq in E. subst. exact Hx.
    - intro H. exists a. split; [exact H | apply String.eqb_refl].
  Qed.

  Lemma referenced_m : forall (h : heap) cells l a, In l cells -> k_m (h l) = (Some a, None) ->
    mem_str a (referenced obj h cells) = true.
  Proof.
    intros h cells l a Hl E. apply mem_str_In. unfold referenced. apply in_flat_map. exists l. split; [exact Hl|].
    unfold cell_refs. rewrite E. simpl. left. reflexivity.
  Qed.

  Lemma referenced_b : forall (h : heap) cells l a, In l cells -> k_b (h l) = (Some a, None) ->
    mem_str a (referenced obj h cells) = true.
  Proof.
    intros h cells l a Hl E. apply mem_str_In. unfold referenced. apply in_flat_map. exists l. split; [exact Hl|].
    unfold cell_refs. apply in_or_app. right. rewrite E. simpl. left. reflexivity.
  Qed.

  (* what the property asks of one slot: a referring slot gets a copy of THE definition in force *)
  Definition slot_embeds (defs : list obj) (n n' : nat) (s s' : slot) : Prop :=
    match s with
    | (Some a, None) =>
      exists o o', last_def defs a = Some o /\ s' = (None, Some o') /\
                   val o' = val o /\ oid o' = a /\
                   (forall x, In x (locs o') -> n <= x < n') /\ NoDup (locs o')
    | _ => s' = s
    end.

  Definition cell_embeds (M B : list obj) (n n' : nat) (c c' : cellrec) : Prop :=
    k_id c' = k_id c /\ k_rest c' = k_rest c /\
    slot_embeds M n n' (k_m c) (k_m c') /\ slot_embeds B n n' (k_b c) (k_b c').

  Lemma slot_post_embeds : forall refs defs n n' s s',
    (forall a, s = (Some a, None) -> mem_str a refs = true) ->
    slot_post (add_defs refs [] defs) n n' s s' -> slot_embeds defs n n' s s'.
  Proof.
    intros refs defs n n' [[a|] [e|]] s' M P; simpl in *; auto.
    destruct P as [o [o' [G [E [Hv [Hi [Hf Hn]]]]]]].
    rewrite add_defs_get in G by (apply M; reflexivity). simpl in G.
    destruct (last_def defs a) as [o0|] eqn:L; [|discriminate]. inversion G; subst o0.
    exists o, o'. split; [reflexivity|]. split; [exact E|]. split; [exact Hv|].
    split; [rewrite Hi; apply (last_def_oid _ _ _ L)|]. split; [exact Hf | exact Hn].
  Qed.

  Definition all_cells (d : docr obj) : list nat := (d_cells d ++ d_cells2 d)%list.

  Lemma fix_doc_true_unfold : forall h d n,
    fix_doc true h d n true =
    let refs := referenced obj h (all_cells d) in
    match load_all (d_incs d) n with
    | None => RExit h
    | Some (ms, bs, n1) =>
      match cells_loop (add_defs refs [] (ms ++ d_morphs d)) (add_defs refs [] (bs ++ d_bios d)) (all_cells d) h n1 with
      | LOk _ h' n' => ROk h' d n'
      | LKeyErr _ h' => RKeyErr h'
      end
    end.
  Proof.
    intros h d n. unfold Refs.fix_doc. simpl. fold (all_cells d). rewrite load_incs_all.
    destruct (load_all (d_incs d) n) as [[[ms bs] n1]|]; [|reflexivity].
    rewrite <- !add_defs_app. reflexivity.
  Qed.

  (* C17, positive part (in place): every referring cell - Cell2CaPools included - gets a copy of the
     definition in force (document definitions after included ones, later after earlier), with equal
     value, only new objects, the reference cleared; every other slot and everything else untouched *)
  Theorem fix_overwrite_spec : forall h d n h' d' n',
    NoDup (all_cells d) ->
    fix_doc true h d n true = ROk h' d' n' ->
    d' = d /\
    exists ms bs n1,
      load_all (d_incs d) n = Some (ms, bs, n1) /\ n <= n1 /\ n1 <= n' /\
      (forall l, ~ In l (all_cells d) -> h' l = h l) /\
      (forall l, In l (all_cells d) ->
                 cell_embeds (ms ++ d_morphs d) (bs ++ d_bios d) n1 n' (h l) (h' l)).
  Proof.
    intros h d n h' d' n' N H. rewrite fix_doc_true_unfold in H. simpl in H.
    destruct (load_all (d_incs d) n) as [[[ms bs] n1]|] eqn:L; [|discriminate].
    destruct (cells_loop _ _ (all_cells d) h n1) as [h1 n2|h1] eqn:C; [|discriminate].
    inversion H; subst; clear H. split; [reflexivity|].
    exists ms, bs, n1. destruct (loop_spec _ _ _ _ _ _ _ N C) as [Le [Fr Po]].
    split; [reflexivity|]. split; [apply (load_all_mono _ _ _ _ _ L)|]. split; [exact Le|]. split; [exact Fr|].
    intros l Hl. destruct (Po l Hl) as [A [B [Pm Pb]]]. repeat split; auto.
    - eapply slot_post_embeds; [|exact Pm]. intros a E. apply (referenced_m h _ l a Hl E).
    - eapply slot_post_embeds; [|exact Pb]. intros a E. apply (referenced_b h _ l a Hl E).
  Qed.

  (* independence: after the call all embedded subtrees are pairwise disjoint, and every new object was
     allocated after everything that existed before the call and after the included documents *)
  Theorem fix_overwrite_independent : forall h d n h' d' n',
    NoDup (all_cells d) ->
    NoDup (emb_locs h (all_cells d)) -> (forall x, In x (emb_locs h (all_cells d)) -> x < n) ->
    fix_doc true h d n true = ROk h' d' n' ->
    NoDup (emb_locs h' (all_cells d)) /\
    exists ms bs n1, load_all (d_incs d) n = Some (ms, bs, n1) /\
      (forall x, In x (emb_locs h' (all_cells d)) -> In x (emb_locs h (all_cells d)) \/ n1 <= x < n') /\
      (forall o, In o (ms ++ bs) -> forall x, In x (locs o) -> x < n1).
  Proof.
    intros h d n h' d' n' N Nd Lt H. rewrite fix_doc_true_unfold in H. simpl in H.
    destruct (load_all (d_incs d) n) as [[[ms bs] n1]|] eqn:L; [|discriminate].
    destruct (cells_loop _ _ (all_cells d) h n1) as [h1 n2|h1] eqn:C; [|discriminate].
    inversion H; subst; clear H. pose proof (load_all_mono _ _ _ _ _ L) as Le.
    destruct (loop_locs _ _ _ _ _ _ _ N C Nd) as [Nd' Src].
    { intros x Hx. apply Lt in Hx. lia. }
    split; [exact Nd'|]. exists ms, bs, n1. split; [reflexivity|]. split; [exact Src|].
    intros o Ho x Hx. apply (load_all_fresh _ _ _ _ _ L o Ho x Hx).
  Qed.

  (* KeyError exactly when some reference has no definition (given readable includes) *)
  Definition slot_defined (defs : list obj) (s : slot) : Prop :=
    match s with (Some a, None) => last_def defs a <> None | _ => True end.

  Lemma slot_res_defined : forall refs defs s,
    (forall a, s = (Some a, None) -> mem_str a refs = true) ->
    (slot_res (add_defs refs [] defs) s <-> slot_defined defs s).
  Proof.
    intros refs defs [[a|] [e|]] M; simpl; try tauto.
    rewrite add_defs_get by (apply M; reflexivity). simpl. destruct (last_def defs a); split; auto.
  Qed.

  Theorem fix_overwrite_keyerror : forall h d n ms bs n1,
    NoDup (all_cells d) -> load_all (d_incs d) n = Some (ms, bs, n1) ->
    let ok := forall l, In l (all_cells d) ->
                slot_defined (ms ++ d_morphs d) (k_m (h l)) /\ slot_defined (bs ++ d_bios d) (k_b (h l)) in
    (ok <-> exists h' n', fix_doc true h d n true = ROk h' d n') /\
    (~ ok <-> exists h', fix_doc true h d n true = RKeyErr h').
  Proof.
    intros h d n ms bs n1 N L ok. rewrite fix_doc_true_unfold. simpl. rewrite L.
    set (refs := referenced obj h (all_cells d)).
    set (dm := add_defs refs [] (ms ++ d_morphs d)). set (db := add_defs refs [] (bs ++ d_bios d)).
    assert (Eq : ok <-> forall l, In l (all_cells d) -> resolvable dm db (h l)).
    { unfold ok, resolvable. split; intros H l Hl; destruct (H l Hl) as [A B]; split.
      - apply slot_res_defined; [intros a E; apply (referenced_m h _ l a Hl E) | exact A].
      - apply slot_res_defined; [intros a E; apply (referenced_b h _ l a Hl E) | exact B].
      - apply (slot_res_defined refs) in A; [exact A | intros a E; apply (referenced_m h _ l a Hl E)].
      - apply (slot_res_defined refs) in B; [exact B | intros a E; apply (referenced_b h _ l a Hl E)]. }
    pose proof (loop_ok_iff_resolvable dm db (all_cells d) h n1 N) as Iff.
    destruct (cells_loop dm db (all_cells d) h n1) as [h1 n2|h1] eqn:C.
    - assert (O : ok) by (apply (proj2 Eq); apply (proj2 Iff); eexists; eexists; reflexivity).
      split; split; try (intros; eexists; eexists; reflexivity); try (intros; exact O); try tauto.
      intros [h' H']. discriminate.
    - assert (NO : ~ ok). { intro O. destruct (proj1 Iff (proj1 Eq O)) as [h' [n' O']]. discriminate. }
      split; split; try tauto.
      + intros [h' [n' H']]. discriminate.
      + intros _. eexists. reflexivity.
  Qed.
  (* =================================================================== *)
  (*  part 3: overwrite = False                                           *)
  (* =================================================================== *)
  Definition slotv (s : slot) : option string * option (string * V) := (fst s, option_map ov (snd s)).
  Definition cellv (c : cellrec) := (k_id c, k_rest c, slotv (k_m c), slotv (k_b c)).

  Notation copy_slot := (copy_slot obj dcopy).
  Notation copy_objs := (copy_objs obj dcopy).
  Notation copy_cells := (copy_cells obj dcopy).
  Notation copy_doc := (copy_doc obj dcopy).

  Lemma copy_slot_spec : forall n s s' n', copy_slot n s = (s', n') -> n <= n' /\ slotv s' = slotv s.
  Proof.
    intros n [a [e|]] s' n' H; simpl in H.
    - destruct (dcopy n e) as [e' m] eqn:D. inversion H; subst; clear H.
      pose proof (dcopy_mono n e) as Hm. pose proof (dcopy_val n e) as Hv. pose proof (dcopy_id n e) as Hi.
      rewrite D in *. simpl in *. split; [exact Hm|]. unfold slotv, ov. simpl. rewrite Hv, Hi. reflexivity.
    - inversion H; subst. split; [lia | reflexivity].
  Qed.

  Lemma copy_objs_spec : forall os n os' n', copy_objs n os = (os', n') -> n <= n' /\ map ov os' = map ov os.
  Proof.
    induction os as [|o r IH]; simpl; intros n os' n' H.
    - inversion H; subst. split; [lia | reflexivity].
    - destruct (dcopy n o) as [o' n1] eqn:D. destruct (copy_objs n1 r) as [r' n2] eqn:C. inversion H; subst; clear H.
      apply IH in C. destruct C as [Le E].
      pose proof (dcopy_mono n o) as Hm. pose proof (dcopy_val n o) as Hv. pose proof (dcopy_id n o) as Hi.
      rewrite D in *. simpl in *. split; [lia|]. rewrite E. unfold ov at 1 3. rewrite Hv, Hi. reflexivity.
  Qed.

  Lemma copy_cells_cons : forall (h0 h : heap) l r n,
    copy_cells h0 h (l :: r) n =
    let c := h0 l in
    let (sm, n1) := copy_slot (S n) (k_m c) in
    let (sb, n2) := copy_slot n1 (k_b c) in
    let h1 := upd obj h n {| k_id := k_id c; k_rest := k_rest c; k_m := sm; k_b := sb |} in
    let '(h2, r', n3) := copy_cells h0 h1 r n2 in (h2, n :: r', n3).
  Proof. reflexivity. Qed.

  Lemma copy_cells_spec : forall cells (h0 h : heap) n h1 cs n1,
    copy_cells h0 h cells n = (h1, cs, n1) ->
    n <= n1 /\ (forall x, x < n -> h1 x = h x) /\ (forall x, In x cs -> n <= x < n1) /\ NoDup cs /\
    map (fun l => cellv (h1 l)) cs = map (fun l => cellv (h0 l)) cells.
  Proof.
    induction cells as [|l r IH]; intros h0 h n h1 cs n1 H.
    - simpl in H. inversion H; subst. split; [lia|]. split; [reflexivity|]. split; [intros x []|]. split; [constructor | reflexivity].
    - rewrite copy_cells_cons in H. cbv zeta in H.
      destruct (copy_slot (S n) (k_m (h0 l))) as [sm m1] eqn:S1.
      destruct (copy_slot m1 (k_b (h0 l))) as [sb m2] eqn:S2.
      destruct (copy_cells h0 _ r m2) as [[h2 r'] m3] eqn:C. inversion H; subst; clear H.
      apply copy_slot_spec in S1. destruct S1 as [L1 V1]. apply copy_slot_spec in S2. destruct S2 as [L2 V2].
      apply IH in C. destruct C as [L3 [Fr [Rg [Nd Mp]]]].
      split; [lia|]. split; [|split; [|split]].
      + intros x Hx. rewrite Fr by lia. apply upd_other. lia.
      + intros x [E|Hx]; [subst; lia | apply Rg in Hx; lia].
      + constructor; [intro Hn; apply Rg in Hn; lia | exact Nd].
      + simpl. rewrite Mp. f_equal. rewrite Fr by lia. rewrite upd_same. unfold cellv. simpl. rewrite V1, V2. reflexivity.
  Qed.

  Lemma copy_doc_spec : forall (h : heap) d n h0 d0 n0,
    copy_doc h d n = (h0, d0, n0) ->
    n <= n0 /\ (forall x, x < n -> h0 x = h x) /\
    (forall x, In x (all_cells d0) -> n <= x < n0) /\ NoDup (all_cells d0) /\
    map (fun l => cellv (h0 l)) (d_cells d0) = map (fun l => cellv (h l)) (d_cells d) /\
    map (fun l => cellv (h0 l)) (d_cells2 d0) = map (fun l => cellv (h l)) (d_cells2 d) /\
    map ov (d_morphs d0) = map ov (d_morphs d) /\ map ov (d_bios d0) = map ov (d_bios d) /\
    d_incs d0 = d_incs d.
  Proof.
    intros h d n h0 d0 n0 H. unfold Refs.copy_doc in H.
    destruct (copy_cells h h (d_cells d) n) as [[h1 cs] n1] eqn:C1.
    destruct (copy_cells h h1 (d_cells2 d) n1) as [[h2 cs2] n2] eqn:C2.
    destruct (copy_objs n2 (d_morphs d)) as [ms n3] eqn:O1.
    destruct (copy_objs n3 (d_bios d)) as [bs n4] eqn:O2. inversion H; subst; clear H.
    apply copy_cells_spec in C1. destruct C1 as [L1 [F1 [R1 [N1 M1]]]].
    apply copy_cells_spec in C2. destruct C2 as [L2 [F2 [R2 [N2 M2]]]].
    apply copy_objs_spec in O1. destruct O1 as [L3 E3]. apply copy_objs_spec in O2. destruct O2 as [L4 E4].
    unfold all_cells. simpl.
    split; [lia|]. split; [intros x Hx; rewrite F2 by lia; apply F1; exact Hx|].
    split; [intros x Hx; apply in_app_or in Hx; destruct Hx as [Hx|Hx]; [apply R1 in Hx | apply R2 in Hx]; lia|].
    split.
    { apply NoDup_app_intro; [exact N1 | exact N2|]. intros x H1 H2. apply R1 in H1. apply R2 in H2. lia. }
    split.
    { rewrite <- M1. apply map_ext_in. intros x Hx. rewrite F2; [reflexivity|]. apply R1 in Hx. lia. }
    split; [exact M2|]. split; [exact E3|]. split; [exact E4 | reflexivity].
  Qed.

  (* the document passed in is not touched, whatever happens (all its objects are below n) *)
  Theorem fix_false_frame : forall c2 (h : heap) d n,
    match fix_doc c2 h d n false with
    | ROk h' _ _ => forall x, x < n -> h' x = h x
    | RKeyErr h' => forall x, x < n -> h' x = h x
    | RExit h' => forall x, x < n -> h' x = h x
    end.
  Proof.
    intros c2 h d n. unfold Refs.fix_doc.
    destruct (copy_doc h d n) as [[h0 d0] n0] eqn:C. apply copy_doc_spec in C.
    destruct C as [Le [Fr [Rg _]]].
    destruct (load_incs _ (d_incs d0) [] [] n0) as [[[dm db] n1]|]; [|exact Fr].
    set (refs := referenced obj h0 (cells_of obj c2 d0)).
    pose proof (loop_frame (add_defs refs dm (d_morphs d0)) (add_defs refs db (d_bios d0)) (cells_of obj c2 d0) h0 n1) as LF.
    assert (Out : forall x, x < n -> ~ In x (cells_of obj c2 d0)).
    { intros x Hx Hin. assert (In x (all_cells d0)).
      { unfold cells_of in Hin. destruct c2; [exact Hin | unfold all_cells; apply in_or_app; left; exact Hin]. }
      apply Rg in H. lia. }
    destruct (cells_loop _ _ (cells_of obj c2 d0) h0 n1) as [h1 n2|h1];
      intros x Hx; rewrite LF by (apply Out; exact Hx); apply Fr; exact Hx.
  Qed.

  (* ---- the returned document has the value of the in-place result *)
  Definition dictv (d : dict) : list (string * (string * V)) := map (fun p => (fst p, ov (snd p))) d.

  Lemma dict_get_v : forall d1 d2 a, dictv d1 = dictv d2 ->
    option_map ov (dict_get obj d1 a) = option_map ov (dict_get obj d2 a).
  Proof.
    induction d1 as [|[k o] r IH]; destruct d2 as [|[k' o'] r']; simpl; intros a H; try discriminate; [reflexivity|].
    inversion H; subst. destruct (String.eqb k' a); [simpl; unfold ov; congruence | apply IH; assumption].
  Qed.

  Lemma add_defs_v : forall refs os1 os2 d1 d2, map ov os1 = map ov os2 -> dictv d1 = dictv d2 ->
    dictv (add_defs refs d1 os1) = dictv (add_defs refs d2 os2).
  Proof.
    intros refs. induction os1 as [|o r IH]; destruct os2 as [|o' r']; intros d1 d2 H D; simpl in H; try discriminate; [exact D|].
    inversion H as [[Ho Hv Hr]]. rewrite !add_defs_cons. apply IH; [exact Hr|]. rewrite Ho.
    destruct (mem_str (oid o') refs); [simpl; unfold ov; rewrite Ho, Hv, D; reflexivity | exact D].
  Qed.

  Lemma slotv_shape : forall s1 s2 : slot, slotv s1 = slotv s2 ->
    fst s1 = fst s2 /\ option_map ov (snd s1) = option_map ov (snd s2).
  Proof. intros [a1 e1] [a2 e2] H. unfold slotv in H. simpl in *. injection H as H1 H2. split; assumption. Qed.

  Definition fill_rel (r1 r2 : fillres obj) : Prop :=
    match r1, r2 with
    | Filled _ s1 _, Filled _ s2 _ => slotv s1 = slotv s2
    | Missing _, Missing _ => True
    | _, _ => False
    end.

  Lemma fill_sim : forall d1 d2 n1 n2 s1 s2, dictv d1 = dictv d2 -> slotv s1 = slotv s2 ->
    fill_rel (fill d1 n1 s1) (fill d2 n2 s2).
  Proof.
    intros d1 d2 n1 n2 [a1 e1] [a2 e2] D S. apply slotv_shape in S. simpl in S. destruct S as [Ea Ee]. subst a2.
    destruct a1 as [a|]; destruct e1 as [e1|]; destruct e2 as [e2|]; simpl in Ee; try discriminate; simpl;
      try (unfold slotv; simpl; rewrite ?Ee; reflexivity).
    pose proof (dict_get_v d1 d2 a D) as G.
    destruct (dict_get obj d1 a) as [o1|]; destruct (dict_get obj d2 a) as [o2|]; simpl in G; try discriminate; [|exact I].
    destruct (dcopy n1 o1) as [o1' m1] eqn:D1. destruct (dcopy n2 o2) as [o2' m2] eqn:D2. simpl.
    pose proof (dcopy_val n1 o1) as V1. pose proof (dcopy_id n1 o1) as I1.
    pose proof (dcopy_val n2 o2) as V2. pose proof (dcopy_id n2 o2) as I2.
    rewrite D1 in *. rewrite D2 in *. simpl in *. unfold slotv, ov. simpl. unfold ov in G. inversion G.
    rewrite V1, V2, I1, I2. congruence.
  Qed.

  Definition loop_rel (cs1 cs2 : list nat) (r1 r2 : loopres obj) : Prop :=
    match r1, r2 with
    | LOk _ h1 _, LOk _ h2 _ => map (fun l => cellv (h1 l)) cs1 = map (fun l => cellv (h2 l)) cs2
    | LKeyErr _ _, LKeyErr _ _ => True
    | _, _ => False
    end.

  Lemma loop_sim : forall dm1 db1 dm2 db2, dictv dm1 = dictv dm2 -> dictv db1 = dictv db2 ->
    forall cs1 cs2 (h1 h2 : heap) n1 n2, NoDup cs1 -> NoDup cs2 ->
      map (fun l => cellv (h1 l)) cs1 = map (fun l => cellv (h2 l)) cs2 ->
      loop_rel cs1 cs2 (cells_loop dm1 db1 cs1 h1 n1) (cells_loop dm2 db2 cs2 h2 n2).
  Proof.
    intros dm1 db1 dm2 db2 Dm Db. induction cs1 as [|l1 r1 IH]; destruct cs2 as [|l2 r2]; intros h1 h2 n1 n2 N1 N2 E;
      try discriminate; [simpl; reflexivity|].
    simpl in E. injection E as Eid Erest Ema Eme Eba Ebe Er. inversion N1 as [|? ? Nl1 Nr1]; subst. inversion N2 as [|? ? Nl2 Nr2]; subst.
    rewrite !loop_cons.
    assert (Sm : slotv (k_m (h1 l1)) = slotv (k_m (h2 l2))) by (unfold slotv; rewrite Ema, Eme; reflexivity).
    assert (Sb : slotv (k_b (h1 l1)) = slotv (k_b (h2 l2))) by (unfold slotv; rewrite Eba, Ebe; reflexivity).
    pose proof (fill_sim dm1 dm2 n1 n2 _ _ Dm Sm) as Fm.
    destruct (fill dm1 n1 (k_m (h1 l1))) as [sm1 m1|]; destruct (fill dm2 n2 (k_m (h2 l2))) as [sm2 m2|];
      simpl in Fm; try contradiction; [|exact I].
    pose proof (fill_sim db1 db2 m1 m2 _ _ Db Sb) as Fb.
    destruct (fill db1 m1 (k_b (h1 l1))) as [sb1 k1|]; destruct (fill db2 m2 (k_b (h2 l2))) as [sb2 k2|];
      simpl in Fb; try contradiction; [|exact I].
    set (g1 := upd obj (upd obj h1 l1 (set_m obj (h1 l1) sm1)) l1 (set_b obj (set_m obj (h1 l1) sm1) sb1)).
    set (g2 := upd obj (upd obj h2 l2 (set_m obj (h2 l2) sm2)) l2 (set_b obj (set_m obj (h2 l2) sm2) sb2)).
    assert (Er' : map (fun l => cellv (g1 l)) r1 = map (fun l => cellv (g2 l)) r2).
    { transitivity (map (fun l => cellv (h1 l)) r1).
      - apply map_ext_in. intros x Hx. unfold g1. rewrite !upd_other by (intro; subst; contradiction). reflexivity.
      - rewrite Er. apply map_ext_in. intros x Hx. unfold g2. rewrite !upd_other by (intro; subst; contradiction). reflexivity. }
    specialize (IH r2 g1 g2 k1 k2 Nr1 Nr2 Er').
    pose proof (loop_frame dm1 db1 r1 g1 k1) as F1. pose proof (loop_frame dm2 db2 r2 g2 k2) as F2.
    destruct (cells_loop dm1 db1 r1 g1 k1) as [h1' j1|h1']; destruct (cells_loop dm2 db2 r2 g2 k2) as [h2' j2|h2'];
      simpl in IH; try contradiction; [|exact I].
    simpl. rewrite IH. f_equal. rewrite (F1 l1 Nl1), (F2 l2 Nl2). unfold g1, g2. rewrite !upd_same.
    unfold cellv. simpl. rewrite Eid, Erest, Fm, Fb. reflexivity.
  Qed.

  Lemma cell_refs_v : forall c1 c2 : cellrec, cellv c1 = cellv c2 -> cell_refs obj c1 = cell_refs obj c2.
  Proof.
    intros c1 c2 H. unfold cellv in H. injection H as Hid Hrest Am Em Ab Eb. unfold cell_refs.
    destruct (k_m c1) as [a1 [e1|]]; destruct (k_m c2) as [a2 [e2|]]; simpl in *; try discriminate; subst;
      destruct (k_b c1) as [b1 [f1|]]; destruct (k_b c2) as [b2 [f2|]]; simpl in *; try discriminate; subst; reflexivity.
  Qed.

  Lemma cons_inj : forall (A : Type) (x y : A) a b, x :: a = y :: b -> x = y /\ a = b.
  Proof. intros A x y a b H. injection H. auto. Qed.

  Lemma referenced_v : forall (h1 h2 : heap) cs1 cs2,
    map (fun l => cellv (h1 l)) cs1 = map (fun l => cellv (h2 l)) cs2 -> referenced obj h1 cs1 = referenced obj h2 cs2.
  Proof.
    intros h1 h2. induction cs1 as [|l1 r1 IH]; destruct cs2 as [|l2 r2]; simpl; intro H; try discriminate; [reflexivity|].
    apply cons_inj in H. destruct H as [Eh Er]. unfold referenced in *. simpl. rewrite (cell_refs_v _ _ Eh), (IH r2 Er). reflexivity.
  Qed.

  Definition load_rel (r1 r2 : option (list obj * list obj * nat)) : Prop :=
    match r1, r2 with
    | Some (ms, bs, _), Some (ms', bs', _) => map ov ms = map ov ms' /\ map ov bs = map ov bs'
    | None, None => True
    | _, _ => False
    end.

  Lemma load_all_val : forall incs n m, load_rel (load_all incs n) (load_all incs m).
  Proof.
    induction incs as [|i r IH]; intros n m; simpl; [split; reflexivity|].
    pose proof (load_val n m i) as L.
    destruct (load n i) as [[[ms bs] n1]|]; destruct (load m i) as [[[ms' bs'] m1]|]; try contradiction; [|exact I].
    destruct L as [Lm Lb]. specialize (IH n1 m1).
    destruct (load_all r n1) as [[[xs ys] n2]|]; destruct (load_all r m1) as [[[xs' ys'] m2]|]; simpl in *; try contradiction; [|exact I].
    destruct IH as [Im Ib]. rewrite !map_app, Lm, Lb, Im, Ib. split; reflexivity.
  Qed.

  Lemma map_app_split : forall (A B : Type) (f g : A -> B) a a' b b', length a = length a' ->
    map f (a ++ b) = map g (a' ++ b') -> map f a = map g a' /\ map f b = map g b'.
  Proof.
    intros A B f g. induction a as [|x a IH]; destruct a' as [|x' a']; simpl; intros b b' L H; try discriminate; [split; [reflexivity | exact H]|].
    inversion H. inversion L. destruct (IH a' b b' H3 H2) as [E1 E2]. split; [f_equal; assumption | exact E2].
  Qed.

  (* the value of a document: everything but identities *)
  Definition docv (h : heap) (d : docr obj) :=
    (map (fun l => cellv (h l)) (d_cells d), map (fun l => cellv (h l)) (d_cells2 d),
     map ov (d_morphs d), map ov (d_bios d), d_incs d).

  Definition resv (r : result obj) :=
    match r with
    | ROk h d _ => Some (Some (docv h d))
    | RKeyErr _ => Some None
    | RExit _ => None
    end.

  (* with overwrite=False the same thing happens to the copy: same outcome, equal returned document *)
  Theorem fix_false_same_value : forall (h : heap) d n,
    NoDup (all_cells d) -> (forall x, In x (all_cells d) -> x < n) ->
    resv (fix_doc true h d n false) = resv (fix_doc true h d n true).
  Proof.
    intros h d n N Lt. rewrite fix_doc_true_unfold. unfold Refs.fix_doc.
    destruct (copy_doc h d n) as [[h0 d0] n0] eqn:C. apply copy_doc_spec in C.
    destruct C as [Le [Fr [Rg [N0 [M1 [M2 [Em [Eb Ei]]]]]]]].
    change (cells_of obj true d0) with (all_cells d0). rewrite load_incs_all, Ei.
    assert (Mall : map (fun l => cellv (h0 l)) (all_cells d0) = map (fun l => cellv (h l)) (all_cells d)).
    { unfold all_cells. rewrite !map_app, M1, M2. reflexivity. }
    rewrite (referenced_v h0 h _ _ Mall). set (refs := referenced obj h (all_cells d)).
    pose proof (load_all_val (d_incs d) n0 n) as LR.
    destruct (load_all (d_incs d) n0) as [[[ms0 bs0] k0]|]; destruct (load_all (d_incs d) n) as [[[ms bs] k]|];
      simpl in LR; try contradiction; [|reflexivity].
    destruct LR as [Lm Lb]. cbv zeta. rewrite <- !add_defs_app.
    assert (Dm : dictv (add_defs refs [] (ms0 ++ d_morphs d0)) = dictv (add_defs refs [] (ms ++ d_morphs d))).
    { apply add_defs_v; [rewrite !map_app, Lm, Em; reflexivity | reflexivity]. }
    assert (Db : dictv (add_defs refs [] (bs0 ++ d_bios d0)) = dictv (add_defs refs [] (bs ++ d_bios d))).
    { apply add_defs_v; [rewrite !map_app, Lb, Eb; reflexivity | reflexivity]. }
    pose proof (loop_sim _ _ _ _ Dm Db (all_cells d0) (all_cells d) h0 h k0 k N0 N Mall) as LS.
    destruct (cells_loop _ _ (all_cells d0) h0 k0) as [h1 j1|h1]; destruct (cells_loop _ _ (all_cells d) h k) as [h2 j2|h2];
      simpl in LS; try contradiction; [|reflexivity].
    simpl. unfold docv. unfold all_cells in LS.
    assert (Len : length (d_cells d0) = length (d_cells d)).
    { rewrite <- (map_length (fun l => cellv (h0 l))), M1, map_length. reflexivity. }
    destruct (map_app_split _ _ _ _ _ _ _ _ Len LS) as [S1 S2]. rewrite S1, S2, Em, Eb, Ei. reflexivity.
  Qed.
End RefsP.
