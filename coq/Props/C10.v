(* C10 — add() stores a child under exactly the right member, or raises changing nothing.
   Model: Model/Super.v (add_with).  `add` below is the code with fixes/C10-badhint.patch, `add_orig` the code as it
   is in the repository; they differ only when several members qualify and the hint names none of them.
   Every theorem holds for ALL table sets (msf is any function class -> MemberSpec list, i.e. any tables in any
   order), parents, children, hints, flags, validators and — where stated — histories of add calls.
   Run.Gen_Members is regenerated from nml.py on every run (lib/supergen.py over translators/tr_bindings.py). *)
From Coq Require Import String List ZArith Bool Permutation.
From LNML Require Import Lib.Dec Model.Gds Model.Super Proofs.SuperP Proofs.SuperP2.
From Run Require Import Gen_Bindings Gen_Members Inst_C10.
Import ListNotations.
Open Scope string_scope.

Section C10.
Variable F : Type.
Variable F_eqb : F -> F -> bool.
Variable F_of_dec : dec -> F.
Variable validate_ok : obj F -> bool.            (* GeneratedsSuperSuper.validate(): any *)
Variable setup_nml_cell : obj F -> obj F.        (* Cell.setup_nml_cell(): any *)
Variable str_ok : obj F -> bool.                 (* str(component) returns: any *)
Variable msf : string -> list mspec.             (* _get_members() per class: any tables, any order *)
Variable T : tables.                             (* constructor tables: any *)
Variable enabled : bool.                         (* neuroml.build_time_validation.ENABLED *)

Notation add := (add_with F F_eqb F_of_dec validate_ok setup_nml_cell str_ok true msf T enabled).
Notation add_orig := (add_with F F_eqb F_of_dec validate_ok setup_nml_cell str_ok false msf T enabled).
Notation any_add fixed := (add_with F F_eqb F_of_dec validate_ok setup_nml_cell str_ok fixed msf T enabled).
Notation targets p o := (targets_of (msf (o_cls F p)) (o_cls F o)).
Notation fieldv p m := (lookup m (o_fields F p)).
Notation history fixed := (run_adds F F_eqb F_of_dec validate_ok setup_nml_cell str_ok fixed msf T enabled).
Notation equal_to o := (obj_eqb F F_eqb F_of_dec o).
Notation truthy := (py_truthy F F_eqb F_of_dec).

(* the member add() decides on is a member of the parent's class declared with exactly the child's class *)
Theorem C10_chosen_is_declared_for_the_type : forall p o hint t,
  chosen (targets p o) hint = Some t -> In t (msf (o_cls F p)) /\ get_data_type t = o_cls F o.
Proof. exact (chosen_typed F msf). Qed.

(* exactly one member qualifies: it is chosen, whatever the hint *)
Theorem C10_unique : forall p o hint t, targets p o = [t] -> chosen (targets p o) hint = Some t.
Proof. intros p o hint t H. exact (chosen_unique _ hint t H). Qed.

(* several qualify: the chosen one is the one the hint names, and naming a candidate chooses it *)
Theorem C10_hint : forall p o hint t,
  (2 <= length (targets p o))%nat ->
  (chosen (targets p o) hint = Some t -> hint = Some (ms_name t) /\ In t (targets p o)) /\
  (NoDup (map ms_name (targets p o)) -> In t (targets p o) -> ms_name t <> "" ->
   chosen (targets p o) (Some (ms_name t)) = Some t).
Proof.
  intros p o hint t HL. split.
  - intro H. split; [exact (proj1 (chosen_hint _ hint t HL H))|exact (chosen_in _ hint t H)].
  - exact (chosen_by_hint _ t HL).
Qed.

(* stored under exactly the chosen member (single-valued: free or forced) ... *)
Theorem C10_stored_single : forall fixed p o hint force validate t v,
  chosen (targets p o) hint = Some t -> ms_container t = false -> fieldv p (ms_name t) = Some v ->
  (force = true \/ truthy v = false) ->
  let r := any_add fixed p (ChObj F o) hint force validate in
  fieldv (ao_parent F r) (ms_name t) = Some (VObj o) /\
  (ao_res F r = Ret (Some o) \/ (ao_res F r = Err ExValidation /\ enabled && validate = true)).
Proof. intros fixed. exact (add_stores_single F F_eqb F_of_dec validate_ok setup_nml_cell str_ok fixed msf T enabled). Qed.

(* ... (list member: new or forced) appended at the end *)
Theorem C10_stored_list : forall fixed p o hint force validate t l,
  chosen (targets p o) hint = Some t -> ms_container t = true -> fieldv p (ms_name t) = Some (VObjs l) ->
  (force = true \/ existsb (equal_to o) l = false) ->
  let r := any_add fixed p (ChObj F o) hint force validate in
  fieldv (ao_parent F r) (ms_name t) = Some (VObjs (l ++ [o])%list) /\
  (ao_res F r = Ret (Some o) \/ (ao_res F r = Err ExValidation /\ enabled && validate = true)).
Proof. intros fixed. exact (add_stores_list F F_eqb F_of_dec validate_ok setup_nml_cell str_ok fixed msf T enabled). Qed.

(* ... and in no other: every other member keeps its value, whatever the outcome of the call *)
Theorem C10_frame : forall fixed p o hint force validate m,
  (forall t, chosen (targets p o) hint = Some t -> ms_name t <> m) ->
  fieldv (ao_parent F (any_add fixed p (ChObj F o) hint force validate)) m = fieldv p m.
Proof. intros fixed. exact (add_frame F F_eqb F_of_dec validate_ok setup_nml_cell str_ok fixed msf T enabled). Qed.

(* no member of the child's type: raises, parent unchanged *)
Theorem C10_none : forall fixed p o hint force validate,
  targets p o = [] ->
  let r := any_add fixed p (ChObj F o) hint force validate in
  ao_res F r = Err (ExNoMember (o_cls F o) (o_cls F p)) /\ ao_parent F r = p /\ ao_warn F r = [].
Proof. intros fixed. exact (add_none F F_eqb F_of_dec validate_ok setup_nml_cell str_ok fixed msf T enabled). Qed.

(* several qualify and no hint is given: raises, parent unchanged *)
Theorem C10_ambiguous : forall fixed p o hint force validate,
  (2 <= length (targets p o))%nat -> falsy_hint hint = true ->
  let r := any_add fixed p (ChObj F o) hint force validate in
  ao_res F r = Err (ExAmbiguous (map ms_name (targets p o))) /\ ao_parent F r = p.
Proof. intros fixed. exact (add_ambiguous F F_eqb F_of_dec validate_ok setup_nml_cell str_ok fixed msf T enabled). Qed.

(* several qualify and the hint names none of them: the repaired add() raises, parent unchanged *)
Theorem C10_badhint : forall p o hint force validate,
  (2 <= length (targets p o))%nat -> falsy_hint hint = false ->
  (forall t, In t (targets p o) -> ms_name t <> hint_str hint) ->
  let r := add p (ChObj F o) hint force validate in
  ao_res F r = Err (ExBadHint (hint_str hint) (map ms_name (targets p o))) /\ ao_parent F r = p.
Proof. exact (add_badhint_fixed F F_eqb F_of_dec validate_ok setup_nml_cell str_ok msf T enabled). Qed.

(* the code as it is: in that situation it returns normally and stores nothing (for every such input) *)
Theorem C10_badhint_orig_silent : forall p o hint force validate,
  (2 <= length (targets p o))%nat -> falsy_hint hint = false ->
  (forall t, In t (targets p o) -> ms_name t <> hint_str hint) ->
  (enabled && validate = false \/ validate_ok p = true) ->
  let r := add_orig p (ChObj F o) hint force validate in
  ao_res F r = Ret (Some o) /\ ao_parent F r = p.
Proof. exact (add_badhint_orig_silent F F_eqb F_of_dec validate_ok setup_nml_cell str_ok msf T enabled). Qed.

(* whenever add() raises anything but a failed validation of the parent, the parent is unchanged
   (any child argument: component, class, class name) *)
Theorem C10_raises_unchanged : forall fixed p child hint force validate e,
  let r := any_add fixed p child hint force validate in
  ao_res F r = Err e -> e <> ExValidation -> ao_parent F r = p.
Proof. intros fixed. exact (add_err_unchanged F F_eqb F_of_dec validate_ok setup_nml_cell str_ok fixed msf T enabled). Qed.

(* an equal child already present / an occupied single-valued member: refused with a warning, nothing changes
   (the duplicate warning prints the child: when its __str__ raises, that exception comes out instead) *)
Theorem C10_dup : forall fixed p o hint validate t l,
  chosen (targets p o) hint = Some t -> ms_container t = true -> fieldv p (ms_name t) = Some (VObjs l) ->
  existsb (equal_to o) l = true ->
  let r := any_add fixed p (ChObj F o) hint false validate in
  ao_parent F r = p /\
  (if str_ok o then In (WDuplicate (ms_name t)) (ao_warn F r) else ao_res F r = Err ExStr).
Proof. intros fixed. exact (add_dup_refused F F_eqb F_of_dec validate_ok setup_nml_cell str_ok fixed msf T enabled). Qed.

Theorem C10_occupied : forall fixed p o hint validate t v,
  chosen (targets p o) hint = Some t -> ms_container t = false -> fieldv p (ms_name t) = Some v ->
  truthy v = true ->
  let r := any_add fixed p (ChObj F o) hint false validate in
  ao_parent F r = p /\ In (WOccupied (ms_name t)) (ao_warn F r).
Proof. intros fixed. exact (add_occupied_refused F F_eqb F_of_dec validate_ok setup_nml_cell str_ok fixed msf T enabled). Qed.

(* the call returns the object it stored *)
Theorem C10_returns : forall fixed p o hint force validate x,
  ao_res F (any_add fixed p (ChObj F o) hint force validate) = Ret (Some x) -> x = o.
Proof. intros fixed. exact (add_returns F F_eqb F_of_dec validate_ok setup_nml_cell str_ok fixed msf T enabled). Qed.

(* add(class or class name, **kwargs) = the factory, then add(component); a factory error leaves the parent alone *)
Theorem C10_class_child : forall fixed p c kw hint force validate,
  match component_factory_with F F_of_dec validate_ok setup_nml_cell (msf c) T enabled validate c kw with
  | (Ret o, w0) =>
    let r := any_add fixed p (ChCls F c kw) hint force validate in
    let r' := any_add fixed p (ChObj F o) hint force validate in
    ao_parent F r = ao_parent F r' /\ ao_res F r = ao_res F r' /\ ao_warn F r = (w0 ++ ao_warn F r')%list
  | (Err e, w0) =>
    any_add fixed p (ChCls F c kw) hint force validate = {| ao_parent := p; ao_res := Err e; ao_warn := w0 |}
  end.
Proof.
  intros fixed p c kw hint force validate.
  destruct (component_factory_with F F_of_dec validate_ok setup_nml_cell (msf c) T enabled validate c kw) as [[o|e] w0] eqn:E.
  - exact (add_cls_ok F F_eqb F_of_dec validate_ok setup_nml_cell str_ok fixed msf T enabled p c kw hint force validate o w0 E).
  - exact (add_cls_err F F_eqb F_of_dec validate_ok setup_nml_cell str_ok fixed msf T enabled p c kw hint force validate e w0 E).
Qed.

(* the order in which _get_members lists the members cannot matter when member names are unique *)
Theorem C10_order_irrelevant : forall ms ms' c hint,
  Permutation ms ms' -> NoDup (map ms_name (targets_of ms c)) ->
  chosen (targets_of ms' c) hint = chosen (targets_of ms c) hint.
Proof. intros ms ms' c hint HP Hnd. exact (chosen_perm _ _ hint (targets_perm ms ms' c HP) Hnd). Qed.

(* ---- after ANY sequence of earlier add() calls (successful, refused or raising; induction over the history) *)
(* the parent keeps its class, so the same member table applies throughout *)
Theorem C10_history_class : forall fixed h p, o_cls F (history fixed p h) = o_cls F p.
Proof. intros fixed h. exact (hist_keeps_class F F_eqb F_of_dec validate_ok setup_nml_cell str_ok fixed msf T enabled h). Qed.

(* every component sits under a member declared with its class: add() never mis-files a child *)
Theorem C10_history_typed : forall fixed h p,
  names_functional (msf (o_cls F p)) -> slot_typed F (msf (o_cls F p)) p ->
  slot_typed F (msf (o_cls F p)) (history fixed p h).
Proof. intros fixed h. exact (hist_keeps_typed F F_eqb F_of_dec validate_ok setup_nml_cell str_ok fixed msf T enabled h). Qed.

(* whatever is not a declared member (ids of other kinds, technical fields) is never touched *)
Theorem C10_history_frame : forall fixed h p m,
  (forall t, In t (msf (o_cls F p)) -> ms_name t <> m) ->
  fieldv (history fixed p h) m = fieldv p m.
Proof. intros fixed h. exact (hist_frame_nonmember F F_eqb F_of_dec validate_ok setup_nml_cell str_ok fixed msf T enabled h). Qed.

(* list members only ever grow at the end: nothing already added is lost or reordered *)
Theorem C10_history_lists_grow : forall fixed h p m l,
  list_member (msf (o_cls F p)) m -> fieldv p m = Some (VObjs l) ->
  exists l', fieldv (history fixed p h) m = Some (VObjs (l ++ l')%list).
Proof. intros fixed h. exact (hist_lists_grow F F_eqb F_of_dec validate_ok setup_nml_cell str_ok fixed msf T enabled h). Qed.
End C10.

Print Assumptions C10_chosen_is_declared_for_the_type.
Print Assumptions C10_unique.
Print Assumptions C10_hint.
Print Assumptions C10_stored_single.
Print Assumptions C10_stored_list.
Print Assumptions C10_frame.
Print Assumptions C10_none.
Print Assumptions C10_ambiguous.
Print Assumptions C10_badhint.
Print Assumptions C10_badhint_orig_silent.
Print Assumptions C10_raises_unchanged.
Print Assumptions C10_dup.
Print Assumptions C10_occupied.
Print Assumptions C10_returns.
Print Assumptions C10_class_child.
Print Assumptions C10_order_irrelevant.
Print Assumptions C10_history_class.
Print Assumptions C10_history_typed.
Print Assumptions C10_history_frame.
Print Assumptions C10_history_lists_grow.

(* ---- on the tables of this run *)
Definition gate := Obj (F := unit) "GateHHRates" [("forward_rate", VNone); ("reverse_rate", VNone)].
Definition rate := Obj (F := unit) "HHRate" [].
Definition members_now := members_of (fun l => l) Gen_Members.M.

(* the defect on the code as it is: GateHHRates.add(HHRate(..), hint="nonsense") stores nothing and raises nothing *)
Theorem C10_badhint_refuted :
  exists p o hint,
    (2 <= length (targets_of (members_now (o_cls unit p)) (o_cls unit o)))%nat /\
    (forall t, In t (targets_of (members_now (o_cls unit p)) (o_cls unit o)) -> ms_name t <> hint) /\
    let r := add_with unit (fun _ _ => true) (fun _ => tt) (fun _ => true) (fun o => o) (fun _ => true) false members_now Gen_Bindings.T true
                      p (ChObj unit o) (Some hint) false false in
    ao_res unit r = Ret (Some o) /\ ao_parent unit r = p.
Proof.
  exists gate, rate, "nonsense". split; [vm_compute; repeat constructor|]. split.
  - vm_compute. intros t [<-|[<-|[]]]; discriminate.
  - vm_compute. split; reflexivity.
Qed.
Print Assumptions C10_badhint_refuted.

(* hypotheses of the generic theorems are satisfiable on the tables of this run *)
Example C10_example_two_candidates :
  map ms_name (targets_of (members_now "GateHHRates") "HHRate") = ["forward_rate"; "reverse_rate"]
  \/ map ms_name (targets_of (members_now "GateHHRates") "HHRate") = ["reverse_rate"; "forward_rate"].
Proof. vm_compute. left. reflexivity. Qed.

Example C10_example_hint_stores :
  let r := add_with unit (fun _ _ => true) (fun _ => tt) (fun _ => true) (fun o => o) (fun _ => true) true members_now Gen_Bindings.T true
                    gate (ChObj unit rate) (Some "reverse_rate") false false in
  lookup "reverse_rate" (o_fields unit (ao_parent unit r)) = Some (VObj rate)
  /\ lookup "forward_rate" (o_fields unit (ao_parent unit r)) = Some VNone.
Proof. vm_compute. split; reflexivity. Qed.

(* instance: with unique member names (Inst_C10.member_names_unique) names_functional holds for every class *)
Theorem C10_names_unique_now :
  forallb (fun k => Inst_C10.nodup_strs (map ms_name (members_set Gen_Members.M (mc_name k)))) Gen_Members.M = true.
Proof. exact Inst_C10.member_names_unique. Qed.
Print Assumptions C10_names_unique_now.

(* instance: the hint is looked up among the candidates (the `chosen (targets p o) hint` of the model), not among all members of
   the parent: the loops of the real add() are the modelled ones (translators/tr_supersig.py) *)
Theorem C10_hint_loop_over_candidates : hint_loop_okb Gen_Members.add_loops Gen_Members.hint_loops = true.
Proof. exact Inst_C10.hint_loop_over_candidates. Qed.
Print Assumptions C10_hint_loop_over_candidates.

Theorem C10_hint_test_is_equality : hint_test_okb Gen_Members.hint_tests = true.
Proof. exact Inst_C10.hint_test_is_equality. Qed.
Print Assumptions C10_hint_test_is_equality.

(* instance: every write on self found in a method that is read-only by its name is one of the known ones *)
Theorem C10_read_only_helpers_write_nothing_new : forall w, In w Gen_Members.reader_writes -> In w known_reader_writes.
Proof.
  intros w H. pose proof Inst_C10.read_only_helpers_write_nothing_new as S. unfold readers_write_nothing_newb, subset in S.
  rewrite forallb_forall in S. specialize (S w H). exact (proj1 (mem_In _ _) S).
Qed.
Print Assumptions C10_read_only_helpers_write_nothing_new.

(* ---- the value equality behind the duplicate test (C10_dup's `equal_to`) is the code's GeneratedsSuper.__eq__:
   translators/tr_eq.py (fail closed) extracts the attribute names __eq__ leaves out of the pairwise comparison of the
   instance dictionaries; they are exactly the two bookkeeping attributes, so no member attribute of any class
   (from_, anytypeobjs_, ... included) is ignored, and dropping them from a component's member fields changes nothing *)
Theorem C10_equality_excludes_only_bookkeeping : forall n,
  In n Gen_Members.eq_excluded <-> In n ["parent_object_"; "gds_collector_"].
Proof. apply set_eqb_spec. exact Inst_C10.eq_excluded_exact. Qed.
Print Assumptions C10_equality_excludes_only_bookkeeping.

Theorem C10_equality_sees_every_member : forall k m, In k Gen_Members.M -> In m (mc_specs k) ->
  ~ In (rename_any (ms_name m)) Gen_Members.eq_excluded.
Proof. exact (eq_sees_all_members_sound Gen_Members.eq_excluded Gen_Members.M Inst_C10.eq_sees_members). Qed.
Print Assumptions C10_equality_sees_every_member.

(* generic: a filter that excludes none of the field names is the identity, for every field list *)
Theorem C10_equality_filter_is_identity : forall (A : Type) excluded (fs : list (string * A)),
  (forall n, In n (map fst fs) -> ~ In n excluded) -> drop_excluded excluded fs = fs.
Proof. intros A. exact (@drop_excluded_id A). Qed.
Print Assumptions C10_equality_filter_is_identity.
