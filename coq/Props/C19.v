(* C19 — Connection and input accessors and the document summary agree with the data.

   Run.Gen_C19.accessors / Gen_C19.summary are regenerated from /repo (nml.py resolved through the class
   hierarchy, cross-checked against helper_methods.py; NeuroMLXMLParser._parse_delay; the MemberSpecs) on every run by
   translators/tr_strfuncs.py.  Run.Inst_C19 holds the two kernel computations  table_ok accessors = true  and
   summary_ok summary = true.  Every statement below is about the translated programs, for ALL population ids,
   indices, component ids, whitespace runs, numerals and networks; pf is float() on strings, left arbitrary.
   No axioms. *)
From Coq Require Import String Ascii List ZArith NArith QArith.
From LNML Require Import Lib.StrFun Model.Accessors Proofs.AccessorsP.
From Run Require Import Gen_C19 Inst_C19.
Import ListNotations.
Local Open Scope string_scope.

Notation ACC := Gen_C19.accessors.
Notation SUM := Gen_C19.summary.

(* the master statement: every accessor the property speaks about meets the specification of its kind *)
Theorem C19_every_accessor_meets_its_specification :
  forall (pf : string -> option Q) c m k a, In (c, m, k, a) expected ->
  exists p, lookup ACC c m = Some p /\ spec pf k a (fun attrs => run pf attrs p).
Proof. exact (fun pf => table_sound pf ACC Inst_C19.accessors_ok). Qed.
Print Assumptions C19_every_accessor_meets_its_specification.

(* cell index from either reference form (Connection, ConnectionWD, Electrical/ContinuousConnectionInstance(W), Input,
   InputW, ExplicitInput, SynapticConnection) *)
Theorem C19_cell_index_of_reference :
  forall (pf : string -> option Q) c m a, In (c, m, KCellIdPath, a) expected ->
  exists p, lookup ACC c m = Some p
  /\ (forall attrs pop i comp, nmlid pop = true -> nmlid comp = true ->
        attrs a = VStr ("../" ++ pop ++ "/" ++ dec i ++ "/" ++ comp) -> run pf attrs p = Ok (VInt (Z.of_N i)))
  /\ (forall attrs pop i, nmlid pop = true ->
        attrs a = VStr (pop ++ "[" ++ dec i ++ "]") -> run pf attrs p = Ok (VInt (Z.of_N i)))
  /\ (forall attrs pop i, nmlid pop = true ->
        attrs a = VStr ("../" ++ pop ++ "[" ++ dec i ++ "]") -> run pf attrs p = Ok (VInt (Z.of_N i))).
Proof. exact (fun pf => cell_index_of_reference pf ACC Inst_C19.accessors_ok). Qed.
Print Assumptions C19_cell_index_of_reference.

(* ElectricalConnection / ContinuousConnection: the reference is the bare index *)
Theorem C19_plain_cell_index : forall c m a, In (c, m, KCellIdPlain, a) expected ->
  exists p, lookup ACC c m = Some p
  /\ (forall attrs i, attrs a = VStr (dec i) -> run py_float attrs p = Ok (VInt (Z.of_N i)))
  /\ (forall attrs z, attrs a = VInt z -> run py_float attrs p = Ok (VInt z)).
Proof. exact (plain_cell_index ACC Inst_C19.accessors_ok). Qed.
Print Assumptions C19_plain_cell_index.

(* population of a reference (ExplicitInput.get_target_population, SynapticConnection._get_population) *)
Theorem C19_population_of_reference :
  forall (pf : string -> option Q) c m a, In (c, m, KPopulation, a) expected ->
  exists p, lookup ACC c m = Some p
  /\ (forall attrs pop i comp, nmlid pop = true -> nmlid comp = true ->
        attrs a = VStr ("../" ++ pop ++ "/" ++ dec i ++ "/" ++ comp) -> run pf attrs p = Ok (VStr pop))
  /\ (forall attrs pop i, nmlid pop = true ->
        attrs a = VStr (pop ++ "[" ++ dec i ++ "]") -> run pf attrs p = Ok (VStr pop))
  /\ (forall attrs pop i, nmlid pop = true ->
        attrs a = VStr ("../" ++ pop ++ "[" ++ dec i ++ "]") -> run pf attrs p = Ok (VStr pop)).
Proof. exact (fun pf => population_of_reference pf ACC Inst_C19.accessors_ok). Qed.
Print Assumptions C19_population_of_reference.

(* delays in milliseconds for both units, any numeral and any whitespace between numeral and unit
   (ConnectionWD.get_delay_in_ms and NeuroMLXMLParser._parse_delay) *)
Theorem C19_delay_in_ms :
  forall (pf : string -> option Q) c m k a, (k = KDelay \/ k = KParseDelay) -> In (c, m, k, a) expected ->
  exists p, lookup ACC c m = Some p
  /\ (forall attrs num ws, no_ws num = true -> all_ws ws = true ->
        attrs a = VStr (num ++ ws ++ "ms") -> run pf attrs p = float_res pf num)
  /\ (forall attrs num ws, no_ws num = true -> all_ws ws = true -> no_char "m" num = true ->
        attrs a = VStr (num ++ ws ++ "s") -> run pf attrs p = float_res_k pf num).
Proof. exact (fun pf => delay_in_ms pf ACC Inst_C19.accessors_ok). Qed.
Print Assumptions C19_delay_in_ms.

Theorem C19_delay_whole_numbers : forall c m k a, (k = KDelay \/ k = KParseDelay) -> In (c, m, k, a) expected ->
  exists p, lookup ACC c m = Some p
  /\ (forall attrs n ws, all_ws ws = true -> attrs a = VStr (dec n ++ ws ++ "ms") ->
        run py_float attrs p = Ok (VFloat (inject_Z (Z.of_N n))))
  /\ (forall attrs n ws, all_ws ws = true -> attrs a = VStr (dec n ++ ws ++ "s") ->
        run py_float attrs p = Ok (VFloat (inject_Z (Z.of_N n) * (1000 # 1))%Q)).
Proof. exact (delay_whole_numbers ACC Inst_C19.accessors_ok). Qed.
Print Assumptions C19_delay_whole_numbers.

(* segment 0, fraction 0.5, weight 1 when unset; set values (0 and 0.0 included) are returned *)
Theorem C19_defaults_when_unset : forall pf : string -> option Q,
  (forall c m a, In (c, m, KSegDefault, a) expected -> exists p, lookup ACC c m = Some p
      /\ (forall attrs, attrs a = VNone -> run pf attrs p = Ok (VInt 0))
      /\ (forall attrs z, attrs a = VInt z -> run pf attrs p = Ok (VInt z)))
  /\ (forall c m a, In (c, m, KFractDefault, a) expected -> exists p, lookup ACC c m = Some p
      /\ (forall attrs, attrs a = VNone -> run pf attrs p = Ok (VFloat (1 # 2)))
      /\ (forall attrs q, attrs a = VFloat q -> run pf attrs p = Ok (VFloat q)))
  /\ (forall c m a, In (c, m, KWeight, a) expected -> exists p, lookup ACC c m = Some p
      /\ (forall attrs, attrs a = VNone -> run pf attrs p = Ok (VFloat (1 # 1)))
      /\ (forall attrs q, attrs a = VFloat q -> run pf attrs p = Ok (VFloat q))).
Proof. exact (fun pf => defaults_when_unset pf ACC Inst_C19.accessors_ok). Qed.
Print Assumptions C19_defaults_when_unset.

(* segment ids and fractions of connections are the stored values *)
Theorem C19_segment_and_fraction_of_connections : forall pf : string -> option Q,
  (forall c m a, In (c, m, KIntOf, a) expected -> exists p, lookup ACC c m = Some p
      /\ (forall attrs z, attrs a = VInt z -> run pf attrs p = Ok (VInt z))
      /\ (forall attrs n, attrs a = VStr (dec n) -> run pf attrs p = Ok (VInt (Z.of_N n))))
  /\ (forall c m a, In (c, m, KFloatOf, a) expected -> exists p, lookup ACC c m = Some p
      /\ (forall attrs q, attrs a = VFloat q -> run pf attrs p = Ok (VFloat q))
      /\ (forall attrs s, attrs a = VStr s -> run pf attrs p = float_res pf s)).
Proof. exact (fun pf => segment_and_fraction_of_connections pf ACC Inst_C19.accessors_ok). Qed.
Print Assumptions C19_segment_and_fraction_of_connections.

Theorem C19_population_size : forall pf : string -> option Q,
  exists p, lookup ACC "Population" "get_size" = Some p
  /\ (forall attrs n, (0 < n)%N -> attrs "instances" = VList n -> run pf attrs p = Ok (VInt (Z.of_N n)))
  /\ (forall attrs z, attrs "instances" = VList 0 -> attrs "size" = VInt z -> run pf attrs p = Ok (VInt z))
  /\ (forall attrs, attrs "instances" = VList 0 -> attrs "size" = VNone -> run pf attrs p = Ok (VInt 0)).
Proof. exact (fun pf => population_size pf ACC Inst_C19.accessors_ok). Qed.
Print Assumptions C19_population_size.

(* the summary's totals are the actual numbers, for every network: populations, cells (get_size of every
   population), projections of all kinds, connections in every connection-holding member of every projection
   kind (the list of such members is read off the bindings' MemberSpecs), input lists and inputs *)
Theorem C19_summary_totals : forall net : network,
  counter_value SUM net "tot_pop" = N.of_nat (length (net "populations"))
  /\ counter_value SUM net "tot_cells" = count_sizes net "populations"
  /\ counter_value SUM net "tot_proj" = count_items net (st_proj_colls SUM)
  /\ counter_value SUM net "tot_conns" = count_members net (st_conn_members SUM)
  /\ counter_value SUM net "tot_input_lists" = N.of_nat (length (net "input_lists"))
  /\ counter_value SUM net "tot_inputs" = count_members net (st_input_members SUM).
Proof. exact (summary_sound SUM Inst_C19.summary_ok). Qed.
Print Assumptions C19_summary_totals.

Theorem C19_summary_reports_these_counters :
  report_is SUM "tot_cells" "cells" "tot_pop" "populations" = true
  /\ report_is SUM "tot_conns" "connections" "tot_proj" "projections" = true
  /\ report_is SUM "tot_inputs" "inputs" "tot_input_lists" "input lists" = true.
Proof. exact (summary_reports SUM Inst_C19.summary_ok). Qed.
Print Assumptions C19_summary_reports_these_counters.

(* the two defects of the unrepaired source (DESIGN.md §7), on the faithful translation of the old text; their
   witnesses are replayed on the implementation on every run *)
Theorem C19_fraction0_refuted : exists attrs,
  attrs "fraction_along" = VFloat 0 /\ run py_float attrs (old_fraction_along "fraction_along") = Ok (VFloat (1 # 2)).
Proof. exact fraction0_refuted. Qed.
Print Assumptions C19_fraction0_refuted.

Theorem C19_population_refuted : exists attrs,
  attrs "target" = VStr "../pop/3/cell" /\ run py_float attrs (old_population "target") = Ok (VStr "..").
Proof. exact population_refuted. Qed.
Print Assumptions C19_population_refuted.
