(* C05 — HDF5 write then load describes the same network and the same components.
   Run.Gen_C05 is regenerated on every run by translators/tr_h5layout.py (it executes the exportHdf5 methods, the
   parser and the NetworkBuilder handlers of the tree under test against recording mocks);  Run.Inst_C05_* hold the
   kernel-checked instance obligations over it.
   F, r32 (what a float32 cell keeps), rint (python int()), cval (the numbers 0, 1, 1/2, -1), ofnat, weq (==) stand for
   numpy / PyTables / python and are universally quantified with the hypotheses written out in every statement. *)
From Coq Require Import String List Bool Permutation ZArith.
From LNML Require Import Model.H5 Proofs.H5P.
From Run Require Import Gen_C05 Inst_C05_layout Inst_C05_stores Inst_C05_select Inst_C05_groups Inst_C05_builder Inst_C05_refuse.
Import ListNotations.
Open Scope string_scope.

(* every row of every table the writer can produce (every kind, every combination of row variants, with / without
   segment+fraction and weight+delay columns) is read back as its float32 image, field by field *)
Theorem C05_row :
  forall (F : Type) (r32 rint : F -> F) (cval : cst -> F) (ofnat : nat -> F) (other : F) (isint : F -> bool),
  (forall x, isint x = true -> rint (r32 x) = r32 x) -> (forall c, c <> CHalf -> rint (cval c) = cval c) ->
  (forall c, r32 (cval c) = cval c) ->
  forall wt v, In wt (g_writer gen) -> In v (wt_variants wt) ->
  forall (fields : string -> F) (i : nat), typed F isint fields -> defaults_ok F cval (wv_cols v) fields ->
    decode_sem F rint cval ofnat other (wt_kind wt) (wt_names wt) (reader_of gen (wt_kind wt)) i
               (encode_row F r32 cval (wv_cols v) fields)
    = Some (sem32_of F r32 (wt_kind wt) fields).
Proof. exact (gen_row_roundtrip gen all_layouts). Qed.
Print Assumptions C05_row.

(* ... for tables of ANY number of rows, any mixture of row variants, in order *)
Theorem C05_table :
  forall (F : Type) (r32 rint : F -> F) (cval : cst -> F) (ofnat : nat -> F) (other : F) (isint : F -> bool),
  (forall x, isint x = true -> rint (r32 x) = r32 x) -> (forall c, c <> CHalf -> rint (cval c) = cval c) ->
  (forall c, r32 (cval c) = cval c) ->
  forall wt, In wt (g_writer gen) ->
  forall rows, Forall (row_wf F cval isint (wt_variants wt)) rows ->
  exists cells, write_rows F r32 cval wt rows = Some cells /\ length cells = length rows /\
    forall i, decode_table F rint cval ofnat other (wt_kind wt) (wt_names wt) (reader_of gen (wt_kind wt)) i cells
              = Some (map (fun r => sem32_of F r32 (wt_kind wt) (snd r)) rows).
Proof. exact (gen_table_roundtrip gen all_layouts). Qed.
Print Assumptions C05_table.

(* one construct (the locations of a population, a chemical / electrical / continuous projection, an input list) whose
   table has the layout wt: written, loaded and re-sorted by NetworkBuilder into its element lists, it presents the float32
   image of the same rows, in the same order (chemical projections, populations) resp. in the canonical order of constructs
   that spread their rows over several element lists (unit weights first, order otherwise kept). *)
Theorem C05_table_construct :
  forall (F : Type) (r32 rint : F -> F) (cval : cst -> F) (ofnat : nat -> F) (other : F) (weq : F -> F -> bool) (isint : F -> bool),
  (forall x, isint x = true -> rint (r32 x) = r32 x) -> (forall c, c <> CHalf -> rint (cval c) = cval c) ->
  (forall c, r32 (cval c) = cval c) -> (forall x y, weq x y = true <-> x = y) ->
  forall wt, In wt (g_writer gen) ->
  forall (inst : bool) rows, Forall (row_wf F cval isint (wt_variants wt)) rows ->
  exists cells, write_rows F r32 cval wt rows = Some cells /\
    forall out, load_rows F rint cval ofnat other weq (wt_kind wt) inst (wt_names wt) (reader_of gen (wt_kind wt)) cells = Some out ->
                out = sem_rows F cval weq (wt_kind wt) (map (fun r => sem32_of F r32 (wt_kind wt) (snd r)) rows).
Proof. exact (gen_construct_roundtrip gen all_layouts). Qed.
Print Assumptions C05_table_construct.

(* the same for a construct as the DOCUMENT holds it: rows of any variants of its kind, each carrying its own fields (the
   others at their semantic default: full_wf), integers in the integer fields (typed); the writer picks the table from
   the data (select_table: which row variants are present; for chemical projections whether any segment / fraction is off
   its default), so no assumption about the table is left.  A load that the builder refuses (classify = None: a
   non-unit weight between two non-instance populations) is excluded by the hypothesis  load_rows = Some out.
   PARTIAL with respect to the property: (1) the assembly of the constructs into one file (group names, PyTables child
   order, populations before projections, `inst` computed from the loaded populations), (2) constructs without rows
   (no table is written) and (3) the embedded XML of the non-network components are not modelled here; they are covered
   by the correspondence run and the property predicate on the real code (checks/c05.py); PyTables, float32 rounding,
   python int() and == are the hypotheses spelled out above. *)
Theorem C05_roundtrip_partial :
  forall (F : Type) (r32 rint : F -> F) (cval : cst -> F) (ofnat : nat -> F) (other : F) (weq : F -> F -> bool) (isint : F -> bool),
  (forall x, isint x = true -> rint (r32 x) = r32 x) -> (forall c, c <> CHalf -> rint (cval c) = cval c) ->
  (forall c, r32 (cval c) = cval c) -> (forall x y, weq x y = true <-> x = y) ->
  forall kind (inst : bool) rows wt,
  select_table F cval weq gen kind rows = Some wt ->
  Forall (full_wf F cval kind) rows -> Forall (fun r => typed F isint (snd r)) rows ->
  Forall (fun r => In (fst r) (variants_of kind)) rows ->
  exists cells, write_rows F r32 cval wt rows = Some cells /\
    forall out, load_rows F rint cval ofnat other weq kind inst (wt_names wt) (reader_of gen kind) cells = Some out ->
                out = sem_rows F cval weq kind (map (fun r => sem32_of F r32 kind (snd r)) rows).
Proof. exact (gen_select_roundtrip gen all_layouts all_stores). Qed.
Print Assumptions C05_roundtrip_partial.

(* the select_table of the theorem above IS the decision the code takes: on every probe of the real exportHdf5 methods (every
   kind and row variant; no field, each single field, all fields off their semantic default; the deciding row first / later /
   in the other element list; exact instance F = Z/1024, r32 = int() = identity) it picks a table with exactly the column
   names the code wrote.  (select_covers: every defaultable field of every kind has been probed alone.) *)
Theorem C05_select :
  forall p, In p (g_select gen) ->
  exists wt, select_table Z zc Z.eqb gen (sp_kind p) (probe_rows p) = Some wt /\ wt_names wt = sp_names p.
Proof. exact (gen_select gen select). Qed.
Print Assumptions C05_select.

(* any number of constructs in one file: each is written under its own group with its group attributes and its table; the
   reader meets the groups in PyTables' order (an arbitrary rearrangement `order`); what is loaded is, up to that
   rearrangement, the float32 image of every construct: kind, attribute fields (ids, population / synapse / component
   references), rows.  Still PARTIAL: `inst` (is one of the two populations instance based) travels with the node instead of
   being recomputed from the loaded populations; constructs without rows and the embedded XML are outside (see above). *)
Theorem C05_network_roundtrip_partial :
  forall (F : Type) (r32 rint : F -> F) (cval : cst -> F) (ofnat : nat -> F) (other : F) (weq : F -> F -> bool) (isint : F -> bool)
         (order : list (node F) -> list (node F)),
  (forall x, isint x = true -> rint (r32 x) = r32 x) -> (forall c, c <> CHalf -> rint (cval c) = cval c) ->
  (forall c, r32 (cval c) = cval c) -> (forall x y, weq x y = true <-> x = y) ->
  (forall l, Permutation (order l) l) ->
  forall (cs : list (construct F)) nodes sems,
  Forall (fun c => Forall (full_wf F cval (c_kind F c)) (c_rows F c) /\ Forall (fun r => typed F isint (snd r)) (c_rows F c)
                   /\ Forall (fun r => In (fst r) (variants_of (c_kind F c))) (c_rows F c)) cs ->
  write_net F r32 cval weq gen cs = Some nodes ->
  load_net F rint cval ofnat other weq order gen nodes = Some sems ->
  Permutation sems (map (sem32_construct F r32 cval weq) cs).
Proof. exact (gen_net_roundtrip gen all_layouts all_stores groups). Qed.
Print Assumptions C05_network_roundtrip_partial.

(* ids, population / synapse / component references, notes, temperature, sizes: every group attribute the
   specification lists is written from the field it is read into *)
Theorem C05_group_attributes :
  (forall wt, In wt (g_writer gen) -> forall (fields : string -> option string) a f arg, In (a, f, arg) (gspec (wt_kind wt)) ->
      read_attr (write_attrs (wt_gattrs wt) fields) a = fields f) /\
  (forall (fields : string -> option string) a f arg, In (a, f, arg) (gspec "sized_population") ->
      read_attr (write_attrs (g_sized_pop_w gen) fields) a = fields f) /\
  (forall (fields : string -> option string) a f arg, In (a, f, arg) (gspec "document") ->
      read_attr (write_attrs (g_doc_w gen) fields) a = fields f) /\
  (forall (fields : string -> option string) a f arg, In (a, f, arg) (gspec "network") ->
      read_attr (write_attrs (g_net_w gen) fields) a = fields f).
Proof. exact (gen_gattrs gen groups). Qed.
Print Assumptions C05_group_attributes.

(* the builder makes, in every context, the element the specification (classify_b) names, from the right arguments,
   losing none; where the specification says "refuse" it raises *)
Theorem C05_builder :
  forall b, In b (g_builder gen) ->
  match classify_b (be_kind b) (be_inst b) (be_cols b) (be_unitw b) (be_zerod b) with
  | None => be_variant b = "RAISE"
  | Some v => be_variant b = v /\ be_lost b = [] /\ forall f a, In (f, a) (be_fields b) -> field_of (be_kind b) a = Some f
  end.
Proof. exact (gen_builder gen builder). Qed.
Print Assumptions C05_builder.

(* a construct the format cannot hold is refused by the writer *)
Theorem C05_refuse : forall n, In n must_refuse -> assoc n (g_refusals gen) = Some true.
Proof. exact (gen_refuse gen refuse). Qed.
Print Assumptions C05_refuse.

(* the layouts shipped at the pinned commit do NOT round-trip (both confirmed on the real code, repaired by
   fixes/C05-connection-ids.patch and fixes/C05-mixed-weights.patch) *)
Theorem C05_ids_refuted :
  exists fields : string -> nat,
    decode_arg nat (fun x => x) nval (fun i => i) 0 shipped_elec_names shipped_id_arg 0
               (encode_row nat (fun x => x) nval shipped_elec_cols fields) <> Some (fields "id").
Proof. exact ids_refuted. Qed.
Print Assumptions C05_ids_refuted.

Theorem C05_mixed_refuted :
  exists fields : string -> nat,
    fields "weight" = nval COne /\
    decode_arg nat (fun x => x) nval (fun i => i) 0 shipped_input_names shipped_weight_arg 0
               (encode_row nat (fun x => x) nval shipped_input_cols_plain fields) <> Some (fields "weight").
Proof. exact mixed_refuted. Qed.
Print Assumptions C05_mixed_refuted.
