(* C05 — HDF5 write then load describes the same network and the same components.
   Run.Gen_C05 is regenerated on every run by translators/tr_h5layout.py (it executes the exportHdf5 methods, the
   parser and the NetworkBuilder handlers of the tree under test against recording mocks);  Run.Inst_C05_* hold the
   kernel-checked instance obligations over it.
   F, r32 (what a float32 cell keeps), rint (python int()), cval (the numbers 0, 1, 1/2, -1), ofnat, weq (==) stand for
   numpy / PyTables / python and are universally quantified with the hypotheses written out in every statement. *)
From Coq Require Import String List Bool Permutation ZArith.
From LNML Require Import Model.H5 Proofs.H5P.
From LNML Require Model.Gds Model.GdsWf Proofs.GdsP.   (* read-only: the C01 theorem, for the composition below *)
From Run Require Import Gen_C05 Inst_C05_layout Inst_C05_stores Inst_C05_select Inst_C05_groups Inst_C05_builder Inst_C05_refuse Inst_C05_skeleton Inst_C05_optimized.
Import ListNotations.
Open Scope string_scope.

(* every row of every table the writer can produce (every kind, every combination of row variants, with / without
   segment+fraction and weight+delay columns) is read back as its float32 image, field by field *)
Theorem C05_row :
  forall (F : Type) (r32 rint : F -> F) (cval : cst -> F) (ofnat : nat -> F) (other : F) (isint : F -> bool),
  (forall x, isint x = true -> rint (r32 x) = r32 x) -> (forall c, c <> CHalf -> rint (cval c) = cval c) ->
  (forall c, r32 (cval c) = cval c) ->
  forall wt v, In wt (g_writer gen) -> In v (wt_variants wt) ->
  forall (fields : string -> F) (i : nat), typed F isint fields -> defaults_ok F cval (wv_cols v) fields ->
    decode_sem F rint cval ofnat other (wt_kind wt) (wt_names wt) (reader_of gen (wt_kind wt)) i
               (encode_row F r32 cval (wv_cols v) fields)
    = Some (sem32_of F r32 (wt_kind wt) fields).
Proof. exact (gen_row_roundtrip gen all_layouts). Qed.
Print Assumptions C05_row.

(* ... for tables of ANY number of rows, any mixture of row variants, in order *)
Theorem C05_table :
  forall (F : Type) (r32 rint : F -> F) (cval : cst -> F) (ofnat : nat -> F) (other : F) (isint : F -> bool),
  (forall x, isint x = true -> rint (r32 x) = r32 x) -> (forall c, c <> CHalf -> rint (cval c) = cval c) ->
  (forall c, r32 (cval c) = cval c) ->
  forall wt, In wt (g_writer gen) ->
  forall rows, Forall (row_wf F cval isint (wt_variants wt)) rows ->
  exists cells, write_rows F r32 cval wt rows = Some cells /\ length cells = length rows /\
    forall i, decode_table F rint cval ofnat other (wt_kind wt) (wt_names wt) (reader_of gen (wt_kind wt)) i cells
              = Some (map (fun r => sem32_of F r32 (wt_kind wt) (snd r)) rows).
Proof. exact (gen_table_roundtrip gen all_layouts). Qed.
Print Assumptions C05_table.

(* one construct (the locations of a population, a chemical / electrical / continuous projection, an input list) whose
   table has the layout wt: written, loaded and re-sorted by NetworkBuilder into its element lists, it presents the float32
   image of the same rows, in the same order (chemical projections, populations) resp. in the canonical order of constructs
   that spread their rows over several element lists (unit weights first, order otherwise kept). *)
Theorem C05_table_construct :
  forall (F : Type) (r32 rint : F -> F) (cval : cst -> F) (ofnat : nat -> F) (other : F) (weq : F -> F -> bool) (isint : F -> bool),
  (forall x, isint x = true -> rint (r32 x) = r32 x) -> (forall c, c <> CHalf -> rint (cval c) = cval c) ->
  (forall c, r32 (cval c) = cval c) -> (forall x y, weq x y = true <-> x = y) ->
  forall wt, In wt (g_writer gen) ->
  forall (inst : bool) rows, Forall (row_wf F cval isint (wt_variants wt)) rows ->
  exists cells, write_rows F r32 cval wt rows = Some cells /\
    forall out, load_rows F rint cval ofnat other weq (wt_kind wt) inst (wt_names wt) (reader_of gen (wt_kind wt)) cells = Some out ->
                out = sem_rows F cval weq (wt_kind wt) (map (fun r => sem32_of F r32 (wt_kind wt) (snd r)) rows).
Proof. exact (gen_construct_roundtrip gen all_layouts). Qed.
Print Assumptions C05_table_construct.

(* the same for a construct as the DOCUMENT holds it: rows of any variants of its kind, each carrying its own fields (the
   others at their semantic default: full_wf), integers in the integer fields (typed); the writer picks the table from
   the data (select_table: which row variants are present; for chemical projections whether any segment / fraction is off
   its default), so no assumption about the table is left.  A load that the builder refuses (classify = None: a
   non-unit weight between two non-instance populations) is excluded by the hypothesis  load_rows = Some out.
   PARTIAL with respect to the property: (1) the assembly of the constructs into one file (group names, PyTables child
   order, populations before projections, `inst` computed from the loaded populations), (2) constructs without rows
   (no table is written) and (3) the embedded XML of the non-network components are not modelled here; they are covered
   by the correspondence run and the property predicate on the real code (checks/c05.py); PyTables, float32 rounding,
   python int() and == are the hypotheses spelled out above. *)
Theorem C05_roundtrip_partial :
  forall (F : Type) (r32 rint : F -> F) (cval : cst -> F) (ofnat : nat -> F) (other : F) (weq : F -> F -> bool) (isint : F -> bool),
  (forall x, isint x = true -> rint (r32 x) = r32 x) -> (forall c, c <> CHalf -> rint (cval c) = cval c) ->
  (forall c, r32 (cval c) = cval c) -> (forall x y, weq x y = true <-> x = y) ->
  forall kind (inst : bool) rows wt,
  select_table F cval weq gen kind rows = Some wt ->
  Forall (full_wf F cval kind) rows -> Forall (fun r => typed F isint (snd r)) rows ->
  Forall (fun r => In (fst r) (variants_of kind)) rows ->
  exists cells, write_rows F r32 cval wt rows = Some cells /\
    forall out, load_rows F rint cval ofnat other weq kind inst (wt_names wt) (reader_of gen kind) cells = Some out ->
                out = sem_rows F cval weq kind (map (fun r => sem32_of F r32 kind (snd r)) rows).
Proof. exact (gen_select_roundtrip gen all_layouts all_stores). Qed.
Print Assumptions C05_roundtrip_partial.

(* the select_table of the theorem above IS the decision the code takes: on every probe of the real exportHdf5 methods (every
   kind and row variant; no field, each single field, all fields off their semantic default; the deciding row first / later /
   in the other element list; exact instance F = Z/1024, r32 = int() = identity) it picks a table with exactly the column
   names the code wrote.  (select_covers: every defaultable field of every kind has been probed alone.) *)
Theorem C05_select :
  forall p, In p (g_select gen) ->
  exists wt, select_table Z zc Z.eqb gen (sp_kind p) (probe_rows p) = Some wt /\ wt_names wt = sp_names p.
Proof. exact (gen_select gen select). Qed.
Print Assumptions C05_select.

(* any number of constructs in one file: each is written under its own group with its group attributes and its table; the
   reader meets the groups in PyTables' order (an arbitrary rearrangement `order`); what is loaded is, up to that
   rearrangement, the float32 image of every construct: kind, attribute fields (ids, population / synapse / component
   references), rows.  Still PARTIAL: `inst` (is one of the two populations instance based) travels with the node instead of
   being recomputed from the loaded populations; constructs without rows and the embedded XML are outside (see above). *)
Theorem C05_network_roundtrip_partial :
  forall (F : Type) (r32 rint : F -> F) (cval : cst -> F) (ofnat : nat -> F) (other : F) (weq : F -> F -> bool) (isint : F -> bool)
         (order : list (node F) -> list (node F)),
  (forall x, isint x = true -> rint (r32 x) = r32 x) -> (forall c, c <> CHalf -> rint (cval c) = cval c) ->
  (forall c, r32 (cval c) = cval c) -> (forall x y, weq x y = true <-> x = y) ->
  (forall l, Permutation (order l) l) ->
  forall (cs : list (construct F)) nodes sems,
  Forall (fun c => Forall (full_wf F cval (c_kind F c)) (c_rows F c) /\ Forall (fun r => typed F isint (snd r)) (c_rows F c)
                   /\ Forall (fun r => In (fst r) (variants_of (c_kind F c))) (c_rows F c)) cs ->
  write_net F r32 cval weq gen cs = Some nodes ->
  load_net F rint cval ofnat other weq order gen nodes = Some sems ->
  Permutation sems (map (sem32_construct F r32 cval weq) cs).
Proof. exact (gen_net_roundtrip gen all_layouts all_stores groups). Qed.
Print Assumptions C05_network_roundtrip_partial.

(* THE WHOLE DOCUMENT through the file tree  /neuroml{id, notes, neuroml_top_level} / network{id, notes, temperature} /
   population_<id> | projection_<id> | inputList_<id> {attributes} / <id> : array with column_N names.
   write_document / load_document (Model/H5.v) follow NeuroMLHdf5Writer.write + Network.exportHdf5 and parse_group /
   start_group / end_group: groups named by the writer's prefixes and dispatched by String.prefix on the reader's prefixes (both
   probed: skeleton_ok), the kind of a projection group from its constant "type" attribute, constructs without rows (sized
   population: size attribute; chemical projection without connections: no table, rebuilt by finalise_projection), the builder's
   `instances` flag RECOMPUTED from the loaded population groups (id attribute, table present and non-empty), children met in
   any PyTables order (`corder`), any number of constructs (induction over the construct list), at most one network (PyTables
   refuses a second group called "network").
   supported_d d: every construct has a kind of the format, rows well formed for the document (full_wf, typed, variants of the
   kind), no rows only for populations / chemical projections, the writer has a table for the variants present, and no non-unit
   weight sits between two populations without instances (that is refused).
   c01_premise d is EXACTLY the conclusion of C01 (Proofs/GdsP.v roundtrip) for the non-network top-level components.
   Conclusion: the write succeeds, the load succeeds, document attributes and top-level components come back identical, and
   for every network its attributes are identical and its constructs are, up to PyTables' order (Permutation), the float32
   images sem32_dc of the document's constructs (kind, attribute fields, rows in canonical order). *)
Theorem C05_document_roundtrip :
  forall (F : Type) (r32 rint : F -> F) (cval : cst -> F) (ofnat : nat -> F) (other : F) (weq : F -> F -> bool) (isint : F -> bool),
  (forall x, isint x = true -> rint (r32 x) = r32 x) -> (forall c, c <> CHalf -> rint (cval c) = cval c) ->
  (forall c, r32 (cval c) = cval c) -> (forall x y, weq x y = true <-> x = y) ->
  forall (X XML : Type) (xcls : X -> string) (xexport : X -> option XML) (xbuild : string -> XML -> option X)
         (corder : list (cgroup F) -> list (cgroup F)),
  (forall l, Permutation (corder l) l) ->
  forall d : document F X,
  supported_d F r32 cval weq isint X gen d ->
  c01_premise F X XML xcls xexport xbuild d ->
  exists f, write_document F r32 cval weq X XML xcls xexport gen d = Some f /\
  exists nets, load_document F rint cval ofnat other weq X XML xbuild corder gen f
               = Some (map (fun f => (f, dd_attrs F X d f)) (attr_fields "document"), dd_top F X d, nets)
            /\ Forall2 (net_image F r32 cval weq) (dd_networks F X d) nets.
Proof.
  exact (fun F r32 rint cval ofnat other weq isint A1 A2 A3 A4 X XML xcls xexport xbuild corder P =>
           document_roundtrip F r32 rint cval ofnat other weq isint A1 A2 A3 A4 X XML xcls xexport xbuild corder P
                              gen all_layouts all_stores groups skeleton).
Qed.
Print Assumptions C05_document_roundtrip.

(* ... composed with C01: the top-level components are typed trees of a binding table set that passes rt_wf; the premise is
   discharged by Proofs/GdsP.v roundtrip (not re-proved here) *)
Theorem C05_document_roundtrip_with_C01 :
  forall (F : Type) (r32 rint : F -> F) (cval : cst -> F) (ofnat : nat -> F) (other : F) (weq : F -> F -> bool) (isint : F -> bool),
  (forall x, isint x = true -> rint (r32 x) = r32 x) -> (forall c, c <> CHalf -> rint (cval c) = cval c) ->
  (forall c, r32 (cval c) = cval c) -> (forall x y, weq x y = true <-> x = y) ->
  forall (G : Type) (G_eqb : G -> G -> bool) (G_of_dec : Dec.dec -> G) (fmt_float fmt_double : G -> string)
         (parse_float : string -> option G),
  (forall x y : G, G_eqb x y = true <-> x = y) -> (forall x : G, parse_float (fmt_double x) = Some x) ->
  (forall q : Dec.dec, G_of_dec (Dec.dec_norm q) = G_of_dec q) ->
  forall (T : Gds.tables) (n : nat) (tag : string), GdsWf.rt_wf T = true ->
  forall corder : list (cgroup F) -> list (cgroup F), (forall l, Permutation (corder l) l) ->
  forall d : document F (Gds.obj G),
  supported_d F r32 cval weq isint (Gds.obj G) gen d ->
  (forall o, In o (dd_top F (Gds.obj G) d) -> GdsWf.typedb G G_eqb fmt_float parse_float n T o = true) ->
  exists f, write_document F r32 cval weq (Gds.obj G) Gds.xml (Gds.o_cls G)
                           (Gds.export G G_eqb G_of_dec fmt_float fmt_double n T tag) gen d = Some f /\
  exists nets, load_document F rint cval ofnat other weq (Gds.obj G) Gds.xml (Gds.build G G_of_dec parse_float n T) corder gen f
               = Some (map (fun f => (f, dd_attrs F (Gds.obj G) d f)) (attr_fields "document"), dd_top F (Gds.obj G) d, nets)
            /\ Forall2 (net_image F r32 cval weq) (dd_networks F (Gds.obj G) d) nets.
Proof.
  exact (fun F r32 rint cval ofnat other weq isint A1 A2 A3 A4 G e dd ff fd p B1 B2 B3 T n tag W corder P d Hs Hty =>
           document_roundtrip F r32 rint cval ofnat other weq isint A1 A2 A3 A4 (Gds.obj G) Gds.xml (Gds.o_cls G)
             (Gds.export G e dd ff fd n T tag) (Gds.build G dd p n T) corder P gen all_layouts all_stores groups skeleton d Hs
             (fun o Ho => GdsP.roundtrip G e dd ff fd p B1 B2 B3 T W n o (Hty o Ho) tag)).
Qed.
Print Assumptions C05_document_roundtrip_with_C01.

(* the optimized loader (NetworkContainer.InstanceList / ConnectionList / InputsList.__getitem__) as a second reader over the
   same tables: for the tables it can hold (locations; chemical projections of plain Connections, with or without segment /
   fraction columns; input lists of plain Inputs) every field it delivers is the float32 image of the field written *)
Theorem C05_optimized_row :
  forall (F : Type) (r32 rint : F -> F) (cval : cst -> F) (ofnat : nat -> F) (isint : F -> bool),
  (forall x, isint x = true -> rint (r32 x) = r32 x) -> (forall c, r32 (cval c) = cval c) ->
  forall wt v ot oe, In wt (g_writer gen) -> opt_supported wt = true -> In v (wt_variants wt) ->
  find (fun ot => String.eqb (ot_kind ot) (wt_kind wt)) (g_opt gen) = Some ot -> In oe (ot_entries ot) ->
  forall (fields : string -> F) i, typed F isint fields -> defaults_ok F cval (wv_cols v) fields ->
  field_stored (wv_cols v) (oe_field oe) = true \/ sem_default (oe_field oe) <> None ->
  opt_decode F rint cval ofnat (wt_names wt) oe i (encode_row F r32 cval (wv_cols v) fields) = Some (r32 (fields (oe_field oe))).
Proof. exact (fun F r32 rint cval ofnat isint A1 A3 => gen_optimized_row F r32 rint cval ofnat isint A1 A3 gen optimized). Qed.
Print Assumptions C05_optimized_row.

(* ids, population / synapse / component references, notes, temperature, sizes: every group attribute the
   specification lists is written from the field it is read into *)
Theorem C05_group_attributes :
  (forall wt, In wt (g_writer gen) -> forall (fields : string -> option string) a f arg, In (a, f, arg) (gspec (wt_kind wt)) ->
      read_attr (write_attrs (wt_gattrs wt) fields) a = fields f) /\
  (forall (fields : string -> option string) a f arg, In (a, f, arg) (gspec "sized_population") ->
      read_attr (write_attrs (g_sized_pop_w gen) fields) a = fields f) /\
  (forall (fields : string -> option string) a f arg, In (a, f, arg) (gspec "document") ->
      read_attr (write_attrs (g_doc_w gen) fields) a = fields f) /\
  (forall (fields : string -> option string) a f arg, In (a, f, arg) (gspec "network") ->
      read_attr (write_attrs (g_net_w gen) fields) a = fields f).
Proof. exact (gen_gattrs gen groups). Qed.
Print Assumptions C05_group_attributes.

(* the builder makes, in every context, the element the specification (classify_b) names, from the right arguments,
   losing none; where the specification says "refuse" it raises *)
Theorem C05_builder :
  forall b, In b (g_builder gen) ->
  match classify_b (be_kind b) (be_inst b) (be_cols b) (be_unitw b) (be_zerod b) with
  | None => be_variant b = "RAISE"
  | Some v => be_variant b = v /\ be_lost b = [] /\ forall f a, In (f, a) (be_fields b) -> field_of (be_kind b) a = Some f
  end.
Proof. exact (gen_builder gen builder). Qed.
Print Assumptions C05_builder.

(* a construct the format cannot hold is refused by the writer *)
Theorem C05_refuse : forall n, In n must_refuse -> assoc n (g_refusals gen) = Some true.
Proof. exact (gen_refuse gen refuse). Qed.
Print Assumptions C05_refuse.

(* the layouts shipped at the pinned commit do NOT round-trip (both confirmed on the real code, repaired by
   fixes/C05-connection-ids.patch and fixes/C05-mixed-weights.patch) *)
Theorem C05_ids_refuted :
  exists fields : string -> nat,
    decode_arg nat (fun x => x) nval (fun i => i) 0 shipped_elec_names shipped_id_arg 0
               (encode_row nat (fun x => x) nval shipped_elec_cols fields) <> Some (fields "id").
Proof. exact ids_refuted. Qed.
Print Assumptions C05_ids_refuted.

Theorem C05_mixed_refuted :
  exists fields : string -> nat,
    fields "weight" = nval COne /\
    decode_arg nat (fun x => x) nval (fun i => i) 0 shipped_input_names shipped_weight_arg 0
               (encode_row nat (fun x => x) nval shipped_input_cols_plain fields) <> Some (fields "weight").
Proof. exact mixed_refuted. Qed.
Print Assumptions C05_mixed_refuted.
