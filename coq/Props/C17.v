(* C17 — placeholder while the proofs are being built *)
From Coq Require Import String List Bool.
From LNML Require Import Model.Refs.
