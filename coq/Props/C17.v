(* C17 — Resolving external morphology/biophysics references embeds independent copies.
   Model: Model/Refs.v (fix_doc true = utils.fix_external_morphs_biophys_in_cell after
   fixes/C17-cell2capools.patch; fix_doc false = before it).  copy.deepcopy (dcopy) and the include loader
   (load) are arbitrary functions satisfying the hypotheses written out in every statement: equal value,
   same id, only new identities for a copy; fresh identities and reproducible values for a load. *)
From Coq Require Import String List Bool ZArith Arith.
From LNML Require Import Model.Refs Proofs.RefsP Proofs.RefsP2.
Import ListNotations.

(* in place (overwrite=True): every referring cell (cells and cell2_ca_poolses) gets a copy of the
   definition in force - included files in order, then the document, later definitions winning - equal in
   value, built from new objects only, and the reference is cleared; a slot that embeds already or refers to
   nothing is left as it is; nothing else in the heap changes; the returned document is the one passed in *)
Theorem C17_embeds_copies : forall (obj : Type) (oid : obj -> string) (V : Type) (val : obj -> V)
    (locs : obj -> list nat) (dcopy : nat -> obj -> obj * nat)
    (load : nat -> string -> option (list obj * list obj * nat)),
  (forall n o, val (fst (dcopy n o)) = val o) ->
  (forall n o, oid (fst (dcopy n o)) = oid o) ->
  (forall n o l, In l (locs (fst (dcopy n o))) -> n <= l < snd (dcopy n o)) ->
  (forall n o, NoDup (locs (fst (dcopy n o)))) ->
  (forall n o, n <= snd (dcopy n o)) ->
  (forall n i ms bs n', load n i = Some (ms, bs, n') -> n <= n') ->
  forall (h : heap obj) (d : docr obj) (n : nat) (h' : heap obj) (d' : docr obj) (n' : nat),
  NoDup (RefsP.all_cells obj d) ->
  fix_doc obj oid dcopy load true h d n true = ROk h' d' n' ->
  d' = d /\
  exists ms bs n1,
    load_all obj load (d_incs d) n = Some (ms, bs, n1) /\ n <= n1 /\ n1 <= n' /\
    (forall l, ~ In l (RefsP.all_cells obj d) -> h' l = h l) /\
    (forall l, In l (RefsP.all_cells obj d) ->
       cell_embeds obj oid V val locs (ms ++ d_morphs d) (bs ++ d_bios d) n1 n' (h l) (h' l)).
Proof. exact fix_overwrite_spec. Qed.
Print Assumptions C17_embeds_copies.

(* independence: afterwards no object is shared between two embedded subtrees, and every new object is
   younger than everything that existed before the call and than the documents read for the includes - so
   a copy shares nothing with the referenced element or with another copy *)
Theorem C17_copies_independent : forall (obj : Type) (oid : obj -> string) (V : Type) (val : obj -> V)
    (locs : obj -> list nat) (dcopy : nat -> obj -> obj * nat)
    (load : nat -> string -> option (list obj * list obj * nat)),
  (forall n o, val (fst (dcopy n o)) = val o) ->
  (forall n o, oid (fst (dcopy n o)) = oid o) ->
  (forall n o l, In l (locs (fst (dcopy n o))) -> n <= l < snd (dcopy n o)) ->
  (forall n o, NoDup (locs (fst (dcopy n o)))) ->
  (forall n o, n <= snd (dcopy n o)) ->
  (forall n i ms bs n', load n i = Some (ms, bs, n') -> n <= n') ->
  (forall n i ms bs n', load n i = Some (ms, bs, n') ->
     forall o, In o (ms ++ bs) -> forall x, In x (locs o) -> n <= x < n') ->
  forall (h : heap obj) (d : docr obj) (n : nat) (h' : heap obj) (d' : docr obj) (n' : nat),
  NoDup (RefsP.all_cells obj d) ->
  NoDup (emb_locs obj locs h (RefsP.all_cells obj d)) ->
  (forall x, In x (emb_locs obj locs h (RefsP.all_cells obj d)) -> x < n) ->
  fix_doc obj oid dcopy load true h d n true = ROk h' d' n' ->
  NoDup (emb_locs obj locs h' (RefsP.all_cells obj d)) /\
  exists ms bs n1,
    load_all obj load (d_incs d) n = Some (ms, bs, n1) /\
    (forall x, In x (emb_locs obj locs h' (RefsP.all_cells obj d)) ->
       In x (emb_locs obj locs h (RefsP.all_cells obj d)) \/ n1 <= x < n') /\
    (forall o, In o (ms ++ bs) -> forall x, In x (locs o) -> x < n1).
Proof. exact fix_overwrite_independent. Qed.
Print Assumptions C17_copies_independent.

(* KeyError exactly when some reference has no definition (the includes being readable) *)
Theorem C17_dangling_iff_keyerror : forall (obj : Type) (oid : obj -> string)
    (dcopy : nat -> obj -> obj * nat) (load : nat -> string -> option (list obj * list obj * nat))
    (h : heap obj) (d : docr obj) (n : nat) (ms bs : list obj) (n1 : nat),
  NoDup (RefsP.all_cells obj d) ->
  load_all obj load (d_incs d) n = Some (ms, bs, n1) ->
  let ok := forall l, In l (RefsP.all_cells obj d) ->
              slot_defined obj oid (ms ++ d_morphs d) (k_m (h l)) /\
              slot_defined obj oid (bs ++ d_bios d) (k_b (h l)) in
  (ok <-> exists h' n', fix_doc obj oid dcopy load true h d n true = ROk h' d n') /\
  (~ ok <-> exists h', fix_doc obj oid dcopy load true h d n true = RKeyErr h').
Proof. exact fix_overwrite_keyerror. Qed.
Print Assumptions C17_dangling_iff_keyerror.

(* overwrite=False: whatever the outcome, every object that existed before the call is as it was *)
Theorem C17_overwrite_false_leaves_input : forall (obj : Type) (oid : obj -> string) (V : Type) (val : obj -> V)
    (dcopy : nat -> obj -> obj * nat) (load : nat -> string -> option (list obj * list obj * nat)),
  (forall n o, val (fst (dcopy n o)) = val o) ->
  (forall n o, oid (fst (dcopy n o)) = oid o) ->
  (forall n o, n <= snd (dcopy n o)) ->
  forall (c2 : bool) (h : heap obj) (d : docr obj) (n : nat),
  match fix_doc obj oid dcopy load c2 h d n false with
  | ROk h' _ _ | RKeyErr h' | RExit h' => forall x, x < n -> h' x = h x
  end.
Proof. exact fix_false_frame. Qed.
Print Assumptions C17_overwrite_false_leaves_input.

(* ... and the outcome and the value of the returned document are those of the in-place call *)
Theorem C17_overwrite_false_same_result : forall (obj : Type) (oid : obj -> string) (V : Type) (val : obj -> V)
    (dcopy : nat -> obj -> obj * nat) (load : nat -> string -> option (list obj * list obj * nat)),
  (forall n o, val (fst (dcopy n o)) = val o) ->
  (forall n o, oid (fst (dcopy n o)) = oid o) ->
  (forall n o, n <= snd (dcopy n o)) ->
  (forall n m i,
     match load n i, load m i with
     | Some (ms, bs, _), Some (ms', bs', _) =>
       map (ov obj oid V val) ms = map (ov obj oid V val) ms' /\
       map (ov obj oid V val) bs = map (ov obj oid V val) bs'
     | None, None => True
     | _, _ => False
     end) ->
  forall (h : heap obj) (d : docr obj) (n : nat),
  NoDup (RefsP.all_cells obj d) -> (forall x, In x (RefsP.all_cells obj d) -> x < n) ->
  resv obj oid V val (fix_doc obj oid dcopy load true h d n false) =
  resv obj oid V val (fix_doc obj oid dcopy load true h d n true).
Proof. exact fix_false_same_value. Qed.
Print Assumptions C17_overwrite_false_same_result.

(* the hypotheses are satisfiable: the instance the correspondence runs (cdcopy, cload) meets all of them *)
Theorem C17_hypotheses_satisfiable : forall t : ctable,
  (forall n o, cval (fst (cdcopy n o)) = cval o) /\
  (forall n o, coid (fst (cdcopy n o)) = coid o) /\
  (forall n o l, In l (clocs (fst (cdcopy n o))) -> n <= l < snd (cdcopy n o)) /\
  (forall n o, NoDup (clocs (fst (cdcopy n o)))) /\
  (forall n o, n <= snd (cdcopy n o)) /\
  (forall n i ms bs n', cload t n i = Some (ms, bs, n') -> n <= n') /\
  (forall n i ms bs n', cload t n i = Some (ms, bs, n') ->
     forall o, In o (ms ++ bs) -> forall x, In x (clocs o) -> n <= x < n').
Proof.
  exact (fun t => conj cdcopy_val (conj cdcopy_id (conj cdcopy_fresh (conj cdcopy_nodup (conj cdcopy_mono
          (conj (cload_mono t) (cload_fresh t))))))).
Qed.
Print Assumptions C17_hypotheses_satisfiable.

(* before the patch the property is false for Cell2CaPools cells: the stored witness *)
Theorem C17_cell2capools_refuted_before_patch :
  exists h' n',
    fix_doc cobj coid cdcopy (cload []) false (heap_of w_cells) w_doc 7 true = ROk h' w_doc n' /\
    In 1 (d_cells2 w_doc) /\
    last_def cobj coid (d_morphs w_doc) "m0"%string <> None /\
    k_m (h' 1) = (Some "m0"%string, None) /\ k_b (h' 1) = (Some "b0"%string, None) /\
    fst (k_m (h' 0)) = None.
Proof. exact cell2capools_unresolved_before_patch. Qed.
Print Assumptions C17_cell2capools_refuted_before_patch.
