(* C08 - A failed read or write leaves the document and the process clean.
   Generic part: about every skeleton of the resource-protocol language (Model/Resource.v).
   Instance part: about the skeletons regenerated from /repo on every run by translators/tr_skeleton.py
   (Run.Gen_C08), through the kernel-checked table obligation Run.Inst_C08.all_ok.
   PARTIAL with respect to the property text: the skeleton abstracts data; what happens inside PyTables / HDF5 /
   libxml2 / the OS below a fault point, and thread pre-emption, are outside the model and are observed by the
   fault-injection runs only. *)
From Coq Require Import String List Bool.
From LNML Require Import Model.Resource Proofs.ResourceP.
Import ListNotations.

(* every plan: any set of faulting statements, any positional faults (several, any exception names), any loop
   counts, any branch choices; from any starting state *)
Theorem C08_safe_partial : forall sites c, safe c = true ->
    forall p s o s' p', run sites c p s = (o, s', p') ->
    handles s' = handles s /\ pending s' = pending s.
Proof. exact run_clean. Qed.
Print Assumptions C08_safe_partial.

Theorem C08_retry_partial : forall sites c, safe c = true ->
    forall p s o s' p', run sites c p s = (o, s', p') ->
    forall sites2 q, run sites2 c q s' = run sites2 c q s.
Proof. exact retry_as_first. Qed.
Print Assumptions C08_retry_partial.

(* a file-layer fault that fires is never swallowed: the call raises *)
Theorem C08_reported_partial : forall sites c, reports c = true ->
    forall p s o s' p', run sites c p s = (o, s', p') -> fired p = false -> fired p' = true ->
    exists e, o = Raised e.
Proof. exact run_reported. Qed.
Print Assumptions C08_reported_partial.

(* token level: no proper prefix of a single-rooted document is a document (inside a token the rejection is lxml's) *)
Theorem C08_trunc_partial : forall d, wellformed1 d = true ->
    forall k, k < length d -> wellformed1 (firstn k d) = false.
Proof. exact truncated_rejected. Qed.
Print Assumptions C08_trunc_partial.

(* an export that fails in the middle of a self-iterating container of the document is invisible to every later
   iteration, provided every iteration starts by rewinding every field an iteration modifies *)
Theorem C08_aborted_iteration_invisible_partial : forall t, iter_ok t = true -> forall c m z, In (c, m, z) t ->
    forall s1 s2 : cstate, (forall f, mem_str f m = false -> s1 f = s2 f) -> forall f, rewind z s1 f = rewind z s2 f.
Proof. exact iter_table_ok. Qed.
Print Assumptions C08_aborted_iteration_invisible_partial.

(* a strictly constructed parser (no recover, no retry) rejects every truncation; a recovering one does not *)
Theorem C08_strict_parser_rejects_truncated_partial : forall d, accepts false d = true ->
    forall k, k < length d -> accepts false (firstn k d) = false.
Proof. exact strict_rejects_truncated. Qed.
Print Assumptions C08_strict_parser_rejects_truncated_partial.

Theorem C08_recovering_parser_refuted : exists d k,
    accepts false d = true /\ k < length d /\ accepts true (firstn k d) = true /\ accepts false (firstn k d) = false.
Proof. exact recover_accepts_truncated. Qed.
Print Assumptions C08_recovering_parser_refuted.

(* INSTANCE *)
From Run Require Import Gen_C08 Inst_C08.

(* every read/write entry point of the current tree, in every call mode: handles and document restored on every
   path, file-layer failures reported, retry behaves as a first call *)
Theorem C08_entries_clean_partial : forall name mode skel, In (name, mode, skel) Gen_C08.entries ->
    clean_call (in_mode mode skel).
Proof. exact (entries_clean Gen_C08.entries Inst_C08.all_ok). Qed.
Print Assumptions C08_entries_clean_partial.

Theorem C08_document_iterators_rewind_partial : forall c m z, In (c, m, z) Gen_C08.iter_state ->
    forall s1 s2 : cstate, (forall f, mem_str f m = false -> s1 f = s2 f) -> forall f, rewind z s1 f = rewind z s2 f.
Proof. exact (iter_table_ok Gen_C08.iter_state Inst_C08.iter_state_ok). Qed.
Print Assumptions C08_document_iterators_rewind_partial.

(* every XML parser the current tree constructs is strict *)
Theorem C08_parsers_strict_partial : parser_strict Gen_C08.parsers = true.
Proof. exact Inst_C08.parser_strict_ok. Qed.
Print Assumptions C08_parsers_strict_partial.

(* the refusals implemented by the exportHdf5 methods of the current tree are exactly the ones the natural-failure
   documents of the check exercise (each of which must raise and leave everything clean on the real code) *)
Theorem C08_refusals_are_the_exercised_ones_partial : Gen_C08.refusals = Gen_C08.expected_refusals.
Proof. exact (refusals_eqb_eq _ _ Inst_C08.refusals_ok). Qed.
Print Assumptions C08_refusals_are_the_exercised_ones_partial.

(* the HDF5 writer stores the embedded top-level XML only where the HDF5 parser reads it *)
Theorem C08_embedded_xml_stored_where_read_partial :
  Gen_C08.embed_stores <> [] /\ forall w, In w Gen_C08.embed_stores -> In w Gen_C08.embed_reads.
Proof. exact (embed_ok_spec _ _ Inst_C08.embed_ok_ok). Qed.
Print Assumptions C08_embedded_xml_stored_where_read_partial.
