(* C07 - A load's result depends on its input alone: no history or interleaving effects.
   PARTIAL (see design_notes/C07.md): thread pre-emption inside a handler, logging / warnings-filter side effects and
   PyTables / lxml internals are outside the model; the footprint table is produced by a syntactic translator.
   Part 1 (generic theorems) is compiled on every run.  Part 2 is stated over Run.Gen_C07, the table regenerated from
   the working tree by translators/tr_state.py, and needs the three instance obligations Run.Inst_C07_*. *)
From Coq Require Import String List Bool ZArith.
From LNML Require Import Model.State Proofs.StateP.
Import ListNotations.

(* ---- generic: abstract footprint / frame form, any history length ---- *)
Theorem C07_history_generic :
  forall (C V call res : Type) (sem : call -> gworld C V -> res * gworld C V) (Rd Wr : call -> list C),
    reads_only C V call res sem Rd Wr -> writes_only C V call res sem Wr -> no_interference C call Rd Wr ->
    forall hist x w0, fst (sem x (run C V call res sem hist w0)) = fst (sem x w0).
Proof. exact history_independent. Qed.
Print Assumptions C07_history_generic.

Theorem C07_history_generic_all_results :
  forall (C V call res : Type) (sem : call -> gworld C V -> res * gworld C V) (Rd Wr : call -> list C),
    reads_only C V call res sem Rd Wr -> writes_only C V call res sem Wr -> no_interference C call Rd Wr ->
    forall hist w0, results C V call res sem hist w0 = map (fun x => fst (sem x w0)) hist.
Proof. exact results_independent. Qed.
Print Assumptions C07_history_generic_all_results.

(* ---- state nobody writes (class metadata such as member_data_items_) is a constant: reading it keeps no_interference ---- *)
Theorem C07_constants_keep_no_interference :
  forall (C call : Type) (Rd Wr : call -> list C), no_interference C call Rd Wr ->
  forall Kc : list C, (forall x c, In c Kc -> ~ In c (Wr x)) ->
    no_interference C call (fun x => (Rd x ++ Kc)%list) Wr.
Proof. exact (fun C call Rd Wr H Kc HK => constants_keep_no_interference C call Rd Wr H Kc HK). Qed.
Print Assumptions C07_constants_keep_no_interference.

(* ---- process state (cwd, environment, ...) that calls read AND write, but that every call restores on every path (normal or
        raising outcome): history independence still holds, for histories of any length ---- *)
Theorem C07_history_restored_cells :
  forall (C V call res : Type) (sem : call -> gworld C V -> res * gworld C V) (Rd Wr : call -> list C),
    reads_only C V call res sem Rd Wr -> writes_only C V call res sem Wr ->
    (forall x y c, In c (Rd x) -> ~ In c (Wr y) \/ (forall z w, snd (sem z w) c = w c)) ->
    forall hist x w0, fst (sem x (run C V call res sem hist w0)) = fst (sem x w0).
Proof. exact history_independent_restored. Qed.
Print Assumptions C07_history_restored_cells.

Theorem C07_restored_cell_is_constant :
  forall (C V call res : Type) (sem : call -> gworld C V -> res * gworld C V) (c : C),
    restores C V call res sem c -> forall hist w0, run C V call res sem hist w0 c = w0 c.
Proof. exact restored_cell_constant. Qed.
Print Assumptions C07_restored_cell_is_constant.

(* ---- a keyed memo whose values are a function of the key and of constants (GeneratedsSuperSuper.__all_members_)
        is transparent: any history of lookups returns f on each key ---- *)
Theorem C07_memo_transparent :
  forall (K V : Type) (keqb : K -> K -> bool) (f : K -> V), (forall a b, keqb a b = true -> a = b) ->
  forall ks m, mconsistent K V keqb f m ->
    fst (mrun K V keqb f ks m) = map f ks /\ mconsistent K V keqb f (snd (mrun K V keqb f ks m)).
Proof. exact memo_transparent. Qed.
Print Assumptions C07_memo_transparent.

(* ---- the loader model satisfies the footprint conditions for EVERY layout of the defaults (tie B2-B3) ---- *)
Theorem C07_loaders_footprint :
  forall ms sh fs fuel,
    reads_only cell (list string) lcall res (exec_call fuel ms sh fs) (fun _ => shared_cells ms) (fun _ => shared_cells ms)
    /\ writes_only cell (list string) lcall res (exec_call fuel ms sh fs) (fun _ => shared_cells ms).
Proof. exact (fun ms sh fs fuel => conj (loaders_reads_only ms sh fs fuel) (loaders_writes_only ms sh fs fuel)). Qed.
Print Assumptions C07_loaders_footprint.

(* ---- loader histories: no shared default object -> the n-th call returns what the first returns ---- *)
Theorem C07_history :
  forall ms, shared_cells ms = [] ->
  forall sh fs fuel hist x w0,
    fst (exec_call fuel ms sh fs x (run_hist fuel ms sh fs hist w0)) = fst (exec_call fuel ms sh fs x w0).
Proof. exact (fun ms H sh fs fuel hist x w0 => loads_history_independent ms sh fs H fuel hist x w0). Qed.
Print Assumptions C07_history.

(* ---- and a shared `already_included` default of read_neuroml2_string is observable (witness replayed on the code) ---- *)
Theorem C07_history_shared_refuted :
  forall mf mi mh me af ht,
  let ms := {| m_file := mf; m_string := DSharedList; m_inner := mi; m_h5 := mh |} in
  let sh := {| sh_mark_entry := me; sh_append_first := af; sh_h5_threads := ht |} in
  exists fs hist x,
    fst (exec_call 10 ms sh fs x (run_hist 10 ms sh fs hist w_empty)) <> fst (exec_call 10 ms sh fs x w_empty)
    /\ fst (exec_call 10 ms sh fs x w_empty) <> RFuel.
Proof. exact StateP.C07_history_shared_refuted. Qed.
Print Assumptions C07_history_shared_refuted.

(* ---- interleaving, abstract: all fields Own -> every schedule leaves each builder with its solo state ---- *)
Theorem C07_interleave :
  forall (F V : Type) (pl : F -> bool), (forall f, pl f = true) ->
  forall sched, Forall (hext F V) (map snd sched) ->
  forall w s f, view F V pl w (run_sched F V pl sched s) f = run_solo F V (proj F V w sched) (view F V pl w s) f.
Proof. exact interleave_view. Qed.
Print Assumptions C07_interleave.

Theorem C07_interleave_refuted :
  exists (pl : unit -> bool) (sched : list (who * handler unit nat)) (s : sys unit nat),
    Forall (hext unit nat) (map snd sched) /\
    view unit nat pl WA (run_sched unit nat pl sched s) tt
    <> run_solo unit nat (proj unit nat WA sched) (view unit nat pl WA s) tt.
Proof. exact interleave_refuted. Qed.
Print Assumptions C07_interleave_refuted.

(* ---- objects the handlers receive as arguments (component_obj, synapse_obj, ...) are a store that every builder shares, whatever
        the placement of the handlers' own fields.  Fields may be Shared as long as every handler leaves them as it found them ... *)
Theorem C07_interleave_shared_read_only :
  forall (F V : Type) (pl : F -> bool) sched,
    Forall (hext F V) (map snd sched) ->
    Forall (fun h => forall v f, pl f = false -> h v f = v f) (map snd sched) ->
    forall w s f, view F V pl w (run_sched F V pl sched s) f = run_solo F V (proj F V w sched) (view F V pl w s) f.
Proof. exact interleave_view_frozen. Qed.
Print Assumptions C07_interleave_shared_read_only.

(* ... and a handler that records "already appended" in a flag ON the argument object is refuted: field true = the builder's own
   document (Own), field false = the flag on the caller's object; B, given the object A has seen, leaves the component out *)
Theorem C07_argument_flag_refuted :
  let pl := fun f : bool => f in
  let sched := [(WA, flag_handler); (WB, flag_handler)] in
  let s := {| sh := fun _ => 0; ownA := fun _ => 0; ownB := fun _ => 0 |} in
  Forall (hext bool nat) (map snd sched) /\
  view bool nat pl WB (run_sched bool nat pl sched s) true = 0 /\
  run_solo bool nat (proj bool nat WB sched) (view bool nat pl WB s) true = 1.
Proof. exact argument_flag_refuted. Qed.
Print Assumptions C07_argument_flag_refuted.

(* ---- interleaving, NetworkBuilder model (an instance of the abstract system): any schedule, any length ---- *)
Theorem C07_builder_interleave :
  forall eg p, (forall d, p d = true) ->
  forall sched w, bdump p w (brun eg p sched bsys0) = solo_dump eg (ops_of w sched).
Proof. exact builder_interleave_dump. Qed.
Print Assumptions C07_builder_interleave.

Theorem C07_builder_interleave_refuted :
  forall eg b c d e f g, let p := mkp false b c d e f g in
  exists sched w, bdump p w (brun eg p sched bsys0) <> solo_dump eg (ops_of w sched).
Proof. exact builder_interleave_refuted. Qed.
Print Assumptions C07_builder_interleave_refuted.

(* ---- each of the seven dicts matters: that dict alone shared -> a (directed, stored) schedule separates A from its solo run ---- *)
Theorem C07_each_dict_matters :
  forall eg f, bdump (only_shared f) WA (brun eg (only_shared f) (directed_sched f) bsys0)
               <> solo_dump eg (ops_of WA (directed_sched f)).
Proof. exact each_dict_matters. Qed.
Print Assumptions C07_each_dict_matters.

(* ==== INSTANCE ==== (everything below is about the table regenerated from the working tree) *)
From Run Require Import Gen_C07 Inst_C07_defaults Inst_C07_fields Inst_C07_globals Inst_C07_classmeta Inst_C07_process Inst_C07_argwrites Inst_C07_setorder.

Theorem C07_state_ok : state_ok Gen_C07.table = true.
Proof.
  exact (proj2 (state_ok_split Gen_C07.table)
               (conj Inst_C07_defaults.defaults_ok (conj Inst_C07_fields.fields_ok
                  (conj Inst_C07_globals.globals_ok (conj Inst_C07_classmeta.classmeta_ok
                     (conj Inst_C07_process.process_state_ok Inst_C07_argwrites.argument_writes_ok)))))).
Qed.
Print Assumptions C07_state_ok.

Theorem C07_loads_history_independent :
  forall fuel fs hist x w0,
    fst (exec_call fuel (modes_of Gen_C07.table) Gen_C07.shape fs x
                   (run_hist fuel (modes_of Gen_C07.table) Gen_C07.shape fs hist w0))
    = fst (exec_call fuel (modes_of Gen_C07.table) Gen_C07.shape fs x w0).
Proof. exact (loads_history_of_table Gen_C07.table Inst_C07_defaults.defaults_ok Gen_C07.shape). Qed.
Print Assumptions C07_loads_history_independent.

Theorem C07_builders_do_not_interfere :
  forall sched w,
    bdump (placement_of Gen_C07.table) w (brun Gen_C07.elec_guard (placement_of Gen_C07.table) sched bsys0)
    = solo_dump Gen_C07.elec_guard (ops_of w sched).
Proof. exact (builder_interleave_of_table Gen_C07.table Inst_C07_fields.fields_ok Gen_C07.elec_guard). Qed.
Print Assumptions C07_builders_do_not_interfere.

Theorem C07_no_default_is_mutated :
  forall d, In d (st_defaults Gen_C07.table) -> ds_mutated d = false /\ ds_escapes d = false.
Proof. exact (proj1 (defaults_ok_spec Gen_C07.table) Inst_C07_defaults.defaults_ok). Qed.
Print Assumptions C07_no_default_is_mutated.

Theorem C07_every_field_is_per_instance :
  forall f, In f (st_fields Gen_C07.table) -> field_shared f = false.
Proof. exact (proj1 (fields_ok_spec Gen_C07.table) Inst_C07_fields.fields_ok). Qed.
Print Assumptions C07_every_field_is_per_instance.

Theorem C07_no_written_global_is_read : globals_read Gen_C07.table = [].
Proof. exact Inst_C07_globals.globals_ok. Qed.
Print Assumptions C07_no_written_global_is_read.

(* the metadata lists of the generated classes are never mutated at run time, and no memo value aliases one *)
Theorem C07_class_metadata_is_constant :
  forall m, In m (st_classmeta Gen_C07.table) -> cm_mutated m = false /\ cm_aliases m = false.
Proof. exact (proj1 (classmeta_ok_spec Gen_C07.table) Inst_C07_classmeta.classmeta_ok). Qed.
Print Assumptions C07_class_metadata_is_constant.

(* every mutation of process-global state inside a function of the analysed modules is undone on every path, or is one of the
   two recorded sites (warnings filters in NeuroMLLoader.__nml2_doc / _read_neuroml2: known findings; logging.basicConfig in
   NeuroMLHdf5Loader.__nml2_doc); module-level statements are import-time constants *)
Theorem C07_process_state_is_restored :
  forall s, In s (st_process Gen_C07.table) ->
    ps_import_time s = true \/ ps_restored s = true \/ known_proc_site s = true.
Proof. exact (proj1 (process_ok_spec Gen_C07.table) Inst_C07_process.process_state_ok). Qed.
Print Assumptions C07_process_state_is_restored.

(* no handle* / finalise* method of NetworkBuilder / DefaultNetworkHandler (or a class derived from them) writes an attribute of an
   object it received as an argument: the caller's component / synapse / input objects are a read-only store for the handlers *)
Theorem C07_handlers_do_not_write_argument_objects :
  forall s, In s (st_argwrites Gen_C07.table) -> aw_handler s = false.
Proof. exact (proj1 (argwrites_ok_spec Gen_C07.table) Inst_C07_argwrites.argument_writes_ok). Qed.
Print Assumptions C07_handlers_do_not_write_argument_objects.

(* no set of ids is iterated into an ordered container of a document in loaders.py / utils.py / hdf5/*.py: the order of the member
   lists does not depend on the per-process hash seed *)
Theorem C07_no_set_order_reaches_documents : set_iteration_sites Gen_C07.table = [].
Proof. exact Inst_C07_setorder.set_order_ok. Qed.
Print Assumptions C07_no_set_order_reaches_documents.
