(* C12 — Segment length, surface area and volume are those of the frustum or sphere.

   Run.Gen_C12.table is regenerated from /repo's nml.py (and cross-checked against helper_methods.py) on every run by
   translators/tr_exprs.py; Run.Inst_C12.table_ok is the per-run proof that the translated Python arithmetic, read
   over the reals, computes the reference functions of Model/Geom.v.  Every statement below is about the
   translated terms (g_length / g_volume / g_area / g_actual / g_cell_* of Gen_C12.table), for ALL real
   coordinates, diameters and fraction_along values and for parent chains of any length.
   Axioms: the standard-library real-number axioms and functional_extensionality_dep only. *)
From Coq Require Import List Reals.
From Flocq Require Import Core.
From LNML Require Import Model.Geom Proofs.GeomP Proofs.GeomPFloat.
From Run Require Import Gen_C12 Inst_C12_wf Inst_C12 Inst_C12_float.
Import ListNotations.
Local Open Scope R_scope.

Notation T := Gen_C12.table.

(* length is the Euclidean distance between the end points *)
Theorem C12_length_is_euclidean_distance : forall p d : pt R,
  t_length T p d
  = Val (sqrt ((p_x p - p_x d) * (p_x p - p_x d) + (p_y p - p_y d) * (p_y p - p_y d) + (p_z p - p_z d) * (p_z p - p_z d))).
Proof. exact (length_is_distance T Inst_C12.table_ok). Qed.
Print Assumptions C12_length_is_euclidean_distance.

(* volume and surface area are those of the conical frustum ... *)
Theorem C12_volume_is_frustum : forall p d : pt R, ~ coincide p d ->
  t_volume T p d = Val (PI / 3 * dist p d * (rad p * rad p + rad d * rad d + rad p * rad d)).
Proof. exact (volume_is_frustum T Inst_C12.table_ok). Qed.
Print Assumptions C12_volume_is_frustum.

Theorem C12_area_is_frustum : forall p d : pt R, ~ coincide p d ->
  t_area T p d = Val (PI * (rad p + rad d) * sqrt ((rad p - rad d) * (rad p - rad d) + dist p d * dist p d)).
Proof. exact (area_is_frustum T Inst_C12.table_ok). Qed.
Print Assumptions C12_area_is_frustum.

(* ... and of the sphere exactly when the points coincide with equal diameters *)
Theorem C12_volume_is_sphere : forall p d : pt R, coincide p d -> p_d p = p_d d ->
  t_volume T p d = Val (4 / 3 * PI * (rad p * rad p * rad p)).
Proof. exact (volume_is_sphere T Inst_C12.table_ok). Qed.
Print Assumptions C12_volume_is_sphere.

Theorem C12_area_is_sphere : forall p d : pt R, coincide p d -> p_d p = p_d d ->
  t_area T p d = Val (4 * PI * (rad p * rad p)).
Proof. exact (area_is_sphere T Inst_C12.table_ok). Qed.
Print Assumptions C12_area_is_sphere.

Theorem C12_coincident_points_need_equal_diameters : forall p d : pt R, coincide p d -> p_d p <> p_d d ->
  t_volume T p d = Exc /\ t_area T p d = Exc.
Proof. exact (sphere_needs_equal_diameters T Inst_C12.table_ok). Qed.
Print Assumptions C12_coincident_points_need_equal_diameters.

(* the three are non-negative (diameters >= 0, which the schema's diameter > 0 supplies) *)
Theorem C12_nonnegative : forall p d : pt R, 0 <= p_d p -> 0 <= p_d d ->
  (forall v, t_length T p d = Val v -> 0 <= v) /\ (forall v, t_volume T p d = Val v -> 0 <= v)
  /\ (forall v, t_area T p d = Val v -> 0 <= v).
Proof. exact (all_nonnegative T Inst_C12.table_ok). Qed.
Print Assumptions C12_nonnegative.

Theorem C12_frustum_volume_nonnegative_for_all_reals : forall (p d : pt R) v,
  ~ coincide p d -> t_volume T p d = Val v -> 0 <= v.
Proof. exact (frustum_volume_nonnegative_for_all_reals T Inst_C12.table_ok). Qed.
Print Assumptions C12_frustum_volume_nonnegative_for_all_reals.

(* unchanged by swapping the end points or translating the segment *)
Theorem C12_swap_end_points : forall p d : pt R,
  t_length T p d = t_length T d p /\ t_volume T p d = t_volume T d p /\ t_area T p d = t_area T d p.
Proof. exact (swap_end_points T Inst_C12.table_ok). Qed.
Print Assumptions C12_swap_end_points.

Theorem C12_translation_invariant : forall (tx ty tz : R) (p d : pt R),
  t_length T (translate tx ty tz p) (translate tx ty tz d) = t_length T p d
  /\ t_volume T (translate tx ty tz p) (translate tx ty tz d) = t_volume T p d
  /\ t_area T (translate tx ty tz p) (translate tx ty tz d) = t_area T p d.
Proof. exact (translation_invariant T Inst_C12.table_ok). Qed.
Print Assumptions C12_translation_invariant.

(* scale with k, k^3 and k^2 under uniform scaling *)
Theorem C12_uniform_scaling : forall (k : R) (p d : pt R), 0 < k ->
  t_length T (scale k p) (scale k d) = omap (Rmult k) (t_length T p d)
  /\ t_volume T (scale k p) (scale k d) = omap (Rmult (k * k * k)) (t_volume T p d)
  /\ t_area T (scale k p) (scale k d) = omap (Rmult (k * k)) (t_area T p d).
Proof. exact (uniform_scaling T Inst_C12.table_ok). Qed.
Print Assumptions C12_uniform_scaling.

(* without a proximal point the segment-level properties raise *)
Theorem C12_properties_need_a_proximal_point : forall p d : pt R,
  run RA true (g_length T) (env_seg p d) = Exc /\ run RA true (g_volume T) (env_seg p d) = Exc
  /\ run RA true (g_area T) (env_seg p d) = Exc.
Proof. exact (needs_proximal T Inst_C12.table_ok). Qed.
Print Assumptions C12_properties_need_a_proximal_point.

(* get_actual_proximal: the segment's own point, else the point at fraction_along on the parent, for parent
   chains of any length and every fraction *)
Theorem C12_actual_proximal : forall chain : list (seg R), t_actual T chain = ref_actual chain.
Proof. exact (actual_proximal_is_reference T Inst_C12.table_ok). Qed.
Print Assumptions C12_actual_proximal.

Theorem C12_actual_proximal_inherited : forall (s par : seg R) (rest : list (seg R)) (pp : pt R),
  s_prox s = None -> t_actual T (par :: rest) = Val pp ->
  t_actual T (s :: par :: rest) = Val (lerp (s_fract s) pp (s_dist par)).
Proof. exact (actual_proximal_inherited T Inst_C12.table_ok). Qed.
Print Assumptions C12_actual_proximal_inherited.

(* the cell-level getters return the segment-level values at the actual proximal point *)
Theorem C12_cell_getters_use_actual_proximal : forall (s : seg R) (rest : list (seg R)) (p : pt R),
  t_actual T (s :: rest) = Val p ->
  run_cp RA T (g_cell_length T) (s :: rest) = t_length T p (s_dist s)
  /\ run_cp RA T (g_cell_area T) (s :: rest) = t_area T p (s_dist s)
  /\ run_cp RA T (g_cell_volume T) (s :: rest) = t_volume T p (s_dist s).
Proof. exact (cell_getters_use_actual_proximal T Inst_C12.table_ok). Qed.
Print Assumptions C12_cell_getters_use_actual_proximal.

Theorem C12_cell_getters_agree_with_segment : forall (s : seg R) (rest : list (seg R)) (q : pt R),
  s_prox s = Some q ->
  run_cp RA T (g_cell_length T) (s :: rest) = t_length T q (s_dist s)
  /\ run_cp RA T (g_cell_area T) (s :: rest) = t_area T q (s_dist s)
  /\ run_cp RA T (g_cell_volume T) (s :: rest) = t_volume T q (s_dist s).
Proof. exact (cell_getters_agree_with_segment T Inst_C12.table_ok). Qed.
Print Assumptions C12_cell_getters_agree_with_segment.

(* the only divisors in the translated arithmetic are non-zero literals: no ZeroDivisionError, and Rdiv is never
   used at its unspecified point *)
Theorem C12_no_division_by_zero : forall env : list R,
  prog_divisors_nonzero (g_length T) env /\ prog_divisors_nonzero (g_volume T) env
  /\ prog_divisors_nonzero (g_area T) env /\ prog_divisors_nonzero (g_distance T) env.
Proof. exact (wf_table_safe T Inst_C12_wf.table_wf). Qed.
Print Assumptions C12_no_division_by_zero.

(* "to floating-point rounding", for length and distance_to: the SAME regenerated terms evaluated in the rounded reading
   (every + - * is the exact operation followed by binary64 round-to-nearest-even, x**2 a rounded multiplication,
   x**0.5 any function ph within relative error 2^-52 of the square root -- the assumption made about libm's pow) differ
   from the real Euclidean distance by at most 6 * 2^-53 relative, for ALL coordinates whose exact differences are zero
   or between 2^-500 and 2^500 in magnitude (no underflow / overflow of the squares). *)
Theorem C12_float_rounding_length : forall ph : R -> R, powhalf_accurate ph -> forall p d : pt R,
  diff_in_range (p_x p - p_x d) -> diff_in_range (p_y p - p_y d) -> diff_in_range (p_z p - p_z d) ->
  exists Lf : R,
    run (RndA rnd64 ph) false (g_length T) (env_seg p d) = Val Lf
    /\ run (RndA rnd64 ph) false (g_distance T) (env_seg p d) = Val Lf
    /\ Rabs (Lf - dist p d) <= 6 * bpow radix2 (-53) * dist p d.
Proof. exact (table_length_error T Inst_C12_float.length_fl Inst_C12_float.distance_fl). Qed.
Print Assumptions C12_float_rounding_length.

(* the same for the frustum volume (16 * 2^-53 relative) and the frustum surface area (13 * 2^-53 relative), for
   non-negative diameters, all quantities zero or between 2^-300 and 2^300; for the area the halved diameters must be
   binary64 numbers (true of every binary64 diameter above the subnormal range; the radii are subtracted) and their
   difference in range. *)
Theorem C12_float_rounding_volume : forall ph : R -> R, powhalf_accurate ph -> forall p d : pt R, ~ coincide p d ->
  0 <= p_d p -> 0 <= p_d d -> in_range300 (p_d p) -> in_range300 (p_d d) ->
  in_range300 (p_x p - p_x d) -> in_range300 (p_y p - p_y d) -> in_range300 (p_z p - p_z d) ->
  exists Vf : R,
    run (RndA rnd64 ph) false (g_volume T) (env_seg p d) = Val Vf
    /\ Rabs (Vf - frustum_volume (dist p d) (rad p) (rad d))
       <= 16 * bpow radix2 (-53) * frustum_volume (dist p d) (rad p) (rad d).
Proof. exact (table_volume_error T Inst_C12_float.volume_fl). Qed.
Print Assumptions C12_float_rounding_volume.

Theorem C12_float_rounding_area : forall ph : R -> R, powhalf_accurate ph -> forall p d : pt R, ~ coincide p d ->
  0 <= p_d p -> 0 <= p_d d -> in_range300 (p_d p) -> in_range300 (p_d d) ->
  is_binary64 (p_d p / 2) -> is_binary64 (p_d d / 2) -> in_range300 (p_d p / 2 - p_d d / 2) ->
  in_range300 (p_x p - p_x d) -> in_range300 (p_y p - p_y d) -> in_range300 (p_z p - p_z d) ->
  exists Af : R,
    run (RndA rnd64 ph) false (g_area T) (env_seg p d) = Val Af
    /\ Rabs (Af - frustum_area (dist p d) (rad p) (rad d))
       <= 13 * bpow radix2 (-53) * frustum_area (dist p d) (rad p) (rad d).
Proof. exact (table_area_error T Inst_C12_float.area_fl). Qed.
Print Assumptions C12_float_rounding_area.

(* PARTIAL with respect to the property text "to floating-point rounding": length, distance_to and the FRUSTUM volume and
   area are covered by C12_float_rounding_length / _volume / _area.  Not proved (measured on every run, <= 1e-13
   relative against a 60-digit reference): the SPHERE branch (4/3 pi r**3 uses libm pow(x, 3), 4 pi r**2), the cell-level
   getters through an interpolated proximal point, inputs outside the stated ranges (underflow / overflow), and that
   the halved diameter of a binary64 number above 2^-1021 is again binary64 (a hypothesis of the area theorem). *)
Theorem C12_float_rounding_partial : forall p d : pt R,
  t_length T p d = ref_length false p d /\ t_volume T p d = ref_volume false p d /\ t_area T p d = ref_area false p d.
Proof. exact (fun p d => conj (t_length_eq T Inst_C12.table_ok p d)
                              (conj (t_volume_eq T Inst_C12.table_ok p d) (t_area_eq T Inst_C12.table_ok p d))). Qed.
Print Assumptions C12_float_rounding_partial.
