(* C03 - A schema violation anywhere in a tree makes validate(recursive=True) fail.
   Run.Gen_Bindings / Gen_Validate / Gen_Schema are regenerated from the tree under test on every run
   (translators/tr_bindings.py, tr_schema.py, lib/schemagen.py); Run.Inst_C03 holds the instance obligations and the
   vm_compute evaluations of the concrete witnesses on those tables. *)
From Coq Require Import String List ZArith Bool.
From LNML Require Import Lib.Dec Lib.Regex Model.Gds Model.Validate Model.Xsd
     Proofs.ValidateP Proofs.ValidateP2.
From Run Require Import Gen_Bindings Gen_Validate Gen_Schema Inst_C03.
Import ListNotations.

(* Generic (all tables, all schemas, all trees, any float type): when validate itself walks all members
   (RecAllMembers, the repaired GeneratedsSuperSuper.validate), a violation of any constraint the tables test exactly
   -- in an own OR inherited member, of a component reached through own OR inherited members, at ANY depth --
   makes validate(recursive=True) report something, i.e. raise ValueError.
   Partial with respect to the property only in `checkedb`: integer ranges, fixed values and the members of choice
   groups have no exact test in the generated code (Inst_C03.unchecked_exact lists that complement). *)
Theorem C03_partial :
  forall (F : Type) (F_eqb F_ltb : F -> F -> bool) (F_of_dec : dec -> F) (parse_float : string -> option F)
         (V : vtables) (T : tables) (S : schema) (root o : obj F) (m : string) (vk : vkind),
    vt_mode V = RecAllMembers ->
    reach_all F V root o ->
    violation F_eqb F_ltb F_of_dec T S o m = Some vk ->
    checkedb V T S (o_cls F o) m vk = true ->
    validate F_eqb F_ltb F_of_dec parse_float V root true <> [].
Proof.
  exact (fun F F_eqb F_ltb F_of_dec parse_float V T S root o m vk Hm Hr Hv Hc =>
           all_members_reject F F_eqb F_ltb F_of_dec parse_float V root o Hm Hr
             (reject_local F F_eqb F_ltb F_of_dec parse_float (fun _ => true) V T S o m vk Hv Hc)).
Qed.
Print Assumptions C03_partial.

(* the same on the tables of this run: the code under test does walk all members *)
Theorem C03_partial_here :
  forall (F : Type) (F_eqb F_ltb : F -> F -> bool) (F_of_dec : dec -> F) (parse_float : string -> option F)
         (root o : obj F) (m : string) (vk : vkind),
    reach_all F Gen_Validate.V root o ->
    violation F_eqb F_ltb F_of_dec Gen_Bindings.T Gen_Schema.S o m = Some vk ->
    checkedb Gen_Validate.V Gen_Bindings.T Gen_Schema.S (o_cls F o) m vk = true ->
    validate F_eqb F_ltb F_of_dec parse_float Gen_Validate.V root true <> [].
Proof.
  exact (fun F F_eqb F_ltb F_of_dec parse_float root o m vk =>
           C03_partial F F_eqb F_ltb F_of_dec parse_float Gen_Validate.V Gen_Bindings.T Gen_Schema.S root o m vk
                       Inst_C03.recursion_walks_all_members).
Qed.
Print Assumptions C03_partial_here.

(* the original recursion (the generated validate_ methods recurse): only own members of most-derived classes *)
Theorem C03_partial_before_fix :
  forall (F : Type) (F_eqb F_ltb : F -> F -> bool) (F_of_dec : dec -> F) (parse_float : string -> option F)
         (V : vtables) (root c o : obj F) (k : vcls) (mr : string * bool),
    vt_mode V = RecGenerated ->
    In k (mro V (o_cls F root)) -> In mr (v_rec k) -> In c (kids_of (field root (fst mr))) ->
    reach_own F V c o -> head_msgs F F_eqb F_ltb F_of_dec parse_float V o <> [] ->
    validate F_eqb F_ltb F_of_dec parse_float V root true <> [].
Proof.
  exact (fun F F_eqb F_ltb F_of_dec parse_float V root c o k mr =>
           generated_reject F F_eqb F_ltb F_of_dec parse_float V root k mr c o).
Qed.
Print Assumptions C03_partial_before_fix.

(* depth 0, both variants: validate() of a component tests own and inherited members *)
Theorem C03_root :
  forall (F : Type) (F_eqb F_ltb : F -> F -> bool) (F_of_dec : dec -> F) (parse_float : string -> option F)
         (V : vtables) (T : tables) (S : schema) (root : obj F) (m : string) (vk : vkind) (rec : bool),
    violation F_eqb F_ltb F_of_dec T S root m = Some vk ->
    checkedb V T S (o_cls F root) m vk = true ->
    validate F_eqb F_ltb F_of_dec parse_float V root rec <> [].
Proof.
  exact (fun F F_eqb F_ltb F_of_dec parse_float V T S root m vk rec Hv Hc =>
           match vt_mode V as md return vt_mode V = md -> _ with
           | RecGenerated => fun Hm => generated_reject_root F F_eqb F_ltb F_of_dec parse_float V root rec Hm
               (reject_local F F_eqb F_ltb F_of_dec parse_float (fun _ => true) V T S root m vk Hv Hc)
           | RecAllMembers => fun Hm => all_members_reject_root F F_eqb F_ltb F_of_dec parse_float V root rec Hm
               (reject_local F F_eqb F_ltb F_of_dec parse_float (fun _ => true) V T S root m vk Hv Hc)
           end eq_refl).
Qed.
Print Assumptions C03_root.

(* is_valid_neuroml2 says False exactly when validate(recursive=True) of the loaded document reports something *)
Theorem C03_file :
  forall (F : Type) (F_eqb F_ltb : F -> F -> bool) (F_of_dec : dec -> F) (parse_float : string -> option F)
         (V : vtables) (load : string -> option (obj F)) (file : string) (doc : obj F),
    load file = Some doc ->
    (is_valid_neuroml2 F_eqb F_ltb F_of_dec parse_float V load file = Some false <->
     validate F_eqb F_ltb F_of_dec parse_float V doc true <> []).
Proof. exact is_valid_neuroml2_spec. Qed.
Print Assumptions C03_file.

(* The full statement of C03 is FALSE on the faithful model of the code as shipped:
   (1) with the original recursion an exactly-tested facet of an inherited member of a child is not seen *)
Theorem C03_refuted_inherited :
  exists (doc cell : obj dec) (m : string),
    In cell (kids_of (field doc "iaf_cells")) /\
    violation dec_veqb dec_ltb (fun d => d) Gen_Bindings.T Gen_Schema.S cell m = Some VVal /\
    checkedb Inst_C03.V_original Gen_Bindings.T Gen_Schema.S (o_cls dec cell) m VVal = true /\
    x_validate Inst_C03.V_original cell true <> [] /\
    x_validate Inst_C03.V_original doc true = [].
Proof. exact Inst_C03.refuted_inherited. Qed.
Print Assumptions C03_refuted_inherited.

(* (2) the validators of NonNegativeInteger / PositiveInteger contain no range test (any recursion variant) *)
Theorem C03_refuted_range :
  exists (o : obj dec) (m : string),
    violation dec_veqb dec_ltb (fun d => d) Gen_Bindings.T Gen_Schema.S o m = Some VVal /\
    x_validate Gen_Validate.V o true = [].
Proof. exact Inst_C03.refuted_range. Qed.
Print Assumptions C03_refuted_range.

(* (3) nothing tests the occurrence constraints of a choice group *)
Theorem C03_refuted_choice :
  exists (o : obj dec),
    forallb (counts_ok (cnt_of o (exp_kids_of (cfuel Gen_Bindings.T) Gen_Bindings.T (o_cls dec o))))
            (eff_parts Gen_Schema.S (o_cls dec o)) = false /\
    x_validate Gen_Validate.V o true = [].
Proof. exact Inst_C03.refuted_choice. Qed.
Print Assumptions C03_refuted_choice.
