(* C09 — With build-time validation on, factories never hand back an invalid component.
   Model: Model/Super.v (component_factory_with, add_with, sess_run).  The validator itself is abstract
   (validate_ok : any function); the theorems say when it is consulted and what happens with its answer.
   The class argument of the real calls may be a class or its name: both are looked up by name in the module, the
   model has the one form `c : string` (the correspondence run exercises both).
   Everything below the Section holds for ALL table sets, classes, keyword lists, validators, orders of _get_members
   and histories; the statements after it are about the tables regenerated from nml.py on this run. *)
From Coq Require Import String List ZArith Bool.
From LNML Require Import Lib.Dec Model.Gds Model.Super Proofs.SuperP2 Proofs.SuperP3.
From Run Require Import Gen_Bindings Gen_Members Inst_C09.
Import ListNotations.
Open Scope string_scope.

Section C09.
Variable F : Type.
Variable F_eqb : F -> F -> bool.
Variable F_of_dec : dec -> F.
Variable setup_nml_cell : obj F -> obj F.
Variable str_ok : obj F -> bool.
Variable fixed : bool.                            (* with / without fixes/C10-badhint.patch: irrelevant here *)
Variable msf : string -> list mspec.              (* _get_members() per class: any tables, any order *)
Variable T : tables.

Notation factory v en val c kw := (component_factory_with F F_of_dec v setup_nml_cell (msf c) T en val c kw).
Notation add v en p child hint force val := (add_with F F_eqb F_of_dec v setup_nml_cell str_ok fixed msf T en p child hint force val).
Notation session v := (sess_run F F_eqb F_of_dec v setup_nml_cell str_ok fixed msf T).

(* switch on, flag on: what the factory hands back passes validate() *)
Theorem C09_valid : forall validate_ok c kw o w,
  factory validate_ok true true c kw = (Ret o, w) -> validate_ok o = true /\ w = [].
Proof. intros v c. exact (factory_valid F F_of_dec setup_nml_cell v (msf c) T c). Qed.

(* ... precisely: the constructed component if it validates, ValueError otherwise *)
Theorem C09_on : forall validate_ok c kw k0 fs,
  find_cls T c = Some k0 -> init_fields F F_of_dec (cfuel T) T c kw = Some fs ->
  (forall k, In k (map fst kw) -> In k (member_names (msf c))) ->
  let o := if String.eqb c "Cell" then setup_nml_cell (Obj c fs) else Obj c fs in
  factory validate_ok true true c kw = if validate_ok o then (Ret o, []) else (Err ExValidation, []).
Proof. intros v c. exact (factory_on F F_of_dec setup_nml_cell v (msf c) T c). Qed.

(* a keyword that is not a member of the type is refused — for both switch positions and both flag values *)
Theorem C09_typo : forall validate_ok enabled validate c kw k,
  In k (map fst kw) -> ~ In k (member_names (msf c)) ->
  exists e, fst (factory validate_ok enabled validate c kw) = Err e.
Proof. intros v en val c. exact (factory_typo F F_of_dec setup_nml_cell v (msf c) T en val c). Qed.

(* never silently ignored: a component is handed back only if every keyword given is a member name *)
Theorem C09_never_ignored : forall validate_ok enabled validate c kw o w,
  factory validate_ok enabled validate c kw = (Ret o, w) -> forall k, In k (map fst kw) -> In k (member_names (msf c)).
Proof. intros v en val c. exact (factory_ret_all_members F F_of_dec setup_nml_cell v (msf c) T en val c). Qed.

(* the global switch overrides the per-call flag *)
Theorem C09_switch : forall validate_ok en v c kw,
  factory validate_ok false v c kw = factory validate_ok en false c kw.
Proof. intros vo en v c. exact (factory_switch F F_of_dec setup_nml_cell vo (msf c) T en v c). Qed.

(* disabled globally or for the call = unvalidated: the validator is not consulted at all ... *)
Theorem C09_unvalidated : forall v1 v2 enabled validate c kw,
  enabled && validate = false -> factory v1 enabled validate c kw = factory v2 enabled validate c kw.
Proof. intros v1 v2 en val c. exact (factory_unvalidated F F_of_dec setup_nml_cell v1 v2 (msf c) T en val c). Qed.

(* ... and the same call returns the component the constructor made (arguments still checked) *)
Theorem C09_off_returns : forall validate_ok enabled validate c kw k0 fs,
  enabled && validate = false -> find_cls T c = Some k0 ->
  init_fields F F_of_dec (cfuel T) T c kw = Some fs ->
  (forall k, In k (map fst kw) -> In k (member_names (msf c))) ->
  factory validate_ok enabled validate c kw =
  (Ret (if String.eqb c "Cell" then setup_nml_cell (Obj c fs) else Obj c fs), [WDisabled]).
Proof. intros v en val c. exact (factory_off_returns F F_of_dec setup_nml_cell v (msf c) T en val c). Qed.

(* re-enabling restores checking: after ANY history of switch operations, factory calls and add calls, the switch
   is where the last switch operation put it — calls never move it *)
Theorem C09_session_switch : forall validate_ok h st,
  fst (session validate_ok st h) = sw_run (fst st) (switches F h).
Proof. intros v. exact (sess_switch F F_eqb F_of_dec setup_nml_cell str_ok fixed msf T v). Qed.

Theorem C09_reenable : forall validate_ok h st,
  fst (session validate_ok st (h ++ [OpSwitch F SwEnable])) = true /\
  fst (session validate_ok st (h ++ [OpSwitch F SwDisable])) = false.
Proof.
  intros v h st. split.
  - exact (sess_reenable F F_eqb F_of_dec setup_nml_cell str_ok fixed msf T v h st).
  - exact (sess_disable F F_eqb F_of_dec setup_nml_cell str_ok fixed msf T v h st).
Qed.

(* ---- the same for add() *)
(* switch on, flag on: a normal return means the parent passes validate(), and so does a child made from a class *)
Theorem C09_add_valid : forall validate_ok p child hint force x,
  let r := add validate_ok true p child hint force true in
  ao_res F r = Ret (Some x) ->
  validate_ok (ao_parent F r) = true /\ (forall c kw, child = ChCls F c kw -> validate_ok x = true).
Proof. intros v. exact (add_valid F F_eqb F_of_dec setup_nml_cell str_ok fixed msf T v). Qed.

Theorem C09_add_typo : forall validate_ok enabled validate p c kw hint force k,
  In k (map fst kw) -> ~ In k (member_names (msf c)) ->
  let r := add validate_ok enabled p (ChCls F c kw) hint force validate in
  (exists e, ao_res F r = Err e) /\ ao_parent F r = p.
Proof. intros v. exact (add_typo F F_eqb F_of_dec setup_nml_cell str_ok fixed msf T v). Qed.

Theorem C09_add_switch : forall validate_ok en v p child hint force,
  add validate_ok false p child hint force v = add validate_ok false p child hint force false /\
  add validate_ok en p child hint force false = add validate_ok false p child hint force false.
Proof. intros vo. exact (add_switch_eq F F_eqb F_of_dec setup_nml_cell str_ok fixed msf T vo). Qed.

Theorem C09_add_unvalidated : forall v1 v2 enabled validate p child hint force,
  enabled && validate = false ->
  add v1 enabled p child hint force validate = add v2 enabled p child hint force validate.
Proof. intros v1 v2. exact (add_unvalidated F F_eqb F_of_dec setup_nml_cell str_ok fixed msf T v1 v2). Qed.
End C09.

(* the switch alone: the last operation wins *)
Theorem C09_switch_last : forall s h, sw_run s (h ++ [SwEnable]) = true /\ sw_run s (h ++ [SwDisable]) = false.
Proof. intros s h. split; [apply sw_reenable|apply sw_disable]. Qed.

Print Assumptions C09_valid.
Print Assumptions C09_on.
Print Assumptions C09_typo.
Print Assumptions C09_never_ignored.
Print Assumptions C09_switch.
Print Assumptions C09_unvalidated.
Print Assumptions C09_off_returns.
Print Assumptions C09_session_switch.
Print Assumptions C09_reenable.
Print Assumptions C09_add_valid.
Print Assumptions C09_add_typo.
Print Assumptions C09_add_switch.
Print Assumptions C09_add_unvalidated.
Print Assumptions C09_switch_last.

(* ---- "valid" means: accepted by validate() called with its default arguments.  The real validate has a parameter `recursive`;
   a build-time call site consults validate_at_site v default arg.  Instance obligation build_time_validate_is_default_validate:
   both sites pass nothing or the default literal.  Then what the factory hands back with validation on passes the plain validate(). *)
Section C09_default.
Variable F : Type.
Variable F_of_dec : dec -> F.
Variable setup_nml_cell : obj F -> obj F.
Variable msf : string -> list mspec.
Variable T : tables.
Theorem C09_valid_default : forall (v : bool -> obj F -> bool) default arg c kw o w,
  site_agrees default arg = true ->
  component_factory_with F F_of_dec (validate_at_site v default arg) setup_nml_cell (msf c) T true true c kw = (Ret o, w) ->
  v default o = true.
Proof.
  intros v default arg c kw o w A H. rewrite (validate_at_site_default v default arg A) in H.
  exact (proj1 (factory_valid F F_of_dec setup_nml_cell (v default) (msf c) T c kw o w H)).
Qed.
End C09_default.
Print Assumptions C09_valid_default.

Theorem C09_build_time_validate_is_default_validate :
  build_time_rec_agreesb Gen_Members.validate_default_recursive Gen_Members.validate_sites = true.
Proof. exact Inst_C09.build_time_validate_is_default_validate. Qed.
Print Assumptions C09_build_time_validate_is_default_validate.

(* ---- the switch across threads.  The model's switch is ONE cell for the whole process (Super.sess_run carries one boolean).
   Instance obligation switch_is_plain_global: ENABLED is a bool literal assigned to a module-level name of a module that contains
   nothing else, and the helpers assign/read that attribute: a cell shared by all threads.  The correspondence run records, after
   every operation issued from the main thread, a pool worker or a thread started for it, what every live thread observes
   (ts_seen); when the recorded trace has no mismatch, every thread saw the position determined by the switch operations so far,
   whichever thread issued them. *)
Theorem C09_switch_every_thread : forall l st, switch_trace_mismatches st 0 l = [] ->
  forall pre s post, l = (pre ++ s :: post)%list -> forall tv, In tv (ts_seen s) ->
  snd tv = sw_run st (trace_ops (pre ++ [s])).
Proof. intros l st. exact (trace_sound l st 0). Qed.
Print Assumptions C09_switch_every_thread.

Theorem C09_switch_thread_irrelevant : forall st l1 l2,
  map ts_op l1 = map ts_op l2 -> sw_run st (trace_ops l1) = sw_run st (trace_ops l2).
Proof. exact trace_thread_irrelevant. Qed.
Print Assumptions C09_switch_thread_irrelevant.

Theorem C09_switch_is_plain_global :
  switch_plain_globalb Gen_Members.switch_module Gen_Members.switch_helpers Gen_Members.switch_binding Gen_Members.switch_uses = true.
Proof. exact Inst_C09.switch_is_plain_global. Qed.
Print Assumptions C09_switch_is_plain_global.

(* ---- on the tables of this run (199 classes today) *)
Definition M := Gen_Members.M.
Definition members_now := members_of (fun l => l) M.
Definition ctor (c : string) := ctor_keywords Gen_Members.ctor_kw c.

(* instance obligation: every member name the argument check lets through is a constructor keyword (so it is used),
   and every constructor keyword is let through — reading __ANY__ as anytypeobjs_ *)
Theorem C09_members_are_keywords : forall k, In k M -> forall n,
  In n (ctor (mc_name k)) <-> In n (map rename_any (member_names (members_now (mc_name k)))).
Proof. exact (all_info_ctor_sound M Gen_Members.ctor_kw Inst_C09.info_ctor_ok). Qed.
Print Assumptions C09_members_are_keywords.

Notation factory_now c kw :=
  (component_factory unit (fun _ => tt) (fun _ => true) (fun o => o) (fun l => l) M Gen_Bindings.T true true c kw).

(* known finding (shared with C11): for the six classes with an xs:any member the keyword `__ANY__` passes the
   argument check and is swallowed by **kwargs_ (the component is the one made without it), while the real
   constructor keyword `anytypeobjs_` is refused *)
Theorem C09_any_refuted :
  factory_now "Annotation" [("__ANY__", VStr "lost")] = factory_now "Annotation" [] /\
  (exists o, fst (factory_now "Annotation" []) = Ret o) /\
  fst (factory_now "Annotation" [("anytypeobjs_", VRaw [])]) = Err (ExArg "anytypeobjs_").
Proof. vm_compute. split; [reflexivity|]. split; [eexists; reflexivity|reflexivity]. Qed.
Print Assumptions C09_any_refuted.

(* hypotheses are satisfiable on the tables of this run: a misspelt keyword is refused, a proper one accepted *)
Example C09_example_typo :
  fst (factory_now "IafCell" [("id", VStr "c"); ("tresh", VStr "-50mV")]) = Err (ExArg "tresh").
Proof. vm_compute. reflexivity. Qed.
Example C09_example_ok :
  exists o, fst (factory_now "IafCell" [("id", VStr "c"); ("thresh", VStr "-50mV")]) = Ret o.
Proof. vm_compute. eexists. reflexivity. Qed.
