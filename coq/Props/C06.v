(* C06 — Include resolution merges every included component once and always terminates.
   Model: Model/Includes.v (rd = loaders.py after fixes/C06-include-cycles.patch; rd_old = before).
   The file system fs is any finite map (a list), cwd any working directory, fuel-free statements. *)
From Coq Require Import String List Bool ZArith Arith Relations.
From LNML Require Import Model.Includes Proofs.IncludesP Proofs.IncludesP2 Proofs.IncludesP3.
Import ListNotations.

(* terminates for every include graph (self loops, cycles, diamonds ...), any already_included list:
   |files| + 2 levels of recursion are never exceeded and more fuel never changes the result *)
Theorem C06_terminates_file : forall fs cwd p al,
  read_entry_file fs cwd (enough fs) p al <> OutOfFuel /\
  forall k, enough fs <= k -> read_entry_file fs cwd k p al = read_entry_file fs cwd (enough fs) p al.
Proof. exact read_entry_file_terminates. Qed.
Print Assumptions C06_terminates_file.

Theorem C06_terminates_string : forall fs cwd x base al,
  read_entry_string fs cwd (enough fs) x base al <> OutOfFuel /\
  forall k, enough fs <= k ->
    read_entry_string fs cwd k x base al = read_entry_string fs cwd (enough fs) x base al.
Proof. exact read_entry_string_terminates. Qed.
Print Assumptions C06_terminates_string.

(* the measure behind it: every call that recurses has strictly fewer unmarked files *)
Theorem C06_measure : forall fs cwd k h5 loc al,
  unmarked fs al + 2 <= k -> rd fs cwd k h5 loc al <> OutOfFuel.
Proof. exact rd_no_oof. Qed.
Print Assumptions C06_measure.

(* union: a finished read has opened exactly the files reachable through the hrefs, each once, and its
   components are the merge (add_all_to_document) of their contributions in load order; no includes left *)
Theorem C06_union_file : forall fs cwd fuel p d al',
  read_entry_file fs cwd fuel p [] = Done (d, al') ->
  exists new,
    al' = p :: new /\ NoDup al' /\
    (forall q, In q al' <-> reach fs cwd p q) /\
    d_comps d = merge_all (contrib fs p) (map (contrib fs) new) /\
    d_incs d = [].
Proof. exact read_entry_file_spec. Qed.
Print Assumptions C06_union_file.

Theorem C06_union_string : forall fs cwd fuel x base d al',
  read_entry_string fs cwd fuel x base [] = Done (d, al') ->
  let b := match base with Some b => b | None => cwd end in
  NoDup al' /\
  (forall q, In q al' <-> exists h, In h (x_incs x) /\ reach fs cwd (resolve fs cwd b h) q) /\
  d_comps d = merge_all (x_comps x) (map (contrib fs) al') /\
  d_incs d = [].
Proof. exact read_entry_string_spec. Qed.
Print Assumptions C06_union_string.

(* once: what the merge keeps *)
Theorem C06_result_from_reachable : forall fs cwd fuel p d al' c,
  read_entry_file fs cwd fuel p [] = Done (d, al') ->
  In c (d_comps d) -> exists q, reach fs cwd p q /\ In c (contrib fs q).
Proof. exact result_from_reachable. Qed.
Print Assumptions C06_result_from_reachable.

Theorem C06_result_covers_reachable : forall fs cwd fuel p d al' q c,
  read_entry_file fs cwd fuel p [] = Done (d, al') ->
  reach fs cwd p q -> In c (contrib fs q) ->
  In c (d_comps d) \/ keyed c (d_comps d) = true.
Proof. exact result_covers_reachable. Qed.
Print Assumptions C06_result_covers_reachable.

Theorem C06_ids_once : forall fs cwd fuel p d al',
  read_entry_file fs cwd fuel p [] = Done (d, al') ->
  keys_unique (contrib fs p) -> keys_unique (d_comps d).
Proof. exact result_ids_once. Qed.
Print Assumptions C06_ids_once.

Theorem C06_file_contributes_once : forall fs cwd fuel p d al' e,
  read_entry_file fs cwd fuel p [] = Done (d, al') -> c_id e = NoIdField ->
  NoDup al' /\ (forall q, In q al' <-> reach fs cwd p q) /\
  count_occ comp_eq_dec (d_comps d) e = count_occ comp_eq_dec (concat (map (contrib fs) al')) e.
Proof. exact result_idless_count. Qed.
Print Assumptions C06_file_contributes_once.

(* the merge itself: associative (so the nesting of the recursion does not matter) and member-list-wise *)
Theorem C06_merge_assoc : forall x u t, add_all (add_all x u) t = add_all x (add_all u t).
Proof. exact add_all_assoc. Qed.
Print Assumptions C06_merge_assoc.

Theorem C06_merge_by_member_list : forall s l t, proj l (add_all s t) = add_all (proj l s) (proj l t).
Proof. exact proj_add_all. Qed.
Print Assumptions C06_merge_by_member_list.

(* same result from any working directory from which no (relative) href resolves *)
Theorem C06_cwd_file : forall fs cwd cwd',
  (forall h, In h (all_hrefs fs) -> cwd_free fs cwd cwd' h) ->
  forall fuel p al, read_entry_file fs cwd fuel p al = read_entry_file fs cwd' fuel p al.
Proof. exact read_entry_file_cwd. Qed.
Print Assumptions C06_cwd_file.

Theorem C06_cwd_string : forall fs cwd cwd' x,
  (forall h, In h (all_hrefs fs) -> cwd_free fs cwd cwd' h) ->
  (forall h, In h (x_incs x) -> cwd_free fs cwd cwd' h) ->
  forall fuel b al,
    read_entry_string fs cwd fuel x (Some b) al = read_entry_string fs cwd' fuel x (Some b) al.
Proof. exact read_entry_string_cwd. Qed.
Print Assumptions C06_cwd_string.

(* before the patch: any XML file whose first include names the file itself, or two files naming each
   other first, never returns (the real code: RecursionError) - for every amount of fuel *)
Theorem C06_terminates_refuted_before_patch_self : forall fs cwd p x h rest s,
  lookup p (fs_files fs) = Some (FXml x) -> entry_is_h5 p = false -> incl_kind p = IKXml ->
  x_incs x = h :: rest -> resolve fs cwd (dirname p) h = p -> mem_path p (l_own s) = false ->
  forall fuel, rd_old fs cwd fuel false false p s = OutOfFuel.
Proof. exact old_self_include_diverges. Qed.
Print Assumptions C06_terminates_refuted_before_patch_self.

Theorem C06_terminates_refuted_before_patch : exists fs cwd p,
  forall fuel, read_entry_file_old fs cwd fuel p {| l_own := []; l_glob := [] |} = OutOfFuel.
Proof. exact (ex_intro _ fs_self (ex_intro _ [] (ex_intro _ ["a.nml"%string] old_self_witness))). Qed.
Print Assumptions C06_terminates_refuted_before_patch.

Theorem C06_terminates_refuted_before_patch_mutual : exists fs cwd p,
  forall fuel, read_entry_file_old fs cwd fuel p {| l_own := []; l_glob := [] |} = OutOfFuel.
Proof.
  exact (ex_intro _ fs_mutual (ex_intro _ ["e"%string] (ex_intro _ ["d0"%string; "a.nml"%string] old_mutual_witness))).
Qed.
Print Assumptions C06_terminates_refuted_before_patch_mutual.

(* the union theorems are not vacuous: when the entry file can be loaded and every include that can be
   met names a file with a recognised extension and matching content, the read succeeds *)
Theorem C06_total_file : forall fs cwd p al,
  loads_ok fs false p -> safe fs cwd p ->
  exists d al', forall k, enough fs <= k -> read_entry_file fs cwd k p al = Done (d, al').
Proof. exact read_entry_file_total. Qed.
Print Assumptions C06_total_file.

(* optimized=True (it reaches only an HDF5 ENTRY file): same outcome and same files opened as the plain
   read; the components differ at most in how the file's own networks are put in *)
Theorem C06_optimized_vs_plain : forall fs cwd fuel opt p al,
  opt_rel (read_entry_file fs cwd fuel p al) (read_entry_file_opt fs cwd fuel opt p al).
Proof. exact optimized_vs_plain. Qed.
Print Assumptions C06_optimized_vs_plain.

Theorem C06_optimized_terminates : forall fs cwd opt p al,
  read_entry_file_opt fs cwd (enough fs) opt p al <> OutOfFuel /\
  forall k, enough fs <= k ->
    read_entry_file_opt fs cwd k opt p al = read_entry_file_opt fs cwd (enough fs) opt p al.
Proof. exact read_entry_file_opt_terminates. Qed.
Print Assumptions C06_optimized_terminates.

(* both flag values return the same union - a permutation, only the position of the own network differs -
   when no component met through the includes carries the id of one of the file's own networks *)
Theorem C06_optimized_same_union : forall fs cwd fuel p al nets x extra al',
  lookup p (fs_files fs) = Some (FH5 nets (Some x)) -> entry_is_h5 p = true ->
  read_entry_string fs cwd fuel x (Some (dirname p)) (mark p al) = Done (extra, al') ->
  read_entry_file fs cwd fuel p al = Done ({| d_comps := add_all (d_comps extra) nets; d_incs := [] |}, al') /\
  read_entry_file_opt fs cwd fuel true p al = Done ({| d_comps := (d_comps extra ++ nets)%list; d_incs := [] |}, al') /\
  (keys_unique (d_comps extra) -> (forall e, In e (d_comps extra) -> keyed e nets = false) ->
   Permutation.Permutation (add_all (d_comps extra) nets) (d_comps extra ++ nets)).
Proof. exact optimized_same_union. Qed.
Print Assumptions C06_optimized_same_union.

(* ... and refuted otherwise (known finding C06:id-twice:optimized-entry-own-network): the optimized branch
   appends the own network without the id test *)
Theorem C06_optimized_id_once_refuted : exists d d' al,
  read_entry_file fs_optdup [] (enough fs_optdup) ["n.nml.h5"%string] [] = Done (d, al) /\
  read_entry_file_opt fs_optdup [] (enough fs_optdup) true ["n.nml.h5"%string] [] = Done (d', al) /\
  map c_tag (d_comps d) = [1%Z] /\ map c_tag (d_comps d') = [2%Z; 1%Z] /\ ~ keys_unique (d_comps d').
Proof. exact optimized_id_twice_witness. Qed.
Print Assumptions C06_optimized_id_once_refuted.
