(* C18 — Array morphologies survive their file format; their views agree with the arrays. *)
From Coq Require Import String List ZArith Bool.
From LNML Require Import Model.ArrayMorph Proofs.ArrayMorphP.
Import ListNotations.
Open Scope Z_scope.

Theorem C18_convert_refuted :
  exists m : amorph vtx,
    tree_parentb (am_conn m) = true /\ root_index (am_conn m) = Some 0 /\ valid_morphology vtx m = true /\
    existsb (fun b => b) (am_mask m) = false /\
    map Some [] <> to_neuroml_morphology_orig vtx m /\
    to_neuroml_morphology_orig vtx m <> segments_view vtx m.
Proof. exact convert_orig_refuted. Qed.
Print Assumptions C18_convert_refuted.
