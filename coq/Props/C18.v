(* C18 — Array morphologies survive their file format; their views agree with the arrays.
   Model: Model/ArrayMorph.v (tied to neuroml/arraymorph.py, writers.py, loaders.py by the correspondence run of
   checks/c18.py on every run).  No theorem below carries a size, depth or step bound. *)
From Coq Require Import String List ZArith Bool Permutation.
From LNML Require Import Model.ArrayMorph Proofs.ArrayMorphP Proofs.ArrayMorphPView Proofs.ArrayMorphPStore.
Import ListNotations.
Open Scope Z_scope.

(* ---- re-rooting: for EVERY tree given by parent indices and EVERY vertex i, the Python loop of to_root (fuel =
   len(connectivity)) terminates without IndexError, keeps the undirected edges (the edge list, each edge as (min, max), is
   duplicate-free on a tree and is permuted), leaves exactly i as root, and the result is again a tree (so the
   statement can be iterated) *)
Theorem C18_to_root : forall (c : list Z) (i : Z),
    tree_parent c -> 0 <= i < zlen c ->
    exists c', to_root c i = Ok c' /\ length c' = length c /\
               Permutation (undirected_edges c') (undirected_edges c) /\
               roots c' = [i] /\ tree_parent c'.
Proof. exact to_root_tree_perm. Qed.
Print Assumptions C18_to_root.

Theorem C18_to_root_any_sequence : forall (indices : list Z) (c : list Z),
    tree_parent c -> (forall i, In i indices -> 0 <= i < zlen c) ->
    exists c', to_root_seq c indices = Ok c' /\ length c' = length c /\
               Permutation (undirected_edges c') (undirected_edges c) /\
               roots c' = match indices with [] => roots c | _ => [last indices 0] end /\ tree_parent c'.
Proof. exact to_root_seq_tree_perm. Qed.
Print Assumptions C18_to_root_any_sequence.

(* the executable check evaluated on the generated inputs implies the hypothesis *)
Theorem C18_tree_check_sound : forall c, tree_parentb c = true -> tree_parent c.
Proof. exact tree_parentb_sound. Qed.
Print Assumptions C18_tree_check_sound.

(* ---- segment view: a morphology given as arrays, no floating vertices, a tree rooted at vertex 0:
   exactly one segment per non-root vertex (the list of segments is the image of the duplicate-free list of the
   vertices that have a parent), whose end points are that vertex's row and its parent's row (strict indexing) *)
Theorem C18_segment_view : forall (V : Type) (m : amorph V),
    no_floating V m = true -> valid_morphology V m = true ->
    tree_parent (am_conn m) -> root_index (am_conn m) = Some 0 ->
    num_segments V m = zlen (non_root_vertices (am_conn m)) /\
    NoDup (non_root_vertices (am_conn m)) /\
    (forall v, In v (non_root_vertices (am_conn m)) <-> (exists p, zget (am_conn m) v = Some p /\ p <> -1)) /\
    segments_view V m = map (expected_segment V m) (non_root_vertices (am_conn m)) /\
    forall v, In v (non_root_vertices (am_conn m)) ->
      exists p nv pv, zget (am_conn m) v = Some p /\ 0 <= p < zlen (am_conn m) /\
                      sget (am_vertices m) v = Some nv /\ sget (am_vertices m) p = Some pv /\
                      expected_segment V m v = Some {| sg_id := v; sg_prox := nv; sg_dist := pv;
                                                       sg_parent := if 1 <? v then Some p else None |}.
Proof. exact segments_view_spec. Qed.
Print Assumptions C18_segment_view.

(* ---- conversion to a plain morphology (repaired code, fixes/C18-convert-range.patch) yields those same segments *)
Theorem C18_convert_agrees_with_view : forall (V : Type) (m : amorph V),
    no_floating V m = true -> to_neuroml_morphology V m = segments_view V m.
Proof. exact convert_is_view. Qed.
Print Assumptions C18_convert_agrees_with_view.

(* the pinned code (range(num_vertices - 1)) is refuted: segment 0 runs from the root to the LAST row, vertex 3 has none *)
Theorem C18_convert_refuted :
  exists m : amorph vtx,
    no_floating vtx m = true /\ valid_morphology vtx m = true /\ tree_parent (am_conn m) /\
    root_index (am_conn m) = Some 0 /\
    to_neuroml_morphology_orig vtx m <> segments_view vtx m /\
    hd None (to_neuroml_morphology_orig vtx m)
      = Some {| sg_id := 0; sg_prox := (0,0,0,1); sg_dist := (3,0,0,4); sg_parent := None |} /\
    ~ In 3 (map (fun s => match s with Some x => sg_id x | None => -1 end) (to_neuroml_morphology_orig vtx m)).
Proof. exact convert_orig_refuted. Qed.
Print Assumptions C18_convert_refuted.

(* ---- file round trip (repaired writer, fixes/C18-standalone-morphology.patch), for ANY document of cells and
   stand-alone morphologies whose top-level group names are distinct, over ANY store that behaves like PyTables:
   hypotheses pt_* (a new file is empty; create_group/create_array succeed exactly when the parent is a group
   without a child of that name and then add exactly that node; iteration yields every child once in an order that
   depends on the names only; what was written under a path is what is read).  The loaded morphologies are the
   written ones (arrays identical), as a multiset: the loader does not restore names. *)
Theorem C18_document_roundtrip :
  forall (V store : Type) (st_empty : store)
         (st_mkgroup : store -> path -> string -> option store)
         (st_mkarray : store -> path -> string -> arr V -> option store)
         (st_children : store -> path -> list string)
         (st_read : store -> path -> option (arr V))
         (view : store -> fstore V) (order : list string -> list string),
    view st_empty = f_empty V ->
    (forall s p n, sim V store view (st_mkgroup s p n) (f_mkgroup V (view s) p n)) ->
    (forall s p n a, sim V store view (st_mkarray s p n a) (f_mkarray V (view s) p n a)) ->
    (forall s p, st_children s p = order (f_names V (view s) p)) ->
    (forall l, Permutation (order l) l) ->
    (forall s p, st_read s p = f_read V (view s) p) ->
    forall d : adoc V,
      NoDup (top_names V d) /\ ~ In "vertices"%string (cell_morph_names V 0 (d_cells d)) ->
      exists s ms, write_document V store st_empty st_mkgroup st_mkarray d = Some s /\
                   load V store st_children st_read s = Some ms /\
                   Permutation ms (map (strip V) (doc_morphologies V d)).
Proof. exact document_roundtrip. Qed.
Print Assumptions C18_document_roundtrip.

(* an ArrayMorphology written on its own: always, no condition *)
Theorem C18_morphology_roundtrip :
  forall (V store : Type) (st_empty : store)
         (st_mkgroup : store -> path -> string -> option store)
         (st_mkarray : store -> path -> string -> arr V -> option store)
         (st_children : store -> path -> list string)
         (st_read : store -> path -> option (arr V))
         (view : store -> fstore V) (order : list string -> list string),
    view st_empty = f_empty V ->
    (forall s p n, sim V store view (st_mkgroup s p n) (f_mkgroup V (view s) p n)) ->
    (forall s p n a, sim V store view (st_mkarray s p n a) (f_mkarray V (view s) p n a)) ->
    (forall s p, st_children s p = order (f_names V (view s) p)) ->
    (forall l, Permutation (order l) l) ->
    (forall s p, st_read s p = f_read V (view s) p) ->
    forall m : amorph V,
      exists s, write_morphology V store st_empty st_mkgroup st_mkarray m = Some s /\
                load V store st_children st_read s = Some [strip V m].
Proof. exact morphology_roundtrip. Qed.
Print Assumptions C18_morphology_roundtrip.

(* the store hypotheses are satisfiable: the reference store with sorted iteration (the one the cases files evaluate
   and compare with PyTables) is an instance *)
Theorem C18_store_hypotheses_satisfiable : forall V : Type,
    (fun f : fstore V => f) (f_empty V) = f_empty V /\
    (forall s p n, sim V (fstore V) (fun f => f) (f_mkgroup V s p n) (f_mkgroup V s p n)) /\
    (forall s p n a, sim V (fstore V) (fun f => f) (f_mkarray V s p n a) (f_mkarray V s p n a)) /\
    (forall s p, f_children V sort_names s p = sort_names (f_names V s p)) /\
    (forall l, Permutation (sort_names l) l) /\
    (forall s p, f_read V s p = f_read V s p).
Proof. exact reference_store_is_an_instance. Qed.
Print Assumptions C18_store_hypotheses_satisfiable.

(* the same statement for the evaluated model (what the correspondence run compares with the implementation) *)
Theorem C18_model_roundtrip : forall (V : Type) (d : adoc V),
    NoDup (top_names V d) /\ ~ In "vertices"%string (cell_morph_names V 0 (d_cells d)) ->
    exists ms, roundtrip_document V d = RtOk V ms /\ Permutation ms (map (strip V) (doc_morphologies V d)).
Proof. exact model_roundtrip. Qed.
Print Assumptions C18_model_roundtrip.

(* the pinned writer (cell_id=cell.id left over from the first loop) is refuted: UnboundLocalError without cells,
   NodeError after a cell; and it can never write a document that has a stand-alone morphology *)
Theorem C18_doc_refuted :
  doc_ok vtx w_doc0 /\ doc_ok vtx w_doc1 /\
  roundtrip_document_orig vtx w_doc0 = RtUnbound vtx /\ roundtrip_document_orig vtx w_doc1 = RtNodeError vtx.
Proof. exact doc_orig_refuted. Qed.
Print Assumptions C18_doc_refuted.

Theorem C18_pinned_writer_never_writes_standalone : forall (V : Type) (d : adoc V),
    d_morphs d <> [] -> forall f, l_write_document_orig V d <> WOk f.
Proof. exact orig_never_writes_standalone. Qed.
Print Assumptions C18_pinned_writer_never_writes_standalone.

(* ---- the executable domain checks that Coq evaluates on every generated input imply the hypotheses above *)
Theorem C18_domain_checks_sound :
  (forall c indices, to_root_domb c indices = true -> tree_parent c /\ forall i, In i indices -> 0 <= i < zlen c) /\
  (forall (V : Type) (m : amorph V), view_domb m = true ->
     no_floating V m = true /\ valid_morphology V m = true /\ tree_parent (am_conn m) /\ root_index (am_conn m) = Some 0) /\
  (forall (V : Type) (d : adoc V), doc_domb d = true ->
     NoDup (top_names V d) /\ ~ In "vertices"%string (cell_morph_names V 0 (d_cells d))).
Proof. exact (conj to_root_domb_sound (conj view_domb_sound doc_domb_sound)). Qed.
Print Assumptions C18_domain_checks_sound.

(* ---- frame.  The model is functional: `to_root c i` is a NEW connectivity, the arrays a morphology was built from and
   every other morphology built from them are values that no operation can change.  For two morphologies A, B built from
   the same arrays and ANY interleaving of re-rootings, each ends as its own sequence alone would leave it, and a
   morphology that was not re-rooted still has exactly the connectivity it was given (so its segment view and
   conversion are those of C18_segment_view).  The correspondence run checks the implementation against this:
   it builds A and B from the same numpy arrays and compares both, and the caller's arrays, after every operation. *)
Theorem C18_frame : forall (ops : list (who * Z)) (c : list Z),
    tree_parent c -> (forall o, In o ops -> 0 <= snd o < zlen c) ->
    exists a b, run_two c c ops = Ok (a, b) /\
                to_root_seq c (ops_of MA ops) = Ok a /\ to_root_seq c (ops_of MB ops) = Ok b /\
                Permutation (undirected_edges a) (undirected_edges c) /\
                Permutation (undirected_edges b) (undirected_edges c) /\
                tree_parent a /\ tree_parent b /\
                (ops_of MB ops = [] -> b = c) /\ (ops_of MA ops = [] -> a = c).
Proof. exact run_two_frame. Qed.
Print Assumptions C18_frame.

(* ---- what the path held before.  A history = any list of ArrayMorphWriter.write(data, path) calls on ONE path (documents
   or single morphologies), each followed by a load, starting from any file content: every step gives exactly what it
   gives on a fresh path (the writer opens with mode "w": Inst_C18.static_ok, regenerated from writers.py on every run),
   so C18_model_roundtrip / C18_morphology_roundtrip apply to every step.  The correspondence run writes such histories
   (different documents, and an edited document with the same ids) to one path and compares each load. *)
Theorem C18_file_history : forall (V : Type) (xs : list (hitem V)) (file : fstore V),
    roundtrip_history V file xs = map (roundtrip_item V) xs.
Proof. exact history_independent. Qed.
Print Assumptions C18_file_history.

(* ---- negative clause of the segment view: m.segments[k] for ANY integer k (negative k wraps on the index table as
   numpy does) either is refused or is the segment of a non-root vertex with that vertex's row and its parent's row as
   end points; the root vertex never gets a segment.  The correspondence run probes -1, -(n-1), -n, -(n+1), n-1, n,
   len on every view case and on every loaded morphology and compares each answer / refusal with segment_at. *)
Theorem C18_view_answers_only_non_root : forall (V : Type) (m : amorph V),
    no_floating V m = true -> valid_morphology V m = true ->
    tree_parent (am_conn m) -> root_index (am_conn m) = Some 0 ->
    forall k s, segment_at V m k = Some s ->
      In (sg_id s) (non_root_vertices (am_conn m)) /\ expected_segment V m (sg_id s) = Some s.
Proof. exact view_answers_only_non_root. Qed.
Print Assumptions C18_view_answers_only_non_root.
