(* C14 - Segment-group membership is the transitive closure; optimising never changes it.

   resolve      = Cell.get_all_segments_in_group(id)     (fuel = recursion depth available)
   optimise_all = Cell.optimise_segment_groups()         (the method as repaired by
                                                           fixes/C14-optimise-multiple-includes.patch;
                                                           optimise_all_v0 = as shipped at the pinned commit)
   reach        = least relation closed under "is a member" and "is in an included group"
   sortS/sortZ  = natsort.natsorted on group ids / segment ids: ANY functions that permute their
                  argument and leave their own output unchanged.
   Quantifiers: every segment list, every group list (any size, order, overlaps, duplicates, number of
   includes per group) whose include graph is acyclic (a rank function exists) and closed (every
   include names a defined group, or the undefined "all" which the code resolves to all segments). *)
From Coq Require Import String List ZArith Bool Permutation.
From LNML Require Import Model.Groups Proofs.GroupsP Proofs.GroupsSortP Proofs.GroupsC14P.
Import ListNotations.
Open Scope string_scope.

(* (1) the segments of a group are exactly those reachable through members and, transitively,
       included groups, each reported once *)
Theorem C14_closure : forall segs G fuel a,
  acyclic G -> closed G -> NoDup segs -> length G < fuel -> (In a (map gid G) \/ a = "all") ->
  exists l, resolve segs fuel G a = Ret l /\ NoDup l /\ forall s, In s l <-> reach segs G a s.
Proof. exact closure. Qed.
Print Assumptions C14_closure.

(* whatever is returned IS the closure - no hypothesis on the graph at all *)
Theorem C14_closure_whenever_it_returns : forall segs G fuel a l,
  resolve segs fuel G a = Ret l -> (forall s, In s l <-> reach segs G a s) /\ (NoDup segs -> NoDup l).
Proof. exact resolve_spec. Qed.
Print Assumptions C14_closure_whenever_it_returns.

(* one step at a time: the group's own members, then what each include resolves to *)
Theorem C14_closure_unfold : forall segs G fuel a g,
  acyclic G -> closed G -> length G < fuel -> lookup G a = Some g ->
  exists l, resolve segs fuel G a = Ret l /\
    forall s, In s l <-> In s (members g) \/
                         exists i li, In i (includes g) /\ resolve segs fuel G i = Ret li /\ In s li.
Proof. exact closure_unfold. Qed.
Print Assumptions C14_closure_unfold.

(* (1') get_ordered_segments_in_groups lists exactly those segments, each once, however many routes (a direct member that
       an included group also supplies, two included groups sharing a segment) lead to one *)
Theorem C14_ordered_once : forall segs G fuel a,
  acyclic G -> closed G -> NoDup segs -> length G < fuel -> (In a (map gid G) \/ a = "all") ->
  exists l, ordered_ids segs fuel G a = Ret l /\ NoDup l /\ forall s, In s l <-> reach segs G a s.
Proof. exact ordered_once. Qed.
Print Assumptions C14_ordered_once.

(* (2) optimising returns, keeps the list of groups, and never changes the resolved set of any group *)
Theorem C14_preserve :
  forall (sortS : list string -> list string) (sortZ : list Z -> list Z),
    (forall l, Permutation (sortS l) l) -> (forall l, Permutation (sortZ l) l) ->
  forall segs G fuel,
    acyclic G -> closed G -> NoDup segs -> length G < fuel -> ~ In "" (map gid G) ->
    exists G', optimise_all sortS sortZ segs fuel G = Ret G' /\
      map gid G' = map gid G /\ map nlex G' = map nlex G /\
      forall a, (In a (map gid G) \/ a = "all") ->
        exists l l', resolve segs fuel G a = Ret l /\ resolve segs fuel G' a = Ret l' /\
                     NoDup l' /\ forall s, In s l <-> In s l'.
Proof. exact preserve. Qed.
Print Assumptions C14_preserve.

(* (2') the same for ONE call of optimise_segment_group(a) on whatever the cell's groups currently are
   (after any edits): every group's closure is kept and group a is left clean *)
Theorem C14_single_group :
  forall (sortS : list string -> list string) (sortZ : list Z -> list Z),
    (forall l, Permutation (sortS l) l) -> (forall l, Permutation (sortZ l) l) ->
  forall segs G fuel a G',
    acyclic G -> optimise_group sortS sortZ segs fuel G a = Ret G' ->
    map gid G' = map gid G /\
    (forall b s, reach segs G b s <-> reach segs G' b s) /\
    exists g', lookup G' a = Some g' /\ NoDup (members g') /\ NoDup (includes g') /\
               forall s i, In s (members g') -> In i (includes g') -> ~ reach segs G' i s.
Proof. exact single_group. Qed.
Print Assumptions C14_single_group.

(* (3) it leaves no duplicate member, no duplicate include, and no member that an included group supplies *)
Theorem C14_clean :
  forall (sortS : list string -> list string) (sortZ : list Z -> list Z),
    (forall l, Permutation (sortS l) l) -> (forall l, Permutation (sortZ l) l) ->
  forall segs G fuel G',
    acyclic G -> NoDup (map gid G) -> optimise_all sortS sortZ segs fuel G = Ret G' ->
    forall g, In g G' ->
      NoDup (members g) /\ NoDup (includes g) /\
      forall i l s, In i (includes g) -> resolve segs fuel G' i = Ret l -> In s (members g) -> ~ In s l.
Proof. exact clean_after. Qed.
Print Assumptions C14_clean.

(* (4) applying it twice gives the same result as once *)
Theorem C14_idem :
  forall (sortS : list string -> list string) (sortZ : list Z -> list Z),
    (forall l, Permutation (sortS l) l) -> (forall l, Permutation (sortZ l) l) ->
    (forall l, sortS (sortS l) = sortS l) -> (forall l, sortZ (sortZ l) = sortZ l) ->
  forall segs G fuel G',
    acyclic G -> closed G -> NoDup (map gid G) -> length G < fuel ->
    optimise_all sortS sortZ segs fuel G = Ret G' -> optimise_all sortS sortZ segs fuel G' = Ret G'.
Proof. exact idem. Qed.
Print Assumptions C14_idem.

(* the sort hypotheses are met by the sorts the model is run with against the real natsort *)
Theorem C14_sort_hypotheses_met :
  (forall l, Permutation (natsortS l) l) /\ (forall l, Permutation (isortZ l) l) /\
  (forall l, natsortS (natsortS l) = natsortS l) /\ (forall l, isortZ (isortZ l) = isortZ l).
Proof. exact (conj natsortS_perm (conj isortZ_perm (conj natsortS_idem isortZ_idem))). Qed.
Print Assumptions C14_sort_hypotheses_met.

(* the graph hypotheses are met by non-trivial cells (chain of includes, overlaps, duplicates,
   include of the undefined "all") *)
Theorem C14_hypotheses_satisfiable :
  acyclic ex_G /\ closed ex_G /\ NoDup (map gid ex_G) /\ NoDup ex_segs /\
  length ex_G < default_fuel ex_G /\ ~ In "" (map gid ex_G).
Proof. exact ex_hyps. Qed.
Print Assumptions C14_hypotheses_satisfiable.

(* the method AS SHIPPED violates (3): with two includes a member is appended once per include that
   does not supply it (members [0,1,2], includes a={0}, b={1}  ->  [0,1,2,2]) *)
Theorem C14_clean_v0_refuted : exists segs G G',
  acyclic G /\ closed G /\ NoDup (map gid G) /\
  optimise_all_v0_c segs (default_fuel G) G = Ret G' /\
  clean_b segs (default_fuel G) G' = false /\
  exists g, In g G' /\ members g = [0; 1; 2; 2]%Z.
Proof. exact clean_v0_refuted. Qed.
Print Assumptions C14_clean_v0_refuted.

(* ... and coincides with the repaired method when no group has two distinct includes, so that
   (2)-(4) hold for the shipped code on such cells *)
Theorem C14_clean_v0_partial :
  forall (sortS : list string -> list string) (sortZ : list Z -> list Z),
    (forall l, Permutation (sortS l) l) ->
  forall segs fuel G,
    (forall g, In g G -> length (dedupS (includes g)) <= 1) ->
    optimise_all_v0 sortS sortZ segs fuel G = optimise_all sortS sortZ segs fuel G.
Proof. exact v0_agrees_when_few_includes. Qed.
Print Assumptions C14_clean_v0_partial.
