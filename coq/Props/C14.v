From Coq Require Import String List ZArith Bool.
From LNML Require Import Model.Groups.
Theorem C14_stub : forall l, add_new l [] = l.
Proof. reflexivity. Qed.
Print Assumptions C14_stub.
