(* C02, well-formedness clause: what the writer prints for a string-valued attribute and for element text is
   well-formed XML that reads back as the same string.  The escaping functions of nml.py (quote_attrib, quote_xml,
   quote_xml_aux, CDATA_pattern_) are regenerated into Run.Gen_Escape by translators/tr_escape.py on every run;
   Run.Inst_Escape states that they are the reference tables of Model/Escape.v, about which the round trips are proved
   (Proofs/EscapeP.v, shared with C01).  attr_parse / text_parse are the model of an XML 1.0 reader (None = not
   well-formed). *)
From Coq Require Import String List Bool ZArith.
From LNML Require Import Lib.Dec Model.Escape Proofs.EscapeP.
From Run Require Import Gen_Escape Inst_Escape.

(* every printable attribute value -- < > & both quote characters together, newline included -- is written as a
   well-formed quoted attribute value denoting the same string *)
Theorem C02_wellformed_attribute : forall s, printable s = true -> attr_parse (gen_quote_attrib s) = Some s.
Proof. exact (attr_roundtrip_printable_gen _ _ gen_attrib_repl_is_ref gen_attrib_decision_is_ref). Qed.
Print Assumptions C02_wellformed_attribute.

(* element text (notes and other text children) *)
Theorem C02_wellformed_text : forall s, printable s = true -> no_cdata_section s = true ->
  text_parse (gen_quote_xml s) = Some s.
Proof. exact (text_roundtrip_printable_gen _ _ _ _ gen_xml_repl_is_ref gen_quote_xml_body_is_ref gen_cdata_regex_is_ref). Qed.
Print Assumptions C02_wellformed_text.
