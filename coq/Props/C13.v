(* C13 — Morphology metrics equal their definition on every tree.

   Model:  Model/Morph.v mirrors the Cell helper methods on the segment list in document order.
   Domain: wf c = the segments form a rooted tree: distinct ids, exactly one parentless segment, every segment reaches
           it through its parent chain — ANY document order, ids and fraction_along.  C13_every_built_tree: every list
           built from a parentless root by adding segments with a fresh id under an existing parent, in any document
           order, is wf.  C13_domain_decidable: wf is decided by wfb, which the kernel evaluates on every generated case;
           root_has_prox c = the parentless segment carries its own proximal point.
   Definition side (Model/Morph.v, bottom): ActProx (effective proximal point), DistRoot (distance from the root),
           children (in document order), gpath (paths of the graph with their weights).
   `len` is an arbitrary length function in the graph / ordering theorems; at run time it is the table of
           seg_length values (C13_segment_length says what those are).
   No theorem bounds the size, depth or branching of the tree. *)
From Coq Require Import List ZArith QArith Sorted Permutation.
From LNML Require Import Model.Morph Proofs.MorphP Proofs.MorphP1 Proofs.MorphP2 Proofs.MorphP3 Proofs.MorphP4 Proofs.MorphP5 Proofs.MorphP6.
Import ListNotations.
Open Scope Z_scope.

(* 1. effective proximal point: computed for every segment, and it is the segment's own point or else the point at
      fraction_along on the parent (recursively); the definition determines it uniquely *)
Theorem C13_actual_proximal : forall c s, wf c -> root_has_prox c -> In s c ->
  exists p, actual_prox (fuel_of c) c (sid s) = Ok p /\ ActProx c (sid s) p.
Proof. exact actual_prox_spec. Qed.
Print Assumptions C13_actual_proximal.

Theorem C13_actual_proximal_unique : forall c id p q, wf c -> ActProx c id p -> ActProx c id q -> pt_eq p q.
Proof. exact actprox_unique_wf. Qed.
Print Assumptions C13_actual_proximal_unique.

(* 2. segment length = Euclidean distance from the effective proximal point to the distal point *)
Theorem C13_segment_length : forall c s l, wf c -> root_has_prox c -> In s c ->
  seg_length (fuel_of c) c (sid s) = Ok l ->
  exists p, ActProx c (sid s) p /\ (l * l == sqdist p (sdist s))%Q /\ (0 <= l)%Q.
Proof. exact seg_length_spec. Qed.
Print Assumptions C13_segment_length.

(* 3. adjacency list: the children in document order; no entry for a segment without children (every segment list) *)
Theorem C13_adjacency : forall c p,
  alookup (adjacency c) p = match children c p with [] => None | l => Some l end.
Proof. exact adjacency_spec. Qed.
Print Assumptions C13_adjacency.

(* 4. graph: every segment is a node; one edge parent -> child per segment with a parent, weight len(parent)*fraction *)
Theorem C13_graph : forall len c, wf c ->
  exists g, get_graph len c = Ok g /\
    (forall n, In n (gnodes g) <-> In n (ids c)) /\
    (forall a b w, In (a, b, w) (gedges g) <->
                   exists s f, In s c /\ sid s = b /\ sparent s = Some (a, f) /\ w = (len a * f)%Q).
Proof. exact graph_spec. Qed.
Print Assumptions C13_graph.

(* 5. root, branch points, tips *)
Theorem C13_root : forall len c, wf c ->
  exists r, In r c /\ sparent r = None /\ morphology_root c (graph_of len c) = Ok (sid r).
Proof. exact morphology_root_spec. Qed.
Print Assumptions C13_root.

Theorem C13_branching_points : forall len c n, wf c ->
  (In n (branching_points (graph_of len c)) <-> In n (ids c) /\ (2 <= length (children c n))%nat).
Proof. exact branching_points_spec. Qed.
Print Assumptions C13_branching_points.

Theorem C13_tips : forall len c, wf c ->
  exists l, extremities (fuel_of c) c (graph_of len c) = Ok l /\
            (forall t d, In (t, d) l -> In t (ids c) /\ children c t = [] /\ DistRoot len c t d) /\
            (forall t, In t (ids c) -> children c t = [] -> exists d, In (t, d) l).
Proof. exact extremities_spec. Qed.
Print Assumptions C13_tips.

(* 6. distance from the root through the graph, for ANY implementation of Dijkstra that on this directed tree returns
      the weight of a path when it returns, and returns whenever a path exists (the networkx hypotheses) *)
Theorem C13_distance_any_dijkstra : forall (nx : graph -> Z -> Z -> res Q) len c, wf c ->
  (forall s t d, nx (graph_of len c) s t = Ok d -> exists d', gpath (graph_of len c) s t d' /\ (d == d')%Q) ->
  (forall s t d, In s (gnodes (graph_of len c)) -> gpath (graph_of len c) s t d -> exists d', nx (graph_of len c) s t = Ok d') ->
  forall r, In r c -> sparent r = None ->
  (forall t d, nx (graph_of len c) (sid r) t = Ok d -> DistRoot len c t d) /\
  (forall s, In s c -> exists d, nx (graph_of len c) (sid r) (sid s) = Ok d) /\
  (forall s t d ds, nx (graph_of len c) s t = Ok d -> DistRoot len c s ds -> DistRoot len c t (ds + d)%Q).
Proof. exact any_dijkstra_spec. Qed.
Print Assumptions C13_distance_any_dijkstra.

(* the executable Dijkstra-on-a-tree of the model (the one run against networkx) satisfies both hypotheses *)
Theorem C13_model_dijkstra_meets_hypotheses : forall len c, wf c ->
  (forall s t d, nx_dist (fuel_of c) (graph_of len c) s t = Ok d -> exists d', gpath (graph_of len c) s t d' /\ (d == d')%Q) /\
  (forall s t d, In s (gnodes (graph_of len c)) -> gpath (graph_of len c) s t d ->
                 exists d', nx_dist (fuel_of c) (graph_of len c) s t = Ok d').
Proof. exact model_dijkstra_meets_hypotheses. Qed.
Print Assumptions C13_model_dijkstra_meets_hypotheses.

Theorem C13_distance_from_root : forall len c r s, wf c -> In r c -> sparent r = None -> In s c ->
  exists d, nx_dist (fuel_of c) (graph_of len c) (sid r) (sid s) = Ok d /\ DistRoot len c (sid s) d.
Proof. exact nx_dist_root_total. Qed.
Print Assumptions C13_distance_from_root.

Theorem C13_distance_unique : forall len c id d e, wf c -> DistRoot len c id d -> DistRoot len c id e -> (d == e)%Q.
Proof. exact distroot_unique_wf. Qed.
Print Assumptions C13_distance_unique.

(* 7. all distances from a segment: exactly the segments reachable by a path, each with the path's weight *)
Theorem C13_all_distances : forall len c src, wf c -> In src (ids c) ->
  exists l, nx_sssp (fuel_of c) (graph_of len c) src None = Ok l /\
    (forall t d p, In (t, d, p) l -> exists w, gpath (graph_of len c) src t w /\ (d == w)%Q) /\
    (forall t w, gpath (graph_of len c) src t w -> exists d p, In (t, d, p) l /\ (d == w)%Q).
Proof. exact nx_sssp_spec. Qed.
Print Assumptions C13_all_distances.

(* 8. segments at distance d from src: those of non-zero length below src that contain the point at distance d,
      with the fraction along them (0 <= fraction <= 1) *)
Theorem C13_segments_at_distance_sound : forall len c dist src l t fr, wf c ->
  segments_at_distance (fuel_of c) len (graph_of len c) dist src = Ok l -> In (t, fr) l ->
  exists dt w, gpath (graph_of len c) src t w /\ (dt == w)%Q /\ ~ (len t == 0)%Q /\
               fr = ((dist - dt) / len t)%Q /\ (fr <= 1)%Q /\ (t = src \/ (dt <= dist)%Q).
Proof. exact segments_at_distance_sound. Qed.
Print Assumptions C13_segments_at_distance_sound.

Theorem C13_segments_at_distance_complete : forall len c dist src t w, wf c -> In src (ids c) ->
  (forall s p f, In s c -> sparent s = Some (p, f) -> (0 <= len p * f)%Q) ->
  gpath (graph_of len c) src t w -> (w <= dist)%Q -> ~ (len t == 0)%Q -> ((dist - w) / len t <= 1)%Q ->
  exists l fr, segments_at_distance (fuel_of c) len (graph_of len c) dist src = Ok l /\ In (t, fr) l /\
               (fr == (dist - w) / len t)%Q.
Proof. exact segments_at_distance_complete. Qed.
Print Assumptions C13_segments_at_distance_complete.

(* 9. get_ordered_segments_in_groups: sorted by id; path length to the proximal end = distance from the root by the
      definition whichever branch of the loop computed it (any id order, any group selection), to the distal end = that
      plus the length; cumulative lengths = running sums in id order *)
Theorem C13_ordered_segments : forall len c, wf c -> forall grp, (forall id, In id grp -> In id (ids c)) ->
  exists o st, ordered_run (fuel_of c) len c grp = Ok (o, st) /\
    Permutation o grp /\ StronglySorted Z.le o /\
    (forall id, In id grp -> exists v, alookup (o_pp st) id = Some v /\ DistRoot len c id v /\
                                      alookup (o_pd st) id = Some (v + len id)%Q) /\
    o_cum st = prefix_sums 0%Q (map len o).
Proof. exact ordered_run_spec. Qed.
Print Assumptions C13_ordered_segments.

(* 9b. several groups in one call: every group is processed on its own (C13_ordered_segments applies to each) *)
Theorem C13_ordered_groups_independent : forall fuel len c gs1 g gs2,
  nth (length gs1) (ordered_multi fuel len c (gs1 ++ g :: gs2)) (Err EFuel) = ordered_run fuel len c g.
Proof. exact ordered_multi_independent. Qed.
Print Assumptions C13_ordered_groups_independent.

(* 10. the graph-based and the ordered-segments results agree with each other *)
Theorem C13_methods_agree : forall len c grp o st r id d v, wf c ->
  ordered_run (fuel_of c) len c grp = Ok (o, st) -> (forall x, In x grp -> In x (ids c)) ->
  In r c -> sparent r = None ->
  nx_dist (fuel_of c) (graph_of len c) (sid r) id = Ok d ->
  alookup (o_pp st) id = Some v -> In id grp -> (d == v)%Q.
Proof. exact methods_agree_wf. Qed.
Print Assumptions C13_methods_agree.

(* the hypotheses are satisfiable: a 4-segment cell with root id 3, see Proofs/MorphP5.v *)
Theorem C13_domain_inhabited : wf ex_cell /\ root_has_prox ex_cell.
Proof. exact domain_inhabited. Qed.
Print Assumptions C13_domain_inhabited.

(* the domain contains every tree, and membership is decidable (evaluated on every generated case: component 12) *)
Theorem C13_every_built_tree : forall c, built c -> wf c.
Proof. exact built_wf. Qed.
Print Assumptions C13_every_built_tree.

Theorem C13_domain_decidable : forall c, wfb c = true -> wf c.
Proof. exact wfb_sound. Qed.
Print Assumptions C13_domain_decidable.

Theorem C13_root_has_prox_decidable : forall c, root_has_proxb c = true -> root_has_prox c.
Proof. exact root_has_proxb_sound. Qed.
Print Assumptions C13_root_has_prox_decidable.
