(* C13 — Morphology metrics equal their definition on every tree. *)
From Coq Require Import List ZArith QArith.
From LNML Require Import Model.Morph Proofs.MorphP.
Import ListNotations.
Open Scope Z_scope.

(* the parent-to-children adjacency list: children in document order, for every segment list *)
Theorem C13_adjacency : forall c p,
  alookup (adjacency c) p = match children c p with [] => None | l => Some l end.
Proof. exact adjacency_spec. Qed.
Print Assumptions C13_adjacency.
