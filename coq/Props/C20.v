(* C20 — The shipped bindings are what regeneration from the sources would produce.
   Run.Gen_C20 is regenerated from /repo on every run by translators/tr_helpers.py. *)
From Coq Require Import String List Bool.
From LNML Require Import Model.Regen Proofs.RegenP.
From Run Require Import Gen_C20 Inst_C20.

Theorem C20_regeneration_changes_nothing : regen_spec Gen_C20.facts.
Proof. exact (regen_sound Gen_C20.facts Inst_C20.facts_ok). Qed.
Print Assumptions C20_regeneration_changes_nothing.

(* generic: the boolean obligation is equivalent to the specification, for every table pair *)
Theorem C20_obligation_is_exact : forall f, regen_ok f = true <-> regen_spec f.
Proof. exact (fun f => conj (regen_sound f) (regen_complete f)). Qed.
Print Assumptions C20_obligation_is_exact.
