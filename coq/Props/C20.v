(* C20 — The shipped bindings are what regeneration from the sources would produce.
   Run.Gen_C20 is regenerated from /repo on every run by translators/tr_helpers.py. *)
From Coq Require Import String List Bool.
From LNML Require Import Model.Regen Proofs.RegenP Model.RegenFull Proofs.RegenFullP.
From Run Require Import Gen_C20 Inst_C20 Gen_C20full Inst_C20full.

Theorem C20_regeneration_changes_nothing : regen_spec Gen_C20.facts.
Proof. exact (regen_sound Gen_C20.facts Inst_C20.facts_ok). Qed.
Print Assumptions C20_regeneration_changes_nothing.

(* generic: the boolean obligation is equivalent to the specification, for every table pair *)
Theorem C20_obligation_is_exact : forall f, regen_ok f = true <-> regen_spec f.
Proof. exact (fun f => conj (regen_sound f) (regen_complete f)). Qed.
Print Assumptions C20_obligation_is_exact.

(* whole file: generateDS re-run on this run as regenerate-nml.sh prescribes (translators/tr_regen.py), every unit of
   the regenerated module against the shipped one - generated methods, helper methods, class bases, module-level
   functions, imports - and the header's recorded options against the script's *)
Theorem C20_whole_file_regeneration : full_spec Gen_C20full.facts.
Proof. exact (full_sound Gen_C20full.facts Inst_C20full.full_ok_holds). Qed.
Print Assumptions C20_whole_file_regeneration.

Theorem C20_whole_file_obligation_is_exact : forall f, full_ok f = true <-> full_spec f.
Proof. exact (fun f => conj (full_sound f) (full_complete f)). Qed.
Print Assumptions C20_whole_file_obligation_is_exact.

Theorem C20_one_sided_change_detected : forall f o m d d',
  unit_of (ff_regen f) o m = Some d -> unit_of (ff_shipped f) o m = Some d' -> d <> d' -> full_ok f = false.
Proof. exact one_sided_change_detected. Qed.
Print Assumptions C20_one_sided_change_detected.
