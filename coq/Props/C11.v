(* C11 — Introspection agrees with the constructors and with the schema, for every type.
   The quantifier over component types is finite (programs): statements 1-3 range over "the classes of the table
   regenerated from nml.py on this run" (Run.Gen_Members.M, 199 today) and are kernel computations (Inst_C11)
   lifted to the stated propositions by lemmas that hold for every table set (Proofs/SuperP2.v).
   parentinfo and get_by_id are generic theorems (all tables / all documents, ids, counters).
   Run.Gen_SchemaMembers is regenerated from the bundled XSD by translators/tr_schema_members.py. *)
From Coq Require Import String List ZArith Bool.
From LNML Require Import Lib.Dec Model.Gds Model.Super Proofs.SuperP2.
From Run Require Import Gen_Bindings Gen_Members Gen_SchemaMembers Inst_C11.
Import ListNotations.
Open Scope string_scope.

Definition M := Gen_Members.M.
Definition S := Gen_SchemaMembers.S.
Definition members (c : string) := members_set M c.                 (* _get_members(), as a set *)
Definition info (c : string) := info_list (members c).               (* info(return_format="list") *)
Definition ctor (c : string) := ctor_keywords Gen_Members.ctor_kw c. (* constructor keywords (not extensiontype_/gds_collector_) *)
Definition decls (c : string) := decls_of S c.                       (* what the XSD declares for the type, inherited included *)
Definition names (c : string) := px_of Gen_Members.pyxml_of c.       (* python name <-> xml name (export tables) *)

(* 1. info() vs the constructors: the same names, reading the xs:any member __ANY__ as anytypeobjs_ ... *)
Theorem C11_info_ctor : forall k, In k M -> forall n,
  In n (ctor (mc_name k)) <-> In n (map rename_any (info (mc_name k))).
Proof. exact (all_info_ctor_sound M Gen_Members.ctor_kw Inst_C11.info_ctor_ok). Qed.
Print Assumptions C11_info_ctor.

(* ... hence exactly the same names for every class without an xs:any member *)
Theorem C11_info_ctor_exact : forall k, In k M -> ~ In "__ANY__" (info (mc_name k)) -> forall n,
  In n (ctor (mc_name k)) <-> In n (info (mc_name k)).
Proof.
  intros k Hk Hn n. unfold ctor, info, members.
  rewrite (all_info_ctor_sound M Gen_Members.ctor_kw Inst_C11.info_ctor_ok k Hk n).
  rewrite rename_any_id; [tauto|exact Hn].
Qed.
Print Assumptions C11_info_ctor_exact.

(* known finding: the classes with an xs:any member — info() says __ANY__, the constructor says anytypeobjs_ *)
Theorem C11_any_refuted : exists k, find_mclass M "Annotation" = Some k /\
  In "__ANY__" (info (mc_name k)) /\ ~ In "__ANY__" (ctor (mc_name k)) /\
  In "anytypeobjs_" (ctor (mc_name k)) /\ ~ In "anytypeobjs_" (info (mc_name k)).
Proof.
  eexists. split; [vm_compute; reflexivity|].
  split; [apply mem_In; vm_compute; reflexivity|].
  split; [apply mem_false; vm_compute; reflexivity|].
  split; [apply mem_In; vm_compute; reflexivity|apply mem_false; vm_compute; reflexivity].
Qed.
Print Assumptions C11_any_refuted.

Theorem C11_any_classes :
  set_eqb (map mc_name (filter (fun k => mem "__ANY__" (info (mc_name k))) M))
          ["Annotation"; "CellSet"; "ForwardTransition"; "ReverseTransition"; "ReactionScheme"; "Region"] = true.
Proof. vm_compute. reflexivity. Qed.
Print Assumptions C11_any_classes.

(* 2. info() vs the schema: every member maps (through the export table's names) to a declaration of the type,
      inherited ones included, with the declared type, list nature and required flag; and every declaration is
      reported by a member.  The one excepted member is ComponentType.Property (known finding below). *)
Theorem C11_info_schema : forall k, In k M ->
  (forall m, In m (members (mc_name k)) -> is_property_slip (mc_name k) m = false ->
             member_spec S (decls (mc_name k)) (names (mc_name k)) m) /\
  (forall d, In d (decls (mc_name k)) -> decl_covered (names (mc_name k)) (members (mc_name k)) d).
Proof. exact (all_schema_sound S Gen_Members.pyxml_of M Inst_C11.schema_ok). Qed.
Print Assumptions C11_info_schema.

Theorem C11_same_types : forall c, In c (map mc_name M) <-> In c (map sc_name (s_classes S)).
Proof. apply set_eqb_spec. exact Inst_C11.same_types. Qed.
Print Assumptions C11_same_types.

(* known finding: ComponentType.Property is typed `Property`, the schema says LEMS_Property *)
Theorem C11_lems_property_refuted : exists k m x d,
  find_mclass M "ComponentType" = Some k /\ find (fun m => String.eqb (ms_name m) "Property") (mc_specs k) = Some m /\
  find_px (names "ComponentType") (ms_name m) = Some x /\
  find_decl (decls "ComponentType") (px_xml x) (px_is_attr x) = Some d /\
  get_data_type m = "Property" /\ sd_type d = "LEMS_Property" /\
  ~ member_spec S (decls "ComponentType") (names "ComponentType") m.
Proof.
  eexists. eexists. eexists. eexists.
  split; [vm_compute; reflexivity|]. split; [vm_compute; reflexivity|].
  split; [vm_compute; reflexivity|]. split; [vm_compute; reflexivity|].
  split; [reflexivity|]. split; [reflexivity|].
  intro H. apply member_okb_iff in H. vm_compute in H. discriminate.
Qed.
Print Assumptions C11_lems_property_refuted.

(* known finding: an alternative of an xs:choice whose element says minOccurs >= 1 is reported "Required" although
   the schema does not require it (Layout: random / grid / unstructured; Population.instances; GateKS transitions) *)
Theorem C11_choice_required_refuted : exists m x d,
  find (fun m => String.eqb (ms_name m) "random") (members "Layout") = Some m /\
  find_px (names "Layout") (ms_name m) = Some x /\
  find_decl (decls "Layout") (px_xml x) (px_is_attr x) = Some d /\
  ie_required (info_of m) = true /\ sd_required d = false /\ sd_in_choice d = true.
Proof.
  eexists. eexists. eexists.
  split; [vm_compute; reflexivity|]. split; [vm_compute; reflexivity|]. split; [vm_compute; reflexivity|].
  split; [reflexivity|]. split; reflexivity.
Qed.
Print Assumptions C11_choice_required_refuted.

Theorem C11_choice_required_members :
  set_eqb (flat_map (fun k => flat_map (fun m =>
      match find_px (names (mc_name k)) (rename_any (ms_name m)) with
      | Some x => match find_decl (decls (mc_name k)) (px_xml x) (px_is_attr x) with
                  | Some d => if negb (ms_optional m) && negb (sd_required d) then [(mc_name k ++ "." ++ ms_name m)] else []
                  | None => [] end
      | None => [] end) (mc_specs k)) M)
    ["Layout.random"; "Layout.grid"; "Layout.unstructured"; "Population.instances";
     "GateKS.forward_transition"; "GateKS.reverse_transition"; "GateKS.tau_inf_transition"] = true.
Proof. vm_compute. reflexivity. Qed.
Print Assumptions C11_choice_required_members.

(* 3. parentinfo() is the exact inverse of info(), for ALL table sets, class lists and orders of _get_members:
      (p, m) is reported for type c  iff  p is a class that is not skipped and info(p) reports m with type c *)
Theorem C11_parent_inverse : forall (msf : string -> list mspec) classes c e,
  In e (parentinfo_with msf classes c) <->
  In (pe_parent e) classes /\ name_skipped (pe_parent e) = false /\ pe_type e = c /\
  In {| ie_name := pe_member e; ie_required := pe_required e; ie_type := pe_type e |} (info_dict (msf (pe_parent e))).
Proof. exact parentinfo_spec. Qed.
Print Assumptions C11_parent_inverse.

(* instance: no binding class is in the exclusion list or has a leading/trailing underscore, so nothing is lost *)
Theorem C11_no_class_skipped : forall p m c, In p (map mc_name M) -> In m (members p) -> get_data_type m = c ->
  In {| pe_parent := p; pe_member := ms_name m; pe_required := negb (ms_optional m); pe_type := get_data_type m |}
     (parentinfo_with members (map mc_name M) c).
Proof. intros p m c. exact (parentinfo_no_class_skipped members (map mc_name M) c Inst_C11.no_class_skipped p m). Qed.
Print Assumptions C11_no_class_skipped.

(* instance: the keywords the factories accept are tested by membership in the list of member names (the names info() reports):
   C09_typo / C09_never_ignored of the model then apply to the real argument check *)
Theorem C11_arg_check_is_list_membership : arg_check_okb Gen_Members.arg_check = true.
Proof. exact Inst_C11.arg_check_is_list_membership. Qed.
Print Assumptions C11_arg_check_is_list_membership.

(* 4. get_by_id (NeuroMLDocument: is_doc = true, Network: false), for ALL documents, ids and counter values.
      `fixed = true` is the code with fixes/C11-get-by-id-unsortable.patch, `false` the code as it is. *)
Section GetById.
Variable F : Type.
Notation searched d own x := (in_searched F (o_fields F d) own x).

(* the result carries the requested id and is in one of the document's own member lists *)
Theorem C11_get_by_id_sound : forall fixed is_doc own d wc i x,
  g_res F (get_by_id F fixed is_doc own d wc i) = GFound F x -> id_matches F i x = true /\ searched d own x.
Proof. exact (get_by_id_sound F). Qed.

(* an existing non-empty id in a searched list is found *)
Theorem C11_get_by_id_complete : forall fixed is_doc own d wc i,
  i <> "" -> all_iterable F (o_fields F d) own ->
  (exists x, searched d own x /\ id_matches F i x = true) ->
  exists y, g_res F (get_by_id F fixed is_doc own d wc i) = GFound F y.
Proof. exact (get_by_id_complete F). Qed.

(* and None otherwise — always with the repair; as it is, only while the ids seen are all strings or once ten
   misses have been reported *)
Theorem C11_get_by_id_none : forall fixed is_doc own d wc i,
  all_iterable F (o_fields F d) own -> (forall x, searched d own x -> id_matches F i x = false) ->
  (fixed = true \/ (10 <= wc)%nat \/ forall x v, searched d own x -> id_val F x = Some v -> is_str F v = true) ->
  g_res F (get_by_id F fixed is_doc own d wc i) = GNone F.
Proof. exact (get_by_id_none F). Qed.

(* the warning counter stays within 10 over any sequence of lookups *)
Theorem C11_get_by_id_counter : forall fixed is_doc own d ids wc,
  (wc <= 10)%nat -> (lookups F fixed is_doc own d wc ids <= 10)%nat.
Proof. exact (lookups_bounded F). Qed.
(* ---- histories on one document: ANY sequence of edits (arbitrary functions on the document: remove, rename,
   replace, append ...) and earlier look ups.  Induction over the operation list. *)
(* the answer after the history is the model's answer on the document as it is now (counter irrelevant):
   nothing an earlier look up found or missed is remembered, and look ups never edit the document *)
Theorem C11_get_by_id_history : forall is_doc own ops d wc i,
  let st := doc_run F true is_doc own (d, wc) ops in
  fst st = mutate F (mutations F ops) d /\
  g_res F (get_by_id F true is_doc own (fst st) (snd st) i)
  = g_res F (get_by_id F true is_doc own (mutate F (mutations F ops) d) 0 i).
Proof.
  intros is_doc own ops d wc i. split; [exact (doc_run_doc F true is_doc own ops d wc)|exact (get_by_id_history F is_doc own ops d wc i)].
Qed.

(* hence the specification holds after every step, about the CURRENT document: a result carries the id and is in
   it now; an id present now is found; None iff no component carries it now *)
Theorem C11_get_by_id_history_spec : forall is_doc own ops d wc i,
  let st := doc_run F true is_doc own (d, wc) ops in
  let now := mutate F (mutations F ops) d in
  let r := g_res F (get_by_id F true is_doc own (fst st) (snd st) i) in
  (forall x, r = GFound F x -> id_matches F i x = true /\ searched now own x) /\
  (i <> "" -> all_iterable F (o_fields F now) own ->
   (exists x, searched now own x /\ id_matches F i x = true) -> exists y, r = GFound F y) /\
  (all_iterable F (o_fields F now) own -> (forall x, searched now own x -> id_matches F i x = false) -> r = GNone F).
Proof. exact (get_by_id_history_spec F). Qed.

(* the code before the repair: the same, the warning counter being the only state carried from call to call *)
Theorem C11_get_by_id_history_orig : forall fixed is_doc own ops d wc i,
  let st := doc_run F fixed is_doc own (d, wc) ops in
  get_by_id F fixed is_doc own (fst st) (snd st) i
  = get_by_id F fixed is_doc own (mutate F (mutations F ops) d) (snd st) i /\
  ((wc <= 10)%nat -> (snd st <= 10)%nat).
Proof.
  intros fixed is_doc own ops d wc i. split; [exact (get_by_id_history_orig F fixed is_doc own ops d wc i)|].
  exact (doc_run_counter F fixed is_doc own ops d wc).
Qed.
End GetById.
Print Assumptions C11_get_by_id_history.
Print Assumptions C11_get_by_id_history_spec.
Print Assumptions C11_get_by_id_history_orig.
Print Assumptions C11_get_by_id_sound.
Print Assumptions C11_get_by_id_complete.
Print Assumptions C11_get_by_id_none.
Print Assumptions C11_get_by_id_counter.

(* the defect in the code as it is: two components without an id and a miss -> an exception instead of None *)
Definition cell_spec := {| ms_name := "cells"; ms_dtype := DT "Cell"; ms_container := true; ms_optional := true;
                           ms_owner := "NeuroMLDocument"; ms_idx := 0 |}.
Definition doc2 := Obj (F := unit) "NeuroMLDocument"
                       [("id", VStr "d"); ("cells", VObjs [Obj "Cell" [("id", VNone)]; Obj "Cell" [("id", VNone)]])].
Theorem C11_get_by_id_unsortable_refuted : exists own d i,
  all_iterable unit (o_fields unit d) own /\
  (forall x, in_searched unit (o_fields unit d) own x -> id_matches unit i x = false) /\
  g_res unit (get_by_id unit false true own d 0 i) = GRaise unit /\
  g_res unit (get_by_id unit true true own d 0 i) = GNone unit.
Proof.
  exists [cell_spec], doc2, "zz". split.
  - intros m [<-|[]]. eexists. split; reflexivity.
  - split; [|split; reflexivity].
    intros x [m [l [[<-|[]] [Hl Hx]]]]. vm_compute in Hl. inversion Hl; subst l.
    destruct Hx as [<-|[<-|[]]]; reflexivity.
Qed.
Print Assumptions C11_get_by_id_unsortable_refuted.

(* the hypotheses are satisfiable: a lookup that finds its component *)
Example C11_example_found :
  g_res unit (get_by_id unit true true [cell_spec]
      (Obj "NeuroMLDocument" [("cells", VObjs [Obj "Cell" [("id", VStr "a")]; Obj "Cell" [("id", VStr "b")]])]) 0 "b")
  = GFound unit (Obj "Cell" [("id", VStr "b")]).
Proof. reflexivity. Qed.

(* a history: found, removed, looked up again -> None; renamed -> the old id is gone, the new one is found *)
Definition doc_ab := Obj (F := unit) "NeuroMLDocument"
                         [("cells", VObjs [Obj "Cell" [("id", VStr "a")]; Obj "Cell" [("id", VStr "b")]])].
Example C11_example_history :
  let run ops := doc_run unit true true [cell_spec] (doc_ab, 0%nat) ops in
  let ask ops i := g_res unit (get_by_id unit true true [cell_spec] (fst (run ops)) (snd (run ops)) i) in
  ask [DLookup unit "b"; DMutate unit (m_remove unit "cells" 1)] "b" = GNone unit /\
  ask [DLookup unit "a"; DMutate unit (m_rename unit "cells" 0 (VStr "c"))] "a" = GNone unit /\
  ask [DLookup unit "a"; DMutate unit (m_rename unit "cells" 0 (VStr "c"))] "c" = GFound unit (Obj "Cell" [("id", VStr "c")]) /\
  ask [DLookup unit "z"; DMutate unit (m_append unit "cells" (Obj "Cell" [("id", VStr "z")]))] "z" = GFound unit (Obj "Cell" [("id", VStr "z")]).
Proof. vm_compute. repeat split; reflexivity. Qed.
