(* C04 — loading depends only on XML content; load/write reaches a fixed point.
   Run.Gen_Bindings is regenerated from nml.py on every run; Inst_C01.wf_ok is the kernel's check of rt_wf on it. *)
From Coq Require Import String List ZArith Bool Permutation.
From LNML Require Import Lib.Dec Model.Gds Model.GdsWf Proofs.DecP Proofs.GdsP.
From Run Require Import Gen_Bindings Inst_C01.

(* attribute order is irrelevant: any permutation of the attributes of an element builds the same component *)
Theorem C04_attr_order :
  forall (F : Type) (F_of_dec : dec -> F) (parse_float : string -> option F) (n : nat) (c t : string)
         (a a' : list (string * string)) (tx : string) (k : list xml),
    Permutation a a' -> NoDup (map fst a) ->
    build F F_of_dec parse_float n Gen_Bindings.T c (Elem t a tx k) =
    build F F_of_dec parse_float n Gen_Bindings.T c (Elem t a' tx k).
Proof. exact (fun F d p n => build_attr_order F d p n Gen_Bindings.T). Qed.
Print Assumptions C04_attr_order.

(* writing a loaded (typed) document and loading the result gives the identical document *)
Theorem C04_fixed_point :
  forall (F : Type) (F_eqb : F -> F -> bool) (F_of_dec : dec -> F) (fmt_float fmt_double : F -> string)
         (parse_float : string -> option F),
    (forall x y : F, F_eqb x y = true <-> x = y) ->
    (forall x : F, parse_float (fmt_double x) = Some x) ->
    (forall q : dec, F_of_dec (dec_norm q) = F_of_dec q) ->
    forall (n : nat) (c : string) (x : xml) (o : obj F),
      build F F_of_dec parse_float n Gen_Bindings.T c x = Some o ->
      typedb F F_eqb fmt_float parse_float n Gen_Bindings.T o = true ->
      forall tag : string, exists x' : xml,
        export F F_eqb F_of_dec fmt_float fmt_double n Gen_Bindings.T tag o = Some x' /\
        build F F_of_dec parse_float n Gen_Bindings.T c x' = Some o.
Proof. exact (fun F e d ff fd p H1 H2 H3 => export_build_fixed_point F e d ff fd p H1 H2 H3 Gen_Bindings.T Inst_C01.wf_ok). Qed.
Print Assumptions C04_fixed_point.

(* ... and from then on the written element no longer changes (printing is a function of the element) *)
Theorem C04_bytes_stable :
  forall (F : Type) (F_eqb : F -> F -> bool) (F_of_dec : dec -> F) (fmt_float fmt_double : F -> string)
         (parse_float : string -> option F),
    (forall x y : F, F_eqb x y = true <-> x = y) ->
    (forall x : F, parse_float (fmt_double x) = Some x) ->
    (forall q : dec, F_of_dec (dec_norm q) = F_of_dec q) ->
    forall (n : nat) (o : obj F),
      typedb F F_eqb fmt_float parse_float n Gen_Bindings.T o = true ->
      forall (tag : string) (x : xml),
        export F F_eqb F_of_dec fmt_float fmt_double n Gen_Bindings.T tag o = Some x ->
        exists o' : obj F,
          build F F_of_dec parse_float n Gen_Bindings.T (o_cls F o) x = Some o' /\
          export F F_eqb F_of_dec fmt_float fmt_double n Gen_Bindings.T tag o' = Some x.
Proof. exact (fun F e d ff fd p H1 H2 H3 => export_stable F e d ff fd p H1 H2 H3 Gen_Bindings.T Inst_C01.wf_ok). Qed.
Print Assumptions C04_bytes_stable.

(* writing twice gives the same element and never modifies the document: export is a function of (tables, object) *)
Theorem C04_export_pure :
  forall (F : Type) (F_eqb : F -> F -> bool) (F_of_dec : dec -> F) (fmt_float fmt_double : F -> string)
         (n : nat) (T : tables) (tag : string) (o o' : obj F),
    o = o' -> export F F_eqb F_of_dec fmt_float fmt_double n T tag o = export F F_eqb F_of_dec fmt_float fmt_double n T tag o'.
Proof. exact (fun F e d ff fd n T tag o o' H => f_equal (export F e d ff fd n T tag) H). Qed.
Print Assumptions C04_export_pure.

From LNML Require Import Proofs.GdsP2.

(* equivalent spellings: the loaded component depends on an attribute's text only through its parsed value *)
Theorem C04_spelling :
  forall (F : Type) (F_of_dec : dec -> F) (parse_float : string -> option F) (n : nat) (c t : string)
         (a a' : list (string * string)) (tx : string) (k : list xml),
    attrs_equiv F parse_float (bld_attrs_of (cfuel Gen_Bindings.T) Gen_Bindings.T c) a a' ->
    build F F_of_dec parse_float n Gen_Bindings.T c (Elem t a tx k) =
    build F F_of_dec parse_float n Gen_Bindings.T c (Elem t a' tx k).
Proof. exact (fun F d p n => build_attr_spelling F d p n Gen_Bindings.T). Qed.
Print Assumptions C04_spelling.

Theorem C04_int_spellings : forall (k : nat) (z : Z), (0 <= z)%Z ->
  parse_int (zeros k ++ fmt_int z) = Some z /\ parse_int ("+" ++ fmt_int z) = Some z.
Proof. exact (fun k z H => conj (parse_int_leading_zeros k z H) (parse_int_plus z H)). Qed.
Print Assumptions C04_int_spellings.

(* a constructor default written explicitly loads like the attribute left out *)
Theorem C04_explicit_default :
  forall (F : Type) (F_of_dec : dec -> F) (parse_float : string -> option F)
         (n : nat) (c : string) (dfl : list (string * lit)) (b : bld_attr) (d : lit) (s t : string)
         (a : list (string * string)) (tx : string) (k : list xml),
    init_lits Gen_Bindings.T c = Some dfl ->
    In b (bld_attrs_of (cfuel Gen_Bindings.T) Gen_Bindings.T c) ->
    lookup (ba_xml b) a = None ->
    lookup (ba_py b) dfl = Some d ->
    parse_attr F parse_float (ba_kind b) (ba_range b) s = Some (inject F F_of_dec d) ->
    build F F_of_dec parse_float n Gen_Bindings.T c (Elem t ((ba_xml b, s) :: a) tx k) =
    build F F_of_dec parse_float n Gen_Bindings.T c (Elem t a tx k).
Proof. exact (fun F d p => build_explicit_default F d p Gen_Bindings.T Inst_C01.wf_ok). Qed.
Print Assumptions C04_explicit_default.

(* whitespace between child elements is not read; presentation changes inside children compose upwards *)
Theorem C04_element_text_irrelevant :
  forall (F : Type) (F_of_dec : dec -> F) (parse_float : string -> option F) (n : nat) (T : tables) (c t : string)
         (a : list (string * string)) (tx tx' : string) (k : list xml),
    build F F_of_dec parse_float n T c (Elem t a tx k) = build F F_of_dec parse_float n T c (Elem t a tx' k).
Proof. exact build_ignores_element_text. Qed.
Print Assumptions C04_element_text_irrelevant.

Theorem C04_children_congruence :
  forall (F : Type) (F_of_dec : dec -> F) (parse_float : string -> option F) (f : nat) (T : tables) (c t : string)
         (a : list (string * string)) (tx : string) (ks ks' : list xml),
    (forall kc : cls, find_cls T c = Some kc ->
       Forall2 (kid_equiv F F_of_dec parse_float f T kc (bld_kids_of (cfuel T) T c)) ks ks') ->
    build F F_of_dec parse_float (S f) T c (Elem t a tx ks) = build F F_of_dec parse_float (S f) T c (Elem t a tx ks').
Proof. exact build_kids_congr_gen. Qed.
Print Assumptions C04_children_congruence.
