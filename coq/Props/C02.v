(* C02 - Schema-conforming trees pass validate() and are written as schema-valid XML.
   Run.Gen_* are regenerated from the tree under test on every run (translators/tr_bindings.py, tr_schema.py,
   lib/schemagen.py); Run.Inst_C02 holds the instance obligations and the vm_compute evaluation of the witness. *)
From Coq Require Import String List ZArith Bool.
From LNML Require Import Lib.Dec Lib.Regex Model.Gds Model.GdsExec Model.Validate Model.Xsd
     Proofs.ValidateP3 Proofs.XsdP2.
From Run Require Import Gen_Bindings Gen_Validate Gen_Schema Inst_C02.
Import ListNotations.

(* Generic: for all validation tables V, binding tables T and schemas S, for every tree (any size, any depth) that
   conforms to S -- every node of a class whose validate_ statements are all implied by the schema
   (agree_val_cls, decidable) -- validate collects no message, recursive or not, whichever code does the recursion. *)
Theorem C02_accept :
  forall (F : Type) (F_eqb F_ltb : F -> F -> bool) (F_of_dec : dec -> F) (parse_float : string -> option F)
         (finite : F -> bool) (V : vtables) (T : tables) (S : schema) (n : nat) (o : obj F) (rec : bool),
    conformsb F_eqb F_ltb F_of_dec parse_float finite (agree_val_cls V T S) n T S o = true ->
    validate F_eqb F_ltb F_of_dec parse_float V o rec = [].
Proof.
  exact (fun F F_eqb F_ltb F_of_dec parse_float finite V T S n o rec =>
           conforming_accepted F F_eqb F_ltb F_of_dec parse_float finite (agree_val_cls V T S) V T S
                               (fun c H => H) n o rec).
Qed.
Print Assumptions C02_accept.

(* Generic: the element `export` writes for a conforming tree -- every node of a class on which the export tables
   agree with the schema (agree_exp_cls: xml names of attributes and children, order of the children = order of the
   element declarations, base content first, kinds, required flags, an order-safe content model) -- exists (export
   does not raise) and is valid for the schema: required attributes present, none undeclared, every written value in
   the lexical space of its simple type, the children a word of the content model and each valid for its declared
   type.  Any component type as the root (`single component serialised on its own`), any tag.
   CPython's float formatting enters through the two hypotheses (trusted, exercised by the check). *)
Theorem C02_valid :
  forall (F : Type) (F_eqb F_ltb : F -> F -> bool) (F_of_dec : dec -> F) (parse_float : string -> option F)
         (finite : F -> bool) (fmt_float fmt_double : F -> string),
    (forall f, finite f = true -> parse_float (fmt_double f) = Some f) ->
    (forall f, finite f = true ->
       exists g, parse_float (fmt_float f) = Some g /\ finite g = true /\
                 forall d, (snd d <= 15)%nat ->
                           (F_ltb f (F_of_dec d) = false -> F_ltb g (F_of_dec d) = false) /\
                           (F_ltb (F_of_dec d) f = false -> F_ltb (F_of_dec d) g = false)) ->
    forall (T : tables) (S : schema) (n : nat) (o : obj F) (tag : string),
      conformsb F_eqb F_ltb F_of_dec parse_float finite (agree_exp_cls T S) n T S o = true ->
      exists x, export F F_eqb F_of_dec fmt_float fmt_double n T tag o = Some x /\ x_tag x = tag /\
                xsd_valid F_eqb F_ltb F_of_dec parse_float finite n S (o_cls F o) x = true.
Proof.
  exact (fun F F_eqb F_ltb F_of_dec parse_float finite fmt_float fmt_double H1 H2 T S =>
           conforming_export_valid F F_eqb F_ltb F_of_dec parse_float finite fmt_float fmt_double H1 H2
                                   (agree_exp_cls T S) T S (fun c H => H)).
Qed.
Print Assumptions C02_valid.

(* a whole document: the root component under the schema's global element *)
Theorem C02_valid_document :
  forall (F : Type) (F_eqb F_ltb : F -> F -> bool) (F_of_dec : dec -> F) (parse_float : string -> option F)
         (finite : F -> bool) (fmt_float fmt_double : F -> string),
    (forall f, finite f = true -> parse_float (fmt_double f) = Some f) ->
    (forall f, finite f = true ->
       exists g, parse_float (fmt_float f) = Some g /\ finite g = true /\
                 forall d, (snd d <= 15)%nat ->
                           (F_ltb f (F_of_dec d) = false -> F_ltb g (F_of_dec d) = false) /\
                           (F_ltb (F_of_dec d) f = false -> F_ltb (F_of_dec d) g = false)) ->
    forall (T : tables) (S : schema) (n : nat) (o : obj F),
      o_cls F o = s_root_type S ->
      conformsb F_eqb F_ltb F_of_dec parse_float finite (agree_exp_cls T S) n T S o = true ->
      exists x, export F F_eqb F_of_dec fmt_float fmt_double n T (s_root_tag S) o = Some x /\
                xsd_valid_doc F_eqb F_ltb F_of_dec parse_float finite n S x = true.
Proof.
  exact (fun F F_eqb F_ltb F_of_dec parse_float finite fmt_float fmt_double H1 H2 T S =>
           conforming_document_valid F F_eqb F_ltb F_of_dec parse_float finite fmt_float fmt_double H1 H2
                                     (agree_exp_cls T S) T S (fun c H => H)).
Qed.
Print Assumptions C02_valid_document.

(* On the tables of this run: validation agrees with the schema on every class, the export tables on every class but
   the listed ones (Inst_C02.agree_exp_exceptions: exactly GateKS) -- and there the statement is FALSE on the faithful
   model: a conforming GateKS with two forward/reverse transition pairs passes validate and is written as f f r r,
   which the content model (f r | t)+ rejects. *)
Theorem C02_agreement_here :
  agree_val Gen_Validate.V Gen_Bindings.T Gen_Schema.S = true /\
  disagree_exp Gen_Bindings.T Gen_Schema.S = ["GateKS"%string].
Proof. exact (conj Inst_C02.agree_val_ok Inst_C02.agree_exp_exceptions). Qed.
Print Assumptions C02_agreement_here.

Theorem C02_refuted_order :
  exists (o : obj dec) (x : xml),
    x_conformsb 10 Gen_Bindings.T Gen_Schema.S o = true /\
    x_validate Gen_Validate.V o true = [] /\
    x_export 10 Gen_Bindings.T "gateKS" o = Some x /\
    x_xsd_valid 10 Gen_Schema.S (o_cls dec o) x = false.
Proof. exact Inst_C02.refuted_order. Qed.
Print Assumptions C02_refuted_order.
