(* C16 — Unbranched sectioning partitions the tree into maximal chains, altering nothing. *)
From Coq Require Import List ZArith QArith.
From LNML Require Import Model.Morph Model.Section Proofs.SectionP.
Import ListNotations.
Open Scope Z_scope.

(* every segment below the given root is in exactly one new group: the groups, concatenated in creation
   order, are the preorder of the tree (any depth, any branching) *)
Theorem C16_partition : forall t, concat (sect_tree t []) = preorder t.
Proof. exact sect_tree_partition. Qed.
Print Assumptions C16_partition.
