(* C16 — Unbranched sectioning partitions the tree into maximal chains, altering nothing.

   Tree side (Model/Section.v sect_tree on rose trees of any depth and branching): partition, chains, maximality.
   List side (Model/Section.v create_branches = the model that is diffed against the real method on every run):
   what is NOT altered (C16_alters_nothing, any adjacency list), and the refinement C16_model_is_tree_function:
   on a cell whose adjacency list is that of the rose tree t the model creates exactly the groups of sect_tree t.
   C16_model_correct puts all clauses together for the model.  (The same link is also evaluated by the kernel on
   every generated case: component 3 of mismatches16.) *)
From Coq Require Import List ZArith QArith Permutation.
From LNML Require Import Model.Morph Model.Section Proofs.MorphP1 Proofs.SectionP Proofs.SectionP2 Proofs.SectionP3 Proofs.SectionP4 Proofs.SectionP5.
Import ListNotations.
Open Scope Z_scope.

(* every segment below the given root is in exactly one new group: the groups, concatenated in creation order, are
   the preorder of the tree; with distinct ids they are pairwise disjoint *)
Theorem C16_partition : forall t, concat (sect_tree t []) = preorder t.
Proof. exact sect_tree_partition. Qed.
Print Assumptions C16_partition.

Theorem C16_disjoint : forall t, NoDup (preorder t) -> NoDup (concat (sect_tree t [])).
Proof. exact sect_tree_nodup. Qed.
Print Assumptions C16_disjoint.

(* each group is a parent-to-only-child chain (no branch point inside it) that cannot be extended: its last segment
   has no child or several, and it starts at the given root or directly below a branch point *)
Theorem C16_maximal_chains : forall T g, In g (sect_tree T []) ->
  exists s e, branch_start T s /\ chain s g e /\ List.length (subtrees e) <> 1%nat.
Proof. exact sect_tree_groups. Qed.
Print Assumptions C16_maximal_chains.

(* nothing else is altered (optimise flag off): ids, parents, distal points and document order of the segments are
   unchanged; a proximal point is only added where there was none and it is the effective proximal point of the
   ORIGINAL cell; every segment's length is unchanged; every pre-existing group (id not of the generated form) is still
   there, and keeps its position and content when the groups are not reordered *)
Theorem C16_alters_nothing : forall c gs root reorder st',
  all_ok c -> create_branches c gs root reorder false = Ok st' ->
  cell_upd c (st_segs st') /\
  (forall s, In s c -> seg_length (fuel_of (st_segs st')) (st_segs st') (sid s) = seg_length (fuel_of c) c (sid s)) /\
  (forall g, In g gs -> gen_name (gid g) = false -> In g (st_groups st')) /\
  (reorder = false -> keep gs (st_groups st')).
Proof. exact create_branches_preserves. Qed.
Print Assumptions C16_alters_nothing.

Theorem C16_alters_nothing_applies : forall c, wf c -> root_has_prox c -> all_ok c.
Proof. exact wf_all_ok. Qed.
Print Assumptions C16_alters_nothing_applies.

(* reorder_segment_groups only permutes the groups *)
Theorem C16_reorder_permutes : forall gs, Permutation (reorder_groups gs) gs.
Proof. exact reorder_groups_perm. Qed.
Print Assumptions C16_reorder_permutes.

(* refinement: the list-level model IS the rose-tree function, on every cell whose adjacency list is that of a
   rose tree with distinct ids (tree_adjb), when no group id clashes with a generated name *)
Theorem C16_model_is_tree_function : forall c gs t,
  all_ok c -> tree_adjb (adjacency c) t = true -> NoDup (preorder t) -> incl (preorder t) (ids c) ->
  NoDup (map gid gs ++ map gid (name_groups (Z.of_nat (List.length gs)) 0 (sect_tree t []))) ->
  exists segs', create_branches c gs (root_id t) false false =
                Ok (mkst segs' (gs ++ name_groups (Z.of_nat (List.length gs)) 0 (sect_tree t []))) /\
    cell_upd c segs' /\
    (forall ms, In ms (rest_groups t) -> has_prox segs' (hd 0 ms)) /\
    (forall s, find_seg c (root_id t) = Some s -> sprox s <> None \/ sparent s <> None -> has_prox segs' (root_id t)).
Proof. exact create_branches_refines. Qed.
Print Assumptions C16_model_is_tree_function.

(* the full statement for the model: partition; every new group a section-marked maximal unbranched chain of the
   cell's own parent relation (children c n = the tree's children, in document order); explicit proximal point on the
   first segment of every group; pre-existing groups kept in front unchanged; segments otherwise untouched *)
Theorem C16_model_correct : forall c gs t,
  all_ok c -> tree_adjb (adjacency c) t = true -> NoDup (preorder t) -> incl (preorder t) (ids c) ->
  NoDup (map gid gs ++ map gid (name_groups (Z.of_nat (List.length gs)) 0 (sect_tree t []))) ->
  exists segs' new,
    create_branches c gs (root_id t) false false = Ok (mkst segs' (gs ++ new)) /\
    List.concat (map gmembers new) = preorder t /\ NoDup (List.concat (map gmembers new)) /\
    (forall g, In g new -> gnlx g = Some section_nlx /\ gincludes g = [] /\
       exists s e, branch_start t s /\ chain s (gmembers g) e /\ List.length (subtrees e) <> 1%nat) /\
    (forall n kids, subtree t (Node n kids) -> children c n = map root_id kids) /\
    (forall g, In g new -> hd 0 (gmembers g) <> root_id t -> has_prox segs' (hd 0 (gmembers g))) /\
    (forall s, find_seg c (root_id t) = Some s -> sprox s <> None \/ sparent s <> None -> has_prox segs' (root_id t)) /\
    cell_upd c segs'.
Proof. exact create_branches_correct. Qed.
Print Assumptions C16_model_correct.

(* generated names determine the segment id (decimal printing is injective and underscore-free), so the freshness
   hypothesis reduces to: the old group ids are distinct and none has the generated form *)
Theorem C16_names_injective : forall n id n' id', mkname n id = mkname n' id' -> n = n' /\ id = id'.
Proof. exact mkname_inj. Qed.
Print Assumptions C16_names_injective.

Theorem C16_model_correct_fresh : forall c gs t,
  all_ok c -> tree_adjb (adjacency c) t = true -> NoDup (preorder t) -> incl (preorder t) (ids c) ->
  NoDup (map gid gs) -> (forall g, In g gs -> gen_name (gid g) = false) ->
  exists segs' new,
    create_branches c gs (root_id t) false false = Ok (mkst segs' (gs ++ new)) /\
    List.concat (map gmembers new) = preorder t /\ NoDup (List.concat (map gmembers new)) /\
    (forall g, In g new -> gnlx g = Some section_nlx /\ gincludes g = [] /\
       exists s e, branch_start t s /\ chain s (gmembers g) e /\ List.length (subtrees e) <> 1%nat) /\
    (forall n kids, subtree t (Node n kids) -> children c n = map root_id kids) /\
    (forall g, In g new -> hd 0 (gmembers g) <> root_id t -> has_prox segs' (hd 0 (gmembers g))) /\
    (forall s, find_seg c (root_id t) = Some s -> sprox s <> None \/ sparent s <> None -> has_prox segs' (root_id t)) /\
    cell_upd c segs'.
Proof. exact create_branches_correct_fresh. Qed.
Print Assumptions C16_model_correct_fresh.

(* the hypotheses of C16_model_correct are decidable: hyps_ok is evaluated by the kernel on every generated case
   (component 4 of mismatches16) *)
Theorem C16_hypotheses_decidable : forall c gs root, hyps_ok c gs root = true ->
  exists t, root_id t = root /\ wf c /\ all_ok c /\ tree_adjb (adjacency c) t = true /\ NoDup (preorder t) /\
            incl (preorder t) (ids c) /\
            NoDup (map gid gs ++ map gid (name_groups (Z.of_nat (List.length gs)) 0 (sect_tree t []))).
Proof. exact hyps_ok_sound. Qed.
Print Assumptions C16_hypotheses_decidable.

(* the ID chosen for a new group (C16 fix: the index is increased until the ID is free; at most len(groups) increments) is
   never the ID of an existing group ... *)
Theorem C16_new_group_id_unused : forall gs n id, ~ In (fresh_name gs n id) (map gid gs).
Proof. exact fresh_name_not_taken. Qed.
Print Assumptions C16_new_group_id_unused.

(* ... hence NO pre-existing group is touched, whatever its ID (also one that looks like a generated name): the group list
   after the call is the old list followed by new groups, all section-tagged (any adjacency list, any fuel; optimise and
   reorder flags off — reordering permutes: C16_reorder_permutes) *)
Theorem C16_old_groups_untouched : forall c gs root st',
  create_branches c gs root false false = Ok st' ->
  exists new, st_groups st' = (gs ++ new)%list /\ Forall tagged new.
Proof. exact create_branches_old_groups_untouched. Qed.
Print Assumptions C16_old_groups_untouched.

(* no hidden state: when the table regenerated from nml.py passes writes_ok (instance obligation
   Inst_C16_writes.v, every run), each lookup / query / sectioning method of Cell is present and writes no attribute of
   self other than the two documented caches *)
Theorem C16_no_hidden_state : forall t, writes_ok t = true ->
  forall m, In m tracked_methods -> exists ws, slookup t m = Some ws /\ forall w, In w ws -> In w (allowed_writes m).
Proof. exact writes_ok_sound. Qed.
Print Assumptions C16_no_hidden_state.

Theorem C16_domain_inhabited : all_ok MorphP5.ex_cell.
Proof. exact ex_all_ok. Qed.
Print Assumptions C16_domain_inhabited.
