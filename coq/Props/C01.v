(* C01 — XML write -> read returns the same component tree, for every component type.
   Run.Gen_Bindings is regenerated from /repo/neuroml/nml/nml.py on every run; Run.Inst_C01.wf_ok is the kernel's
   check that the regenerated table set satisfies rt_wf.  The float type is abstract: CPython's float with
   "%.15f"/rstrip formatting (schema float), "%s" formatting (schema double) and float() parsing appear as
   hypotheses of the statement (trusted, exercised by the correspondence runs). *)
From Coq Require Import String List ZArith Bool.
From LNML Require Import Lib.Dec Model.Gds Model.GdsWf Proofs.DecP Proofs.GdsP.
From Run Require Import Gen_Bindings Inst_C01.

(* Every typed component tree over the 199 binding classes (any size, depth, list lengths; every own and
   inherited member) is rebuilt identically from the element its export produces. *)
Theorem C01_roundtrip :
  forall (F : Type) (F_eqb : F -> F -> bool) (F_of_dec : dec -> F) (fmt_float fmt_double : F -> string)
         (parse_float : string -> option F),
    (forall x y : F, F_eqb x y = true <-> x = y) ->
    (forall x : F, parse_float (fmt_double x) = Some x) ->
    (forall q : dec, F_of_dec (dec_norm q) = F_of_dec q) ->
    forall (n : nat) (o : obj F),
      typedb F F_eqb fmt_float parse_float n Gen_Bindings.T o = true ->
      forall tag : string, exists x : xml,
        export F F_eqb F_of_dec fmt_float fmt_double n Gen_Bindings.T tag o = Some x /\
        build F F_of_dec parse_float n Gen_Bindings.T (o_cls F o) x = Some o.
Proof. exact (fun F e d ff fd p H1 H2 H3 => roundtrip F e d ff fd p H1 H2 H3 Gen_Bindings.T Inst_C01.wf_ok). Qed.
Print Assumptions C01_roundtrip.

(* generic form: for every table set that passes rt_wf *)
Theorem C01_roundtrip_generic :
  forall (F : Type) (F_eqb : F -> F -> bool) (F_of_dec : dec -> F) (fmt_float fmt_double : F -> string)
         (parse_float : string -> option F),
    (forall x y : F, F_eqb x y = true <-> x = y) ->
    (forall x : F, parse_float (fmt_double x) = Some x) ->
    (forall q : dec, F_of_dec (dec_norm q) = F_of_dec q) ->
    forall T : tables, rt_wf T = true ->
    forall (n : nat) (o : obj F), typedb F F_eqb fmt_float parse_float n T o = true ->
      forall tag : string, exists x : xml,
        export F F_eqb F_of_dec fmt_float fmt_double n T tag o = Some x /\
        build F F_of_dec parse_float n T (o_cls F o) x = Some o.
Proof. exact roundtrip. Qed.
Print Assumptions C01_roundtrip_generic.

(* integers: "%d" then int() is the identity, for all integers *)
Theorem C01_int : forall z : Z, parse_int (fmt_int z) = Some z.
Proof. exact parse_int_fmt_int. Qed.
Print Assumptions C01_int.

(* schema-float values: whatever comes back from one write/read is carried exactly by the 15 decimals from then on *)
Theorem C01_float15_stable :
  forall (F : Type) (F_eqb : F -> F -> bool) (fmt_float : F -> string) (parse_float : string -> option F),
    (forall x y : F, F_eqb x y = true <-> x = y) ->
    (forall x y : F, parse_float (fmt_float x) = Some y -> fmt_float y = fmt_float x) ->
    forall x y : F, parse_float (fmt_float x) = Some y -> stable15 F F_eqb fmt_float parse_float y = true.
Proof. exact stable_after_one_cycle. Qed.
Print Assumptions C01_float15_stable.
