(* C15 - Any sequence of cell-builder calls leaves a well-formed, valid cell.

   step true / run true  = Cell.add_segment, add_unbranched_segments, add_segment_group,
                           add_unbranched_segment_group, reorder_segment_groups, optimise_segment_groups and
                           the set_* property helpers, with the repairs of fixes/C14-*.patch and fixes/C15-*.patch
                           (run false = the methods as shipped at the pinned commit)
   finish                = the documented closing step: reorder_segment_groups(); optimise_segment_groups()
   init_of true / false  = component_factory("Cell", ...)  /  Cell(...) + setup_nml_cell(use_convention=False)
   run_ok                = every operation of the sequence respects op_ok in the state it is applied to
                           ("one group id - one role"): a user group id handed to add_segment /
                           add_unbranched_segments is always used with the same (use_convention, seg_type);
                           soma_group/axon_group/dendrite_group as group_id only under the convention with their
                           own type; "all" only under the convention; add_segment_group ids non-empty.
                           The proof forces this (C15_mixed_type_refuted).
   Quantifiers: every finite operation sequence with any parents, fractions, group ids, types, explicit or
   automatic ids, with or without proximal point, any reorder/optimise flags.  No length bound. *)
From Coq Require Import String List ZArith Bool.
From LNML Require Import Lib.Dec Model.Gds Model.Validate Model.Xsd.
From LNML Require Import Model.Groups Model.Builder Model.BuilderTree Proofs.GroupsP Proofs.BuilderSegP Proofs.BuilderGroupP
     Proofs.BuilderOrderP Proofs.BuilderP Proofs.BuilderC15P Proofs.BuilderValidP Proofs.BuilderTreeP.
From Run Require Import Gen_Bindings Gen_Schema Gen_Validate Inst_C15.
Import ListNotations.
Open Scope string_scope.

(* the invariant is kept by every single operation that returns normally *)
Theorem C15_step : forall c o c',
  Inv c -> op_ok c o = true -> step true c o = BRet c' -> Inv c'.
Proof. exact Inv_step. Qed.
Print Assumptions C15_step.

(* ... hence by every sequence (induction over the operation list), and after the closing step the cell
   is well formed: unique ids, existing parents, "all" = every segment added under the convention,
   soma/axon/dendrite group = exactly the segments added with that type (each reported once), every
   group defined before any group that includes it *)
Theorem C15_reach : forall factory ops c,
  run true ops (init_of factory) = BRet c -> run_ok true ops (init_of factory) = true ->
  exists c', finish c = BRet c' /\ WellFormed c' /\ DefinedBeforeUse (groups c') /\ wellformed c' = true.
Proof. exact builder_reach_meaning. Qed.
Print Assumptions C15_reach.

(* what the invariant says, in terms of what get_all_segments_in_group returns *)
Theorem C15_invariant_meaning : forall c, Inv c -> WellFormed c.
Proof. exact Inv_WellFormed. Qed.
Print Assumptions C15_invariant_meaning.

Theorem C15_all_is_every_segment : forall c, WellFormed c -> lookup (groups c) "all" <> None ->
  (forall s, In s (segs c) -> stag s <> None) -> resolves_exactly c "all" (ids c).
Proof. exact all_is_everything. Qed.
Print Assumptions C15_all_is_every_segment.

(* an explicit id already in use is refused with ValueError (unless an earlier check of the same call
   raises first); the call never returns *)
Theorem C15_dup_refused : forall c prox z name parent frac group conv ty reord opt,
  In z (ids c) ->
  exists e, add_segment true c prox (Some z) name parent frac group conv ty reord opt = BErr e /\
            (e = BDupId \/ e = BNoParent \/ e = BValidation \/ e = BBadInput).
Proof. exact dup_id_refused. Qed.
Print Assumptions C15_dup_refused.

(* an explicit id that is free is honoured: it is the id of the new segment (0 included, whatever else exists) *)
Theorem C15_free_id_honoured : forall c prox z name parent frac group conv ty reord opt c',
  add_segment true c prox (Some z) name parent frac group conv ty reord opt = BRet c' ->
  exists s, segs c' = (segs c ++ [s])%list /\ sid s = z.
Proof. exact free_id_honoured. Qed.
Print Assumptions C15_free_id_honoured.

(* shipped `if seg_id:`: an explicit 0 already in use is not refused, the segment silently gets id 1 *)
Theorem C15_explicit_zero_v0_refuted : exists c, run false zero_ops init_factory = BRet c /\ ids c = [0; 1]%Z.
Proof. exact zero_v0_refuted. Qed.
Print Assumptions C15_explicit_zero_v0_refuted.

(* explicit or automatic, the id of a new segment is not yet in the cell *)
Theorem C15_new_id_is_new : forall c prox seg_id name parent frac group conv ty reord opt c',
  add_segment true c prox seg_id name parent frac group conv ty reord opt = BRet c' ->
  exists s, segs c' = (segs c ++ [s])%list /\ ~ In (sid s) (ids c).
Proof. exact new_id_is_new. Qed.
Print Assumptions C15_new_id_is_new.

(* validity clause, PARTIAL: when every input meets the schema facets (op_facets: explicit ids >= 0, group
   ids NmlIds, property values matching their unit pattern) and the cell has a segment and its three basic
   membrane properties, the model's validity predicate holds after the closing step.  valid_cell is what
   the model predicts for validate(recursive=True) AND for libxml2 on the written file; that prediction
   is compared with both verdicts on every generated sequence (valid and invalid ones) in every run.
   Missing for the full clause: a proof that valid_cell implies XSD validity of the exported tree (C02). *)
Theorem C15_valid_partial : forall factory ops c c',
  run true ops (init_of factory) = BRet c -> run_ok true ops (init_of factory) = true -> Forall op_facets ops ->
  finish c = BRet c' ->
  segs c <> [] ->
  has_kind SpikeThresh c = true -> has_kind InitMembPotential c = true -> has_kind SpecificCapacitance c = true ->
  valid_cell c' = true.
Proof. exact builder_valid_partial. Qed.
Print Assumptions C15_valid_partial.

(* validity clause, FULL for the component tree of the state (through C02's generic theorems, on the tables regenerated
   from nml.py / the XSD in this run): if the finished state satisfies the model's valid_cell and the decidable
   tree_facets (segment names printable, parent ids >= 0, neuroLexIds among the builder's own four, property entries'
   `valid` flag truthful, every list shorter than generateDS's "unbounded" 9999999) then the Cell component tree it
   stands for - cell_tree, compared field for field with the dumped REAL cell on every run - passes
   validate(recursive or not) with no message and is exported (it does not raise) as an element valid for the schema.
   Float hypotheses as in C02_valid (CPython formatting) plus: decimal literals are finite and 0, .25, .5, .75, 1 are
   ordered as decimals (C15_float_hypotheses_hold: true of the decimal instance). *)
Theorem C15_valid :
  forall (F : Type) (F_eqb F_ltb : F -> F -> bool) (F_of_dec : dec -> F) (parse_float : string -> option F)
         (finite : F -> bool) (fmt_float fmt_double : F -> string),
    (forall f, finite f = true -> parse_float (fmt_double f) = Some f) ->
    (forall f, finite f = true ->
       exists g, parse_float (fmt_float f) = Some g /\ finite g = true /\
                 forall d, (snd d <= 15)%nat ->
                           (F_ltb f (F_of_dec d) = false -> F_ltb g (F_of_dec d) = false) /\
                           (F_ltb (F_of_dec d) f = false -> F_ltb (F_of_dec d) g = false)) ->
    (forall d, finite (F_of_dec d) = true) -> float_order_ok F F_eqb F_ltb F_of_dec ->
    forall (mid bid : string) (c : cell) (rec : bool) (n : nat),
      nmlid mid = true -> nmlid bid = true -> valid_cell c = true -> tree_facets c = true ->
      validate F_eqb F_ltb F_of_dec parse_float Gen_Validate.V (cell_tree F F_of_dec mid bid c) rec = [] /\
      exists x, export F F_eqb F_of_dec fmt_float fmt_double (4 + n) Gen_Bindings.T "cell" (cell_tree F F_of_dec mid bid c) = Some x /\
                x_tag x = "cell" /\
                xsd_valid F_eqb F_ltb F_of_dec parse_float finite (4 + n) Gen_Schema.S "Cell" x = true.
Proof. exact Inst_C15.valid_here. Qed.
Print Assumptions C15_valid.

(* ... end to end: for every operation sequence whose inputs meet the schema facets (C15_valid_partial supplies valid_cell).
   What remains a hypothesis on the finished state: tree_facets c' (not yet derived from the operations' arguments). *)
Theorem C15_valid_run :
  forall (F : Type) (F_eqb F_ltb : F -> F -> bool) (F_of_dec : dec -> F) (parse_float : string -> option F)
         (finite : F -> bool) (fmt_float fmt_double : F -> string),
    (forall f, finite f = true -> parse_float (fmt_double f) = Some f) ->
    (forall f, finite f = true ->
       exists g, parse_float (fmt_float f) = Some g /\ finite g = true /\
                 forall d, (snd d <= 15)%nat ->
                           (F_ltb f (F_of_dec d) = false -> F_ltb g (F_of_dec d) = false) /\
                           (F_ltb (F_of_dec d) f = false -> F_ltb (F_of_dec d) g = false)) ->
    (forall d, finite (F_of_dec d) = true) -> float_order_ok F F_eqb F_ltb F_of_dec ->
    forall (factory : bool) (ops : list op) (c c' : cell) (mid bid : string) (rec : bool) (n : nat),
      run true ops (init_of factory) = BRet c -> run_ok true ops (init_of factory) = true -> Forall op_facets ops ->
      finish c = BRet c' -> segs c <> [] ->
      has_kind SpikeThresh c = true -> has_kind InitMembPotential c = true -> has_kind SpecificCapacitance c = true ->
      tree_facets c' = true -> nmlid mid = true -> nmlid bid = true ->
      validate F_eqb F_ltb F_of_dec parse_float Gen_Validate.V (cell_tree F F_of_dec mid bid c') rec = [] /\
      exists x, export F F_eqb F_of_dec fmt_float fmt_double (4 + n) Gen_Bindings.T "cell" (cell_tree F F_of_dec mid bid c') = Some x /\
                x_tag x = "cell" /\
                xsd_valid F_eqb F_ltb F_of_dec parse_float finite (4 + n) Gen_Schema.S "Cell" x = true.
Proof. exact Inst_C15.valid_run. Qed.
Print Assumptions C15_valid_run.

(* generic core (any tables satisfying table_facts): valid_cell and tree_facets imply schema conformance of the tree *)
Theorem C15_tree_conforms :
  forall (T : tables) (S0 : schema) (good : string -> bool) (F : Type) (F_eqb F_ltb : F -> F -> bool) (F_of_dec : dec -> F)
         (parse_float : string -> option F) (finite : F -> bool),
    table_facts T S0 good F F_eqb F_ltb F_of_dec parse_float finite ->
    (forall d, finite (F_of_dec d) = true) -> float_order_ok F F_eqb F_ltb F_of_dec ->
    forall (f : nat) (mid bid : string) (c : cell),
      nmlid mid = true -> nmlid bid = true -> valid_cell c = true -> tree_facets c = true ->
      conformsb F_eqb F_ltb F_of_dec parse_float finite good (4 + f) T S0 (cell_tree F F_of_dec mid bid c) = true.
Proof. exact tree_conforms. Qed.
Print Assumptions C15_tree_conforms.

(* the assumed facts hold of this run's tables, for both agreement predicates of C02 *)
Theorem C15_table_facts_here :
  forall (F : Type) (F_eqb F_ltb : F -> F -> bool) (F_of_dec : dec -> F) (parse_float : string -> option F) (finite : F -> bool),
    table_facts Gen_Bindings.T Gen_Schema.S (agree_val_cls Gen_Validate.V Gen_Bindings.T Gen_Schema.S) F F_eqb F_ltb F_of_dec parse_float finite /\
    table_facts Gen_Bindings.T Gen_Schema.S (agree_exp_cls Gen_Bindings.T Gen_Schema.S) F F_eqb F_ltb F_of_dec parse_float finite.
Proof. exact (fun F a b c d e => conj (Inst_C15.facts_val F a b c d e) (Inst_C15.facts_exp F a b c d e)). Qed.
Print Assumptions C15_table_facts_here.

Theorem C15_float_hypotheses_hold :
  (forall d : dec, (fun _ : dec => true) ((fun d : dec => d) d) = true) /\ float_order_ok dec dec_veqb dec_ltb (fun d => d).
Proof. exact Inst_C15.float_hypotheses_decimal. Qed.
Print Assumptions C15_float_hypotheses_hold.

Theorem C15_valid_hypotheses_satisfiable :
  exists c c', run true typical_ops init_factory = BRet c /\ finish c = BRet c' /\
    valid_cell c' = true /\ tree_facets c' = true.
Proof. exact Inst_C15.typical_tree_hypotheses. Qed.
Print Assumptions C15_valid_hypotheses_satisfiable.

(* hypotheses satisfiable: a cell with soma, two unbranched sections (deferred reorder/optimise), an
   explicit id, a plain group and the basic biophysical properties; the model also predicts it valid *)
Theorem C15_hypotheses_satisfiable : exists c c',
  run true typical_ops init_factory = BRet c /\ run_ok true typical_ops init_factory = true /\
  finish c = BRet c' /\ wellformed c' = true /\ valid_cell c' = true /\
  map gid (groups c') = ["dend_1"; "axon_1"; "extra"; "soma_group"; "axon_group"; "dendrite_group"; "all"] /\
  ids c' = [0; 1; 2; 3; 4; 5; 40]%Z.
Proof. exact typical_ok. Qed.
Print Assumptions C15_hypotheses_satisfiable.

(* ---- the methods as shipped (fx = false) violate the property ---- *)
Theorem C15_dup_v0_refuted : exists c, run false dup_ops init_factory = BRet c /\ ids c = [5; 5]%Z.
Proof. exact dup_v0_refuted. Qed.
Print Assumptions C15_dup_v0_refuted.

Theorem C15_auto_id_v0_refuted : exists c, run false auto_ops init_factory = BRet c /\ ids c = [2; 1; 2]%Z.
Proof. exact auto_v0_refuted. Qed.
Print Assumptions C15_auto_id_v0_refuted.

Theorem C15_group_all_v0_refuted : exists c, run false all_ops init_factory = BRet c /\
  finish_gen false c = BErr BRecursion /\ exists g, In g (groups c) /\ gid g = "all" /\ In "all" (includes g).
Proof. exact all_v0_refuted. Qed.
Print Assumptions C15_group_all_v0_refuted.

(* ---- the hypothesis run_ok cannot be dropped (known finding, no small repair) ---- *)
Theorem C15_mixed_type_refuted : exists c c',
  run true mixed_ops init_factory = BRet c /\ finish c = BRet c' /\ run_ok true mixed_ops init_factory = false /\
  wellformed c' = false /\
  resolve (ids c') (default_fuel (groups c')) (groups c') "axon_group" = Ret [1; 2]%Z /\
  resolve (ids c') (default_fuel (groups c')) (groups c') "dendrite_group" = Ret [1; 2]%Z /\
  tagged Axon c' = [1%Z] /\ tagged Dendrite c' = [2%Z].
Proof. exact mixed_type_refuted. Qed.
Print Assumptions C15_mixed_type_refuted.
