(* C15 - Any sequence of cell-builder calls leaves a well-formed, valid cell.

   step true / run true  = Cell.add_segment, add_unbranched_segments, add_segment_group,
                           add_unbranched_segment_group, reorder_segment_groups, optimise_segment_groups and
                           the set_* property helpers, with the repairs of fixes/C14-*.patch and fixes/C15-*.patch
                           (run false = the methods as shipped at the pinned commit)
   finish                = the documented closing step: reorder_segment_groups(); optimise_segment_groups()
   init_of true / false  = component_factory("Cell", ...)  /  Cell(...) + setup_nml_cell(use_convention=False)
   run_ok                = every operation of the sequence respects op_ok in the state it is applied to
                           ("one group id - one role"): a user group id handed to add_segment /
                           add_unbranched_segments is always used with the same (use_convention, seg_type);
                           soma_group/axon_group/dendrite_group as group_id only under the convention with their
                           own type; "all" only under the convention; add_segment_group ids non-empty.
                           The proof forces this (C15_mixed_type_refuted).
   Quantifiers: every finite operation sequence with any parents, fractions, group ids, types, explicit or
   automatic ids, with or without proximal point, any reorder/optimise flags.  No length bound. *)
From Coq Require Import String List ZArith Bool.
From LNML Require Import Model.Groups Model.Builder Proofs.GroupsP Proofs.BuilderSegP Proofs.BuilderGroupP
     Proofs.BuilderOrderP Proofs.BuilderP Proofs.BuilderC15P Proofs.BuilderValidP.
Import ListNotations.
Open Scope string_scope.

(* the invariant is kept by every single operation that returns normally *)
Theorem C15_step : forall c o c',
  Inv c -> op_ok c o = true -> step true c o = BRet c' -> Inv c'.
Proof. exact Inv_step. Qed.
Print Assumptions C15_step.

(* ... hence by every sequence (induction over the operation list), and after the closing step the cell
   is well formed: unique ids, existing parents, "all" = every segment added under the convention,
   soma/axon/dendrite group = exactly the segments added with that type (each reported once), every
   group defined before any group that includes it *)
Theorem C15_reach : forall factory ops c,
  run true ops (init_of factory) = BRet c -> run_ok true ops (init_of factory) = true ->
  exists c', finish c = BRet c' /\ WellFormed c' /\ DefinedBeforeUse (groups c') /\ wellformed c' = true.
Proof. exact builder_reach_meaning. Qed.
Print Assumptions C15_reach.

(* what the invariant says, in terms of what get_all_segments_in_group returns *)
Theorem C15_invariant_meaning : forall c, Inv c -> WellFormed c.
Proof. exact Inv_WellFormed. Qed.
Print Assumptions C15_invariant_meaning.

Theorem C15_all_is_every_segment : forall c, WellFormed c -> lookup (groups c) "all" <> None ->
  (forall s, In s (segs c) -> stag s <> None) -> resolves_exactly c "all" (ids c).
Proof. exact all_is_everything. Qed.
Print Assumptions C15_all_is_every_segment.

(* an explicit id already in use is refused with ValueError (unless an earlier check of the same call
   raises first); the call never returns *)
Theorem C15_dup_refused : forall c prox z name parent frac group conv ty reord opt,
  z <> 0%Z -> In z (ids c) ->
  exists e, add_segment true c prox (Some z) name parent frac group conv ty reord opt = BErr e /\
            (e = BDupId \/ e = BNoParent \/ e = BValidation \/ e = BBadInput).
Proof. exact dup_id_refused. Qed.
Print Assumptions C15_dup_refused.

(* explicit or automatic, the id of a new segment is not yet in the cell *)
Theorem C15_new_id_is_new : forall c prox seg_id name parent frac group conv ty reord opt c',
  add_segment true c prox seg_id name parent frac group conv ty reord opt = BRet c' ->
  exists s, segs c' = (segs c ++ [s])%list /\ ~ In (sid s) (ids c).
Proof. exact new_id_is_new. Qed.
Print Assumptions C15_new_id_is_new.

(* validity clause, PARTIAL: when every input meets the schema facets (op_facets: explicit ids >= 0, group
   ids NmlIds, property values matching their unit pattern) and the cell has a segment and its three basic
   membrane properties, the model's validity predicate holds after the closing step.  valid_cell is what
   the model predicts for validate(recursive=True) AND for libxml2 on the written file; that prediction
   is compared with both verdicts on every generated sequence (valid and invalid ones) in every run.
   Missing for the full clause: a proof that valid_cell implies XSD validity of the exported tree (C02). *)
Theorem C15_valid_partial : forall factory ops c c',
  run true ops (init_of factory) = BRet c -> run_ok true ops (init_of factory) = true -> Forall op_facets ops ->
  finish c = BRet c' ->
  segs c <> [] ->
  has_kind SpikeThresh c = true -> has_kind InitMembPotential c = true -> has_kind SpecificCapacitance c = true ->
  valid_cell c' = true.
Proof. exact builder_valid_partial. Qed.
Print Assumptions C15_valid_partial.

(* hypotheses satisfiable: a cell with soma, two unbranched sections (deferred reorder/optimise), an
   explicit id, a plain group and the basic biophysical properties; the model also predicts it valid *)
Theorem C15_hypotheses_satisfiable : exists c c',
  run true typical_ops init_factory = BRet c /\ run_ok true typical_ops init_factory = true /\
  finish c = BRet c' /\ wellformed c' = true /\ valid_cell c' = true /\
  map gid (groups c') = ["dend_1"; "axon_1"; "extra"; "soma_group"; "axon_group"; "dendrite_group"; "all"] /\
  ids c' = [0; 1; 2; 3; 4; 5; 40]%Z.
Proof. exact typical_ok. Qed.
Print Assumptions C15_hypotheses_satisfiable.

(* ---- the methods as shipped (fx = false) violate the property ---- *)
Theorem C15_dup_v0_refuted : exists c, run false dup_ops init_factory = BRet c /\ ids c = [5; 5]%Z.
Proof. exact dup_v0_refuted. Qed.
Print Assumptions C15_dup_v0_refuted.

Theorem C15_auto_id_v0_refuted : exists c, run false auto_ops init_factory = BRet c /\ ids c = [2; 1; 2]%Z.
Proof. exact auto_v0_refuted. Qed.
Print Assumptions C15_auto_id_v0_refuted.

Theorem C15_group_all_v0_refuted : exists c, run false all_ops init_factory = BRet c /\
  finish_gen false c = BErr BRecursion /\ exists g, In g (groups c) /\ gid g = "all" /\ In "all" (includes g).
Proof. exact all_v0_refuted. Qed.
Print Assumptions C15_group_all_v0_refuted.

(* ---- the hypothesis run_ok cannot be dropped (known finding, no small repair) ---- *)
Theorem C15_mixed_type_refuted : exists c c',
  run true mixed_ops init_factory = BRet c /\ finish c = BRet c' /\ run_ok true mixed_ops init_factory = false /\
  wellformed c' = false /\
  resolve (ids c') (default_fuel (groups c')) (groups c') "axon_group" = Ret [1; 2]%Z /\
  resolve (ids c') (default_fuel (groups c')) (groups c') "dendrite_group" = Ret [1; 2]%Z /\
  tagged Axon c' = [1%Z] /\ tagged Dendrite c' = [2%Z].
Proof. exact mixed_type_refuted. Qed.
Print Assumptions C15_mixed_type_refuted.
