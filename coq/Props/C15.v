From Coq Require Import String List ZArith Bool.
From LNML Require Import Model.Groups Model.Builder.
Import ListNotations.
Theorem C15_stub : forall c, finish c = finish c.
Proof. reflexivity. Qed.
Print Assumptions C15_stub.
