(* C01/C04, text layer — "strings including XML-special characters are read back verbatim".
   Run.Gen_Escape is regenerated from neuroml/nml/nml.py on every run by translators/tr_escape.py;
   Run.Inst_Escape holds the instance obligations (generated tables = reference tables). *)
From Coq Require Import String List Bool ZArith.
From LNML Require Import Lib.Dec Model.Escape Proofs.EscapeP.
From Run Require Import Gen_Escape Inst_Escape Inst_EscapeNum.

(* attribute values: every string without TAB, CR and non-XML control characters; < > & both quotes and newline included *)
Theorem C01_attr : forall s, attr_safe s = true -> attr_parse (gen_quote_attrib s) = Some s.
Proof. exact (attr_roundtrip_gen _ _ gen_attrib_repl_is_ref gen_attrib_decision_is_ref). Qed.
Print Assumptions C01_attr.

Theorem C01_attr_printable : forall s, printable s = true -> attr_parse (gen_quote_attrib s) = Some s.
Proof. exact (attr_roundtrip_printable_gen _ _ gen_attrib_repl_is_ref gen_attrib_decision_is_ref). Qed.
Print Assumptions C01_attr_printable.

(* the hypothesis is exact: a string survives as an attribute value if and only if it is attr_safe *)
Theorem C01_attr_exact : forall s, attr_parse (gen_quote_attrib s) = Some s <-> attr_safe s = true.
Proof. exact (attr_roundtrip_iff_gen _ _ gen_attrib_repl_is_ref gen_attrib_decision_is_ref). Qed.
Print Assumptions C01_attr_exact.

(* element text: CR excluded; "<![CDATA[" must not occur *)
Theorem C01_text : forall s, text_safe s = true -> no_cdata_open s = true -> text_parse (gen_quote_xml s) = Some s.
Proof. exact (text_roundtrip_gen _ _ _ _ gen_xml_repl_is_ref gen_quote_xml_body_is_ref gen_cdata_regex_is_ref). Qed.
Print Assumptions C01_text.

(* stronger: only a complete <![CDATA[ ... ]]> section is excluded *)
Theorem C01_text_strong : forall s, text_safe s = true -> no_cdata_section s = true -> text_parse (gen_quote_xml s) = Some s.
Proof. exact (text_roundtrip_strong_gen _ _ _ _ gen_xml_repl_is_ref gen_quote_xml_body_is_ref gen_cdata_regex_is_ref). Qed.
Print Assumptions C01_text_strong.

Theorem C01_text_printable : forall s, printable s = true -> no_cdata_section s = true -> text_parse (gen_quote_xml s) = Some s.
Proof. exact (text_roundtrip_printable_gen _ _ _ _ gen_xml_repl_is_ref gen_quote_xml_body_is_ref gen_cdata_regex_is_ref). Qed.
Print Assumptions C01_text_printable.

(* among strings without a complete CDATA section exactly the text_safe ones survive as element text *)
Theorem C01_text_exact : forall s, no_cdata_section s = true ->
  (text_parse (gen_quote_xml s) = Some s <-> text_safe s = true).
Proof. exact (text_roundtrip_iff_gen _ _ _ _ gen_xml_repl_is_ref gen_quote_xml_body_is_ref gen_cdata_regex_is_ref). Qed.
Print Assumptions C01_text_exact.

(* the hypothesis cannot be dropped: quote_xml leaves complete CDATA sections unescaped (known finding) *)
Theorem C01_text_cdata_refuted : exists s, printable s = true /\ text_parse (gen_quote_xml s) <> Some s.
Proof. exact (text_cdata_refuted_gen _ _ _ _ gen_xml_repl_is_ref gen_quote_xml_body_is_ref gen_cdata_regex_is_ref). Qed.
Print Assumptions C01_text_cdata_refuted.

Theorem C01_no_cdata_open_is_not_substring : forall s, no_cdata_open s = true <-> ~ exists a b, s = (a ++ cdata_open ++ b)%string.
Proof. exact no_cdata_open_spec. Qed.
Print Assumptions C01_no_cdata_open_is_not_substring.

(* integers: "%d" then int()  (gds_format_integer / gds_parse_integer are those, by the instance obligation) *)
Theorem C01_int : forall z, parse_int (fmt_int z) = Some z.
Proof. exact (int_roundtrip_gen _ _ gen_int_format_is_ref). Qed.
Print Assumptions C01_int.
