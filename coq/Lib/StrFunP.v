(* Lemmas about the string vocabulary of Lib/StrFun.v (all by induction on strings; no bound on lengths). *)
From Coq Require Import String Ascii List ZArith NArith QArith Bool Lia DecimalString DecimalN DecimalPos Decimal.
From LNML Require Import Lib.StrFun.
Import ListNotations.
Local Close Scope Q_scope.
Local Open Scope nat_scope.
Local Open Scope string_scope.

(* ------------------------------------------------------------------ basics *)
Lemma append_nil_r : forall s, s ++ "" = s.
Proof. induction s as [|a s IH]; simpl; [reflexivity | rewrite IH; reflexivity]. Qed.

Lemma append_assoc : forall a b c : string, (a ++ b) ++ c = a ++ (b ++ c).
Proof. induction a as [|x a IH]; intros; simpl; [reflexivity | rewrite IH; reflexivity]. Qed.

Lemma length_append : forall a b, String.length (a ++ b) = String.length a + String.length b.
Proof. induction a as [|x a IH]; intros; simpl; [reflexivity | rewrite IH; reflexivity]. Qed.

Lemma str_forall_app : forall p a b, str_forall p (a ++ b) = str_forall p a && str_forall p b.
Proof.
  induction a as [|x a IH]; intros; simpl; [reflexivity|].
  rewrite IH. rewrite andb_assoc. reflexivity.
Qed.

Lemma str_forall_impl : forall (p q : ascii -> bool) s,
  (forall a, p a = true -> q a = true) -> str_forall p s = true -> str_forall q s = true.
Proof.
  intros p q s H. induction s as [|a s IH]; simpl; [reflexivity|].
  intro E. apply andb_true_iff in E. destruct E as [E1 E2]. rewrite (H a E1), (IH E2). reflexivity.
Qed.

Lemma no_char_app : forall c a b, no_char c (a ++ b) = no_char c a && no_char c b.
Proof. intros. apply str_forall_app. Qed.

Lemma no_char_cons : forall c x s, no_char c (String x s) = negb (Ascii.eqb x c) && no_char c s.
Proof. reflexivity. Qed.

(* ------------------------------------------------------------------ split *)
Lemma split_on_nonnil : forall c s, split_on c s <> [].
Proof.
  intros c s. destruct s as [|a t]; simpl; [discriminate|].
  destruct (Ascii.eqb a c); [discriminate|]. destruct (split_on c t); discriminate.
Qed.

Lemma split_on_nochar : forall c s, no_char c s = true -> split_on c s = [s].
Proof.
  induction s as [|a t IH]; simpl; intro H; [reflexivity|].
  apply andb_true_iff in H. destruct H as [H1 H2].
  apply negb_true_iff in H1. rewrite H1. rewrite (IH H2). reflexivity.
Qed.

Lemma split_on_app : forall c a b, no_char c a = true -> split_on c (a ++ String c b) = a :: split_on c b.
Proof.
  induction a as [|x a IH]; simpl; intros b H.
  - rewrite Ascii.eqb_refl. reflexivity.
  - apply andb_true_iff in H. destruct H as [H1 H2]. apply negb_true_iff in H1. rewrite H1.
    rewrite (IH b H2). reflexivity.
Qed.

(* ------------------------------------------------------------------ contains *)
Lemma prefix_app : forall a b, prefix a (a ++ b) = true.
Proof.
  induction a as [|x a IH]; intros; simpl.
  - destruct b; reflexivity.
  - destruct (ascii_dec x x) as [_|N]; [apply IH | contradiction].
Qed.

Lemma contains_prefix : forall sub s, prefix sub s = true -> contains sub s = true.
Proof. intros sub s H. destruct s; cbn [contains]; rewrite H; reflexivity. Qed.

Lemma contains_app_mid : forall sub a b, contains sub (a ++ sub ++ b) = true.
Proof.
  induction a as [|x a IH]; intros b.
  - change ("" ++ sub ++ b) with (sub ++ b). apply contains_prefix. apply prefix_app.
  - change (String x a ++ sub ++ b) with (String x (a ++ sub ++ b)).
    cbn [contains]. rewrite IH. apply orb_true_r.
Qed.

Lemma contains_app_end : forall sub a, contains sub (a ++ sub) = true.
Proof. intros. rewrite <- (append_nil_r sub) at 2. apply contains_app_mid. Qed.

Lemma prefix_cons_nochar : forall c t s, no_char c s = true -> prefix (String c t) s = false.
Proof.
  intros c t s H. destruct s as [|x s]; simpl; [reflexivity|].
  simpl in H. apply andb_true_iff in H. destruct H as [H1 _]. apply negb_true_iff in H1.
  destruct (ascii_dec c x) as [E|N]; [|reflexivity].
  subst. rewrite Ascii.eqb_refl in H1. discriminate.
Qed.

Lemma contains_nochar : forall c t s, no_char c s = true -> contains (String c t) s = false.
Proof.
  induction s as [|x s IH]; intro H.
  - reflexivity.
  - cbn [contains]. rewrite (prefix_cons_nochar c t _ H). simpl in H.
    apply andb_true_iff in H. destruct H as [_ H2]. rewrite (IH H2). reflexivity.
Qed.

Lemma contains_char_app : forall c a b, contains (String c "") (a ++ String c b) = true.
Proof. intros. change (String c b) with (String c "" ++ b). apply contains_app_mid. Qed.

(* ------------------------------------------------------------------ suffixes *)
Lemma endswith_app : forall suf a, endswith suf (a ++ suf) = true.
Proof.
  induction a as [|x a IH]; simpl.
  - destruct suf; simpl; [reflexivity|]. rewrite Ascii.eqb_refl, String.eqb_refl. reflexivity.
  - rewrite IH. apply orb_true_r.
Qed.

Lemma endswith_ms_s : forall a, no_char "m" a = true -> endswith "ms" (a ++ "s") = false.
Proof.
  induction a as [|x a IH]; intro H.
  - reflexivity.
  - simpl in H. apply andb_true_iff in H. destruct H as [H1 H2]. apply negb_true_iff in H1.
    change (String x a ++ "s") with (String x (a ++ "s")). cbn [endswith].
    rewrite (IH H2). rewrite orb_false_r.
    cbn [String.eqb]. rewrite Ascii.eqb_sym. rewrite H1. reflexivity.
Qed.

Lemma substring_0_app : forall a b, substring 0 (String.length a) (a ++ b) = a.
Proof.
  induction a as [|x a IH]; intros b; simpl.
  - destruct b; reflexivity.
  - rewrite IH. reflexivity.
Qed.

Lemma drop_last_app : forall a b, drop_last (String.length b) (a ++ b) = a.
Proof.
  intros. unfold drop_last. rewrite length_append.
  replace (String.length a + String.length b - String.length b) with (String.length a) by lia.
  apply substring_0_app.
Qed.

(* ------------------------------------------------------------------ strip *)
Lemma lstrip_no_ws : forall s, no_ws s = true -> lstrip s = s.
Proof.
  intros s H. destruct s as [|a t]; simpl; [reflexivity|].
  simpl in H. apply andb_true_iff in H. destruct H as [H1 _]. apply negb_true_iff in H1. rewrite H1. reflexivity.
Qed.

Lemma rstrip_all_ws : forall s, all_ws s = true -> rstrip s = "".
Proof.
  induction s as [|a t IH]; simpl; intro H; [reflexivity|].
  apply andb_true_iff in H. destruct H as [H1 H2]. rewrite (IH H2). simpl. rewrite H1. reflexivity.
Qed.

Lemma rstrip_app_ws : forall num ws, no_ws num = true -> all_ws ws = true -> rstrip (num ++ ws) = num.
Proof.
  induction num as [|a t IH]; intros ws H1 H2.
  - simpl. apply rstrip_all_ws. assumption.
  - simpl in H1. apply andb_true_iff in H1. destruct H1 as [Ha Ht]. apply negb_true_iff in Ha.
    change (String a t ++ ws) with (String a (t ++ ws)). cbn [rstrip]. rewrite (IH ws Ht H2). rewrite Ha.
    rewrite andb_false_r. reflexivity.
Qed.

Lemma strip_app_ws : forall num ws, no_ws num = true -> all_ws ws = true -> strip (num ++ ws) = num.
Proof. intros. unfold strip. rewrite rstrip_app_ws by assumption. apply lstrip_no_ws. assumption. Qed.

Lemma strip_no_ws : forall s, no_ws s = true -> strip s = s.
Proof. intros. rewrite <- (append_nil_r s) at 1. apply strip_app_ws; [assumption | reflexivity]. Qed.

(* whitespace is not a letter: a string of whitespace has no 'm' *)
Lemma all_ws_no_char : forall c s, is_ws c = false -> all_ws s = true -> no_char c s = true.
Proof.
  intros c s Hc. apply str_forall_impl. intros a H. apply negb_true_iff.
  destruct (Ascii.eqb a c) eqn:E; [|reflexivity]. apply Ascii.eqb_eq in E. subst. congruence.
Qed.

(* ------------------------------------------------------------------ decimal numerals *)
Lemma string_of_uint_digits : forall d, all_digits (NilEmpty.string_of_uint d) = true.
Proof. induction d; simpl; try reflexivity; assumption. Qed.

Lemma dec_digits : forall n, all_digits (dec n) = true.
Proof. intros. apply string_of_uint_digits. Qed.

Lemma to_uint_nonnil : forall n, N.to_uint n <> Nil.
Proof.
  intros [|p]; simpl; [discriminate|]. apply DecimalPos.Unsigned.to_uint_nonnil.
Qed.

Lemma dec_nonempty : forall n, dec n <> "".
Proof.
  intros n. unfold dec. pose proof (to_uint_nonnil n) as H. destruct (N.to_uint n); try discriminate. contradiction.
Qed.

Lemma digits_to_N_dec : forall n, digits_to_N (dec n) = Some n.
Proof.
  intros n. unfold digits_to_N. pose proof (dec_nonempty n) as H. destruct (dec n) eqn:E; [contradiction|].
  rewrite <- E. unfold dec. rewrite NilEmpty.usu. simpl. rewrite DecimalN.Unsigned.of_to. reflexivity.
Qed.

Lemma digit_not_ws : forall a, is_digit a = true -> is_ws a = false.
Proof.
  intros a. unfold is_digit, is_ws. intro H. apply andb_true_iff in H. destruct H as [H1 H2].
  apply Nat.leb_le in H1. apply Nat.leb_le in H2.
  apply orb_false_iff. split; apply andb_false_iff.
  - right. apply Nat.leb_gt. lia.
  - right. apply Nat.leb_gt. lia.
Qed.

Lemma digits_no_ws : forall s, all_digits s = true -> no_ws s = true.
Proof.
  intros s. apply str_forall_impl. intros a H. apply negb_true_iff. apply digit_not_ws. assumption.
Qed.

Lemma digits_no_char : forall c s, is_digit c = false -> all_digits s = true -> no_char c s = true.
Proof.
  intros c s Hc. apply str_forall_impl. intros a H. apply negb_true_iff.
  destruct (Ascii.eqb a c) eqn:E; [|reflexivity]. apply Ascii.eqb_eq in E. subst. congruence.
Qed.

Lemma dec_no_char : forall c n, is_digit c = false -> no_char c (dec n) = true.
Proof. intros. apply digits_no_char; [assumption | apply dec_digits]. Qed.

Lemma parse_sign_digits : forall s, all_digits s = true -> parse_sign s = (false, s).
Proof.
  intros s H. destruct s as [|a t]; [reflexivity|].
  simpl in H. apply andb_true_iff in H. destruct H as [H1 _].
  unfold parse_sign.
  destruct a as [b0 b1 b2 b3 b4 b5 b6 b7].
  destruct b0, b1, b2, b3, b4, b5, b6, b7; try reflexivity; vm_compute in H1; discriminate.
Qed.

Theorem py_int_dec : forall n, py_int (dec n) = Some (Z.of_N n).
Proof.
  intros n. unfold py_int. rewrite strip_no_ws by (apply digits_no_ws, dec_digits).
  rewrite parse_sign_digits by apply dec_digits. rewrite digits_to_N_dec. reflexivity.
Qed.

Lemma split_first_none : forall p s, str_forall (fun a => negb (p a)) s = true -> split_first p s = (s, None).
Proof.
  induction s as [|a t IH]; simpl; intro H; [reflexivity|].
  apply andb_true_iff in H. destruct H as [H1 H2]. apply negb_true_iff in H1. rewrite H1.
  rewrite (IH H2). reflexivity.
Qed.

Lemma digits_no_e : forall s, all_digits s = true -> str_forall (fun a => negb (is_e a)) s = true.
Proof.
  intros s. apply str_forall_impl. intros a H.
  destruct a as [b0 b1 b2 b3 b4 b5 b6 b7].
  destruct b0, b1, b2, b3, b4, b5, b6, b7; try reflexivity; vm_compute in H; discriminate.
Qed.

Lemma digits_no_dot : forall s, all_digits s = true -> str_forall (fun a => negb (is_dot a)) s = true.
Proof.
  intros s. apply str_forall_impl. intros a H.
  destruct a as [b0 b1 b2 b3 b4 b5 b6 b7].
  destruct b0, b1, b2, b3, b4, b5, b6, b7; try reflexivity; vm_compute in H; discriminate.
Qed.

(* float("123") = 123 exactly *)
Theorem py_float_dec : forall n, py_float (dec n) = Some (inject_Z (Z.of_N n)).
Proof.
  intros n. unfold py_float.
  rewrite strip_no_ws by (apply digits_no_ws, dec_digits).
  rewrite parse_sign_digits by apply dec_digits.
  rewrite split_first_none by (apply digits_no_e, dec_digits).
  rewrite split_first_none by (apply digits_no_dot, dec_digits).
  rewrite dec_digits. rewrite append_nil_r. rewrite digits_to_N_dec.
  pose proof (dec_nonempty n) as NE. destruct (dec n) eqn:E; [contradiction|].
  cbn. unfold inject_Z. rewrite Z.mul_1_r. reflexivity.
Qed.

Lemma q_trunc_inject : forall z, q_trunc (inject_Z z) = z.
Proof. intros. unfold q_trunc, inject_Z. simpl. apply Z.quot_1_r. Qed.

(* ------------------------------------------------------------------ identifiers *)
Lemma nmlid_no_char : forall c s, is_id_char c = false -> nmlid s = true -> no_char c s = true.
Proof.
  intros c s Hc H. destruct s as [|a t]; [discriminate|].
  simpl in H. apply andb_true_iff in H. destruct H as [H1 H2].
  assert (Ha : is_id_char a = true) by (unfold is_id_char; rewrite H1; reflexivity).
  simpl. apply andb_true_iff. split.
  - apply negb_true_iff. destruct (Ascii.eqb a c) eqn:E; [|reflexivity]. apply Ascii.eqb_eq in E. subst. congruence.
  - revert H2. apply str_forall_impl. intros x Hx. apply negb_true_iff.
    destruct (Ascii.eqb x c) eqn:E; [|reflexivity]. apply Ascii.eqb_eq in E. subst. congruence.
Qed.

Example nmlid_ex : nmlid "pop_0" = true /\ no_char "/" "pop_0" = true /\ no_char "[" "pop_0" = true.
Proof. repeat split. Qed.
