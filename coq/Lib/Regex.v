(* Regular expressions over an arbitrary alphabet with a Brzozowski-derivative matcher.
   Symbols are described by predicates of a type P with a satisfaction test  sat : P -> A -> bool:
     - strings:        A = ascii, P = list of code ranges   (patterns of the schema's simple types and of the
                                                             generated validators)
     - content models: A = string (element tag), P = option string (None = wildcard)
   Definitions only (executable); the correctness lemmas are in Proofs/RegexP.v. *)
From Coq Require Import String Ascii List Bool Arith.
Import ListNotations.

Inductive re (P : Type) :=
| Emp | Eps | Sym (p : P) | Cat (r s : re P) | Alt (r s : re P) | Star (r : re P).
Arguments Emp {P}. Arguments Eps {P}. Arguments Sym {P} p. Arguments Cat {P} r s.
Arguments Alt {P} r s. Arguments Star {P} r.

Section Matcher.
Variables (P A : Type).
Variable sat : P -> A -> bool.

Fixpoint nullable (r : re P) : bool :=
  match r with
  | Emp => false
  | Eps => true
  | Sym _ => false
  | Cat r s => nullable r && nullable s
  | Alt r s => nullable r || nullable s
  | Star _ => true
  end.

Fixpoint deriv (a : A) (r : re P) : re P :=
  match r with
  | Emp => Emp
  | Eps => Emp
  | Sym p => if sat p a then Eps else Emp
  | Cat r s => if nullable r then Alt (Cat (deriv a r) s) (deriv a s) else Cat (deriv a r) s
  | Alt r s => Alt (deriv a r) (deriv a s)
  | Star r => Cat (deriv a r) (Star r)
  end.

(* light simplification keeps the derivatives small; semantics-preserving (RegexP.simp_correct) *)
Fixpoint is_emp (r : re P) : bool :=
  match r with
  | Emp => true
  | Cat r s => is_emp r || is_emp s
  | Alt r s => is_emp r && is_emp s
  | _ => false
  end.

Fixpoint simp (r : re P) : re P :=
  match r with
  | Cat r s =>
    let r' := simp r in let s' := simp s in
    if is_emp r' || is_emp s' then Emp
    else match r' with Eps => s' | _ => Cat r' s' end
  | Alt r s =>
    let r' := simp r in let s' := simp s in
    if is_emp r' then s' else if is_emp s' then r' else Alt r' s'
  | _ => r
  end.

Fixpoint matchl (r : re P) (w : list A) : bool :=
  match w with
  | [] => nullable r
  | a :: w' => matchl (simp (deriv a r)) w'
  end.

(* the specification: the language of r *)
Inductive Matches : re P -> list A -> Prop :=
| MEps : Matches Eps []
| MSym : forall p a, sat p a = true -> Matches (Sym p) [a]
| MCat : forall r s u v, Matches r u -> Matches s v -> Matches (Cat r s) (u ++ v)
| MAltL : forall r s u, Matches r u -> Matches (Alt r s) u
| MAltR : forall r s u, Matches s u -> Matches (Alt r s) u
| MStar0 : forall r, Matches (Star r) []
| MStarS : forall r u v, Matches r u -> Matches (Star r) v -> Matches (Star r) (u ++ v).

End Matcher.

Arguments nullable {P} r.
Arguments deriv {P A} sat a r.
Arguments simp {P} r.
Arguments is_emp {P} r.
Arguments matchl {P A} sat r w.
Arguments Matches {P A} sat _ _.

(* ---------------------------------------------------------------- structural equality (given one on symbols) *)
Fixpoint re_eqb {P} (peq : P -> P -> bool) (r s : re P) : bool :=
  match r, s with
  | Emp, Emp => true
  | Eps, Eps => true
  | Sym p, Sym q => peq p q
  | Cat a b, Cat c d => re_eqb peq a c && re_eqb peq b d
  | Alt a b, Alt c d => re_eqb peq a c && re_eqb peq b d
  | Star a, Star b => re_eqb peq a b
  | _, _ => false
  end.

Fixpoint re_map {P Q} (f : P -> Q) (r : re P) : re Q :=
  match r with
  | Emp => Emp | Eps => Eps
  | Sym p => Sym (f p)
  | Cat a b => Cat (re_map f a) (re_map f b)
  | Alt a b => Alt (re_map f a) (re_map f b)
  | Star a => Star (re_map f a)
  end.

(* ---------------------------------------------------------------- character instance *)
Definition crange := (nat * nat)%type.          (* inclusive code range *)
Definition cset := list crange.
Definition cre := re cset.

Definition in_range (n : nat) (r : crange) : bool := Nat.leb (fst r) n && Nat.leb n (snd r).
Definition csat (p : cset) (c : ascii) : bool := existsb (in_range (nat_of_ascii c)) p.

Definition match_string (r : cre) (s : string) : bool := matchl csat r (list_ascii_of_string s).

(* the characters a conforming document can carry: TAB LF CR and U+0020..U+007E *)
Definition printable_code (n : nat) : bool :=
  Nat.eqb n 9 || Nat.eqb n 10 || Nat.eqb n 13 || (Nat.leb 32 n && Nat.leb n 126).
Definition printable_char (c : ascii) : bool := printable_code (nat_of_ascii c).
Fixpoint printable (s : string) : bool :=
  match s with EmptyString => true | String c r => printable_char c && printable r end.

(* a range list cut down to the printable codes, as an explicit sorted code list: two classes are equal on
   printable text iff their code lists are equal *)
Fixpoint upto_acc (n : nat) (acc : list nat) : list nat :=
  match n with O => acc | S k => upto_acc k (k :: acc) end.
Definition upto (n : nat) : list nat := upto_acc n [].
Definition codes_of (p : cset) : list nat :=
  filter (fun n => if printable_code n then existsb (in_range n) p else false) (upto 128).

Fixpoint nats_eqb (a b : list nat) : bool :=
  match a, b with
  | [], [] => true
  | x :: r, y :: s => Nat.eqb x y && nats_eqb r s
  | _, _ => false
  end.

Fixpoint ranges_eqb (p q : cset) : bool :=
  match p, q with
  | [], [] => true
  | (a, b) :: r, (c, d) :: s => if Nat.eqb a c then if Nat.eqb b d then ranges_eqb r s else false else false
  | _, _ => false
  end.

(* identical range lists are recognised without expanding them *)
Definition cset_eq_printable (p q : cset) : bool :=
  if ranges_eqb p q then true else nats_eqb (codes_of p) (codes_of q).
Definition cre_eq_printable (r s : cre) : bool := re_eqb cset_eq_printable r s.

(* ---------------------------------------------------------------- tag instance (content models) *)
Definition tsym := option string.               (* None: wildcard (xs:any) *)
Definition tsat (p : tsym) (t : string) : bool :=
  match p with None => true | Some n => String.eqb n t end.
Definition tre := re tsym.
Definition match_tags (r : tre) (l : list string) : bool := matchl tsat r l.

Fixpoint rep {P} (n : nat) (r : re P) : re P := match n with O => Eps | S k => Cat r (rep k r) end.
Fixpoint rep_opt {P} (n : nat) (r : re P) : re P := match n with O => Eps | S k => Alt (Cat r (rep_opt k r)) Eps end.
(* r{lo,hi} *)
Definition occurs_re {P} (lo : nat) (hi : option nat) (r : re P) : re P :=
  match hi with
  | None => Cat (rep lo r) (Star r)
  | Some h => Cat (rep lo r) (rep_opt (h - lo) r)
  end.
