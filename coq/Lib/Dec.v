(* Decimal integers and finite decimal fractions as strings: "%d" / int(), and the decimal literals
   used for floats in the executable instance of the bindings model. Stdlib only. *)
From Coq Require Import String Ascii List ZArith Bool Lia.
Import ListNotations.
Open Scope Z_scope.

Definition digit_of (c : ascii) : option Z :=
  let n := Z.of_nat (nat_of_ascii c) in
  if (48 <=? n) && (n <=? 57) then Some (n - 48) else None.

Definition ascii_of_digit (d : Z) : ascii := ascii_of_nat (Z.to_nat (d + 48)).

(* digits, most significant first, accumulated *)
Fixpoint digits_val (s : string) (acc : Z) : option Z :=
  match s with
  | EmptyString => Some acc
  | String c r => match digit_of c with Some d => digits_val r (acc * 10 + d) | None => None end
  end.

Definition parse_nat_str (s : string) : option Z :=
  match s with EmptyString => None | _ => digits_val s 0 end.

(* Python int(): optional sign then digits (surrounding blanks and '_' separators are not modelled) *)
Definition parse_int (s : string) : option Z :=
  match s with
  | String "-"%char r => option_map Z.opp (parse_nat_str r)
  | String "+"%char r => parse_nat_str r
  | _ => parse_nat_str s
  end.

(* positive -> decimal digits, by fuel on the number of binary digits (always enough) *)
Fixpoint show_pos_fuel (fuel : nat) (n : Z) (acc : string) : string :=
  match fuel with
  | O => acc
  | S f => if n <? 10 then String (ascii_of_digit n) acc
           else show_pos_fuel f (n / 10) (String (ascii_of_digit (n mod 10)) acc)
  end.

Definition show_nat (n : Z) : string := show_pos_fuel (S (Z.to_nat (Z.log2 n + 1))) n EmptyString.

(* "%d" *)
Definition fmt_int (z : Z) : string :=
  if z <? 0 then String "-"%char (show_nat (- z)) else show_nat z.

(* ---- finite decimals  m * 10^-e , normalised: e = 0 or m mod 10 <> 0 ---- *)
Definition dec := (Z * nat)%type.

Fixpoint dec_norm_fuel (fuel : nat) (m : Z) (e : nat) : dec :=
  match fuel, e with
  | S f, S e' => if (m mod 10 =? 0) then dec_norm_fuel f (m / 10) e' else (m, e)
  | _, _ => (m, e)
  end.
Definition dec_norm (d : dec) : dec := dec_norm_fuel (snd d) (fst d) (snd d).

Definition dec_eqb (a b : dec) : bool := (fst a =? fst b) && Nat.eqb (snd a) (snd b).

Fixpoint split_dot (s : string) (acc : string) : string * option string :=
  match s with
  | EmptyString => (acc, None)
  | String "."%char r => (acc, Some r)
  | String c r => split_dot r (acc ++ String c EmptyString)
  end.

(* [+-]digits[.digits]  (at least one digit overall; exponent forms are not modelled) *)
Definition parse_dec (s : string) : option dec :=
  let '(neg, body) := match s with
                      | String "-"%char r => (true, r)
                      | String "+"%char r => (false, r)
                      | _ => (false, s) end in
  let '(ip, fp) := split_dot body EmptyString in
  let fp' := match fp with Some f => f | None => EmptyString end in
  match ip, fp' with
  | EmptyString, EmptyString => None
  | _, _ =>
    match digits_val (ip ++ fp') 0 with
    | Some m => Some (dec_norm ((if neg then - m else m), String.length fp'))
    | None => None
    end
  end.

Fixpoint pad_left_aux (k : nat) (s : string) : string :=
  match k with O => s | S k' => pad_left_aux k' (String "0"%char s) end.

Fixpoint take (n : nat) (s : string) : string :=
  match n, s with S n', String c r => String c (take n' r) | _, _ => EmptyString end.
Fixpoint drop (n : nat) (s : string) : string :=
  match n, s with S n', String c r => drop n' r | _, _ => s end.

(* python repr()/"%s" of a float that is exactly this decimal and prints positionally: at least one
   fractional digit ("3.0", "0.625", "-12.0625") *)
Definition show_dec (d : dec) : string :=
  let '(m, e) := dec_norm d in
  let neg := m <? 0 in
  let ds := show_nat (Z.abs m) in
  let ds := pad_left_aux (S e - String.length ds) ds in   (* ensure at least one integer digit *)
  let n := String.length ds in
  let ip := take (n - e) ds in
  let fp := drop (n - e) ds in
  let body := (ip ++ "." ++ (match fp with EmptyString => "0" | _ => fp end))%string in
  if neg then String "-"%char body else body.
