(* String vocabulary of the Python accessor code (C19): the handful of str/int/float operations that the
   connection and input accessors of libNeuroML use, as total Gallina functions on Coq strings (= byte strings;
   the model covers ASCII input).  Definitions only; lemmas are in Lib/StrFunP.v. *)
From Coq Require Import String Ascii List ZArith NArith QArith Bool DecimalString DecimalN.
Import ListNotations.
Local Open Scope string_scope.

(* ------------------------------------------------------------------ characters *)
Definition ch_lbr : ascii := "["%char.
Definition ch_rbr : ascii := "]"%char.
Definition ch_slash : ascii := "/"%char.

(* str.isspace() on ASCII: \t \n \v \f \r, FS GS RS US, space *)
Definition is_ws (a : ascii) : bool :=
  let n := nat_of_ascii a in
  ((9 <=? n) && (n <=? 13))%nat || ((28 <=? n) && (n <=? 32))%nat.

Definition is_digit (a : ascii) : bool :=
  let n := nat_of_ascii a in ((48 <=? n) && (n <=? 57))%nat.

Definition is_e (a : ascii) : bool := Ascii.eqb a "e"%char || Ascii.eqb a "E"%char.
Definition is_dot (a : ascii) : bool := Ascii.eqb a "."%char.

Fixpoint str_forall (p : ascii -> bool) (s : string) : bool :=
  match s with
  | EmptyString => true
  | String a t => p a && str_forall p t
  end.

(* c does not occur in s *)
Definition no_char (c : ascii) (s : string) : bool := str_forall (fun a => negb (Ascii.eqb a c)) s.
Definition all_ws (s : string) : bool := str_forall is_ws s.
Definition no_ws (s : string) : bool := str_forall (fun a => negb (is_ws a)) s.
Definition all_digits (s : string) : bool := str_forall is_digit s.

Definition str_empty (s : string) : bool := match s with EmptyString => true | _ => false end.

(* ------------------------------------------------------------------ str operations *)
(* sub in s *)
Fixpoint contains (sub s : string) : bool :=
  prefix sub s || match s with EmptyString => false | String _ t => contains sub t end.

(* s.split(c) for a one-character separator *)
Fixpoint split_on (c : ascii) (s : string) : list string :=
  match s with
  | EmptyString => [EmptyString]
  | String a t =>
      if Ascii.eqb a c then EmptyString :: split_on c t
      else match split_on c t with
           | h :: tl => String a h :: tl
           | [] => [String a EmptyString]
           end
  end.

(* s[:-k], k > 0 *)
Definition drop_last (k : nat) (s : string) : string := substring 0 (String.length s - k) s.

Fixpoint lstrip (s : string) : string :=
  match s with
  | EmptyString => EmptyString
  | String a t => if is_ws a then lstrip t else s
  end.

Fixpoint rstrip (s : string) : string :=
  match s with
  | EmptyString => EmptyString
  | String a t =>
      let t' := rstrip t in
      if str_empty t' && is_ws a then EmptyString else String a t'
  end.

Definition strip (s : string) : string := lstrip (rstrip s).

Fixpoint endswith (suf s : string) : bool :=
  String.eqb suf s || match s with EmptyString => false | String _ t => endswith suf t end.

Definition startswith (pre s : string) : bool := prefix pre s.

(* ------------------------------------------------------------------ numbers *)
(* decimal numeral of a natural number, as str(n) prints it *)
Definition dec (n : N) : string := NilEmpty.string_of_uint (N.to_uint n).

Definition digits_to_N (s : string) : option N :=
  match s with
  | EmptyString => None
  | _ => option_map N.of_uint (NilEmpty.uint_of_string s)
  end.

Definition parse_sign (s : string) : bool * string :=
  match s with
  | String "-"%char r => (true, r)
  | String "+"%char r => (false, r)
  | _ => (false, s)
  end.

(* int(s) for a str: surrounding whitespace, optional sign, decimal digits.  Not modelled (the generators never
   produce them): digit-group underscores, non-ASCII digits. *)
Definition py_int (s : string) : option Z :=
  let (neg, body) := parse_sign (strip s) in
  match digits_to_N body with
  | Some n => Some (if neg then Z.opp (Z.of_N n) else Z.of_N n)
  | None => None
  end.

(* (before, after) the first character satisfying p; after = None when there is none *)
Fixpoint split_first (p : ascii -> bool) (s : string) : string * option string :=
  match s with
  | EmptyString => (EmptyString, None)
  | String a t =>
      if p a then (EmptyString, Some t)
      else let (b, r) := split_first p t in (String a b, r)
  end.

Definition pow10 (n : Z) : Z := Z.pow 10 n.

(* float(s) for a str, as the exact rational value of the decimal numeral: [ws][sign]digits[.digits][(e|E)[sign]digits][ws]
   with at least one mantissa digit.  CPython returns the binary64 nearest to this value.  Not modelled: inf / nan /
   infinity spellings, underscores, values beyond the binary64 range. *)
Definition py_float (s0 : string) : option Q :=
  let (neg, body) := parse_sign (strip s0) in
  let (mant, ex) := split_first is_e body in
  let (ip, fpo) := split_first is_dot mant in
  let fp := match fpo with Some f => f | None => EmptyString end in
  if negb (all_digits ip && all_digits fp) || (str_empty ip && str_empty fp) then None
  else
    match digits_to_N (ip ++ fp) with
    | None => None
    | Some m =>
        let e10 : option Z :=
          match ex with
          | None => Some 0%Z
          | Some es =>
              let (eneg, ed) := parse_sign es in
              match digits_to_N ed with
              | Some n => Some (if eneg then Z.opp (Z.of_N n) else Z.of_N n)
              | None => None
              end
          end in
        match e10 with
        | None => None
        | Some e =>
            let e' := (e - Z.of_nat (String.length fp))%Z in
            let q := if (0 <=? e')%Z then Qmake (Z.of_N m * pow10 e') 1
                     else Qmake (Z.of_N m) (Z.to_pos (pow10 (- e'))) in
            Some (if neg then Qopp q else q)
        end
    end.

(* int(x) of a float: truncation toward zero *)
Definition q_trunc (q : Q) : Z := Z.quot (Qnum q) (Zpos (Qden q)).

(* ------------------------------------------------------------------ identifiers *)
Definition is_id_start (a : ascii) : bool :=
  let n := nat_of_ascii a in
  ((65 <=? n) && (n <=? 90))%nat || ((97 <=? n) && (n <=? 122))%nat || (n =? 95)%nat.
Definition is_id_char (a : ascii) : bool := is_id_start a || is_digit a.

(* NmlId: [a-zA-Z_][a-zA-Z0-9_]* *)
Definition nmlid (s : string) : bool :=
  match s with
  | EmptyString => false
  | String a t => is_id_start a && str_forall is_id_char t
  end.
