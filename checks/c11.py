"""C11 — introspection agrees with the constructors and with the schema, for every type.  See design_notes/C11.md

tie:  tr_bindings -> Gen_Bindings.v / Gen_Members.v (MemberSpec_ tables, constructor keywords, export names),
      tr_schema_members -> Gen_SchemaMembers.v (XSD declarations), Inst_C11.v (kernel computations over all classes),
      and a correspondence run of the REAL info()/parentinfo()/inspect.signature/get_by_id against Model/Super.v.
"""
import json
import re

from checks import c10
from lib import bindings, gdsgen, supergen
from lib.vcommon import coq_list, coq_opt, coq_str

HEADER = ("From Coq Require Import String List ZArith Bool.\nFrom LNML Require Import Lib.Dec Model.Gds Model.Super Proofs.SuperP2.\n"
          "From Run Require Import Gen_Bindings Gen_Members Gen_SchemaMembers.\nImport ListNotations.\nOpen Scope string_scope.\n")

INST = HEADER + """
(* kernel computations over all classes of the tables regenerated on this run *)
Lemma info_ctor_ok : all_info_ctor_okb Gen_Members.M Gen_Members.ctor_kw = true.
Proof. vm_compute. reflexivity. Qed.

Lemma schema_ok : all_schema_okb Gen_SchemaMembers.S Gen_Members.pyxml_of Gen_Members.M = true.
Proof. vm_compute. reflexivity. Qed.

Lemma same_types : set_eqb (map mc_name Gen_Members.M) (map sc_name (s_classes Gen_SchemaMembers.S)) = true.
Proof. vm_compute. reflexivity. Qed.

Lemma no_class_skipped : forallb (fun ac => negb (name_skipped ac)) (map mc_name Gen_Members.M) = true.
Proof. vm_compute. reflexivity. Qed.

(* the argument check of the factories tests a keyword by membership in the LIST of member names (what info() reports), as the
   model does - not against a joined string / by substring (translators/tr_supersig.py reads the real statements) *)
Lemma arg_check_is_list_membership : arg_check_okb Gen_Members.arg_check = true.
Proof. vm_compute. reflexivity. Qed.
"""

ANY6 = ["Annotation", "CellSet", "ForwardTransition", "ReverseTransition", "ReactionScheme", "Region"]
EXCLUDED = ["GDSParseError", "MixedContainer", "MemberSpec_", "BlockTypes", "Metric", "PlasticityTypes", "ZeroOrOne",
            "allowedSpaces", "channelTypes", "gateTypes", "networkTypes", "populationTypes", "_FixedOffsetTZ",
            "GdsCollector_", "GeneratedsSuperSuper", "attrgetter"]


def rename_any(n):
    return "anytypeobjs_" if n == "__ANY__" else n


def table_findings(ck, mir, S):
    """the same comparisons as Inst_C11, in python, to NAME the failing (class, member) pairs: the failing inputs of a
    property that quantifies over programs.  Known slips are reported under their keys on every run."""
    sc = {c["name"]: c for c in S["classes"]}
    for c in mir.order:
        ms = mir.members(c)
        info = [m["name"] for m in ms]
        ctor = mir.ctor_keywords(c)
        ck.count(1, nontrivial_key="class:" + c if ms else None)
        if set(info) != set(ctor):
            if set(rename_any(n) for n in info) == set(ctor):
                ck.witness("C11:any-member-named-__ANY__", "%s: info() reports the member __ANY__, the constructor keyword is anytypeobjs_" % c,
                           input={"class": c}, expected=sorted(ctor), observed=sorted(info), broken="Props_C11.v:C11_info_ctor_exact")
            else:
                ck.witness("C11:info-vs-constructor", "%s: info() names %s, constructor keywords %s" % (
                    c, sorted(set(info) - set(ctor)), sorted(set(ctor) - set(info))), input={"class": c},
                    expected=sorted(ctor), observed=sorted(info), broken="Inst_C11.v:info_ctor_ok")
        px = {}
        for p, x, a in mir.pyxml(c):
            px.setdefault(p, (x, a))
        decls = {}
        for d in sc.get(c, {"all": []})["all"]:
            decls.setdefault((d["xml"], d["is_attr"]), d)
        covered = set()
        for m in ms:
            key = px.get(rename_any(m["name"]))
            d = decls.get(key) if key else None
            where = {"class": c, "member": m["name"], "memberspec": {k: m[k] for k in ("type", "container", "optional")}, "schema": d}
            ck.count(1, nontrivial_key="%s.%s" % (c, m["name"]),
                     sample=where if len(ck.samples) < 3 and d and d["list"] else None)
            if d is None:
                ck.witness("C11:info-vs-schema:%s.%s" % (c, m["name"]), "member has no declaration in the schema type", input=where,
                           broken="Inst_C11.v:schema_ok")
                continue
            covered.add(key)
            t = m["type"]
            tok = (t == d["type"]) if isinstance(t, str) else (t == [d["type"], S["simple_base"].get(d["type"])])
            lok = bool(m["container"]) == d["list"]
            rlit = (not m["optional"]) == d["required_literal"]
            reff = (not m["optional"]) == d["required"]
            if not tok and c == "ComponentType" and m["name"] == "Property":
                ck.witness("C11:memberspec-type-differs-from-schema:ComponentType.Property",
                           "MemberSpec type %r, schema type %r" % (t, d["type"]), input=where, broken="Props_C11.v:C11_lems_property_refuted")
            elif not (tok and lok and rlit):
                what = [n for n, ok in (("type", tok), ("list nature", lok), ("required/optional", rlit)) if not ok]
                ck.witness("C11:info-vs-schema:%s.%s" % (c, m["name"]), "%s differ(s) from the schema: info %s, schema %s" % (
                    ", ".join(what), where["memberspec"], d), input=where, broken="Inst_C11.v:schema_ok")
            elif not reff:
                if d["in_choice"]:
                    ck.witness("C11:choice-member-reported-required", "%s.%s is an alternative of an xs:choice (not required by the schema) "
                               "but info() reports it as Required" % (c, m["name"]), input=where,
                               broken="Props_C11.v:C11_choice_required_refuted")
                else:
                    ck.witness("C11:info-vs-schema:%s.%s" % (c, m["name"]), "required by its own declaration but optional through its "
                               "enclosing particle", input=where, broken="Inst_C11.v:schema_ok")
        for key, d in decls.items():
            if key not in covered:
                ck.witness("C11:schema-declaration-not-reported:%s.%s" % (c, d["xml"]), "the schema declares %s for %s; info() has no such member"
                           % (d["xml"], c), input={"class": c, "schema": d}, broken="Inst_C11.v:schema_ok")
    if set(mir.order) != set(sc):
        ck.witness("C11:classes-vs-complex-types", "binding classes and schema complex types differ",
                   input={"only_bindings": sorted(set(mir.order) - set(sc)), "only_schema": sorted(set(sc) - set(mir.order))},
                   broken="Inst_C11.v:same_types")
    for c in mir.order:
        if c.startswith("_") or c.endswith("_") or c in EXCLUDED:
            ck.witness("C11:class-skipped-by-parentinfo:%s" % c, "parentinfo() skips the binding class %s" % c, input={"class": c},
                       broken="Inst_C11.v:no_class_skipped")


# ------------------------------------------------------------------------------------------------ real introspection
def acceptance(ck, mir, res):
    """"the members reported by info() are exactly the keywords the factory accepts": every name info() lists is accepted, every
    keyword that merely resembles member names (substrings, single letters, joined names) is refused"""
    for r in res.get("acceptance") or []:
        c = r["cls"]
        if "error" in r:
            ck.witness("C11:introspection-raises", "acceptance run raised: " + r["error"], input={"class": c})
            continue
        ck.count(r["n_members"] + r["n_nonmembers"], nontrivial_key="accept:" + c if r["n_nonmembers"] else None)
        ck.tally("factory-accepts-info-member", r["n_members"] - len(r["members_refused"]))
        ck.tally("factory-refuses-derived-non-member", r["n_nonmembers"] - r.get("nonmembers_accepted_count", 0))
        refused = [x for x in r["members_refused"] if not (x[0] == "__ANY__" and c in ANY6)]
        if len(refused) != len(r["members_refused"]):
            ck.witness("C11:any-member-named-__ANY__", "%s: info() reports __ANY__, the constructor accepts anytypeobjs_" % c,
                       input={"class": c})
        if refused:
            ck.witness("C11:info-member-refused-by-factory", "%s: info() lists %s but component_factory refuses it as a keyword (%s)"
                       % (c, sorted(set(x[0] for x in refused))[:6], refused[0][2]), input={"class": c, "keyword": refused[0][0]},
                       expected="accepted", observed=refused[:4])
        if r.get("nonmembers_accepted_count"):
            k, i, e = r["nonmembers_accepted"][0]
            ck.witness("C11:non-member-keyword-accepted", "component_factory(%s, %s=..) (%s form, %s) %s although info() of %s does not "
                       "list %r (%d such keywords derived from the member names)"
                       % (repr(c) if i % 2 == 0 else c, k, "string" if i % 2 == 0 else "class", "class method" if i % 4 < 2 else "neuroml.utils",
                          "returns a component" if e is None else "raises " + e, c, k, r["nonmembers_accepted_count"]),
                       input={"class": c, "keyword": k, "form": "str" if i % 2 == 0 else "class"}, expected="ValueError: not a permitted argument",
                       observed=[x[0] for x in r["nonmembers_accepted"]])
    ck.extra["acceptance_classes"] = len(res.get("acceptance") or [])


def icase_coq(r):
    return "{| ic_cls := %s; ic_info := %s; ic_list := %s; ic_parents := %s; ic_sig := %s |}" % (
        coq_str(r["cls"]), coq_list([coq_str(x) for x in r["info"]]), coq_list([coq_str(x) for x in r["list"]]),
        coq_list([coq_str(x) for x in r["parents"]]), coq_list([coq_str(x) for x in r["sig"]]))


def introspection(ck, mir, S, res):
    """the property on the real answers (independent of the model) + the model/implementation diff"""
    cls_res = res["classes"]
    by = {r["cls"]: r for r in cls_res}
    ok_res = []
    for r in cls_res:
        c = r["cls"]
        if "error" in r:
            ck.witness("C11:introspection-raises", "info()/parentinfo()/signature raised: " + r["error"][:200], input={"class": c})
            continue
        ok_res.append(r)
        ck.count(1, nontrivial_key="real:" + c if r["info"] else None)
        info = set(x.split("|")[0] for x in r["info"])
        sig = [n for n in r["sig"] if n not in supergen.TECHNICAL]
        if set(r["list"]) != info or r["list_from_dict"] != list(dict.fromkeys(r["list_from_dict"])) or set(r["list_from_dict"]) != info:
            ck.witness("C11:info-list-vs-dict", "info(list) and info(dict) name different members", input={"class": c},
                       expected=sorted(info), observed=sorted(r["list"]))
        if info != set(sig):
            if set(rename_any(n) for n in info) == set(sig) and c in ANY6:
                ck.witness("C11:any-member-named-__ANY__", "%s: info() reports __ANY__, the constructor accepts anytypeobjs_" % c,
                           input={"class": c}, expected=sorted(sig), observed=sorted(info))
            else:
                ck.witness("C11:info-vs-constructor", "real info() %s vs real signature %s" % (sorted(info - set(sig)), sorted(set(sig) - info)),
                           input={"class": c}, expected=sorted(sig), observed=sorted(info))
        if r["unused_kw"]:
            ck.witness("C11:constructor-keyword-not-stored", "keywords accepted but not stored: %s" % r["unused_kw"], input={"class": c})
        if not r["has_kwargs"]:
            ck.tally("constructor-without-**kwargs")
    # the real info() answers against the schema (required flag and type as reported to the user)
    sc = {c["name"]: c for c in S["classes"]}
    for r in ok_res:
        c = r["cls"]
        px = {}
        for p, x, a in mir.pyxml(c):
            px.setdefault(p, (x, a))
        decls = {}
        for d in sc.get(c, {"all": []})["all"]:
            decls.setdefault((d["xml"], d["is_attr"]), d)
        for x in r["info"]:
            n, t, q = x.split("|")
            d = decls.get(px.get(rename_any(n)))
            if d is None or (c == "ComponentType" and n == "Property"):
                continue     # reported by table_findings
            t_ok = t == d["type"] or t == S["simple_base"].get(d["type"])
            if not t_ok or (q == "R") != d["required_literal"]:
                ck.witness("C11:real-info-vs-schema", "%s.info() reports %s as (%s, %s); the schema declares (%s, %s)" % (
                    c, n, t, "Required" if q == "R" else "Optional", d["type"], "required" if d["required_literal"] else "optional"),
                    input={"class": c, "member": n}, expected=d, observed=x)
    # parentinfo is the inverse of info over all classes (on the real answers)
    fwd = set()
    for r in ok_res:
        for x in r["info"]:
            n, t, q = x.split("|")
            fwd.add((r["cls"], n, t, q))
    for r in ok_res:
        c = r["cls"]
        want = set("%s|%s|%s|%s" % (p, n, t, q) for (p, n, t, q) in fwd if t == c)
        got = set(r["parents"])
        ck.count(1, nontrivial_key="parents:" + c if want else None)
        if want != got:
            ck.witness("C11:parentinfo-not-inverse", "parentinfo() of %s: missing %s, extra %s" % (c, sorted(want - got)[:4], sorted(got - want)[:4]),
                       input={"class": c}, expected=sorted(want), observed=sorted(got))
        if sorted(set(x.split("|")[0] for x in r["parents"])) != r["parent_list"]:
            ck.witness("C11:parentinfo-list-vs-dict", "parentinfo(list) differs from the keys of parentinfo(dict)", input={"class": c})
    # classes parentinfo can see
    mc = set(res["module_classes"])
    for c in mir.order:
        if c not in mc:
            ck.witness("C11:class-not-in-module", "binding class is not a plain class of the module", input={"class": c})
    return ok_res


def info_diff(ck, ok_res):
    shard = 70
    files = [ok_res[i:i + shard] for i in range(0, len(ok_res), shard)]
    from concurrent.futures import ThreadPoolExecutor
    texts = [("Cases_C11_info_%d.v" % k, part, HEADER + "Definition cases : list icase := %s.\n" % coq_list(["\n " + icase_coq(r) for r in part]) +
              "Eval vm_compute in (info_mismatches Gen_Members.M Gen_Members.ctor_kw 0 cases).\n") for k, part in enumerate(files)]
    with ThreadPoolExecutor(max_workers=4) as ex:
        evals = list(ex.map(lambda f: ck.coq_eval(f[0], f[2], timeout=900), texts))
    for (name, part, _), (ok, results, out) in zip(texts, evals):
        ck.oblige(name + ":evaluates", ok, out[-1500:], kind="correspondence")
        if not ok:
            continue
        for m in re.finditer(r"\((\d+)%nat, (\d+)%nat\)", results[0] if results else ""):
            i, bits = int(m.group(1)), int(m.group(2))
            which = [nm for b_, nm in ((1, "info-dict"), (2, "info-list"), (4, "parentinfo"), (8, "constructor-signature")) if bits & b_]
            ck.disagree("Super.info/parentinfo[" + "+".join(which) + "]", {"class": part[i]["cls"]}, "model differs (bits %d)" % bits,
                        {k: part[i].get(k) for k in ("info", "parents", "sig")})
    ck.extra["classes_compared"] = len(ok_res)


# ------------------------------------------------------------------------------------------------ get_by_id
STORED_ID = [
    # witness of the get_by_id defect (two components without an id, a miss): run first on every run
    {"tree": {"cls": "NeuroMLDocument", "kw": [["id", {"s": "d"}], ["iaf_cells", {"l": [{"cls": "IafCell", "kw": []}, {"cls": "IafCell", "kw": []}]}]]},
     "ids": ["zz"]},
    {"tree": {"cls": "Network", "kw": [["id", {"s": "n"}], ["populations", {"l": [{"cls": "Population", "kw": []}, {"cls": "Population", "kw": []}]}]]},
     "ids": ["zz", ""]},
    # a value the constructors do not produce: iterating an int raises in the code and in the model
    {"tree": {"cls": "Network", "kw": [["id", {"s": "n"}]]}, "set": [["temperature", 5]], "ids": ["zz"]},
]


def list_members(mir, cls):
    return [m["name"] for m in mir.C[cls]["mspecs"] if m["container"]]


def ids_in(tree, mir):
    out, nested = [], []
    own = set(list_members(mir, tree["cls"]))
    for n, v in tree["kw"]:
        if v and "l" in v:
            for e in v["l"]:
                for k, iv in e["kw"]:
                    if k == "id" and iv and "s" in iv:
                        (out if n in own else nested).append(iv["s"])
                for k, iv in e["kw"]:
                    if iv and "l" in iv:
                        for e2 in iv["l"]:
                            for k2, iv2 in e2["kw"]:
                                if k2 == "id" and iv2 and "s" in iv2:
                                    nested.append(iv2["s"])
    return out, nested


def make_idcases(ck, gen, mir, n):
    rng = ck.rng
    cases = [json.loads(json.dumps(c)) for c in STORED_ID]
    for j in range(n):
        cls = "NeuroMLDocument" if j % 2 == 0 else "Network"
        tree = gen.tree(cls, rng.choice([1, 2]), full=(j < 2))
        have, nested = ids_in(tree, mir)
        ids = []
        for _ in range(rng.choice([3, 6, 14])):
            k = rng.random()
            if have and k < 0.45:
                ids.append(rng.choice(have))
            elif nested and k < 0.55:
                ids.append(rng.choice(nested))
            elif k < 0.65:
                ids.append("")
            else:
                ids.append(rng.choice(["nope", "x", "0", "missing id"]))
        cases.append({"tree": tree, "ids": [i for i in ids if all(ord(ch) < 128 for ch in i)]})
    return cases


IAF = [["C", {"s": "1 nF"}], ["thresh", {"s": "-50mV"}], ["reset", {"s": "-65mV"}], ["leak_conductance", {"s": "10 nS"}],
       ["leak_reversal", {"s": "-65mV"}]]
STORED_HIST = [
    # look up, edit, look up again (remove / rename / replace with the same id / add a previously missing id)
    {"tree": {"cls": "NeuroMLDocument", "kw": [["id", {"s": "doc"}], ["iaf_cells", {"l": [
        {"cls": "IafCell", "kw": [["id", {"s": "iaf0"}]] + IAF}, {"cls": "IafCell", "kw": [["id", {"s": "iaf1"}]] + IAF}]}],
        ["pulse_generators", {"l": [{"cls": "PulseGenerator", "kw": [["id", {"s": "pg0"}], ["delay", {"s": "0ms"}],
                                                                      ["duration", {"s": "10ms"}], ["amplitude", {"s": "1nA"}]]}]}]]},
     "steps": [{"op": "lookup", "id": "iaf0"}, {"op": "lookup", "id": "iaf1"}, {"op": "lookup", "id": "pg0"}, {"op": "lookup", "id": "later"},
               {"op": "remove", "member": "iaf_cells", "index": 1}, {"op": "lookup", "id": "iaf1"},
               {"op": "rename", "member": "pulse_generators", "index": 0, "id": "pulse_renamed"}, {"op": "lookup", "id": "pg0"},
               {"op": "lookup", "id": "pulse_renamed"},
               {"op": "replace", "member": "iaf_cells", "index": 0, "tree": {"cls": "IafCell", "kw": [["id", {"s": "iaf0"}], ["notes", {"s": "new"}]] + IAF}},
               {"op": "lookup", "id": "iaf0"},
               {"op": "append", "member": "iaf_cells", "tree": {"cls": "IafCell", "kw": [["id", {"s": "later"}]] + IAF}}, {"op": "lookup", "id": "later"}]},
    {"tree": {"cls": "Network", "kw": [["id", {"s": "net"}], ["populations", {"l": [
        {"cls": "Population", "kw": [["id", {"s": "p0"}], ["component", {"s": "c"}], ["size", {"i": 1}]]},
        {"cls": "Population", "kw": [["id", {"s": "p1"}], ["component", {"s": "c"}], ["size", {"i": 2}]]}]}]]},
     "steps": [{"op": "lookup", "id": "p1"}, {"op": "lookup", "id": "p2"}, {"op": "remove", "member": "populations", "index": 1},
               {"op": "lookup", "id": "p1"}, {"op": "rename", "member": "populations", "index": 0, "id": "q0"}, {"op": "lookup", "id": "p0"},
               {"op": "lookup", "id": "q0"},
               {"op": "append", "member": "populations", "tree": {"cls": "Population", "kw": [["id", {"s": "p2"}], ["component", {"s": "c"}]]}},
               {"op": "lookup", "id": "p2"}]},
]


def saturated_histories(mir):
    """fixed, both tiers: the warning counter must only silence the message.  For a NeuroMLDocument and a Network with four list
    members of three components each: 0, 9, 10, 11, 25 look ups of ids that do not exist, then every component of every list is
    looked up (first, middle, last) - each must be found whatever the counter says."""
    cases = []
    for cls in ("NeuroMLDocument", "Network"):
        if cls not in mir.C:
            continue
        own = [m for m in mir.C[cls]["mspecs"] if m["container"] and isinstance(m["type"], str) and m["type"] in mir.C
               and "id" in mir.ctor_keywords(m["type"])][:4]
        kw = [["id", {"s": "top"}]]
        ids = []
        for m in own:
            comps = []
            for k in range(3):
                i = "%s_%d" % (m["name"], k)
                ids.append(i)
                comps.append({"cls": m["type"], "kw": [["id", {"s": i}]]})
            kw.append([m["name"], {"l": comps}])
        for misses in (0, 9, 10, 11, 25):
            steps = [{"op": "lookup", "id": "missing_%d" % j} for j in range(misses)] + [{"op": "lookup", "id": i} for i in ids] \
                + [{"op": "lookup", "id": "missing_again"}] + [{"op": "lookup", "id": i} for i in reversed(ids)]
            cases.append({"tree": {"cls": cls, "kw": kw}, "steps": steps, "mark": "saturated:%d" % misses})
    return cases


def sequence_histories(mir):
    """fixed, both tiers: the child collections of a document / network need not be lists - the constructors keep the sequence they
    are given (NeuroMLDocument(iaf_cells=(c0, c1), networks=(net,)) writes and validates).  Four child members of three components
    each, held in tuples (all / only the first two members) or deques: every component is looked up, then a missing id, then every
    component again; each must be found."""
    cases = []
    for cls in ("NeuroMLDocument", "Network"):
        if cls not in mir.C:
            continue
        own = [m for m in mir.C[cls]["mspecs"] if m["container"] and isinstance(m["type"], str) and m["type"] in mir.C
               and "id" in mir.ctor_keywords(m["type"])][:4]
        for label, kind in (("tuple", lambda j: "t"), ("tuple-and-list", lambda j: "t" if j < 2 else "l"), ("list-and-tuple", lambda j: "l" if j < 2 else "t"),
                            ("deque", lambda j: "q")):
            kw = [["id", {"s": "top"}]]
            ids = []
            for j, m in enumerate(own):
                comps = []
                for k in range(3):
                    i = "%s_%d" % (m["name"], k)
                    ids.append(i)
                    comps.append({"cls": m["type"], "kw": [["id", {"s": i}]]})
                kw.append([m["name"], {kind(j): comps}])
            steps = [{"op": "lookup", "id": i} for i in ids] + [{"op": "lookup", "id": "missing"}] + [{"op": "lookup", "id": i} for i in reversed(ids)]
            cases.append({"tree": {"cls": cls, "kw": kw}, "steps": steps, "mark": "sequence:" + label})
    return cases


def make_histories(ck, gen, mir, n):
    """histories on one document / network: look ups interleaved with edits of components that were looked up before"""
    rng = ck.rng
    cases = [json.loads(json.dumps(c)) for c in STORED_HIST]
    fresh = 0
    for j in range(n):
        cls = "NeuroMLDocument" if j % 2 == 0 else "Network"
        tree = gen.tree(cls, 1, full=(j < 2))
        own = [m for m in mir.C[cls]["mspecs"] if m["container"] and isinstance(m["type"], str) and m["type"] in mir.C
               and "id" in mir.ctor_keywords(m["type"])]
        kw = dict((n_, v) for n_, v in tree["kw"])
        state = {}
        for m in own:
            v = kw.get(m["name"])
            ids = []
            for e in (v["l"] if v and "l" in v else []):
                iv = dict((a, b_) for a, b_ in e["kw"]).get("id")
                ids.append(iv["s"] if iv and "s" in iv else None)
            state[m["name"]] = ids
        types = {m["name"]: m["type"] for m in own}
        steps, asked, gone = [], [], []
        for _ in range(rng.choice([6, 9, 12])):
            present = [(m, k, i) for m, ids in state.items() for k, i in enumerate(ids) if i is not None]
            known = [t for t in present if t[2] in asked]
            r = rng.random()
            if known and r < 0.45:
                m, k, i = rng.choice(known)
                what = rng.choice(["remove", "rename", "replace"])
                if what == "remove":
                    steps.append({"op": "remove", "member": m, "index": k})
                    del state[m][k]
                elif what == "rename":
                    fresh += 1
                    new = "renamed_%d" % fresh
                    steps.append({"op": "rename", "member": m, "index": k, "id": new})
                    state[m][k] = new
                    steps.append({"op": "lookup", "id": new})
                    asked.append(new)
                else:
                    steps.append({"op": "replace", "member": m, "index": k, "tree": {"cls": types[m], "kw": [["id", {"s": i}]]}})
                steps.append({"op": "lookup", "id": i})
                gone.append(i)
            elif own and r < 0.6:
                m = rng.choice(own)["name"]
                missing = [i for i in asked if i and not any(i in ids for ids in state.values())]
                fresh += 1
                i = rng.choice(missing) if missing and rng.random() < 0.7 else "added_%d" % fresh
                steps.append({"op": "append", "member": m, "tree": {"cls": types[m], "kw": [["id", {"s": i}]]}})
                state[m].append(i)
                steps.append({"op": "lookup", "id": i})
                asked.append(i)
            else:
                if present and r < 0.85:
                    i = rng.choice(present)[2]
                elif gone and r < 0.92:
                    i = rng.choice(gone)
                else:
                    i = rng.choice(["nope", "x", "", "later_%d" % rng.randrange(3)])
                steps.append({"op": "lookup", "id": i})
                asked.append(i)
        cases.append({"tree": tree, "steps": steps})
    return cases


def own_components(mir, cls, dumped):
    fields = dict((n, v) for n, v in dumped["fields"])
    comps = [x for n in [m["name"] for m in mir.C[cls]["mspecs"]]
             for x in ((fields.get(n) or {}).get("l", []) if isinstance(fields.get(n), dict) else [])]
    typed = all(fields.get(m["name"]) is None or isinstance(fields.get(m["name"]), dict)
                and ("l" in fields[m["name"]] or "s" in fields[m["name"]] or "raw" in fields[m["name"]]) for m in mir.C[cls]["mspecs"])
    return comps, typed


def idcases(ck, mir, cases, res, label="Cases_C11_id"):
    """every look up of every history: the specification on the document as it is at that moment, and the model
    (a pure function of that document and the counter) diffed inside Coq"""
    defs, rows, meta = {}, [], []
    for k, (case, r) in enumerate(zip(cases, res)):
        if "harness_error" in r:
            ck.disagree("harness", case["tree"]["cls"], "get_by_id case could not be run", r["harness_error"])
            continue
        cls = case["tree"]["cls"]
        is_doc = cls == "NeuroMLDocument"
        steps = case.get("steps") or [{"op": "lookup", "id": i} for i in case["ids"]]
        state_info = {}
        for n_step, (step, lk) in enumerate(zip(steps, r["lookups"])):
            if step["op"] != "lookup":
                ck.tally("edit:" + step["op"])
                continue
            i = step["id"]
            st = lk["state"]
            if st not in state_info:
                comps, typed = own_components(mir, cls, r["states"][st])
                try:
                    coq = gdsgen.cobj(r["states"][st]) if '"f": "!' not in json.dumps(r["states"][st]) else None
                except ValueError:
                    coq = None
                state_info[st] = (comps, typed, coq)
            comps, typed, coq = state_info[st]
            matches = [x for x in comps if dict((n, v) for n, v in x["fields"]).get("id") == {"s": i}]
            edited = st > 0
            inp = {"document": case["tree"], "set": case.get("set"), "steps": steps[:n_step + 1], "id": i, "warn_count": lk["wc"]}
            ck.count(1, nontrivial_key=json.dumps([cls, len(comps) > 1, bool(matches), i == "", lk["wc"] >= 10, edited,
                                                   steps[n_step - 1]["op"] if n_step else "start"]),
                     sample={"class": cls, "id": i, "components": len(comps), "after_edits": st, "result": lk["res"], "found_id": lk.get("found_id")}
                     if len(ck.samples) < 6 and matches and edited else None)
            ck.tally("lookup:%s:%s:%s" % ("doc" if is_doc else "network", "hit" if matches else "miss", "after-edit" if edited else "fresh"))
            if lk.get("new_keys"):
                ck.witness("C11:get_by_id-leaves-state-on-the-document", "get_by_id created the attribute(s) %s on the %s" % (lk["new_keys"], cls),
                           input=inp, expected=[], observed=lk["new_keys"])
            if not lk.get("doc_unchanged", True):
                ck.witness("C11:get_by_id-edits-the-document", "the document differs after the look up", input=inp)
            if typed:
                if is_doc and i == "":
                    if lk["res"] != 0:
                        ck.witness("C11:get_by_id-empty-id", "get_by_id('') on a document is documented to return None", input=inp, observed=lk)
                elif matches:
                    if lk["res"] != 1:
                        ck.witness("C11:get_by_id-existing-id-not-found", "a component with id %r is in a member list but get_by_id gives %s"
                                   % (i, lk.get("exc") or lk["res"]), input=inp, expected={"id": i}, observed=lk)
                    elif lk.get("found_id") != i or not lk.get("where") or not lk.get("is_expected"):
                        ck.witness("C11:get_by_id-stale-or-wrong-component", "get_by_id(%r) returns a component that %s" % (
                            i, "carries the id %r" % lk.get("found_id") if lk.get("found_id") != i else
                            "is not in the document any more" if not lk.get("where") else "is not the one the document holds under that id"),
                            input=inp, expected={"id": i, "in_document": True}, observed={k_: lk.get(k_) for k_ in ("found_id", "where", "is_expected")})
                else:
                    if lk["res"] == 2:
                        ck.witness("C11:get_by_id-raises-on-unsortable-ids", "no component has id %r: get_by_id raises %s instead of returning None"
                                   % (i, lk.get("exc")), input=inp, expected=None, observed=lk.get("exc"))
                    elif lk["res"] != 0:
                        ck.witness("C11:get_by_id-stale-or-wrong-component", "no component of the document has id %r now, but get_by_id returns one "
                                   "(id %r, %s)" % (i, lk.get("found_id"), "still in the document" if lk.get("where") else "no longer in the document"),
                                   input=inp, expected=None, observed={k_: lk.get(k_) for k_ in ("found_id", "where")})
                if lk["wc_after"] > 10:
                    ck.witness("C11:get_by_id-warn-counter", "warn_count exceeds 10", input=inp, observed=lk["wc_after"])
            if coq is not None and all(ord(ch) < 128 for ch in i):
                try:
                    found = coq_opt(lk.get("found"), gdsgen.cobj)
                except ValueError:
                    continue
                defs[(k, st)] = "Definition doc_%d_%d : obj XF := %s." % (k, st, coq)
                rows.append("{| gc_is_doc := %s; gc_obj := doc_%d_%d; gc_wc := %d%%nat; gc_id := %s; gc_res := %d%%nat; gc_found := %s; "
                            "gc_wc_after := %d%%nat; gc_msg := %d%%nat |}" % (supergen.b(is_doc), k, st, lk["wc"], coq_str(i), lk["res"], found,
                                                                              lk["wc_after"], lk["msg"]))
                meta.append((inp, lk, (k, st)))
    from concurrent.futures import ThreadPoolExecutor
    # shards of at most 100 look ups and ~400 KB of text (the documents dominate), so that the files compile in parallel
    bounds, start, size, used_now = [], 0, 0, set()
    for j in range(len(rows)):
        add = len(rows[j]) + (len(defs[meta[j][2]]) if meta[j][2] not in used_now else 0)
        if j > start and (j - start >= 100 or size + add > 400000):
            bounds.append((start, j))
            start, size, used_now = j, 0, set()
            add = len(rows[j]) + len(defs[meta[j][2]])
        used_now.add(meta[j][2])
        size += add
    if rows:
        bounds.append((start, len(rows)))
    texts = []
    for n_, (s, e) in enumerate(bounds):
        used = sorted(set(m[2] for m in meta[s:e]))
        texts.append(("%s_%d.v" % (label, n_), s, HEADER + "\n".join(defs[u] for u in used) + "\nDefinition cases : list idcase := %s.\n" % coq_list(
            ["\n " + x for x in rows[s:e]]) + "Eval vm_compute in (id_mismatches true Gen_Members.M 0 cases).\n"))
    with ThreadPoolExecutor(max_workers=8) as ex:
        evals = list(ex.map(lambda f: ck.coq_eval(f[0], f[2], timeout=900), texts))
    for (name, s, _), (ok, results, out) in zip(texts, evals):
        ck.oblige(name + ":evaluates", ok, out[-1500:], kind="correspondence")
        if not ok:
            continue
        for m in re.finditer(r"\((\d+)%nat, (\d+)%nat\)", results[0] if results else ""):
            i, bits = int(m.group(1)), int(m.group(2))
            inp, lk, _ = meta[s + i]
            which = [nm for b_, nm in ((1, "result"), (2, "component"), (4, "counter"), (8, "message")) if bits & b_]
            ck.disagree("Super.get_by_id[" + "+".join(which) + "]", inp, "model (on the document as it is at that step) differs (bits %d)" % bits, lk)
    ck.extra["get_by_id_lookups"] = ck.extra.get("get_by_id_lookups", 0) + len(rows)


def run(ck):
    ck.rule = ("every (class, member) pair of the generated tables is compared by the kernel with the constructor keywords and with "
               "the XSD declaration (both directions); the REAL info()/parentinfo()/inspect.signature of all 199 classes are compared "
               "with the model inside Coq and with each other (info vs signature, parentinfo vs inverse of info); get_by_id is run on "
               "generated documents and networks (ids present / nested only / missing / empty, sequences of lookups past the "
               "warning limit) against the model and against its specification; non-trivial = a class with members / a lookup "
               "class distinct by (type, several components, hit, empty id, counter saturated)")
    ck.trusted = ["Coq 8.16.1 kernel + vm_compute", "translators/tr_bindings.py + lib/supergen.py (MemberSpec_ tables, constructor keywords, export names)",
                  "translators/tr_schema_members.py (effective occurrence of XSD particles; lxml as XML parser)",
                  "impl/c11_impl.py (inspect.signature, dir(module), captured stdout)"]
    ck.assumptions = ["python name <-> xml name is taken from the export tables (the names the writer uses)",
                      "required = the declaration's own use/minOccurs; outside xs:choice this is also the effective requirement (checked)"]
    ck.gate_static()
    bt = c10.build_tables(ck)
    if bt is None:
        return
    tab, S = bt
    if not supergen.gen_schema(ck, S):
        return
    T = bindings.Tables(tab)
    mir = supergen.Mirror(tab)
    inst = ck.gen_v("Inst_C11.v", INST)
    iok, _ = ck.compile_obligations(inst, kind="instance")
    if iok:
        ck.compile_props()
    else:
        ck.oblige("Props_C11.v", False, "instance obligations failed", kind="theorem")
    table_findings(ck, mir, S)
    gen = gdsgen.Gen(T, ck.rng)
    sat = saturated_histories(mir)
    ck.extra["saturated_counter_histories"] = len(sat)
    seqs = sequence_histories(mir)
    ck.extra["child_sequence_histories"] = len(seqs)
    cases = sat + seqs + make_histories(ck, gen, mir, ck.n(30, 300)) + make_idcases(ck, gen, mir, ck.n(16, 200))
    order = {c: T.field_order(c) for c in T.order}
    res = ck.impl("c11_impl.py", {"order": order, "classes": mir.order, "idcases": cases,
                                  "acceptance": {"names": {c: [m["name"] for m in mir.members(c)] for c in mir.order},
                                                 "exhaustive": ck.tier == "thorough"}}, timeout=1500)
    ncls, ncase = 12, 10

    def canon(o):
        out = []
        for r_ in o.get("classes", [])[:ncls]:
            out.append([r_.get("cls"), r_.get("info"), sorted(r_.get("list") or []), sorted(r_.get("list_from_dict") or []), r_.get("parents"),
                        r_.get("parent_list"), r_.get("sig"), r_.get("unused_kw"), r_.get("error")])
        for r_ in o.get("idcases", [])[:ncase]:
            out.append([[lk.get(k) for k in ("res", "found_id", "found", "msg", "wc", "wc_after", "new_keys", "doc_unchanged", "mutated")]
                        for lk in r_.get("lookups", [])] + [r_.get("harness_error")])
        for r_ in (o.get("acceptance") or [])[:ncls]:
            out.append([r_.get("cls"), r_.get("members_refused"), r_.get("nonmembers_accepted_count"), r_.get("n_members"), r_.get("n_nonmembers")])
        return out
    c10.interpreter_configurations(
        ck, "c11_impl.py", {"order": order, "classes": mir.order[:ncls], "idcases": cases[:ncase],
                            "acceptance": {"names": {c: [m["name"] for m in mir.members(c)] for c in mir.order[:ncls]},
                                           "exhaustive": ck.tier == "thorough"}},
        {"classes": res["classes"][:ncls], "idcases": res["idcases"][:ncase], "acceptance": (res.get("acceptance") or [])[:ncls]}, canon,
        lambda i: {"class": mir.order[i]} if i < ncls else ({"document": cases[i - ncls]["tree"], "steps": (cases[i - ncls].get("steps") or [])[:6]}
                                                         if i < ncls + ncase else {"class": mir.order[i - ncls - ncase]}))
    ok_res = introspection(ck, mir, S, res)
    acceptance(ck, mir, res)
    info_diff(ck, ok_res)
    idcases(ck, mir, cases, res["idcases"])
    ck.extra["exhaustive_over_classes"] = True
    c10.debug(ck)


def replay(ck, data):
    bt = c10.build_tables(ck)
    if bt is None:
        return 2
    tab, S = bt
    supergen.gen_schema(ck, S)
    T = bindings.Tables(tab)
    mir = supergen.Mirror(tab)
    inp = data.get("input") or {}
    order = {c: T.field_order(c) for c in T.order}
    if "document" in inp:
        case = {"tree": inp["document"], "steps": inp.get("steps") or [{"op": "lookup", "id": inp["id"]}]}
        if inp.get("set"):
            case["set"] = inp["set"]
        res = ck.impl("c11_impl.py", {"order": order, "classes": [], "idcases": [case]}, timeout=600)
        idcases(ck, mir, [case], res["idcases"])
        print(json.dumps({"input": inp, "implementation": res["idcases"][0].get("lookups"), "model_disagreements": ck.disagreements[:3],
                          "property_violations": [w["key"] for w in ck.witnesses]}, indent=1)[:6000])
    else:
        cls = [inp["class"]] if "class" in inp and inp["class"] in mir.C else mir.order
        res = ck.impl("c11_impl.py", {"order": order, "classes": cls, "idcases": []}, timeout=600)
        table_findings(ck, mir, S)
        print(json.dumps({"input": inp, "implementation": res["classes"][:2],
                          "property_violations": sorted(set(w["key"] for w in ck.witnesses))}, indent=1)[:6000])
    return 1 if ck.witnesses or ck.disagreements else 0
